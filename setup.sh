#!/bin/bash
# Builds every harness once (warms the Go build cache). Offline; uses files on disk only.
cd "$(dirname "$0")"
export GOTOOLCHAIN=local GOPROXY=off GOSUMDB=off GOFLAGS= GOWORK=$PWD/go.work
cp /repo/go.work.sum go.work.sum 2>/dev/null
mkdir -p bin evidence replays
rc=0
for d in mc/cmd/*/; do
  n=$(basename $d)
  go1.26.8 build -o bin/$n ./mc/cmd/$n || rc=1
done
exit $rc
