#!/bin/bash
# Builds every harness once (warms the Go build cache, incl. the std rebuild for the runtime overlay).
# Offline; uses files on disk only.
cd "$(dirname "$0")"
export GOTOOLCHAIN=local GOPROXY=off GOSUMDB=off GOFLAGS= GOWORK=$PWD/go.work
cp /repo/go.work.sum go.work.sum 2>/dev/null
mkdir -p bin evidence replays
python3 tools/instr.py bin/overlay || exit 1
rc=0
for d in mc/cmd/*/; do
  n=$(basename $d)
  go1.26.8 build -overlay bin/overlay/overlay.json -o bin/$n ./mc/cmd/$n || rc=1
done
exit $rc
