#!/bin/bash
# Builds every harness once (warms the Go build cache, incl. the std rebuild for the runtime overlay).
# Offline; uses files on disk only.
cd "$(dirname "$0")"
export GOTOOLCHAIN=local GOPROXY=off GOSUMDB=off GOFLAGS= GOWORK=$PWD/go.work
cp /repo/go.work.sum go.work.sum 2>/dev/null
mkdir -p bin evidence replays
python3 tools/instr.py bin/overlay || exit 1
rc=0
for d in mc/cmd/*/; do
  n=$(basename $d)
  [ $n = c33 ] && { mc/cmd/c33/build.sh || rc=1; continue; }
  go1.26.8 build -overlay bin/overlay/overlay.json -o bin/$n ./mc/cmd/$n || rc=1
done
# C36 is built with the race detector (separate std build, warmed here)
go1.26.8 build -race -overlay bin/overlay/overlay.json -o bin/racex ./mc/cmd/racex || rc=1
# C35 builds an in-package test binary of tools/httpserver at check time; warm it
C35_BUILD_ONLY=1 ./bin/c35 C35 quick >/dev/null 2>&1 || true
exit $rc
