------------------------------ MODULE C37Trace ------------------------------
(* Trace validation: every abstracted execution of the implementation         *)
(* (TraceData!Traces, written by the harness) must be a behaviour of C37:     *)
(* each observed event is matched by the corresponding action of the model,   *)
(* the unobservable actions (Read, Check, Abort, Done) may happen in between. *)
(* A trace k is accepted when all its events have been consumed; TLC register *)
(* k records it, and the post-condition demands every register to be set.     *)
EXTENDS C37, Sequences, TLC, TraceData

VARIABLES k, i
tvars == <<vars, k, i>>

TInit == Init /\ k \in 1..Len(Traces) /\ i = 1 /\ TLCSet(k, FALSE)

Observed ==
  /\ i <= Len(Traces[k])
  /\ LET e == Traces[k][i] IN
       \/ e.op = "Lock"    /\ Lock(e.t)
       \/ e.op = "Unlock"  /\ Unlock(e.t)
       \/ e.op = "Stage"   /\ Stage(e.t, e.n)
       \/ e.op = "Blob"    /\ WriteBlob(e.t, e.n)
       \/ e.op = "Unstage" /\ Unstage(e.t, e.n)
       \/ e.op = "DelNew"  /\ DelNew(e.t, e.n)
       \/ e.op = "Log"     /\ Log(e.t)
       \/ e.op = "Flip"    /\ Flip(e.t, e.n)
       \/ e.op = "Unplog"  /\ Unplog(e.t)
       \/ e.op = "DelOld"  /\ DelOld(e.t, e.n)
       \/ e.op = "Die"     /\ Die(e.t)
  /\ i' = i + 1 /\ k' = k

Hidden ==
  /\ \E t \in T : Read(t) \/ Check(t) \/ Abort(t) \/ Done(t)
  /\ UNCHANGED <<k, i>>

(* expiry of what a dead transaction left behind is driven by the clock, not by a thread *)
Clock ==
  /\ \E n \in N : LockExpire(n) \/ WipExpire(n)
  /\ UNCHANGED <<k, i>>

TNext == Observed \/ Hidden \/ Clock

TSpec == TInit /\ [][TNext]_tvars

Accepted == i = Len(Traces[k]) + 1
Mark == Accepted => TLCSet(k, TRUE)          \* evaluated as an invariant: records acceptance of trace k
AllAccepted ==
  LET bad == {j \in 1..Len(Traces) : TLCGet(j) = FALSE}
  IN  IF bad = {} THEN PrintT(<<"ACCEPTED-ALL", Len(Traces)>>) ELSE PrintT(<<"REJECTED", bad>>) /\ FALSE
=============================================================================
