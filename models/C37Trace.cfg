SPECIFICATION TSpec
CONSTANTS
  T = {"t0", "t1"}
  N = {"n1"}
  Upd <- TraceUpd
  MaxTry = 4
  None = None
INVARIANTS Mark NoTwoSuccessors ActiveWritten
POSTCONDITION AllAccepted
