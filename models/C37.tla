---------------------------------- MODULE C37 ----------------------------------
(* Node-version protocol of SOP's two-phase commit, at the granularity of the     *)
(* events that are visible outside a transaction: node locks, registry record     *)
(* writes (stage / flip / unstage), node blob writes and deletions, the priority  *)
(* log. One registry record ("handle") per node: a version, the id of the active  *)
(* blob, the id of a reserved ("inactive") blob with a freshness mark (the        *)
(* work-in-progress timestamp) and who reserved it.                               *)
(*                                                                                *)
(* Bound to the implementation by trace validation (C37Trace.tla): every          *)
(* execution that the controlled scheduler explores on the real code is abstracted*)
(* to these events and must be a behaviour of this specification.                 *)
EXTENDS Naturals, FiniteSets

CONSTANTS T,        \* transactions
          N,        \* nodes
          Upd,      \* Upd[t] \subseteq N : the nodes t updates
          MaxTry,   \* attempts per transaction (conflict -> refetch -> retry)
          None

VARIABLES h,        \* h[n]  = registry record of node n
          blob,     \* blob[n] : ids of fully written blobs of n
          lock,     \* lock[n] \in T \cup {None}
          pc, try,  \* per transaction
          rv,       \* rv[t][n]  version t read
          lh,       \* lh[t][n]  t's private copy of the record, as it will write it
          st, fl,   \* st[t], fl[t] \subseteq N : records staged / flipped so far
          bw,       \* bw[t] \subseteq N : new blobs written so far
          od,       \* od[t] \subseteq N : superseded blobs deleted so far
          plog,     \* plog[t] : priority log of t exists
          succ      \* succ[n][v] : who installed a successor of version v of n (history)

vars == <<h, blob, lock, pc, try, rv, lh, st, fl, bw, od, plog, succ>>

Init0  == <<None, 0>>                      \* id of the blob every node starts with
Ids    == {Init0} \cup (T \X (1..MaxTry))
NoId   == <<None, 1>>
Handle == [ver : Nat, act : Ids, ina : Ids \cup {NoId}, fresh : BOOLEAN, by : T \cup {None}]
MaxVer == Cardinality(T) * MaxTry

Init ==
  /\ h    = [n \in N |-> [ver |-> 0, act |-> Init0, ina |-> NoId, fresh |-> FALSE, by |-> None]]
  /\ blob = [n \in N |-> {Init0}]
  /\ lock = [n \in N |-> None]
  /\ pc   = [t \in T |-> "idle"]
  /\ try  = [t \in T |-> 0]
  /\ rv   = [t \in T |-> [n \in N |-> 0]]
  /\ lh   = [t \in T |-> [n \in N |-> h[n]]]
  /\ st   = [t \in T |-> {}]
  /\ fl   = [t \in T |-> {}]
  /\ bw   = [t \in T |-> {}]
  /\ od   = [t \in T |-> {}]
  /\ plog = [t \in T |-> FALSE]
  /\ succ = [n \in N |-> [v \in 0..MaxVer |-> {}]]

(* t reads the nodes it is going to update (optimistic: no lock) *)
Read(t) ==
  /\ pc[t] = "idle" /\ try[t] < MaxTry
  /\ rv' = [rv EXCEPT ![t] = [n \in N |-> h[n].ver]]
  /\ pc' = [pc EXCEPT ![t] = "read"]
  /\ try' = [try EXCEPT ![t] = @ + 1]
  /\ st' = [st EXCEPT ![t] = {}] /\ fl' = [fl EXCEPT ![t] = {}]
  /\ bw' = [bw EXCEPT ![t] = {}] /\ od' = [od EXCEPT ![t] = {}]
  /\ UNCHANGED <<h, blob, lock, lh, plog, succ>>

(* phase 1: all node locks or none *)
Lock(t) ==
  /\ pc[t] = "read"
  /\ \A n \in Upd[t] : lock[n] = None
  /\ lock' = [n \in N |-> IF n \in Upd[t] THEN t ELSE lock[n]]
  /\ pc' = [pc EXCEPT ![t] = "locked"]
  /\ UNCHANGED <<h, blob, try, rv, lh, st, fl, bw, od, plog, succ>>

CanStage(t, n) == h[n].ver = rv[t][n] /\ ~(h[n].ina # NoId /\ h[n].fresh)

(* version check of every node under the locks; prepares the records to write *)
Check(t) ==
  /\ pc[t] = "locked"
  /\ \A n \in Upd[t] : CanStage(t, n)
  /\ lh' = [lh EXCEPT ![t] = [n \in N |-> [h[n] EXCEPT !.ina = <<t, try[t]>>, !.fresh = TRUE, !.by = t]]]
  /\ pc' = [pc EXCEPT ![t] = "checked"]
  /\ UNCHANGED <<h, blob, lock, try, rv, st, fl, bw, od, plog, succ>>

(* releasing the node locks: after a conflict, after an abort, or after the commit *)
Unlock(t) ==
  /\ \/ pc[t] = "locked" /\ \E n \in Upd[t] : ~CanStage(t, n)      \* conflict found under the locks
     \/ pc[t] = "aborting" /\ st[t] = {} /\ ~plog[t]
     \/ pc[t] = "logged" /\ fl[t] = Upd[t] /\ ~plog[t]      \* the priority log is removed before the locks go
  /\ \E n \in N : lock[n] = t
  /\ lock' = [n \in N |-> IF lock[n] = t THEN None ELSE lock[n]]
  /\ pc' = [pc EXCEPT ![t] = IF pc[t] = "logged" THEN "logged" ELSE "idle"]
  /\ UNCHANGED <<h, blob, try, rv, lh, st, fl, bw, od, plog, succ>>

(* registry write reserving the new blob id of one node *)
Stage(t, n) ==
  /\ pc[t] = "checked" /\ n \in Upd[t] \ st[t] /\ bw[t] = {}
  /\ h' = [h EXCEPT ![n] = lh[t][n]]
  /\ st' = [st EXCEPT ![t] = @ \cup {n}]
  /\ UNCHANGED <<blob, lock, pc, try, rv, lh, fl, bw, od, plog, succ>>

(* the new version of one node is written under the reserved id *)
WriteBlob(t, n) ==
  /\ pc[t] = "checked" /\ st[t] = Upd[t] /\ n \in Upd[t] \ bw[t]
  /\ blob' = [blob EXCEPT ![n] = @ \cup {lh[t][n].ina}]
  /\ bw' = [bw EXCEPT ![t] = @ \cup {n}]
  /\ UNCHANGED <<h, lock, pc, try, rv, lh, st, fl, od, plog, succ>>

(* something else of the commit failed after the reservation - possibly after the priority log was written, *)
(* but before any record was flipped: undo it                                                               *)
Abort(t) ==
  /\ \/ pc[t] = "checked"
     \/ pc[t] = "logged" /\ fl[t] = {}
  /\ pc' = [pc EXCEPT ![t] = "aborting"]
  /\ UNCHANGED <<h, blob, lock, try, rv, lh, st, fl, bw, od, plog, succ>>

Unstage(t, n) ==
  /\ pc[t] = "aborting" /\ n \in st[t]
  /\ h' = [h EXCEPT ![n] = IF h[n].by = t THEN [h[n] EXCEPT !.ina = NoId, !.fresh = FALSE, !.by = None] ELSE h[n]]
  /\ st' = [st EXCEPT ![t] = @ \ {n}]
  /\ UNCHANGED <<blob, lock, pc, try, rv, lh, fl, bw, od, plog, succ>>

DelNew(t, n) ==
  /\ pc[t] = "aborting" /\ n \in bw[t]
  /\ blob' = [blob EXCEPT ![n] = @ \ {lh[t][n].ina}]
  /\ bw' = [bw EXCEPT ![t] = @ \ {n}]
  /\ UNCHANGED <<h, lock, pc, try, rv, lh, st, fl, od, plog, succ>>

(* phase 2 begins: the locks are confirmed and the priority log is written *)
Log(t) ==
  /\ pc[t] = "checked" /\ bw[t] = Upd[t]
  /\ \A n \in Upd[t] : lock[n] = t
  /\ plog' = [plog EXCEPT ![t] = TRUE]
  /\ pc' = [pc EXCEPT ![t] = "logged"]
  /\ UNCHANGED <<h, blob, lock, try, rv, lh, st, fl, bw, od, succ>>

(* registry write making the new version of one node the active one *)
Flip(t, n) ==
  /\ pc[t] = "logged" /\ n \in Upd[t] \ fl[t]
  /\ h' = [h EXCEPT ![n] = [ver |-> lh[t][n].ver + 1, act |-> lh[t][n].ina, ina |-> lh[t][n].act,
                             fresh |-> FALSE, by |-> None]]
  /\ succ' = [succ EXCEPT ![n][lh[t][n].ver] = @ \cup {t}]
  /\ fl' = [fl EXCEPT ![t] = @ \cup {n}]
  /\ UNCHANGED <<blob, lock, pc, try, rv, lh, st, bw, od, plog>>

(* after the flips: the priority log goes, the superseded blobs go, the locks go (Unlock) *)
Unplog(t) ==
  /\ \/ pc[t] = "logged" /\ fl[t] = Upd[t]
     \/ pc[t] = "aborting"
  /\ plog[t]
  /\ plog' = [plog EXCEPT ![t] = FALSE]
  /\ UNCHANGED <<h, blob, lock, pc, try, rv, lh, st, fl, bw, od, succ>>

DelOld(t, n) ==
  /\ pc[t] = "logged" /\ fl[t] = Upd[t] /\ ~plog[t] /\ n \in Upd[t] \ od[t]
  /\ blob' = [blob EXCEPT ![n] = @ \ {lh[t][n].act}]
  /\ od' = [od EXCEPT ![t] = @ \cup {n}]
  /\ UNCHANGED <<h, lock, pc, try, rv, lh, st, fl, bw, plog, succ>>

Done(t) ==
  /\ pc[t] = "logged" /\ fl[t] = Upd[t] /\ ~plog[t] /\ \A n \in N : lock[n] # t
  /\ pc' = [pc EXCEPT ![t] = "done"]
  /\ UNCHANGED <<h, blob, lock, try, rv, lh, st, fl, bw, od, plog, succ>>

(* the process dies anywhere inside the commit; its locks stay until they expire *)
Die(t) ==
  /\ pc[t] \in {"locked", "checked", "logged", "aborting"}
  /\ pc' = [pc EXCEPT ![t] = "dead"]
  /\ UNCHANGED <<h, blob, lock, try, rv, lh, st, fl, bw, od, plog, succ>>

(* recovery of a dead commit that had reached phase 2 (priority log present):      *)
(* every node goes back to its pre-commit record, the new blobs are removed        *)
Recover(t) ==
  /\ pc[t] = "dead" /\ plog[t]
  /\ h' = [n \in N |-> IF n \in Upd[t]
                        THEN [lh[t][n] EXCEPT !.ina = NoId, !.fresh = FALSE, !.by = None]
                        ELSE h[n]]
  /\ blob' = [n \in N |-> IF n \in Upd[t] THEN (blob[n] \ {lh[t][n].ina}) \cup {lh[t][n].act} ELSE blob[n]]
  /\ succ' = [n \in N |-> [v \in 0..MaxVer |-> succ[n][v] \ {t}]]
  /\ plog' = [plog EXCEPT ![t] = FALSE]
  /\ lock' = [n \in N |-> IF lock[n] = t THEN None ELSE lock[n]]
  /\ pc' = [pc EXCEPT ![t] = "recovered"]
  /\ UNCHANGED <<try, rv, lh, st, fl, bw, od>>

(* a dead holder's lock expires - but not while its priority log awaits recovery   *)
(* (priority logs are replayed after ~5 min, locks live for the commit budget)     *)
LockExpire(n) ==
  /\ lock[n] # None /\ pc[lock[n]] = "dead" /\ ~plog[lock[n]]
  /\ lock' = [lock EXCEPT ![n] = None]
  /\ UNCHANGED <<h, blob, pc, try, rv, lh, st, fl, bw, od, plog, succ>>

(* the reservation of a dead transaction that never reached phase 2 goes stale     *)
WipExpire(n) ==
  /\ h[n].ina # NoId /\ h[n].fresh /\ h[n].by # None /\ pc[h[n].by] = "dead" /\ ~plog[h[n].by]
  /\ h' = [h EXCEPT ![n].fresh = FALSE]
  /\ UNCHANGED <<blob, lock, pc, try, rv, lh, st, fl, bw, od, plog, succ>>

Next ==
  \/ \E t \in T : Read(t) \/ Lock(t) \/ Check(t) \/ Unlock(t) \/ Abort(t) \/ Log(t) \/ Unplog(t) \/ Done(t) \/ Die(t) \/ Recover(t)
  \/ \E t \in T, n \in N : Stage(t, n) \/ WriteBlob(t, n) \/ Unstage(t, n) \/ DelNew(t, n) \/ Flip(t, n) \/ DelOld(t, n)
  \/ \E n \in N : LockExpire(n) \/ WipExpire(n)

Spec == Init /\ [][Next]_vars

--------------------------------------------------------------------------------
TypeOK ==
  /\ h \in [N -> Handle]
  /\ blob \in [N -> SUBSET Ids]
  /\ lock \in [N -> T \cup {None}]

(* two commits that started from the same version of a node never both install     *)
(* their own successor of it                                                       *)
NoTwoSuccessors == \A n \in N : \A v \in 0..MaxVer : Cardinality(succ[n][v]) <= 1

(* a node always points at fully written data                                      *)
ActiveWritten == \A n \in N : h[n].act \in blob[n]

(* recovery returns a crashed commit's nodes to their pre-commit versions          *)
RecoveryRestores ==
  \A t \in T : pc[t] = "recovered" =>
     \A n \in Upd[t] : h[n].ver = rv[t][n] \/ \E u \in T \ {t} : u \in succ[n][rv[t][n]]
================================================================================
