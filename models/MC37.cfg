SPECIFICATION Spec
CONSTANTS
  t1 = t1
  t2 = t2
  t3 = t3
  n1 = n1
  n2 = n2
  T = {t1, t2, t3}
  N = {n1, n2}
  Upd <- UpdDef
  MaxTry = 2
  None = None
INVARIANTS TypeOK NoTwoSuccessors ActiveWritten RecoveryRestores
