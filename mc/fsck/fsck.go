// Package fsck is an independent reader of sop's filesystem backend (own parser of registry segment
// files, node blobs, store info and log folders; shares no code with /repo/fs or /repo/encoding).
//
// Layout: <base>/storelist.txt (JSON list of names), <base>/<store>/storeinfo.txt (JSON),
// <base>/<registry_table>/<registry_table>-<n>.reg (4096-byte blocks of 66 62-byte handle records + CRC32),
// blobs at <base>/<blob_table>/<c0>/<c1>/<c2>/<c3>/<uuid> (JSON node, or value bytes keyed by item id),
// <base>/translogs/<tid>.log and <tid>.plg.
package fsck

import (
	"encoding/binary"
	"encoding/hex"
	"encoding/json"
	"fmt"
	"hash/crc32"
	"io"
	"os"
	"path/filepath"
	"sort"
	"strconv"
	"strings"
)

const (
	BlockSz      = 4096
	RecSz        = 62
	RecsPerBlock = 66
	CRCOff       = RecSz * RecsPerBlock
)

type UUID [16]byte

func (u UUID) IsNil() bool { return u == UUID{} }
func (u UUID) String() string {
	h := hex.EncodeToString(u[:])
	return h[0:8] + "-" + h[8:12] + "-" + h[12:16] + "-" + h[16:20] + "-" + h[20:]
}
func ParseUUID(s string) (UUID, bool) {
	var u UUID
	b, err := hex.DecodeString(strings.ReplaceAll(s, "-", ""))
	if err != nil || len(b) != 16 {
		return u, false
	}
	copy(u[:], b)
	return u, true
}

type Handle struct {
	LogicalID, PhysicalIDA, PhysicalIDB UUID
	IsActiveIDB                         bool
	Version                             int32
	WorkInProgressTimestamp             int64
	IsDeleted                           bool
}

func (h Handle) Active() UUID {
	if h.IsActiveIDB {
		return h.PhysicalIDB
	}
	return h.PhysicalIDA
}
func (h Handle) Inactive() UUID {
	if h.IsActiveIDB {
		return h.PhysicalIDA
	}
	return h.PhysicalIDB
}

type Entry struct {
	Seg, Block, Slot int
	H                Handle
}

func decode(rec []byte) Handle {
	var h Handle
	copy(h.LogicalID[:], rec[0:16])
	copy(h.PhysicalIDA[:], rec[16:32])
	copy(h.PhysicalIDB[:], rec[32:48])
	h.IsActiveIDB = rec[48] == 1
	h.Version = int32(binary.LittleEndian.Uint32(rec[49:53]))
	h.WorkInProgressTimestamp = int64(binary.LittleEndian.Uint64(rec[53:61]))
	h.IsDeleted = rec[61] == 1
	return h
}

func allZero(b []byte) bool {
	for _, x := range b {
		if x != 0 {
			return false
		}
	}
	return true
}

// ScanRegistry parses every segment file of a registry table folder.
func ScanRegistry(dir, table string) (entries []Entry, problems []string) {
	names, _ := filepath.Glob(filepath.Join(dir, table+"-*.reg"))
	type seg struct {
		n    int
		path string
	}
	var segs []seg
	for _, p := range names {
		n, err := strconv.Atoi(strings.TrimPrefix(strings.TrimSuffix(filepath.Base(p), ".reg"), table+"-"))
		if err == nil {
			segs = append(segs, seg{n, p})
		}
	}
	sort.Slice(segs, func(i, j int) bool { return segs[i].n < segs[j].n })
	blk := make([]byte, BlockSz)
	for _, s := range segs {
		f, err := os.Open(s.path)
		if err != nil {
			problems = append(problems, "unreadable "+s.path)
			continue
		}
		fi, _ := f.Stat()
		off := int64(0)
		for off < fi.Size() {
			d, err := f.Seek(off, 3) // SEEK_DATA
			if err != nil {
				break
			}
			d -= d % BlockSz
			h, err := f.Seek(d, 4) // SEEK_HOLE
			if err != nil || h <= d {
				h = d + BlockSz
			}
			for b := d; b < h && b+BlockSz <= fi.Size(); b += BlockSz {
				if _, err := f.ReadAt(blk, b); err != nil && err != io.EOF {
					problems = append(problems, "read error "+s.path)
					break
				}
				if allZero(blk) {
					continue
				}
				bn := int(b / BlockSz)
				if crc32.ChecksumIEEE(blk[:CRCOff]) != binary.LittleEndian.Uint32(blk[CRCOff:]) {
					problems = append(problems, fmt.Sprintf("block-crc-mismatch %s block %d", filepath.Base(s.path), bn))
				}
				for slot := 0; slot < RecsPerBlock; slot++ {
					rec := blk[slot*RecSz : (slot+1)*RecSz]
					if allZero(rec) {
						continue
					}
					entries = append(entries, Entry{Seg: s.n, Block: bn, Slot: slot, H: decode(rec)})
				}
			}
			off = h
		}
		f.Close()
	}
	return entries, problems
}

type StoreInfo struct {
	Name                     string `json:"name"`
	SlotLength               int    `json:"slot_length"`
	IsUnique                 bool   `json:"is_unique"`
	RegistryTable            string `json:"registry_table"`
	BlobTable                string `json:"blob_table"`
	RootNodeID               string `json:"root_node_id"`
	Count                    int64  `json:"count"`
	IsValueDataInNodeSegment bool   `json:"is_value_data_in_node_segment"`
	IsValueDataActivelyPersisted bool `json:"is_value_data_actively_persisted"`
}

type nodeJSON struct {
	ID       string `json:"ID"`
	ParentID string `json:"ParentID"`
	Slots    []struct {
		ID      string          `json:"ID"`
		Key     json.RawMessage `json:"Key"`
		Value   json.RawMessage `json:"Value"`
		Version int32           `json:"Version"`
	} `json:"Slots"`
	Count       int      `json:"Count"`
	Version     int32    `json:"Version"`
	ChildrenIDs []string `json:"ChildrenIDs"`
}

// StoreReport is what fsck found for one store.
type StoreReport struct {
	Name     string
	Info     StoreInfo
	InfoErr  string
	Items    int      // items reachable from the root
	Keys     []string // keys in in-order traversal (raw JSON)
	Problems []string // reachability / load problems (C10)
	// Orphans (C11/C09)
	OrphanBlobs        []string // blob files nothing references
	OrphanHandles      []string // registry entries for unreachable logical ids
	DirtyHandles       []string // reachable handles with a non-nil inactive id, deleted mark or WIP timestamp
	DuplicateHandles   []string
	RegistryProblems   []string
	ReachableNodes     int
}

type Report struct {
	Stores     map[string]*StoreReport
	StoreList  []string
	LogFiles   []string // translogs/*.log
	PlgFiles   []string // translogs/*.plg
	CowFiles   []string
	Problems   []string
}

func BlobPath(base, table string, id UUID) string {
	s := id.String()
	return filepath.Join(base, table, s[0:1], s[1:2], s[2:3], s[3:4], s)
}

// Check inspects the store folder.
func Check(base string) *Report {
	r := &Report{Stores: map[string]*StoreReport{}}
	if b, err := os.ReadFile(filepath.Join(base, "storelist.txt")); err == nil {
		if err := json.Unmarshal(b, &r.StoreList); err != nil {
			r.Problems = append(r.Problems, "storelist.txt does not parse: "+err.Error())
		}
	}
	logs, _ := filepath.Glob(filepath.Join(base, "translogs", "*.log"))
	plgs, _ := filepath.Glob(filepath.Join(base, "translogs", "*.plg"))
	for _, l := range logs {
		r.LogFiles = append(r.LogFiles, filepath.Base(l))
	}
	for _, l := range plgs {
		r.PlgFiles = append(r.PlgFiles, filepath.Base(l))
	}
	for _, name := range r.StoreList {
		r.Stores[name] = checkStore(base, name, r)
	}
	return r
}

func checkStore(base, name string, rep *Report) *StoreReport {
	sr := &StoreReport{Name: name}
	b, err := os.ReadFile(filepath.Join(base, name, "storeinfo.txt"))
	if err != nil {
		sr.InfoErr = err.Error()
		sr.Problems = append(sr.Problems, "storeinfo.txt unreadable: "+err.Error())
		return sr
	}
	if err := json.Unmarshal(b, &sr.Info); err != nil {
		sr.InfoErr = err.Error()
		sr.Problems = append(sr.Problems, "storeinfo.txt does not parse: "+err.Error())
		return sr
	}
	si := sr.Info
	regDir := filepath.Join(base, si.RegistryTable)
	entries, probs := ScanRegistry(regDir, si.RegistryTable)
	sr.RegistryProblems = probs
	cows, _ := filepath.Glob(filepath.Join(regDir, "*.cow"))
	for _, c := range cows {
		rep.CowFiles = append(rep.CowFiles, filepath.Base(c))
	}
	byLID := map[UUID]Handle{}
	for _, e := range entries {
		if _, dup := byLID[e.H.LogicalID]; dup {
			sr.DuplicateHandles = append(sr.DuplicateHandles, e.H.LogicalID.String())
		}
		byLID[e.H.LogicalID] = e.H
	}
	reachLID := map[UUID]bool{}
	liveBlobs := map[UUID]bool{}
	var walk func(lid UUID, depth int)
	walk = func(lid UUID, depth int) {
		if depth > 64 || reachLID[lid] {
			if reachLID[lid] {
				sr.Problems = append(sr.Problems, "node reachable twice: "+lid.String())
			}
			return
		}
		reachLID[lid] = true
		h, ok := byLID[lid]
		if !ok {
			sr.Problems = append(sr.Problems, "no registry entry for reachable node "+lid.String())
			return
		}
		act := h.Active()
		if act.IsNil() {
			sr.Problems = append(sr.Problems, "reachable node has nil active id "+lid.String())
			return
		}
		liveBlobs[act] = true
		// After a finished commit the inactive slot keeps the superseded (deleted) blob id with WIP timestamp 1
		// (finalised marker): that is the clean state. A deleted mark or a real WIP timestamp is leftover work.
		if h.IsDeleted || h.WorkInProgressTimestamp > 1 {
			sr.DirtyHandles = append(sr.DirtyHandles, fmt.Sprintf("%s deleted=%v inactive=%v wip=%d", lid, h.IsDeleted, !h.Inactive().IsNil(), h.WorkInProgressTimestamp))
		}
		nb, err := os.ReadFile(BlobPath(base, si.BlobTable, act))
		if err != nil {
			sr.Problems = append(sr.Problems, fmt.Sprintf("node blob of %s (active %s) does not load: %v", lid, act, err))
			return
		}
		var n nodeJSON
		if err := json.Unmarshal(nb, &n); err != nil {
			sr.Problems = append(sr.Problems, fmt.Sprintf("node blob of %s does not parse: %v", lid, err))
			return
		}
		sr.ReachableNodes++
		if n.Count > len(n.Slots) {
			sr.Problems = append(sr.Problems, fmt.Sprintf("node %s Count %d > %d slots", lid, n.Count, len(n.Slots)))
			n.Count = len(n.Slots)
		}
		for i := 0; i <= n.Count; i++ {
			if i < len(n.ChildrenIDs) {
				if c, ok := ParseUUID(n.ChildrenIDs[i]); ok && !c.IsNil() {
					walk(c, depth+1)
				}
			}
			if i < n.Count {
				sr.Items++
				sr.Keys = append(sr.Keys, string(n.Slots[i].Key))
				if !si.IsValueDataInNodeSegment {
					if vid, ok := ParseUUID(n.Slots[i].ID); ok {
						liveBlobs[vid] = true
						if _, err := os.Stat(BlobPath(base, si.BlobTable, vid)); err != nil {
							sr.Problems = append(sr.Problems, fmt.Sprintf("value blob of item %s key %s does not load: %v", vid, n.Slots[i].Key, err))
						}
					}
				}
			}
		}
	}
	if root, ok := ParseUUID(si.RootNodeID); ok && !root.IsNil() {
		if _, has := byLID[root]; has || si.Count > 0 {
			walk(root, 0)
		}
	}
	if int64(sr.Items) != si.Count {
		sr.Problems = append(sr.Problems, fmt.Sprintf("storeinfo count %d != %d reachable items", si.Count, sr.Items))
	}
	for lid := range byLID {
		if !reachLID[lid] {
			sr.OrphanHandles = append(sr.OrphanHandles, lid.String())
		}
	}
	sort.Strings(sr.OrphanHandles)
	// blob files
	filepath.Walk(filepath.Join(base, si.BlobTable), func(p string, info os.FileInfo, err error) error {
		if err != nil || info.IsDir() {
			return nil
		}
		if id, ok := ParseUUID(filepath.Base(p)); ok {
			if !liveBlobs[id] {
				sr.OrphanBlobs = append(sr.OrphanBlobs, id.String())
			}
		}
		return nil
	})
	sort.Strings(sr.OrphanBlobs)
	return sr
}

// DecodeRecord decodes one 62-byte handle record.
func DecodeRecord(rec []byte) Handle { return decode(rec) }
