// Package rsched is the race-detection variant of the cooperative scheduler (C36): the same deviation-bounded
// exploration as package sched, but control is handed between goroutines with raw read/write syscalls on
// pipes and all scheduler state is touched only from //go:norace functions, so that the scheduler itself
// creates NO happens-before edge between the scheduled threads. Under `go build -race` the only ordering
// the detector sees between two transactions is then the one the code under test establishes itself,
// and every explored schedule is checked for data races.
package rsched

import (
	"context"
	"fmt"
	"runtime"
	"strconv"
	"strings"
	"syscall"
	"time"
	"unsafe"

	"verif.local/mc/vhook"
)

type pipe struct{ r, w int }

func mkpipe() pipe {
	var p [2]int
	if err := syscall.Pipe(p[:]); err != nil {
		panic(err)
	}
	return pipe{p[0], p[1]}
}

//go:norace
func (p pipe) signal(v byte) {
	b := [1]byte{v}
	syscall.Syscall(syscall.SYS_WRITE, uintptr(p.w), uintptr(unsafe.Pointer(&b[0])), 1)
}

//go:norace
func (p pipe) wait() byte {
	var b [1]byte
	for {
		n, _, e := syscall.Syscall(syscall.SYS_READ, uintptr(p.r), uintptr(unsafe.Pointer(&b[0])), 1)
		if n == 1 {
			return b[0]
		}
		if e != syscall.EINTR && e != 0 {
			panic(e)
		}
	}
}

func (p pipe) close() { syscall.Close(p.r); syscall.Close(p.w) }

type T struct {
	ID       int
	p        pipe
	gid      int64
	finished bool
	sleeping bool
	wakeAt   int64
	done     chan struct{} // closed at thread end: a real happens-before edge for the final reads only
	Panic    string
	// task threads (TaskRunner tasks registered through vhook.Spawn)
	parent    *T
	live      int // unfinished tasks spawned by this thread
	hold      int // > 0: holds a real sop mutex across scheduling points, must not be parked
	waitBelow int // > 0: parked until live < waitBelow (join: 1; concurrency limit k: k)
}

type decision struct {
	options   int
	costs     []int
	costSoFar int
}

type X struct {
	threads   []*T
	main      pipe
	clock     int64
	Trace     []string
	decisions []decision
	Choices   []int
	cost      int
	cur       *T
	Deadlock  bool
	Switches  int
	Tasks     int // task threads spawned
	classes   map[string]bool
}

type Scenario struct {
	Classes []string
	Epoch   time.Time
	// FreeTasks: sop.TaskRunner tasks run on their own goroutines, free-running and concurrently with each other
	// and with the thread that spawned them (which waits for them with real synchronisation), instead of inline.
	// The detector then also judges the accesses of sibling tasks (happens-before based, so independent of how
	// the OS interleaves them); their operations are not scheduling points.
	FreeTasks bool
	// TaskThreads: sop.TaskRunner tasks become threads of this scheduler (spawned with a real go statement and
	// joined with the real errgroup wait, so exactly production's happens-before edges exist between a task
	// and its spawner); every interleaving of sibling tasks within the deviation bound is explored.
	TaskThreads bool
	Setup       func(x *X) []func(ctx context.Context)
	// Teardown runs after every thread has ended and been joined with a real synchronisation.
	Teardown func(x *X)
}

func gid() int64 {
	var buf [64]byte
	n := runtime.Stack(buf[:], false)
	s := strings.TrimPrefix(string(buf[:n]), "goroutine ")
	if i := strings.IndexByte(s, ' '); i > 0 {
		v, _ := strconv.ParseInt(s[:i], 10, 64)
		return v
	}
	return -1
}

//go:norace
func (x *X) self() *T {
	g := gid()
	for _, t := range x.threads {
		if t.gid == g {
			return t
		}
	}
	return nil
}

//go:norace
func (x *X) point(class, label string) {
	if !x.classes[class] {
		return
	}
	t := x.self()
	if t == nil || t.finished || t.hold > 0 {
		return
	}
	x.Trace = append(x.Trace, fmt.Sprintf("%d:%s:%s", t.ID, class, label))
	x.main.signal(byte(t.ID))
	t.p.wait()
}

//go:norace
func (x *X) sleep(ctx context.Context, d time.Duration) bool {
	t := x.self()
	if t == nil || t.finished {
		return false
	}
	if t.hold > 0 {
		x.clock += int64(d)
		return true
	}
	t.sleeping = true
	t.wakeAt = x.clock + int64(d)
	x.main.signal(byte(t.ID))
	t.p.wait()
	return true
}

//go:norace
func (x *X) now() time.Time { return time.Unix(0, x.clock) }

//go:norace
func (x *X) setGid(t *T, g int64) { t.gid = g }

//go:norace
func (x *X) finish(t *T) {
	t.finished = true
}

//go:norace
func (t *T) root() *T {
	for t.parent != nil {
		t = t.parent
	}
	return t
}

//go:norace
func (x *X) holdMark(delta int) {
	if t := x.self(); t != nil {
		t.hold += delta
	}
}

type taskHandle struct {
	x *X
	t *T
}

// spawn registers a TaskRunner task of the calling thread as a new thread (runnable at once; its goroutine is
// started by the caller's real go statement right after this returns and parks in Start until scheduled).
//
//go:norace
func (x *X) spawn(limit int) vhook.TaskHandle {
	p := x.self()
	if p == nil || p.finished {
		return nil
	}
	if limit > 0 && p.live >= limit {
		p.waitBelow = limit
		x.main.signal(byte(p.ID))
		p.p.wait()
	}
	t := &T{ID: len(x.threads), p: mkpipe(), done: make(chan struct{}), parent: p}
	x.threads = append(x.threads, t)
	p.live++
	x.Tasks++
	return &taskHandle{x, t}
}

// join parks the calling thread until all its tasks have ended.
//
//go:norace
func (x *X) join() {
	p := x.self()
	if p == nil || p.finished || p.live == 0 {
		return
	}
	p.waitBelow = 1
	x.main.signal(byte(p.ID))
	p.p.wait()
}

//go:norace
func (h *taskHandle) Start() {
	h.t.gid = gid()
	h.t.p.wait()
}

//go:norace
func (h *taskHandle) End() {
	h.t.finished = true
	h.t.parent.live--
	h.x.main.signal(byte(h.t.ID))
}

// Run executes one schedule: replays prefix then takes the default choice.
//
//go:norace
func Run(sc *Scenario, prefix []int) *X {
	x := &X{main: mkpipe(), clock: sc.Epoch.UnixNano(), classes: map[string]bool{}}
	for _, c := range sc.Classes {
		x.classes[c] = true
	}
	hooks := &vhook.Hooks{Inline: !sc.FreeTasks && !sc.TaskThreads, Point: x.point, Sleep: x.sleep, Now: x.now}
	hooks.Hold = x.holdMark
	if sc.TaskThreads {
		hooks.Spawn, hooks.Join = x.spawn, x.join
	}
	vhook.Install(hooks)
	defer vhook.Uninstall()
	bodies := sc.Setup(x)
	for i := range bodies {
		x.threads = append(x.threads, &T{ID: i, p: mkpipe(), done: make(chan struct{})})
	}
	ready := mkpipe()
	for i, fn := range bodies {
		t, fn := x.threads[i], fn
		go x.body(t, fn, ready)
	}
	for range bodies {
		ready.wait()
	}
	ready.close()
	for {
		var runnable, sleepers []*T
		unfinished := 0
		for _, t := range x.threads {
			if t.finished {
				continue
			}
			unfinished++
			if t.waitBelow > 0 {
				if t.live >= t.waitBelow {
					continue // parked until enough of its tasks have ended
				}
				t.waitBelow = 0
			}
			if t.sleeping {
				sleepers = append(sleepers, t)
			} else {
				runnable = append(runnable, t)
			}
		}
		if unfinished == 0 {
			break
		}
		for i := 1; i < len(sleepers); i++ {
			for j := i; j > 0 && sleepers[j].wakeAt < sleepers[j-1].wakeAt; j-- {
				sleepers[j], sleepers[j-1] = sleepers[j-1], sleepers[j]
			}
		}
		var options []*T
		var costs []int
		curRunnable := x.cur != nil && !x.cur.finished && !x.cur.sleeping && x.cur.waitBelow == 0
		if curRunnable {
			options = append(options, x.cur)
			costs = append(costs, 0)
		}
		// A transaction thread and the tasks it spawned form a group. Default: stay in the group of the thread that
		// ran last while that group has a runnable thread (tasks in spawn order); leaving it, or picking a task out
		// of spawn order, is a deviation. When the group has nothing runnable, the first runnable thread of every
		// other group is a free choice.
		var curGroup *T
		if x.cur != nil {
			curGroup = x.cur.root()
		}
		groupRunnable := false
		for _, t := range runnable {
			if t != x.cur && t.root() == curGroup {
				groupRunnable = true
			}
		}
		seenGroup := map[*T]bool{}
		var ordered []*T // same group first, so that the default choice (index 0) is free
		for _, t := range runnable {
			if t != x.cur && t.root() == curGroup {
				ordered = append(ordered, t)
			}
		}
		for _, t := range runnable {
			if t != x.cur && t.root() != curGroup {
				ordered = append(ordered, t)
			}
		}
		for _, t := range ordered {
			c := 0
			switch {
			case curRunnable:
				c = 1
			case groupRunnable && t.root() != curGroup:
				c = 1
			case seenGroup[t.root()]:
				c = 1
			}
			seenGroup[t.root()] = true
			options = append(options, t)
			costs = append(costs, c)
		}
		for i, t := range sleepers {
			options = append(options, t)
			if len(runnable) > 0 || i > 0 {
				costs = append(costs, 1)
			} else {
				costs = append(costs, 0)
			}
		}
		if len(options) == 0 {
			x.Deadlock = true
			break
		}
		idx := 0
		if len(options) > 1 {
			d := len(x.decisions)
			if d < len(prefix) {
				idx = prefix[d]
				if idx >= len(options) {
					panic("DIVERGENCE: choice out of range")
				}
			}
			x.decisions = append(x.decisions, decision{len(options), costs, x.cost})
			x.Choices = append(x.Choices, idx)
			x.cost += costs[idx]
		}
		t := options[idx]
		if x.cur != nil && t != x.cur {
			x.Switches++
		}
		if t.sleeping {
			if t.wakeAt > x.clock {
				x.clock = t.wakeAt
			}
			t.sleeping = false
		}
		x.cur = t
		t.p.signal(1)
		x.main.wait()
	}
	// join with a real synchronisation before the harness reads what the threads produced
	for _, t := range x.threads {
		if t.finished && t.parent == nil {
			<-t.done
		}
		t.p.close()
	}
	if sc.Teardown != nil {
		sc.Teardown(x)
	}
	x.main.close()
	return x
}

func (x *X) body(t *T, fn func(ctx context.Context), ready pipe) {
	x.setGid(t, gid())
	ready.signal(1)
	t.p.wait()
	defer func() {
		if r := recover(); r != nil {
			t.Panic = fmt.Sprint(r)
		}
		x.finish(t)
		close(t.done)
		x.main.signal(byte(t.ID))
	}()
	fn(context.Background())
}

// Explore: DFS over schedules with at most bound deviations.
func Explore(sc *Scenario, bound int, deadline time.Time, check func(x *X)) (executions int, truncated bool) {
	var rec func(prefix []int)
	rec = func(prefix []int) {
		if truncated || time.Now().After(deadline) {
			truncated = true
			return
		}
		x := Run(sc, prefix)
		executions++
		check(x)
		for i := len(prefix); i < len(x.decisions); i++ {
			d := x.decisions[i]
			for alt := 1; alt < d.options; alt++ {
				if d.costSoFar+d.costs[alt] > bound {
					continue
				}
				rec(append(append([]int(nil), x.Choices[:i]...), alt))
			}
		}
	}
	rec(nil)
	return
}
