// Package sched is a cooperative scheduler + deviation-bounded DFS (stateless model checking) for
// goroutines that run real sop code. One registered thread runs at a time; control changes hands only
// at vhook.Point / vhook.Sleep calls made by the instrumented code and the decorators.
package sched

import (
	"context"
	"fmt"
	"runtime"
	"strconv"
	"strings"
	"sync"
	"time"

	"verif.local/mc/vhook"
)

// T is one scheduled thread.
type T struct {
	ID       int
	Name     string
	x        *Execution
	resume   chan struct{}
	finished bool
	sleeping bool
	wakeAt   time.Time
	started  bool
	panicked any
	atomic   int
	points   int
	// Stalled is true when the thread was stopped by Scenario.StallAt.
	Stalled bool
	// History is filled by the scenario body (API calls with results).
	History []string
	// Data is scenario-private per-thread data (results for the oracle).
	Data map[string]any
	ctx  context.Context
}

func (t *T) Ctx() context.Context { return t.ctx }
func (t *T) Log(format string, a ...any) {
	t.History = append(t.History, fmt.Sprintf(format, a...))
}

// Now returns the virtual clock of the thread's execution.
func (t *T) Now() time.Time { return t.x.Clock() }

type decision struct {
	options   int  // number of options at this decision point
	chosen    int  // index taken
	costs     []int // cost of each option
	costSoFar int  // deviations spent before this decision
}

// Execution is one complete run of a scenario under one schedule.
type Execution struct {
	Threads   []*T
	Choices   []int
	decisions []decision
	Trace     []string // "<thread>:<class>:<label>" per scheduling step
	Deadlock  bool
	Hang      bool
	Livelock  bool
	Cost      int
	Switches  int
	mu        sync.Mutex
	clock     time.Time
	yield     chan *T
	byGID     sync.Map // gid -> *T
	classes   map[string]bool
	cur       *T
	inTeardown bool
	// Env is scenario state for this execution (set by Setup).
	Env any
}

func (x *Execution) Clock() time.Time {
	x.mu.Lock()
	defer x.mu.Unlock()
	return x.clock
}

func (x *Execution) Advance(d time.Duration) {
	x.mu.Lock()
	x.clock = x.clock.Add(d)
	x.mu.Unlock()
}

func gid() int64 {
	var buf [64]byte
	n := runtime.Stack(buf[:], false)
	s := string(buf[:n])
	s = strings.TrimPrefix(s, "goroutine ")
	if i := strings.IndexByte(s, ' '); i > 0 {
		v, _ := strconv.ParseInt(s[:i], 10, 64)
		return v
	}
	return -1
}

func (x *Execution) self() *T {
	if v, ok := x.byGID.Load(gid()); ok {
		return v.(*T)
	}
	return nil
}

// Scenario describes the closed system to explore.
type Scenario struct {
	Name string
	// Setup creates fresh state for one execution and returns the thread bodies.
	Setup func(x *Execution) []ThreadSpec
	// Teardown runs after all threads ended (scheduler uninstalled): final-state reads for the oracle.
	Teardown func(x *Execution)
	// Classes of scheduling points that yield (others pass through).
	Classes []string
	// Epoch is the virtual start time.
	Epoch time.Time
	// MaxVirtual is the virtual-time horizon (livelock report when exceeded).
	MaxVirtual time.Duration
	// MaxSteps caps scheduling steps per execution (livelock report when exceeded).
	MaxSteps int
	// Watchdog is the real-time limit for one step (thread blocked for real => Hang).
	Watchdog time.Duration
	// StallAt: thread id -> ordinal (1-based) of the scheduling point at which that thread stalls forever
	// (a stuck or dead lock holder: it keeps whatever it holds and never runs again).
	StallAt map[int]int
	// IO, when set, observes every file operation of sop's filesystem backend at the moment it executes (after
	// its scheduling point): op and path as in vhook.IO. It cannot fail the operation.
	IO func(x *Execution, op, path string)
}

type ThreadSpec struct {
	Name string
	Fn   func(t *T)
}

// ErrDivergence is raised (panic) when a replayed prefix does not fit the execution.
type ErrDivergence struct{ Msg string }

func (e ErrDivergence) Error() string { return "DIVERGENCE: " + e.Msg }

// Run executes the scenario once: replays prefix, then takes option 0 at every later decision.
func Run(sc *Scenario, prefix []int) *Execution {
	x := &Execution{yield: make(chan *T), classes: map[string]bool{}, clock: sc.Epoch}
	for _, c := range sc.Classes {
		x.classes[c] = true
	}
	hooks := &vhook.Hooks{Inline: true, Now: x.Clock}
	hooks.Point = func(class, label string) {
		if !x.classes[class] {
			return
		}
		t := x.self()
		if t == nil || t.finished || t.atomic > 0 {
			return
		}
		x.mu.Lock()
		x.Trace = append(x.Trace, fmt.Sprintf("%d:%s:%s", t.ID, class, label))
		x.mu.Unlock()
		t.points++
		if k, ok := sc.StallAt[t.ID]; ok && t.points == k {
			t.Stalled = true
			t.finished = true
			x.yield <- t
			select {} // never runs again; the goroutine is abandoned with everything it holds
		}
		x.yield <- t
		<-t.resume
	}
	hooks.Sleep = func(ctx context.Context, d time.Duration) bool {
		t := x.self()
		if t == nil && x.inTeardown {
			x.Advance(d) // single-threaded teardown: sleeping just lets virtual time pass
			return true
		}
		if t == nil || t.finished {
			return false
		}
		x.mu.Lock()
		t.sleeping = true
		t.wakeAt = x.clock.Add(d)
		x.Trace = append(x.Trace, fmt.Sprintf("%d:sleep:%v", t.ID, d))
		x.mu.Unlock()
		x.yield <- t
		<-t.resume
		return true
	}
	if sc.IO != nil {
		hooks.IO = func(op, path string, data []byte, off int64) error {
			sc.IO(x, op, path)
			return nil
		}
	}
	vhook.Install(hooks)
	defer vhook.Uninstall()
	specs := sc.Setup(x)
	for i, sp := range specs {
		t := &T{ID: i, Name: sp.Name, x: x, resume: make(chan struct{}), Data: map[string]any{}}
		t.ctx = context.WithValue(context.Background(), ctxKey{}, t)
		x.Threads = append(x.Threads, t)
	}

	for i, sp := range specs {
		t := x.Threads[i]
		fn := sp.Fn
		go func() {
			x.byGID.Store(gid(), t)
			<-t.resume
			defer func() {
				if r := recover(); r != nil {
					buf := make([]byte, 4096)
					n := runtime.Stack(buf, false)
					t.panicked = fmt.Sprintf("%v\n%s", r, buf[:n])
				}
				t.finished = true
				x.yield <- t
			}()
			fn(t)
		}()
	}
	// Give goroutines time to register their gid (they block on resume immediately after).
	for _, t := range x.Threads {
		for {
			found := false
			x.byGID.Range(func(_, v any) bool {
				if v.(*T) == t {
					found = true
					return false
				}
				return true
			})
			if found {
				break
			}
			runtime.Gosched()
		}
	}

	watchdog := sc.Watchdog
	if watchdog == 0 {
		watchdog = 120 * time.Second
	}
	maxSteps := sc.MaxSteps
	if maxSteps == 0 {
		maxSteps = 200000
	}
	horizon := sc.Epoch.Add(sc.MaxVirtual)
	steps := 0
	for {
		// classify threads
		var runnable, sleepers []*T
		unfinished := 0
		for _, t := range x.Threads {
			if t.finished {
				continue
			}
			unfinished++
			if t.sleeping {
				sleepers = append(sleepers, t)
			} else {
				runnable = append(runnable, t)
			}
		}
		if unfinished == 0 {
			break
		}
		// sleepers sorted by wake time then id (stable insertion)
		for i := 1; i < len(sleepers); i++ {
			for j := i; j > 0 && (sleepers[j].wakeAt.Before(sleepers[j-1].wakeAt)); j-- {
				sleepers[j], sleepers[j-1] = sleepers[j-1], sleepers[j]
			}
		}
		var options []*T
		var costs []int
		curRunnable := x.cur != nil && !x.cur.finished && !x.cur.sleeping
		if curRunnable {
			options = append(options, x.cur)
			costs = append(costs, 0)
		}
		for _, t := range runnable {
			if t == x.cur {
				continue
			}
			options = append(options, t)
			if curRunnable {
				costs = append(costs, 1) // preemption
			} else {
				costs = append(costs, 0)
			}
		}
		for i, t := range sleepers {
			options = append(options, t)
			if len(runnable) > 0 || i > 0 {
				costs = append(costs, 1) // early wake relative to runnable threads / out of wake order
			} else {
				costs = append(costs, 0)
			}
		}
		if len(options) == 0 {
			x.Deadlock = true
			break
		}
		idx := 0
		if len(options) > 1 {
			d := len(x.decisions)
			if d < len(prefix) {
				idx = prefix[d]
				if idx < 0 || idx >= len(options) {
					panic(ErrDivergence{fmt.Sprintf("decision %d: choice %d out of range (%d options)", d, idx, len(options))})
				}
			}
			x.decisions = append(x.decisions, decision{options: len(options), chosen: idx, costs: costs, costSoFar: x.Cost})
			x.Choices = append(x.Choices, idx)
			x.Cost += costs[idx]
		}
		t := options[idx]
		if t != x.cur && x.cur != nil {
			x.Switches++
		}
		if t.sleeping {
			x.mu.Lock()
			if t.wakeAt.After(x.clock) {
				x.clock = t.wakeAt
			}
			t.sleeping = false
			x.mu.Unlock()
		}
		if sc.MaxVirtual > 0 && x.Clock().After(horizon) {
			x.Livelock = true
			break
		}
		steps++
		if steps > maxSteps {
			x.Livelock = true
			break
		}
		x.cur = t
		t.resume <- struct{}{}
		select {
		case <-x.yield:
		case <-time.After(watchdog):
			x.Hang = true
		}
		if x.Hang {
			break
		}
	}
	if len(prefix) > len(x.decisions) && !x.Deadlock && !x.Hang && !x.Livelock {
		panic(ErrDivergence{fmt.Sprintf("prefix has %d choices but execution had only %d decisions", len(prefix), len(x.decisions))})
	}
	if sc.Teardown != nil && !x.Hang {
		x.inTeardown = true
		sc.Teardown(x)
	}
	return x
}

type ctxKey struct{}

// Explorer drives the DFS.
type Explorer struct {
	Sc         *Scenario
	Bound      int
	Check      func(x *Execution, schedule []int)
	Deadline   time.Time
	Executions int64
	Truncated  bool
	// Shard/Shards: this process explores only level-1 subtrees with index%Shards == Shard
	// (the root execution is checked by shard 0).
	Shard, Shards int
	MaxDecisions  int
	MaxPoints     int
}

func (e *Explorer) Explore() {
	if e.Shards <= 0 {
		e.Shards = 1
	}
	e.explore(nil, 0)
}

func (e *Explorer) explore(prefix []int, depth int) {
	if e.Truncated {
		return
	}
	if !e.Deadline.IsZero() && time.Now().After(e.Deadline) {
		e.Truncated = true
		return
	}
	x := Run(e.Sc, prefix)
	if len(x.decisions) > e.MaxDecisions {
		e.MaxDecisions = len(x.decisions)
	}
	if len(x.Trace) > e.MaxPoints {
		e.MaxPoints = len(x.Trace)
	}
	if depth > 0 || e.Shard == 0 {
		e.Executions++
		e.Check(x, append([]int(nil), x.Choices...))
	}
	k := 0
	for i := len(prefix); i < len(x.decisions); i++ {
		d := x.decisions[i]
		for alt := 1; alt < d.options; alt++ {
			if d.costSoFar+d.costs[alt] > e.Bound {
				continue
			}
			if depth == 0 {
				k++
				if (k-1)%e.Shards != e.Shard {
					continue
				}
			}
			np := append(append([]int(nil), x.Choices[:i]...), alt)
			e.explore(np, depth+1)
		}
	}
}

// Panicked returns the panic message + stack of a thread that crashed ("" if none).
func (t *T) Panicked() string {
	if t.panicked == nil {
		return ""
	}
	return fmt.Sprint(t.panicked)
}

// TraceLen is the logical clock of the execution: number of scheduling steps recorded so far.
func (x *Execution) TraceLen() int {
	x.mu.Lock()
	defer x.mu.Unlock()
	return len(x.Trace)
}

// X returns the thread's execution.
func (t *T) X() *Execution { return t.x }

// Note appends a non-yielding marker to the trace (thread id -1 entries are ignored by schedulers).
func (t *T) Note(s string) {
	t.x.mu.Lock()
	t.x.Trace = append(t.x.Trace, fmt.Sprintf("%d:note:%s", t.ID, s))
	t.x.mu.Unlock()
}

// Atomic runs fn on the calling thread without yielding at scheduling points (for oracles that must
// observe the state of one instant).
func (t *T) Atomic(fn func()) {
	t.atomic++
	defer func() { t.atomic-- }()
	fn()
}

// CurrentID returns the id of the thread that is running now (-1 outside thread execution).
func (x *Execution) CurrentID() int {
	if x.cur == nil || x.inTeardown {
		return -1
	}
	return x.cur.ID
}
