package l2x

import (
	"context"
	"fmt"
	"os"
	"path/filepath"
	"sync"

	"github.com/sharedcode/sop/fs"
	"verif.local/mc/vhook"
)

// DIO decorates fs.DirectIO (registry block I/O): scheduling point class "dio" + optional faults + trace.
type DIO struct {
	Inner fs.DirectIO
	mu    sync.Mutex
	Fault func(op, file string, offset int64) error
	Trace *[]string
	Calls int
	// OnWrite, when set, observes every block write before it is executed.
	OnWrite func(file string, off int64, block []byte)
}

func NewDIO() *DIO { return &DIO{Inner: fs.NewDirectIO()} }

func (d *DIO) pt(op, file string, off int64) error {
	return d.ptd(op, file, off, nil)
}

func (d *DIO) ptd(op, file string, off int64, data []byte) error {
	vhook.Point("dio", fmt.Sprintf("%s %s@%d", op, filepath.Base(file), off))
	if NoSync {
		return nil
	}
	switch op {
	case "WriteAt":
		if err := vhook.IOHook("pwrite", file, data, off); err != nil {
			return err
		}
	case "ReadAt":
		if err := vhook.IOHook("pread", file, nil, off); err != nil {
			return err
		}
	case "Create":
		if err := vhook.IOHook("create", file, nil, 0); err != nil {
			return err
		}
	}
	d.mu.Lock()
	d.Calls++
	f := d.Fault
	if d.Trace != nil {
		*d.Trace = append(*d.Trace, fmt.Sprintf("%s %s@%d", op, filepath.Base(file), off))
	}
	d.mu.Unlock()
	if f != nil {
		return f(op, file, off)
	}
	return nil
}

func (d *DIO) Open(ctx context.Context, filename string, flag int, permission os.FileMode) (*os.File, error) {
	if err := d.pt("Open", filename, 0); err != nil {
		return nil, err
	}
	if flag&os.O_CREATE != 0 {
		if _, serr := os.Stat(filename); serr != nil {
			if err := d.ptd("Create", filename, 0, nil); err != nil {
				return nil, err
			}
		}
	}
	return d.Inner.Open(ctx, filename, flag, permission)
}
func (d *DIO) WriteAt(ctx context.Context, file *os.File, block []byte, offset int64) (int, error) {
	if err := d.ptd("WriteAt", file.Name(), offset, block); err != nil {
		return 0, err
	}
	var ow func(file string, off int64, block []byte)
	if !NoSync {
		d.mu.Lock()
		ow = d.OnWrite
		d.mu.Unlock()
	}
	if ow != nil {
		ow(file.Name(), offset, block)
	}
	return d.Inner.WriteAt(ctx, file, block, offset)
}
func (d *DIO) ReadAt(ctx context.Context, file *os.File, block []byte, offset int64) (int, error) {
	if err := d.pt("ReadAt", file.Name(), offset); err != nil {
		return 0, err
	}
	return d.Inner.ReadAt(ctx, file, block, offset)
}
func (d *DIO) Close(file *os.File) error { return d.Inner.Close(file) }
