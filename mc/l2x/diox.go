package l2x

import (
	"context"
	"fmt"
	"os"
	"path/filepath"
	"sync"

	"github.com/sharedcode/sop/fs"
	"verif.local/mc/vhook"
)

// DIO decorates fs.DirectIO (registry block I/O): scheduling point class "dio" + optional faults + trace.
type DIO struct {
	Inner fs.DirectIO
	mu    sync.Mutex
	Fault func(op, file string, offset int64) error
	Trace *[]string
	Calls int
}

func NewDIO() *DIO { return &DIO{Inner: fs.NewDirectIO()} }

func (d *DIO) pt(op, file string, off int64) error {
	vhook.Point("dio", fmt.Sprintf("%s %s@%d", op, filepath.Base(file), off))
	d.mu.Lock()
	d.Calls++
	f := d.Fault
	if d.Trace != nil {
		*d.Trace = append(*d.Trace, fmt.Sprintf("%s %s@%d", op, filepath.Base(file), off))
	}
	d.mu.Unlock()
	if f != nil {
		return f(op, file, off)
	}
	return nil
}

func (d *DIO) Open(ctx context.Context, filename string, flag int, permission os.FileMode) (*os.File, error) {
	if err := d.pt("Open", filename, 0); err != nil {
		return nil, err
	}
	return d.Inner.Open(ctx, filename, flag, permission)
}
func (d *DIO) WriteAt(ctx context.Context, file *os.File, block []byte, offset int64) (int, error) {
	if err := d.pt("WriteAt", file.Name(), offset); err != nil {
		return 0, err
	}
	return d.Inner.WriteAt(ctx, file, block, offset)
}
func (d *DIO) ReadAt(ctx context.Context, file *os.File, block []byte, offset int64) (int, error) {
	if err := d.pt("ReadAt", file.Name(), offset); err != nil {
		return 0, err
	}
	return d.Inner.ReadAt(ctx, file, block, offset)
}
func (d *DIO) Close(file *os.File) error { return d.Inner.Close(file) }
