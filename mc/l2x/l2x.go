// Package l2x decorates a sop.L2Cache: every method is a scheduling point (class "l2") and an
// optional fault-injection site.
package l2x

import (
	"context"
	"fmt"
	"strings"
	"sync"
	"time"

	"github.com/sharedcode/sop"
	"verif.local/mc/vhook"
)

// Cache is a stable wrapper whose inner cache can be swapped between executions.
type Cache struct {
	mu    sync.Mutex
	inner sop.L2Cache
	typ   sop.L2CacheType
	// Fault, when set, is consulted before each call; a non-nil error is returned instead of calling inner.
	Fault func(method string, keys []string) error
	// Calls counts calls (for fault position enumeration).
	Calls int
	// Trace, when non-nil, receives "method key..." per call.
	Trace *[]string
	// OnLocked, when set, is told the keys of every Lock/DualLock call that succeeded (lock ownership tracking).
	OnLocked func(keys []*sop.LockKey)
	// OnUnlock, when set, is told the keys of every Unlock call (after it executed).
	OnUnlock func(keys []*sop.LockKey)
	// OnSet, when set, is told keys and values of every SetStruct/SetStructs call that succeeded.
	OnSet func(keys []string, values []interface{})
}

func New(inner sop.L2Cache, typ sop.L2CacheType) *Cache { return &Cache{inner: inner, typ: typ} }

func (c *Cache) SetInner(i sop.L2Cache) { c.mu.Lock(); c.inner = i; c.Calls = 0; c.mu.Unlock() }
func (c *Cache) Inner() sop.L2Cache {
	if NoSync {
		return c.innerNoSync()
	}
	c.mu.Lock()
	defer c.mu.Unlock()
	return c.inner
}

//go:norace
func (c *Cache) innerNoSync() sop.L2Cache { return c.inner }

func lkeys(lk []*sop.LockKey) []string {
	r := make([]string, len(lk))
	for i, k := range lk {
		r[i] = k.Key
	}
	return r
}

// NoSync (race-detection builds): the decorators take no lock and touch their own fields only from
// //go:norace code, so that they add no happens-before edge between the scheduled threads.
var NoSync bool

//go:norace
func (c *Cache) ptNoSync(method string, keys []string) (sop.L2Cache, error) {
	c.Calls++
	if c.Fault != nil {
		if err := c.Fault(method, keys); err != nil {
			return c.inner, err
		}
	}
	return c.inner, nil
}

func (c *Cache) pt(method string, keys []string) (sop.L2Cache, error) {
	vhook.Point("l2", method+" "+strings.Join(keys, ","))
	if NoSync {
		return c.ptNoSync(method, keys)
	}
	c.mu.Lock()
	c.Calls++
	f := c.Fault
	in := c.inner
	if c.Trace != nil {
		*c.Trace = append(*c.Trace, method+" "+strings.Join(keys, ","))
	}
	c.mu.Unlock()
	if f != nil {
		if err := f(method, keys); err != nil {
			return in, err
		}
	}
	return in, nil
}

var ErrInjected = fmt.Errorf("verif: injected L2 cache failure")

func (c *Cache) GetType() sop.L2CacheType { return c.typ }

func (c *Cache) FormatLockKey(k string) string               { return c.Inner().FormatLockKey(k) }
func (c *Cache) CreateLockKeys(keys []string) []*sop.LockKey { return c.Inner().CreateLockKeys(keys) }
func (c *Cache) CreateLockKeysForIDs(keys []sop.Tuple[string, sop.UUID]) []*sop.LockKey {
	return c.Inner().CreateLockKeysForIDs(keys)
}
func (c *Cache) IsLockedTTL(ctx context.Context, d time.Duration, lk []*sop.LockKey) (bool, error) {
	in, err := c.pt("IsLockedTTL", lkeys(lk))
	if err != nil {
		return false, err
	}
	return in.IsLockedTTL(ctx, d, lk)
}
func (c *Cache) Lock(ctx context.Context, d time.Duration, lk []*sop.LockKey) (bool, sop.UUID, error) {
	in, err := c.pt("Lock", lkeys(lk))
	if err != nil {
		return false, sop.NilUUID, err
	}
	ok, id, err := in.Lock(ctx, d, lk)
	if ok && err == nil && c.OnLocked != nil {
		c.OnLocked(lk)
	}
	return ok, id, err
}
func (c *Cache) DualLock(ctx context.Context, d time.Duration, lk []*sop.LockKey) (bool, sop.UUID, error) {
	in, err := c.pt("DualLock", lkeys(lk))
	if err != nil {
		return false, sop.NilUUID, err
	}
	ok, id, err := in.DualLock(ctx, d, lk)
	if ok && err == nil && c.OnLocked != nil {
		c.OnLocked(lk)
	}
	return ok, id, err
}
func (c *Cache) IsLocked(ctx context.Context, lk []*sop.LockKey) (bool, error) {
	in, err := c.pt("IsLocked", lkeys(lk))
	if err != nil {
		return false, err
	}
	return in.IsLocked(ctx, lk)
}
func (c *Cache) IsLockedByOthers(ctx context.Context, names []string) (bool, error) {
	in, err := c.pt("IsLockedByOthers", names)
	if err != nil {
		return false, err
	}
	return in.IsLockedByOthers(ctx, names)
}
func (c *Cache) IsLockedByOthersTTL(ctx context.Context, names []string, d time.Duration) (bool, error) {
	in, err := c.pt("IsLockedByOthersTTL", names)
	if err != nil {
		return false, err
	}
	return in.IsLockedByOthersTTL(ctx, names, d)
}
func (c *Cache) Unlock(ctx context.Context, lk []*sop.LockKey) error {
	in, err := c.pt("Unlock", lkeys(lk))
	if err != nil {
		return err
	}
	err = in.Unlock(ctx, lk)
	if c.OnUnlock != nil {
		c.OnUnlock(lk)
	}
	return err
}
func (c *Cache) Set(ctx context.Context, key, value string, exp time.Duration) error {
	in, err := c.pt("Set", []string{key})
	if err != nil {
		return err
	}
	return in.Set(ctx, key, value, exp)
}
func (c *Cache) Get(ctx context.Context, key string) (bool, string, error) {
	in, err := c.pt("Get", []string{key})
	if err != nil {
		return false, "", err
	}
	return in.Get(ctx, key)
}
func (c *Cache) GetEx(ctx context.Context, key string, exp time.Duration) (bool, string, error) {
	in, err := c.pt("GetEx", []string{key})
	if err != nil {
		return false, "", err
	}
	return in.GetEx(ctx, key, exp)
}
func (c *Cache) IsRestarted(ctx context.Context) bool { return c.Inner().IsRestarted(ctx) }
func (c *Cache) SetStruct(ctx context.Context, key string, v interface{}, exp time.Duration) error {
	in, err := c.pt("SetStruct", []string{key})
	if err != nil {
		return err
	}
	err = in.SetStruct(ctx, key, v, exp)
	if err == nil && c.OnSet != nil {
		c.OnSet([]string{key}, []interface{}{v})
	}
	return err
}
func (c *Cache) SetStructs(ctx context.Context, keys []string, vs []interface{}, exp time.Duration) error {
	in, err := c.pt("SetStructs", keys)
	if err != nil {
		return err
	}
	err = in.SetStructs(ctx, keys, vs, exp)
	if err == nil && c.OnSet != nil {
		c.OnSet(keys, vs)
	}
	return err
}
func (c *Cache) GetStruct(ctx context.Context, key string, target interface{}) (bool, error) {
	in, err := c.pt("GetStruct", []string{key})
	if err != nil {
		return false, err
	}
	return in.GetStruct(ctx, key, target)
}
func (c *Cache) GetStructEx(ctx context.Context, key string, target interface{}, exp time.Duration) (bool, error) {
	in, err := c.pt("GetStructEx", []string{key})
	if err != nil {
		return false, err
	}
	return in.GetStructEx(ctx, key, target, exp)
}
func (c *Cache) GetStructs(ctx context.Context, keys []string, targets []interface{}, exp time.Duration) ([]bool, error) {
	in, err := c.pt("GetStructs", keys)
	if err != nil {
		return nil, err
	}
	return in.GetStructs(ctx, keys, targets, exp)
}
func (c *Cache) Delete(ctx context.Context, keys []string) (bool, error) {
	in, err := c.pt("Delete", keys)
	if err != nil {
		return false, err
	}
	return in.Delete(ctx, keys)
}
func (c *Cache) Ping(ctx context.Context) error { return c.Inner().Ping(ctx) }
func (c *Cache) Clear(ctx context.Context) error {
	in, err := c.pt("Clear", nil)
	if err != nil {
		return err
	}
	return in.Clear(ctx)
}
