module verif.local/mc

go 1.26.4
