// Package fakeredis is a minimal single-threaded RESP2 server implementing exactly the commands sop's Redis
// adapter issues (SET [NX] [PX|EX], GET, GETEX, MGET, DEL, EXISTS, EXPIRE, FLUSHDB, PING, plus the
// handshake commands go-redis sends) over a caller-supplied clock. Its semantics are part of the trusted base.
package fakeredis

import (
	"bufio"
	"fmt"
	"io"
	"net"
	"strconv"
	"strings"
	"sync"
	"time"
)

type entry struct {
	val string
	exp time.Time // zero = no expiry
}

type Server struct {
	mu   sync.Mutex
	data map[string]entry
	Now  func() time.Time
	ln   net.Listener
	// Commands counts executed commands.
	Commands int
}

func Start(now func() time.Time) (*Server, string, error) {
	ln, err := net.Listen("tcp", "127.0.0.1:0")
	if err != nil {
		return nil, "", err
	}
	s := &Server{data: map[string]entry{}, Now: now, ln: ln}
	go func() {
		for {
			c, err := ln.Accept()
			if err != nil {
				return
			}
			go s.serve(c)
		}
	}()
	return s, ln.Addr().String(), nil
}

func (s *Server) Close() { s.ln.Close() }

// Flush empties the database (harness use between executions).
func (s *Server) Flush() { s.mu.Lock(); s.data = map[string]entry{}; s.mu.Unlock() }

func (s *Server) get(k string) (entry, bool) {
	e, ok := s.data[k]
	if !ok {
		return e, false
	}
	if !e.exp.IsZero() && !s.Now().Before(e.exp) {
		delete(s.data, k)
		return entry{}, false
	}
	return e, true
}

func readCmd(r *bufio.Reader) ([]string, error) {
	line, err := r.ReadString('\n')
	if err != nil {
		return nil, err
	}
	line = strings.TrimRight(line, "\r\n")
	if len(line) == 0 || line[0] != '*' {
		return strings.Fields(line), nil
	}
	n, _ := strconv.Atoi(line[1:])
	args := make([]string, 0, n)
	for i := 0; i < n; i++ {
		l, err := r.ReadString('\n')
		if err != nil {
			return nil, err
		}
		l = strings.TrimRight(l, "\r\n")
		if len(l) == 0 || l[0] != '$' {
			return nil, fmt.Errorf("protocol error")
		}
		sz, _ := strconv.Atoi(l[1:])
		buf := make([]byte, sz+2)
		if _, err := io.ReadFull(r, buf); err != nil {
			return nil, err
		}
		args = append(args, string(buf[:sz]))
	}
	return args, nil
}

func bulk(s string) string { return fmt.Sprintf("$%d\r\n%s\r\n", len(s), s) }

func (s *Server) ttlArgs(args []string) (time.Time, bool, bool, error) { // expiry, hasExpiry, nx
	var exp time.Time
	has, nx := false, false
	for i := 0; i < len(args); i++ {
		switch strings.ToUpper(args[i]) {
		case "NX":
			nx = true
		case "PX", "EX":
			if i+1 >= len(args) {
				return exp, false, false, fmt.Errorf("syntax error")
			}
			n, err := strconv.ParseInt(args[i+1], 10, 64)
			if err != nil {
				return exp, false, false, err
			}
			d := time.Duration(n) * time.Millisecond
			if strings.ToUpper(args[i]) == "EX" {
				d = time.Duration(n) * time.Second
			}
			exp = s.Now().Add(d)
			has = true
			i++
		case "PERSIST":
			has = false
		}
	}
	return exp, has, nx, nil
}

func (s *Server) exec(args []string) string {
	s.mu.Lock()
	defer s.mu.Unlock()
	s.Commands++
	if len(args) == 0 {
		return "-ERR empty\r\n"
	}
	switch strings.ToUpper(args[0]) {
	case "HELLO":
		return "-ERR unknown command 'HELLO'\r\n" // forces RESP2
	case "CLIENT", "SELECT", "AUTH":
		return "+OK\r\n"
	case "PING":
		return "+PONG\r\n"
	case "FLUSHDB", "FLUSHALL":
		s.data = map[string]entry{}
		return "+OK\r\n"
	case "SET":
		if len(args) < 3 {
			return "-ERR wrong number of arguments\r\n"
		}
		exp, has, nx, err := s.ttlArgs(args[3:])
		if err != nil {
			return "-ERR " + err.Error() + "\r\n"
		}
		if nx {
			if _, ok := s.get(args[1]); ok {
				return "$-1\r\n"
			}
		}
		e := entry{val: args[2]}
		if has {
			e.exp = exp
		}
		s.data[args[1]] = e
		return "+OK\r\n"
	case "SETNX":
		if _, ok := s.get(args[1]); ok {
			return ":0\r\n"
		}
		s.data[args[1]] = entry{val: args[2]}
		return ":1\r\n"
	case "GET":
		if e, ok := s.get(args[1]); ok {
			return bulk(e.val)
		}
		return "$-1\r\n"
	case "GETEX":
		e, ok := s.get(args[1])
		if !ok {
			return "$-1\r\n"
		}
		exp, has, _, err := s.ttlArgs(args[2:])
		if err != nil {
			return "-ERR " + err.Error() + "\r\n"
		}
		if has {
			e.exp = exp
			s.data[args[1]] = e
		}
		return bulk(e.val)
	case "MGET":
		out := fmt.Sprintf("*%d\r\n", len(args)-1)
		for _, k := range args[1:] {
			if e, ok := s.get(k); ok {
				out += bulk(e.val)
			} else {
				out += "$-1\r\n"
			}
		}
		return out
	case "DEL", "UNLINK":
		n := 0
		for _, k := range args[1:] {
			if _, ok := s.get(k); ok {
				delete(s.data, k)
				n++
			}
		}
		return fmt.Sprintf(":%d\r\n", n)
	case "EXISTS":
		n := 0
		for _, k := range args[1:] {
			if _, ok := s.get(k); ok {
				n++
			}
		}
		return fmt.Sprintf(":%d\r\n", n)
	case "EXPIRE", "PEXPIRE":
		e, ok := s.get(args[1])
		if !ok {
			return ":0\r\n"
		}
		n, _ := strconv.ParseInt(args[2], 10, 64)
		d := time.Duration(n) * time.Second
		if strings.ToUpper(args[0]) == "PEXPIRE" {
			d = time.Duration(n) * time.Millisecond
		}
		e.exp = s.Now().Add(d)
		s.data[args[1]] = e
		return ":1\r\n"
	}
	return "-ERR unknown command '" + args[0] + "'\r\n"
}

func (s *Server) serve(c net.Conn) {
	defer c.Close()
	r := bufio.NewReader(c)
	for {
		args, err := readCmd(r)
		if err != nil {
			return
		}
		if _, err := io.WriteString(c, s.exec(args)); err != nil {
			return
		}
	}
}
