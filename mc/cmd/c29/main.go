// c29: the built-in key comparison (btree.Compare and btree.CoerceComparer(x)) is a total order that agrees
// with the natural order of every supported primitive key type. For every type an edge set (plus small
// exhaustive domains) is enumerated; ALL ordered pairs and ALL ordered triples are checked for every comparer.
// The natural-order oracle below is written independently of cmp.Compare / bytes.Compare / Time.Compare.
package main

import (
	"fmt"
	"math"
	"runtime"
	"sync"
	"time"

	"github.com/google/uuid"
	"github.com/sharedcode/sop"
	"github.com/sharedcode/sop/btree"
	"verif.local/mc/ev"
)

// ---- independent natural-order oracle ----

type integer interface {
	~int | ~int8 | ~int16 | ~int32 | ~int64 | ~uint | ~uint8 | ~uint16 | ~uint32 | ~uint64 | ~uintptr
}

func natInt[T integer](a, b T, _ bool) int {
	if a < b {
		return -1
	}
	if a > b {
		return 1
	}
	return 0
}

// natFloat: NaN sorts before every number and all NaNs are equal (the total order cmp.Compare documents);
// negZeroLess selects the convention for signed zeros: false: -0 == +0, true: -0 < +0.
func natFloat(a, b float64, negZeroLess bool) int {
	an, bn := a != a, b != b
	switch {
	case an && bn:
		return 0
	case an:
		return -1
	case bn:
		return 1
	case a < b:
		return -1
	case a > b:
		return 1
	}
	if negZeroLess && a == 0 {
		sa, sb := math.Signbit(a), math.Signbit(b)
		if sa && !sb {
			return -1
		}
		if !sa && sb {
			return 1
		}
	}
	return 0
}

func natF64(a, b float64, nz bool) int { return natFloat(a, b, nz) }
func natF32(a, b float32, nz bool) int { return natFloat(float64(a), float64(b), nz) }

func natBytes(a, b []byte) int {
	for i := 0; i < len(a) && i < len(b); i++ {
		if a[i] != b[i] {
			if a[i] < b[i] {
				return -1
			}
			return 1
		}
	}
	return natInt(len(a), len(b), false)
}

func natString(a, b string, _ bool) int { return natBytes([]byte(a), []byte(b)) }
func natByteSlice(a, b []byte, _ bool) int {
	return natBytes(a, b)
}
func natSopUUID(a, b sop.UUID, _ bool) int   { return natBytes(a[:], b[:]) }
func natGUUID(a, b uuid.UUID, _ bool) int    { return natBytes(a[:], b[:]) }
func natTime(a, b time.Time, _ bool) int { // chronological order of the instants; zone is irrelevant
	if c := natInt(a.Unix(), b.Unix(), false); c != 0 {
		return c
	}
	return natInt(a.Nanosecond(), b.Nanosecond(), false)
}

func natSlice[T any](elem func(a, b T, nz bool) int) func(a, b []T, nz bool) int {
	return func(a, b []T, nz bool) int {
		for i := 0; i < len(a) && i < len(b); i++ {
			if c := elem(a[i], b[i], nz); c != 0 {
				return c
			}
		}
		return natInt(len(a), len(b), false)
	}
}

// natAny: natural order of two values of the same supported dynamic type (used for []any positions).
func natAny(a, b any, nz bool) int {
	switch x := a.(type) {
	case int:
		return natInt(x, b.(int), nz)
	case int8:
		return natInt(x, b.(int8), nz)
	case int16:
		return natInt(x, b.(int16), nz)
	case int32:
		return natInt(x, b.(int32), nz)
	case int64:
		return natInt(x, b.(int64), nz)
	case uint:
		return natInt(x, b.(uint), nz)
	case uint8:
		return natInt(x, b.(uint8), nz)
	case uint16:
		return natInt(x, b.(uint16), nz)
	case uint32:
		return natInt(x, b.(uint32), nz)
	case uint64:
		return natInt(x, b.(uint64), nz)
	case uintptr:
		return natInt(x, b.(uintptr), nz)
	case float32:
		return natF32(x, b.(float32), nz)
	case float64:
		return natF64(x, b.(float64), nz)
	case string:
		return natString(x, b.(string), nz)
	case sop.UUID:
		return natSopUUID(x, b.(sop.UUID), nz)
	case uuid.UUID:
		return natGUUID(x, b.(uuid.UUID), nz)
	case time.Time:
		return natTime(x, b.(time.Time), nz)
	case []byte:
		return natBytes(x, b.([]byte))
	case []string:
		return natSlice(natString)(x, b.([]string), nz)
	case []int:
		return natSlice(natInt[int])(x, b.([]int), nz)
	case []float64:
		return natSlice(natF64)(x, b.([]float64), nz)
	case []float32:
		return natSlice(natF32)(x, b.([]float32), nz)
	case []any:
		return natSlice(natAny)(x, b.([]any), nz)
	}
	panic(fmt.Sprintf("oracle: unsupported type %T", a))
}

// ---- families ----

type family struct {
	name string
	vals []any
	nat  func(a, b any, nz bool) int
	// coerceFrom: indexes of the values x for which CoerceComparer(x) is built (all values unless the family is a
	// large exhaustive domain, where the edge subset is used; every closure of one type is the same code).
	coerceFrom []int
	judged     bool // false: informational probe of a type outside the supported list
}

func fam[T any](name string, vals []T, nat func(a, b T, nz bool) int) family {
	f := family{name: name, judged: true}
	for i, v := range vals {
		f.vals = append(f.vals, any(v))
		f.coerceFrom = append(f.coerceFrom, i)
	}
	f.nat = func(a, b any, nz bool) int { return nat(a.(T), b.(T), nz) }
	return f
}

func show(v any) string {
	switch x := v.(type) {
	case float64:
		if x != x || (x == 0 && math.Signbit(x)) {
			return fmt.Sprintf("float64(%v bits=%016x)", x, math.Float64bits(x))
		}
		return fmt.Sprintf("float64(%v)", x)
	case float32:
		if x != x || (x == 0 && math.Signbit(float64(x))) {
			return fmt.Sprintf("float32(%v bits=%08x)", x, math.Float32bits(x))
		}
		return fmt.Sprintf("float32(%v)", x)
	case time.Time:
		return "time(" + x.Format(time.RFC3339Nano) + ")"
	case sop.UUID:
		return "sop.UUID(" + x.String() + ")"
	case uuid.UUID:
		return "uuid.UUID(" + x.String() + ")"
	case []any:
		s := "[]any{"
		for i, e := range x {
			if i > 0 {
				s += ", "
			}
			s += show(e)
		}
		if x == nil {
			return "[]any(nil)"
		}
		return s + "}"
	case []float64:
		s := "[]float64{"
		for i, e := range x {
			if i > 0 {
				s += ", "
			}
			s += show(e)
		}
		return s + "}"
	case []float32:
		s := "[]float32{"
		for i, e := range x {
			if i > 0 {
				s += ", "
			}
			s += show(e)
		}
		return s + "}"
	}
	switch v.(type) {
	case []byte, []string, []int, []int64, []uint, []sop.UUID, []time.Time:
		return fmt.Sprintf("%#v", v)
	}
	return fmt.Sprintf("%T(%#v)", v, v)
}

func intEdges[T integer](min, max T) []T {
	var one T = 1
	if min == 0 { // unsigned
		return []T{0, 1, 2, max / 2, max/2 + 1, max - 1, max}
	}
	return []T{min, min + 1, 0 - one, 0, 1, max - 1, max}
}

// seqs: all sequences over alphabet with length 0..maxLen, in length-then-lexicographic index order, plus nil first.
func seqs[T any](alphabet []T, maxLen int) [][]T {
	out := [][]T{nil, {}}
	var level [][]T = [][]T{{}}
	for l := 1; l <= maxLen; l++ {
		var next [][]T
		for _, p := range level {
			for _, a := range alphabet {
				s := append(append([]T{}, p...), a)
				next = append(next, s)
			}
		}
		out = append(out, next...)
		level = next
	}
	return out
}

func u(bytes ...byte) (r [16]byte) { copy(r[:], bytes); return }
func uTail(b byte) (r [16]byte)    { r[15] = b; return }

func families(thorough bool) []family {
	var fs []family
	nan := math.NaN()
	nan2 := math.Float64frombits(0x7fffffffffffffff) // another NaN payload (math.NaN() is 0x7ff8000000000001)
	nanNeg := math.Float64frombits(0xfff8000000000000)
	negZero := math.Copysign(0, -1)
	nan32 := float32(math.NaN())
	nan32b := math.Float32frombits(0xffc00001)
	negZero32 := float32(math.Copysign(0, -1))

	fs = append(fs,
		fam("int", intEdges[int](math.MinInt, math.MaxInt), natInt[int]),
		fam("int8", intEdges[int8](math.MinInt8, math.MaxInt8), natInt[int8]),
		fam("int16", intEdges[int16](math.MinInt16, math.MaxInt16), natInt[int16]),
		fam("int32", intEdges[int32](math.MinInt32, math.MaxInt32), natInt[int32]),
		fam("int64", intEdges[int64](math.MinInt64, math.MaxInt64), natInt[int64]),
		fam("uint", intEdges[uint](0, math.MaxUint), natInt[uint]),
		fam("uint8", intEdges[uint8](0, math.MaxUint8), natInt[uint8]),
		fam("uint16", intEdges[uint16](0, math.MaxUint16), natInt[uint16]),
		fam("uint32", intEdges[uint32](0, math.MaxUint32), natInt[uint32]),
		fam("uint64", intEdges[uint64](0, math.MaxUint64), natInt[uint64]),
		fam("uintptr", intEdges[uintptr](0, math.MaxUint), natInt[uintptr]),
	)
	// exhaustive 8-bit domains
	var all8 []int8
	var allU8 []uint8
	for i := -128; i <= 127; i++ {
		all8 = append(all8, int8(i))
	}
	for i := 0; i <= 255; i++ {
		allU8 = append(allU8, uint8(i))
	}
	f8 := fam("int8/all-256-values", all8, natInt[int8])
	f8.coerceFrom = []int{0, 1, 127, 128, 129, 254, 255}
	fu8 := fam("uint8/all-256-values", allU8, natInt[uint8])
	fu8.coerceFrom = []int{0, 1, 2, 127, 128, 254, 255}
	fs = append(fs, f8, fu8)

	f64 := []float64{nan, nan2, nanNeg, math.Inf(-1), -math.MaxFloat64, -1, -math.SmallestNonzeroFloat64, negZero, 0, math.SmallestNonzeroFloat64, 2.2250738585072014e-308, 1, math.Nextafter(1, 2), math.MaxFloat64, math.Inf(1)}
	f32 := []float32{nan32, nan32b, float32(math.Inf(-1)), -math.MaxFloat32, -1, -math.SmallestNonzeroFloat32, negZero32, 0, math.SmallestNonzeroFloat32, 1.17549435e-38, 1, math.Nextafter32(1, 2), math.MaxFloat32, float32(math.Inf(1))}
	fs = append(fs, fam("float64", f64, natF64), fam("float32", f32, natF32))

	strs := []string{"", "\x00", "A", "a", "a\x00", "a\x00b", "aa", "ab", "b", "\u00e9", "~", "\x7f", "e\u0301", "\xff", "\U0001F600"}
	fs = append(fs, fam("string", strs, natString))

	uu := [][16]byte{{}, uTail(1), uTail(0xff), func() (r [16]byte) { r[14] = 1; return }(), func() (r [16]byte) { r[8] = 1; return }(), func() (r [16]byte) { r[7] = 0xff; return }(),
		u(0x7f, 0xff, 0xff, 0xff, 0xff, 0xff, 0xff, 0xff, 0xff, 0xff, 0xff, 0xff, 0xff, 0xff, 0xff, 0xff), u(0x80), u(0x80, 0, 0, 0, 0, 0, 0, 0, 0, 0, 0, 0, 0, 0, 0, 1),
		u(0xff, 0xff, 0xff, 0xff, 0xff, 0xff, 0xff, 0xff, 0xff, 0xff, 0xff, 0xff, 0xff, 0xff, 0xff, 0xff)}
	var su []sop.UUID
	var gu []uuid.UUID
	for _, x := range uu {
		su = append(su, sop.UUID(x))
		gu = append(gu, uuid.UUID(x))
	}
	fs = append(fs, fam("sop.UUID", su, natSopUUID), fam("uuid.UUID", gu, natGUUID))

	east := time.FixedZone("east", 5*3600+1800)
	west := time.FixedZone("west", -8*3600)
	epoch := time.Unix(0, 0).UTC()
	times := []time.Time{
		{}, time.Date(1, 1, 1, 0, 0, 0, 0, time.UTC), time.Date(1, 1, 1, 5, 30, 0, 0, east), // three spellings of the zero instant
		time.Unix(-1, 999999999).UTC(), epoch, epoch.In(east), epoch.In(west), time.Unix(0, 0), time.Unix(0, 1).In(west),
		time.Date(2024, 2, 29, 23, 59, 59, 999999999, east), time.Date(2024, 3, 1, 0, 0, 0, 0, west), time.Date(2024, 2, 29, 18, 29, 59, 999999999, time.UTC),
		time.Date(9999, 12, 31, 23, 59, 59, 0, time.UTC), time.Date(-200, 1, 1, 0, 0, 0, 0, time.UTC), time.Unix(1<<40, 0).UTC(),
	}
	fs = append(fs, fam("time.Time", times, natTime))

	// slices: hand-picked edges
	fs = append(fs,
		fam("[]byte", [][]byte{nil, {}, {0}, {0, 0}, {0, 1}, {1}, {0x7f}, {0x80}, {0xff}, {0xff, 0}, []byte("a"), []byte("ab")}, natByteSlice),
		fam("[]string", [][]string{nil, {}, {""}, {"", ""}, {"", "a"}, {"a"}, {"a", ""}, {"a", "b"}, {"a\x00"}, {"ab"}, {"b"}, {"\u00e9"}, {"\xff", ""}}, natSlice(natString)),
		fam("[]int", [][]int{nil, {}, {math.MinInt}, {math.MinInt, math.MaxInt}, {-1}, {-1, 5}, {0}, {0, math.MinInt}, {0, 0}, {1}, {9}, {10}, {math.MaxInt}, {math.MaxInt, 0}}, natSlice(natInt[int])),
		fam("[]float64", [][]float64{nil, {}, {nan}, {nan, 1}, {nan2, nan}, {nan, nan, 0}, {math.Inf(-1)}, {negZero}, {0}, {negZero, 1}, {0, 0}, {0, math.Inf(-1)}, {negZero, negZero}, {math.SmallestNonzeroFloat64}, {1}, {1, nan}, {1, negZero}, {math.Inf(1)}}, natSlice(natF64)),
		fam("[]float32", [][]float32{nil, {}, {nan32}, {nan32, 1}, {nan32b, nan32}, {float32(math.Inf(-1))}, {negZero32}, {0}, {negZero32, 1}, {0, 0}, {0, float32(math.Inf(-1))}, {math.SmallestNonzeroFloat32}, {1}, {1, nan32}, {float32(math.Inf(1))}}, natSlice(natF32)),
	)
	// slices: exhaustive sequences over small alphabets (prefixes of each other included by construction)
	L := 2
	if thorough {
		L = 3
	}
	lim := func(f family) family { // coerced comparers from the first 12 values (same code for every value of a type)
		if len(f.coerceFrom) > 12 {
			f.coerceFrom = f.coerceFrom[:12]
		}
		return f
	}
	fs = append(fs,
		lim(fam(fmt.Sprintf("[]byte/all-seqs-len<=%d", L+1), seqs([]byte{0, 1, 0xff}, L+1), natByteSlice)),
		lim(fam(fmt.Sprintf("[]string/all-seqs-len<=%d", L), seqs([]string{"", "a", "a\x00", "b"}, L), natSlice(natString))),
		lim(fam(fmt.Sprintf("[]int/all-seqs-len<=%d", L), seqs([]int{math.MinInt, -1, 0, 1, math.MaxInt}, L), natSlice(natInt[int]))),
		lim(fam(fmt.Sprintf("[]float64/all-seqs-len<=%d", L), seqs([]float64{nan, negZero, 0, 1, math.Inf(1)}, L), natSlice(natF64))),
		lim(fam(fmt.Sprintf("[]float32/all-seqs-len<=%d", L), seqs([]float32{nan32, negZero32, 0, 1, float32(math.Inf(1))}, L), natSlice(natF32))),
	)

	// []any with equal-typed positions
	anyF := func(name string, vals [][]any) family { return fam(name, vals, natSlice(natAny)) }
	fs = append(fs,
		anyF("[]any/ints", [][]any{nil, {}, {math.MinInt}, {-1}, {-1, 5}, {0}, {0, 0}, {0, math.MinInt}, {1}, {9}, {10}, {math.MaxInt}}),
		anyF("[]any/(string,int,float64)", [][]any{nil, {}, {""}, {"", math.MaxInt}, {"a"}, {"a", -1}, {"a", -1, 1.5}, {"a", 1}, {"a", 1, nan}, {"a", 1, negZero}, {"a", 1, 0.0}, {"a", 1, 1.0}, {"a", 2}, {"a\x00", 0}, {"b"}}),
		anyF("[]any/(time,sop.UUID,uuid.UUID)", [][]any{{}, {epoch}, {epoch.In(east)}, {epoch, su[1]}, {epoch.In(west), su[1], gu[2]}, {epoch.In(east), su[1], gu[1]}, {epoch, su[7]}, {time.Unix(0, 1).UTC()}, {time.Unix(0, 1).In(east), su[0]}, {time.Time{}, su[9], gu[9]}}),
		anyF("[]any/(int8,uint64,float32,int64)", [][]any{{}, {int8(-128)}, {int8(-128), uint64(math.MaxUint64)}, {int8(-1), uint64(0), nan32}, {int8(-1), uint64(0), negZero32}, {int8(-1), uint64(0), float32(0)}, {int8(-1), uint64(0), float32(0), int64(math.MinInt64)}, {int8(-1), uint64(1)}, {int8(0)}, {int8(127), uint64(math.MaxInt64) + 1}, {int8(127), uint64(math.MaxInt64)}}),
		anyF("[]any/nested([]any,[]byte,[]int,[]string,[]float64)", [][]any{{}, {[]any{}}, {[]any{1}}, {[]any{1, "a"}}, {[]any{1, "a"}, []byte{}}, {[]any{1, "a"}, []byte{0}}, {[]any{1, "a"}, []byte{0}, []int{-1}}, {[]any{1, "a"}, []byte{0}, []int{-1}, []string{"x"}},
			{[]any{1, "a"}, []byte{0}, []int{-1}, []string{"x"}, []float64{nan}}, {[]any{1, "a"}, []byte{0}, []int{-1}, []string{"x"}, []float64{negZero}}, {[]any{1, "a"}, []byte{0}, []int{-1}, []string{"x"}, []float64{0}},
			{[]any{1, "a"}, []byte{0}, []int{-1}, []string{"x", ""}}, {[]any{1, "a"}, []byte{0}, []int{0}}, {[]any{1, "b"}}, {[]any{2}}, {[]any{2, "a"}}}),
	)
	// exhaustive composite keys: every prefix of the product of three small position domains
	p0 := []any{"", "a", "b"}
	p1 := []any{math.MinInt, 0, math.MaxInt}
	p2 := []any{nan, negZero, 0.0, 1.0}
	if thorough {
		p0 = []any{"", "a", "a\x00", "b", "\u00e9"}
		p1 = []any{math.MinInt, -1, 0, 1, math.MaxInt}
		p2 = []any{nan, math.Inf(-1), negZero, 0.0, math.SmallestNonzeroFloat64, 1.0, math.Inf(1)}
	}
	comp := [][]any{nil, {}}
	for _, a := range p0 {
		comp = append(comp, []any{a})
		for _, b := range p1 {
			comp = append(comp, []any{a, b})
			for _, c := range p2 {
				comp = append(comp, []any{a, b, c})
			}
		}
	}
	fs = append(fs, lim(anyF("[]any/all-prefixes-of(string x int x float64)", comp)))

	// informational probe (NOT judged): typed slices outside the supported list fall back to comparing fmt "%v" strings
	probe := func(f family) family { f.judged = false; return lim(f) }
	fs = append(fs,
		probe(fam("probe:[]int64", [][]int64{nil, {}, {-10}, {-9}, {-1}, {0}, {9}, {10}, {9, 0}, {100}}, natSlice(natInt[int64]))),
		probe(fam("probe:[]uint", [][]uint{nil, {}, {0}, {9}, {10}, {9, 0}, {100}}, natSlice(natInt[uint]))),
		probe(fam("probe:[]sop.UUID", [][]sop.UUID{nil, {}, {su[0]}, {su[1]}, {su[7]}, {su[1], su[0]}, {su[9]}}, natSlice(natSopUUID))),
		probe(fam("probe:[]time.Time", [][]time.Time{nil, {}, {epoch}, {epoch.In(east)}, {time.Unix(0, 1).UTC()}, {time.Date(9999, 1, 1, 0, 0, 0, 0, time.UTC)}, {time.Date(10000, 1, 1, 0, 0, 0, 0, time.UTC)}}, natSlice(natTime))),
	)
	return fs
}

// ---- checking ----

func sgn(x int) int {
	if x < 0 {
		return -1
	}
	if x > 0 {
		return 1
	}
	return 0
}

type comparer struct {
	kind string // "Compare" or "CoerceComparer"
	from int    // index of x for CoerceComparer(x); -1 for Compare
	f    func(a, b any) int
}

type stats struct {
	calls, pairs, triples, nontrivialTriples, distinctPairs int64
	probe                                                   map[string]any
}

const panicked = 99

func matrix(c comparer, vals []any, reverse bool) [][]int8 {
	n := len(vals)
	m := make([][]int8, n)
	for i := range m {
		m[i] = make([]int8, n)
	}
	call := func(i, j int) (r int8) {
		defer func() {
			if recover() != nil {
				r = panicked
			}
		}()
		return int8(sgn(c.f(vals[i], vals[j])))
	}
	if !reverse {
		for i := 0; i < n; i++ {
			for j := 0; j < n; j++ {
				m[i][j] = call(i, j)
			}
		}
	} else {
		for i := n - 1; i >= 0; i-- {
			for j := n - 1; j >= 0; j-- {
				m[i][j] = call(i, j)
			}
		}
	}
	return m
}

func checkFamily(run *ev.Run, f family, st *stats) {
	n := len(f.vals)
	cs := []comparer{{"Compare", -1, btree.Compare}}
	for _, i := range f.coerceFrom {
		cs = append(cs, comparer{"CoerceComparer", i, btree.CoerceComparer(f.vals[i])})
	}
	// oracle matrices under both signed-zero conventions
	nat := [2][][]int8{}
	for conv := 0; conv < 2; conv++ {
		nat[conv] = make([][]int8, n)
		for i := 0; i < n; i++ {
			nat[conv][i] = make([]int8, n)
			for j := 0; j < n; j++ {
				nat[conv][i][j] = int8(f.nat(f.vals[i], f.vals[j], conv == 1))
			}
		}
	}
	var local stats
	local.distinctPairs = int64(n * (n - 1) / 2)
	var ref [][]int8
	probeInfo := map[string]any{}
	for ci, c := range cs {
		viol := func(axiom string, idx []int, detail string) {
			var vs []string
			for _, i := range idx {
				vs = append(vs, show(f.vals[i]))
			}
			if !f.judged {
				if _, ok := probeInfo[axiom]; !ok {
					probeInfo[axiom] = fmt.Sprintf("%s; e.g. values %v", detail, vs)
				}
				return
			}
			cn := c.kind
			replay := map[string]any{"type": f.name, "comparer": cn, "values": vs, "axiom": axiom}
			if c.from >= 0 {
				replay["coerced_from"] = show(f.vals[c.from])
			}
			run.Violate(ev.Violation{Sig: axiom + "|" + f.name + "|" + cn, Detail: fmt.Sprintf("%s violated by btree.%s on %s: %s (values %v)", axiom, cn, f.name, detail, vs), Replay: replay})
		}
		m := matrix(c, f.vals, false)
		m2 := matrix(c, f.vals, true)
		local.calls += 2 * int64(n*n)
		mism := [2]int{}
		first := [2][2]int{{-1, -1}, {-1, -1}}
		for i := 0; i < n; i++ {
			for j := 0; j < n; j++ {
				local.pairs++
				if m[i][j] == panicked {
					viol("panic", []int{i, j}, "comparison panicked")
					continue
				}
				if m[i][j] != m2[i][j] {
					viol("deterministic", []int{i, j}, fmt.Sprintf("c(x,y) gave %d and then %d for the same arguments", m[i][j], m2[i][j]))
				}
				if i == j && m[i][i] != 0 {
					viol("reflexive", []int{i}, fmt.Sprintf("c(x,x)=%d", m[i][i]))
				}
				if m[i][j] != -m[j][i] {
					viol("antisymmetric", []int{i, j}, fmt.Sprintf("sign c(x,y)=%d but sign c(y,x)=%d", m[i][j], m[j][i]))
				}
				for conv := 0; conv < 2; conv++ {
					if m[i][j] != nat[conv][i][j] {
						if mism[conv] == 0 {
							first[conv] = [2]int{i, j}
						}
						mism[conv]++
					}
				}
			}
		}
		if mism[0] > 0 && mism[1] > 0 {
			i, j := first[0][0], first[0][1]
			viol("natural-order", []int{i, j}, fmt.Sprintf("sign c(x,y)=%d, natural order says %d (%d of %d ordered pairs disagree when -0 == +0, %d when -0 < +0)", m[i][j], nat[0][i][j], mism[0], n*n, mism[1]))
		}
		for i := 0; i < n; i++ {
			for j := 0; j < n; j++ {
				if m[i][j] > 0 {
					local.triples += int64(n)
					continue
				}
				for k := 0; k < n; k++ {
					if m[j][k] <= 0 && m[i][k] > 0 {
						viol("transitive", []int{i, j, k}, fmt.Sprintf("c(x,y)=%d, c(y,z)=%d but c(x,z)=%d", m[i][j], m[j][k], m[i][k]))
					}
				}
				local.triples += int64(n)
			}
		}
		if ci == 0 {
			ref = m
			local.nontrivialTriples += int64(n*n*n - n)
		} else {
			for i := 0; i < n; i++ {
				for j := 0; j < n; j++ {
					if m[i][j] != ref[i][j] {
						viol("compare-vs-coerced", []int{i, j}, fmt.Sprintf("Compare gives %d, CoerceComparer(%s) gives %d", ref[i][j], show(f.vals[c.from]), m[i][j]))
					}
				}
			}
		}
	}
	st.calls += local.calls
	st.pairs += local.pairs
	st.triples += local.triples
	if f.judged {
		st.nontrivialTriples += local.nontrivialTriples
		st.distinctPairs += local.distinctPairs
	} else {
		if len(probeInfo) == 0 {
			probeInfo["result"] = "total order agreeing with the element-wise natural order on the probed values"
		}
		st.probe[f.name] = probeInfo
	}
}

// exhaustive16: ALL ordered pairs of a 16-bit integer type (thorough tier), streamed. On a domain where the sign of
// every pair equals the (transitive) natural order, reflexivity, antisymmetry and transitivity follow for the whole domain.
func exhaustive16[T int16 | uint16](run *ev.Run, name string, lo int) int64 {
	boxed := make([]any, 65536)
	vals := make([]T, 65536)
	for i := range boxed {
		vals[i] = T(lo + i)
		boxed[i] = any(vals[i])
	}
	cs := []comparer{{"Compare", -1, btree.Compare}, {"CoerceComparer", 0, btree.CoerceComparer(boxed[0])}, {"CoerceComparer", 65535, btree.CoerceComparer(boxed[65535])}}
	var wg sync.WaitGroup
	nw := runtime.NumCPU()
	for w := 0; w < nw; w++ {
		wg.Add(1)
		go func(w int) {
			defer wg.Done()
			for i := w; i < 65536; i += nw {
				for j := 0; j < 65536; j++ {
					want := natInt(vals[i], vals[j], false)
					for _, c := range cs {
						if got := sgn(c.f(boxed[i], boxed[j])); got != want {
							run.Violate(ev.Violation{Sig: "natural-order|" + name + "/all-65536-values|" + c.kind, Detail: fmt.Sprintf("btree.%s(%v,%v) has sign %d, natural order says %d", c.kind, vals[i], vals[j], got, want),
								Replay: map[string]any{"type": name, "comparer": c.kind, "values": []string{fmt.Sprint(vals[i]), fmt.Sprint(vals[j])}, "axiom": "natural-order"}})
						}
					}
				}
			}
		}(w)
	}
	wg.Wait()
	return int64(len(cs)) * 65536 * 65536
}

func main() {
	run := ev.New("C29", "exploration")
	fams := families(run.Thorough())
	var mu sync.Mutex
	total := stats{probe: map[string]any{}}
	sem := make(chan struct{}, runtime.NumCPU())
	var wg sync.WaitGroup
	sizes := map[string]int{}
	for _, f := range fams {
		sizes[f.name] = len(f.vals)
		wg.Add(1)
		sem <- struct{}{}
		go func(f family) {
			defer wg.Done()
			defer func() { <-sem }()
			st := stats{probe: map[string]any{}}
			checkFamily(run, f, &st)
			mu.Lock()
			total.calls += st.calls
			total.pairs += st.pairs
			total.triples += st.triples
			total.nontrivialTriples += st.nontrivialTriples
			total.distinctPairs += st.distinctPairs
			for k, v := range st.probe {
				total.probe[k] = v
			}
			mu.Unlock()
		}(f)
	}
	wg.Wait()
	for i, f := range fams {
		if i == 12 || i == 13 || i == 16 || i == 21 || i == 28 || i == 30 {
			var vs []string
			for j, v := range f.vals {
				if j >= 16 {
					vs = append(vs, fmt.Sprintf("... %d more", len(f.vals)-j))
					break
				}
				vs = append(vs, show(v))
			}
			run.Sample(map[string]any{"type": f.name, "values": vs})
		}
	}
	if run.Thorough() {
		n := exhaustive16[int16](run, "int16", math.MinInt16) + exhaustive16[uint16](run, "uint16", 0)
		total.calls += n
		total.pairs += n
		total.distinctPairs += 2 * (65536 * 65535 / 2)
		sizes["int16/all-65536-values (pairs only)"] = 65536
		sizes["uint16/all-65536-values (pairs only)"] = 65536
	}
	run.Set("types_and_edge_set_sizes", sizes)
	run.Set("comparator_calls", total.calls)
	run.Set("ordered_pairs_checked", total.pairs)
	run.Set("ordered_triples_checked", total.triples)
	run.Set("distinct_unordered_value_pairs", total.distinctPairs)
	run.Add("evaluations", total.pairs+total.triples)
	run.Set("distinct_nontrivial", total.nontrivialTriples)
	run.Set("not_judged_fallback_probe", total.probe)
	run.Set("rule", "per supported type an edge set (and small exhaustive domains: all int8/uint8 values, all sequences up to a length over small alphabets, all prefixes of a 3-position composite key); for btree.Compare and for btree.CoerceComparer(x) of every x (first 12 x for the large domains) the full sign matrix over ALL ordered pairs is computed twice (forward and reverse call order) and checked for reflexivity, antisymmetry, agreement with an independently written natural order and agreement between Compare and the coerced comparer; transitivity is checked on ALL ordered triples of the matrix. distinct_nontrivial = ordered triples (x,y,z) of values of one judged type that are not all the same value, counted once per type")
	run.Assumption("natural order: integers/floats by value with NaN below every number and all NaNs equal (cmp.Compare's documented order); strings, []byte and UUIDs bytewise; time.Time by instant (zone ignored; only values without monotonic clock reading, which cannot be built deterministically); slices lexicographic with a proper prefix first and nil == empty")
	run.Assumption("signed zero: the statement does not fix -0 vs +0, so a comparer passes if it agrees on ALL pairs of a type with the order where -0 == +0 or on ALL pairs with the order where -0 < +0 (the order axioms are checked regardless)")
	run.Assumption("[]any keys are checked with equal dynamic types at equal positions (composite keys); nil elements and mixed types at one position are outside the statement")
	run.Assumption("typed slices outside the supported list ([]int64, []uint, []sop.UUID, []time.Time ...) use the documented fmt %v string fallback; they are probed and reported under not_judged_fallback_probe but not judged")
	run.Finish()
}
