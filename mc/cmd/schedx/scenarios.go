package main

import (
	"time"

	"github.com/sharedcode/sop"
	"verif.local/mc/txn"
)

func kv(pairs ...any) []txn.KV {
	var r []txn.KV
	for i := 0; i < len(pairs); i += 2 {
		r = append(r, txn.KV{K: pairs[i].(int), V: pairs[i+1].(string)})
	}
	return r
}

func W(name string, ops ...txn.Op) txn.Prog {
	return txn.Prog{Name: name, Mode: sop.ForWriting, Ops: ops, End: "commit"}
}
func WR(name string, ops ...txn.Op) txn.Prog {
	return txn.Prog{Name: name, Mode: sop.ForWriting, Ops: ops, End: "rollback"}
}
func R(name string, ops ...txn.Op) txn.Prog {
	return txn.Prog{Name: name, Mode: sop.ForReading, Ops: ops, End: "commit"}
}
func N(name string, ops ...txn.Op) txn.Prog {
	return txn.Prog{Name: name, Mode: sop.NoCheck, Ops: ops, End: "commit"}
}
func op(kind, store string, k int, v ...string) txn.Op {
	o := txn.Op{Kind: kind, Store: store, K: k}
	if len(v) > 0 {
		o.V = v[0]
	}
	return o
}

func store(name string, slot int, place string, initial ...any) txn.StoreSpec {
	return txn.StoreSpec{Name: name, Slot: slot, Unique: true, Place: place, Initial: kv(initial...)}
}

func scenariosFor(prop string, thorough bool) []*scenario {
	if prop == "C37" {
		// the commit-protocol monitor rides on the committer scenarios of C02 and C04
		out := append(scenariosFor("C02", thorough), scenariosFor("C04", thorough)...)
		var keep []*scenario
		for _, s := range out {
			if len(s.Env) == 0 {
				keep = append(keep, s)
			}
		}
		return keep
	}
	var out []*scenario
	add := func(s *scenario) { out = append(out, s) }
	switch prop {
	case "C02":
		add(&scenario{Name: "lost-update-same-key", Bound: 2, Stores: []txn.StoreSpec{store("a", 4, "node", 1, "x", 2, "y")},
			Progs: []txn.Prog{W("T1", op("rmw", "a", 1, "+1")), W("T2", op("rmw", "a", 1, "+2"))}})
		add(&scenario{Name: "write-skew-one-node", Stores: []txn.StoreSpec{store("a", 4, "node", 1, "x", 2, "y")},
			Progs: []txn.Prog{W("T1", op("get", "a", 1), op("update", "a", 2, "t1")), W("T2", op("get", "a", 2), op("update", "a", 1, "t2"))}})
		add(&scenario{Name: "write-skew-sibling-nodes", Stores: []txn.StoreSpec{store("a", 2, "node", 1, "a", 2, "b", 3, "c", 4, "d", 5, "e")},
			Progs: []txn.Prog{W("T1", op("get", "a", 1), op("update", "a", 5, "t1")), W("T2", op("get", "a", 5), op("update", "a", 1, "t2"))}})
		add(&scenario{Name: "write-skew-two-stores", Stores: []txn.StoreSpec{store("a", 4, "node", 1, "x"), store("b", 4, "node", 1, "y")},
			Progs: []txn.Prog{W("T1", op("get", "a", 1), op("update", "b", 1, "t1")), W("T2", op("get", "b", 1), op("update", "a", 1, "t2"))}})
		add(&scenario{Name: "reader-vs-atomic-pair", Stores: []txn.StoreSpec{store("a", 4, "node", 1, "x", 2, "y")},
			Progs: []txn.Prog{W("T1", op("update", "a", 1, "n1"), op("update", "a", 2, "n2")), R("R", op("get", "a", 1), op("get", "a", 2))}})
		add(&scenario{Name: "reader-vs-pair-two-stores", Stores: []txn.StoreSpec{store("a", 4, "node", 1, "x"), store("b", 4, "segment", 1, "y")},
			Progs: []txn.Prog{W("T1", op("update", "a", 1, "n1"), op("update", "b", 1, "n2")), R("R", op("get", "a", 1), op("get", "b", 1))}})
		add(&scenario{Name: "add-remove-vs-rmw", Stores: []txn.StoreSpec{store("a", 2, "node", 1, "a", 2, "b", 3, "c")},
			Progs: []txn.Prog{W("T1", op("remove", "a", 2), op("add", "a", 4, "t1")), W("T2", op("rmw", "a", 2, "+2"), op("get", "a", 3))}})
		add(&scenario{Name: "segment-values-rmw", Stores: []txn.StoreSpec{store("a", 4, "segment", 1, "x", 2, "y")},
			Progs: []txn.Prog{W("T1", op("rmw", "a", 1, "+1")), W("T2", op("rmw", "a", 1, "+2"))}})
		add(&scenario{Name: "same-node-writers-with-20m-stall", Env: []string{"advance-20m"}, Stores: []txn.StoreSpec{store("a", 4, "node", 1, "a", 2, "b")},
			Progs: []txn.Prog{W("T1", op("rmw", "a", 1, "+1")), W("T2", op("update", "a", 2, "w2"))}})
		add(&scenario{Name: "three-writers-rmw", Stores: []txn.StoreSpec{store("a", 4, "node", 1, "x", 2, "y")},
			Progs: []txn.Prog{W("T1", op("rmw", "a", 1, "+1")), W("T2", op("rmw", "a", 1, "+2")), W("T3", op("get", "a", 1), op("update", "a", 2, "t3"))}})
	case "C04":
		add(&scenario{Name: "adds-one-leaf", Bound: 2, Stores: []txn.StoreSpec{store("a", 4, "node", 1, "x", 2, "y")},
			Progs: []txn.Prog{W("T1", op("add", "a", 3, "t1")), W("T2", op("add", "a", 4, "t2"))}})
		add(&scenario{Name: "adds-split-same-leaf", Stores: []txn.StoreSpec{store("a", 2, "node", 1, "x", 2, "y")},
			Progs: []txn.Prog{W("T1", op("add", "a", 3, "t1")), W("T2", op("add", "a", 4, "t2"))}})
		add(&scenario{Name: "first-root-of-empty-store", Stores: []txn.StoreSpec{store("a", 4, "node")},
			Progs: []txn.Prog{W("T1", op("add", "a", 1, "t1")), W("T2", op("add", "a", 2, "t2"))}})
		add(&scenario{Name: "update-vs-remove-disjoint", Stores: []txn.StoreSpec{store("a", 2, "node", 1, "a", 2, "b", 3, "c", 4, "d", 5, "e")},
			Progs: []txn.Prog{W("T1", op("update", "a", 1, "t1")), W("T2", op("remove", "a", 5))}})
		add(&scenario{Name: "removes-emptying-siblings", Stores: []txn.StoreSpec{store("a", 2, "node", 1, "a", 2, "b", 3, "c", 4, "d", 5, "e")},
			Progs: []txn.Prog{W("T1", op("remove", "a", 1)), W("T2", op("remove", "a", 5))}})
		// two-level trees: the first committer splits a leaf below the root (and restructures the parent) that the
		// second writer only read on its way down
		add(&scenario{Name: "adds-split-leaf-below-root-slot2", Stores: []txn.StoreSpec{store("a", 2, "node", 10, "a", 20, "b", 30, "c", 40, "d", 50, "e")},
			Progs: []txn.Prog{W("T1", op("add", "a", 60, "t1"), op("add", "a", 70, "t1")), W("T2", op("add", "a", 80, "t2"))}})
		add(&scenario{Name: "adds-split-leaf-below-root-slot4", Stores: []txn.StoreSpec{store("a", 4, "node", 10, "a", 20, "b", 30, "c", 40, "d", 50, "e", 60, "f", 70, "g", 80, "h")},
			Progs: []txn.Prog{W("T1", op("add", "a", 61, "t1"), op("add", "a", 62, "t1")), W("T2", op("add", "a", 85, "t2"))}})
		add(&scenario{Name: "adds-segment-values", Stores: []txn.StoreSpec{store("a", 2, "segment", 1, "x", 2, "y")},
			Progs: []txn.Prog{W("T1", op("add", "a", 3, "t1")), W("T2", op("add", "a", 4, "t2"))}})
		add(&scenario{Name: "three-adders", Stores: []txn.StoreSpec{store("a", 2, "node", 1, "x", 2, "y")},
			Progs: []txn.Prog{W("T1", op("add", "a", 3, "t1")), W("T2", op("add", "a", 4, "t2")), W("T3", op("add", "a", 5, "t3"))}})
	case "C05":
		for _, v := range []struct {
			n    string
			init []any
		}{{"empty-no-root", nil}, {"with-neighbours", []any{4, "x", 6, "y"}}} {
			add(&scenario{Name: "add-add-" + v.n, Stores: []txn.StoreSpec{store("a", 4, "node", v.init...)},
				Progs: []txn.Prog{W("T1", op("add", "a", 5, "t1")), W("T2", op("add", "a", 5, "t2"))}})
			add(&scenario{Name: "upsert-addif-" + v.n, Stores: []txn.StoreSpec{store("a", 4, "node", v.init...)},
				Progs: []txn.Prog{W("T1", op("upsert", "a", 5, "t1")), W("T2", op("addif", "a", 5, "t2"))}})
		}
		add(&scenario{Name: "add-add-split", Stores: []txn.StoreSpec{store("a", 2, "node", 4, "x", 6, "y")},
			Progs: []txn.Prog{W("T1", op("add", "a", 5, "t1")), W("T2", op("add", "a", 5, "t2"))}})
		// two-level tree (root [20], leaves [5 10] and [30 40 50]): T1 adds key 37 to the non-full right leaf; T2 fills
		// that leaf and adds 37 too, which splits it and promotes 37 into the ROOT, a node T1 only navigated through
		twoLevel := []any{5, "a", 10, "b", 20, "c", 30, "d", 40, "e", 50, "f"}
		add(&scenario{Name: "add-add-key-promoted-into-navigated-parent", Stores: []txn.StoreSpec{store("a", 4, "node", twoLevel...)},
			Progs: []txn.Prog{W("T1", op("add", "a", 37, "t1")), W("T2", op("add", "a", 35, "t2"), op("add", "a", 37, "t2"))}})
		add(&scenario{Name: "upsert-add-key-promoted-into-navigated-parent", Stores: []txn.StoreSpec{store("a", 4, "node", twoLevel...)},
			Progs: []txn.Prog{W("T1", op("addif", "a", 37, "t1")), W("T2", op("upsert", "a", 35, "t2"), op("upsert", "a", 37, "t2"))}})
		add(&scenario{Name: "three-adders-same-key", Stores: []txn.StoreSpec{store("a", 4, "node", 4, "x")},
			Progs: []txn.Prog{W("T1", op("add", "a", 5, "t1")), W("T2", op("upsert", "a", 5, "t2")), W("T3", op("addif", "a", 5, "t3"))}})
	case "C03":
		readerOps := []txn.Op{op("get", "a", 1), op("get", "a", 9), op("count", "a", 0), op("scan", "a", 0)}
		for _, end := range []string{"commit", "rollback"} {
			w := W("W", op("update", "a", 1, "dirty"), op("add", "a", 9, "dirty9"), op("remove", "a", 2))
			w.End = end
			add(&scenario{Name: "writer-" + end + "-vs-reader", Stores: []txn.StoreSpec{store("a", 2, "node", 1, "a", 2, "b", 3, "c")},
				Progs: []txn.Prog{w, R("R", readerOps...)}})
			add(&scenario{Name: "writer-" + end + "-vs-nocheck-reader", Stores: []txn.StoreSpec{store("a", 2, "node", 1, "a", 2, "b", 3, "c")},
				Progs: []txn.Prog{w, N("R", readerOps...)}})
			w2 := W("W", op("update", "a", 1, "dirty"), op("add", "a", 9, "dirty9"))
			w2.End = end
			add(&scenario{Name: "writer-" + end + "-segment-values-vs-reader", Stores: []txn.StoreSpec{store("a", 4, "segment", 1, "a", 2, "b")},
				Progs: []txn.Prog{w2, R("R", op("get", "a", 1), op("get", "a", 9), op("count", "a", 0))}})
			add(&scenario{Name: "writer-" + end + "-active-values-vs-reader", Stores: []txn.StoreSpec{store("a", 4, "active", 1, "a", 2, "b")},
				Progs: []txn.Prog{w2, R("R", op("get", "a", 1), op("get", "a", 9), op("count", "a", 0))}})
		}
		add(&scenario{Name: "two-writers-one-fails-vs-reader", Stores: []txn.StoreSpec{store("a", 4, "node", 1, "a", 2, "b")},
			Progs: []txn.Prog{W("W1", op("rmw", "a", 1, "+1")), W("W2", op("rmw", "a", 1, "+2")), R("R", op("get", "a", 1), op("count", "a", 0))}})
	case "C12":
		ns := []txn.StoreSpec{store("n", 4, "node")}
		add(&scenario{Name: "two-creators-same-name", Stores: []txn.StoreSpec{store("a", 4, "node", 1, "x")}, NewStores: ns,
			Progs: []txn.Prog{W("T1", op("add", "n", 1, "t1")), W("T2", op("add", "n", 2, "t2"))}})
		add(&scenario{Name: "creator-vs-creator-rollback", Stores: []txn.StoreSpec{store("a", 4, "node", 1, "x")}, NewStores: ns,
			Progs: []txn.Prog{W("T1", op("add", "n", 1, "t1")), WR("T2", op("add", "n", 2, "t2"))}})
		// the creator also updates an existing store and loses there: its first commit attempt meets T2's committed
		// update (version conflict, partial rollback, refetch and merge) and the commit then fails; the store it
		// created must be gone
		add(&scenario{Name: "creator-fails-on-conflict-in-other-store", Stores: []txn.StoreSpec{store("a", 4, "node", 1, "x", 2, "y")}, NewStores: ns,
			Progs: []txn.Prog{W("T1", op("add", "n", 1, "t1"), op("update", "a", 1, "t1")), W("T2", op("update", "a", 1, "t2"))}})
		add(&scenario{Name: "creator-retries-after-conflict-in-other-store", Stores: []txn.StoreSpec{store("a", 4, "node", 1, "x", 2, "y")}, NewStores: ns,
			Progs: []txn.Prog{W("T1", op("add", "n", 1, "t1"), op("update", "a", 1, "t1")), W("T2", op("update", "a", 2, "t2"))}})
		if thorough {
			add(&scenario{Name: "three-creators-same-name", Stores: []txn.StoreSpec{store("a", 4, "node", 1, "x")}, NewStores: ns,
				Progs: []txn.Prog{W("T1", op("add", "n", 1, "t1")), W("T2", op("add", "n", 2, "t2")), W("T3", op("add", "n", 3, "t3"))}})
		}
	case "C15":
		for _, mt := range []time.Duration{5 * time.Second, time.Minute} {
			sfx := "-" + mt.String()
			add(&scenario{Name: "same-key-contention" + sfx, MaxTime: mt, StallThread0: true, Stores: []txn.StoreSpec{store("a", 4, "node", 1, "x", 2, "y")},
				Progs: []txn.Prog{W("T1", op("rmw", "a", 1, "+1")), W("T2", op("rmw", "a", 1, "+2"))}})
			add(&scenario{Name: "opposite-order-two-stores" + sfx, MaxTime: mt, StallThread0: true, Stores: []txn.StoreSpec{store("a", 4, "node", 1, "x"), store("b", 4, "node", 1, "y")},
				Progs: []txn.Prog{W("T1", op("update", "a", 1, "t1"), op("update", "b", 1, "t1")), W("T2", op("update", "b", 1, "t2"), op("update", "a", 1, "t2"))}})
			add(&scenario{Name: "split-vs-add-same-leaf" + sfx, MaxTime: mt, StallThread0: true, Stores: []txn.StoreSpec{store("a", 2, "node", 1, "x", 2, "y")},
				Progs: []txn.Prog{W("T1", op("add", "a", 3, "t1")), W("T2", op("add", "a", 4, "t2"))}})
		}
		// a writer whose first commit attempt hits a version conflict (T3 committed into the same node), refetches,
		// re-takes its item locks and is then blocked by a stalled holder (T1) until its budget is used up: when it
		// gives up, every lock it took must be released at once
		add(&scenario{Name: "conflict-retry-then-blocked-by-stalled-holder", MaxTime: 5 * time.Second, StallThread0: true, Bound: 1,
			Stores: []txn.StoreSpec{store("a", 8, "node", 1, "x", 2, "y", 3, "z")},
			Progs:  []txn.Prog{W("T1", txn.Op{Kind: "pause", K: 2}, op("update", "a", 3, "t1")), W("T2", op("update", "a", 1, "t2"), txn.Op{Kind: "pause", K: 1}), W("T3", op("update", "a", 2, "t3"))}})
	case "C20":
		for _, place := range []string{"node", "segment"} {
			st := []txn.StoreSpec{store("a", 2, place, 1, "a", 2, "b", 3, "c")}
			add(mkSeq(&scenario{Name: "write-then-read-vs-concurrent-reader-" + place, Stores: st,
				Seq: [][]txn.Prog{{W("W", op("update", "a", 1, "new")), R("R2", op("get", "a", 1), op("count", "a", 0))}, {R("R1", op("get", "a", 1), op("get", "a", 3))}}}))
			add(mkSeq(&scenario{Name: "add-remove-then-scan-vs-concurrent-reader-" + place, Stores: st,
				Seq: [][]txn.Prog{{W("W", op("remove", "a", 2), op("add", "a", 9, "n9")), R("R2", op("scan", "a", 0), op("count", "a", 0))}, {N("R1", op("get", "a", 2), op("count", "a", 0))}}}))
		}
		add(mkSeq(&scenario{Name: "two-writes-then-read-with-l2-clear", Stores: []txn.StoreSpec{store("a", 4, "node", 1, "a", 2, "b")}, Env: []string{"clear-l2"},
			Seq: [][]txn.Prog{{W("W1", op("update", "a", 1, "v1")), W("W2", op("update", "a", 1, "v2")), R("R", op("get", "a", 1))}, {R("R1", op("get", "a", 1))}}}))
		add(mkSeq(&scenario{Name: "write-then-read-with-l1-clear-and-ttl", MaxTime: time.Hour, Stores: []txn.StoreSpec{store("a", 4, "node", 1, "a", 2, "b")}, Env: []string{"clear-l1", "advance-20m"},
			Seq: [][]txn.Prog{{W("W1", op("rmw", "a", 1, "+1")), R("R", op("get", "a", 1))}, {W("W2", op("update", "a", 2, "w2")), R("R1", op("get", "a", 2))}}}))
		add(mkSeq(&scenario{Name: "write-then-read-two-stores", Stores: []txn.StoreSpec{store("a", 4, "node", 1, "x"), store("b", 4, "segment", 1, "y")},
			Seq: [][]txn.Prog{{W("W", op("update", "a", 1, "n1"), op("update", "b", 1, "n2")), R("R2", op("get", "a", 1), op("get", "b", 1))}, {R("R1", op("get", "b", 1), op("get", "a", 1))}}}))
		// two processes (separate L1 caches, shared L2 and folder): process 1 wrote the node earlier (its L1 holds the
		// handle), process 0 then commits a newer version, the shared L2 loses its entries (cleared / expired), and
		// process 1 reads and read-modify-writes the item again
		P1 := func(p txn.Prog) txn.Prog { p.Proc = 1; return p }
		for _, e := range []string{"clear-l2", "advance-2h"} {
			add(mkSeq(&scenario{Name: "two-processes-stale-l1-after-" + e, MaxTime: time.Hour, Stores: []txn.StoreSpec{store("a", 4, "node", 1, "a", 2, "b")}, Env: []string{e},
				Seq: [][]txn.Prog{{P1(W("W1", op("update", "a", 1, "p1"))), W("W2", op("update", "a", 1, "p0")), P1(R("R", op("get", "a", 1))), P1(W("W3", op("rmw", "a", 1, "+p1")))}, {R("R1", op("get", "a", 1))}}}))
		}
	case "C06":
		add(&scenario{Name: "adds-and-removes", Stores: []txn.StoreSpec{store("a", 2, "node", 1, "a", 2, "b", 3, "c")},
			Progs: []txn.Prog{W("T1", op("add", "a", 4, "t1"), op("remove", "a", 1)), W("T2", op("add", "a", 5, "t2"), op("add", "a", 6, "t2"))}})
		add(&scenario{Name: "conflicting-add-same-key", Stores: []txn.StoreSpec{store("a", 4, "node", 1, "a")},
			Progs: []txn.Prog{W("T1", op("add", "a", 5, "t1"), op("add", "a", 6, "t1")), W("T2", op("add", "a", 5, "t2"))}})
		add(&scenario{Name: "remove-same-key", Stores: []txn.StoreSpec{store("a", 4, "node", 1, "a", 2, "b")},
			Progs: []txn.Prog{W("T1", op("remove", "a", 1)), W("T2", op("remove", "a", 1), op("add", "a", 7, "t2"))}})
		add(&scenario{Name: "rollback-vs-commit", Stores: []txn.StoreSpec{store("a", 4, "node", 1, "a", 2, "b")},
			Progs: []txn.Prog{WR("T1", op("add", "a", 3, "t1"), op("remove", "a", 1)), W("T2", op("add", "a", 4, "t2"))}})
	}
	return out
}
