package main

// C37 binder, implementation side: every execution explored under the C37 monitor is abstracted to the event
// alphabet of models/C37.tla (node locks, registry record writes classified as Stage / Flip / Unstage, node blob
// writes and deletions, priority log written / removed), recorded at the moment each operation EXECUTES. The distinct
// abstract traces are written to $VERIF_C37_ABS; mc/cmd/c37m turns them into TraceData.tla and has TLC check that
// each one is a behaviour of the model (models/C37Trace.tla).

import (
	"encoding/json"
	"fmt"
	"os"
	"path/filepath"
	"sort"
	"strings"

	"github.com/sharedcode/sop"
	"verif.local/mc/fsck"
	"verif.local/mc/sched"
	"verif.local/mc/sopenv"
)

type absEvent struct {
	Op string   `json:"op"`
	T  int      `json:"t"`
	N  string   `json:"n,omitempty"`
	Ns []string `json:"ns,omitempty"`
}

type absRec struct {
	events     []absEvent
	names      map[string]string              // logical id -> n1, n2, ... in order of first appearance
	staged     map[int]map[string]fsck.Handle // thread -> logical id -> record as it staged it
	phys       map[string]string              // physical id -> logical id
	unmodelled []string                       // what the model has no action for (node added / removed, ...)
	lockPrefix string
	held       map[int]map[string]bool // thread -> node names it currently holds the lock of
}

// onLocked / onUnlocked keep the observable lock events to real transitions: a successful Lock of keys the thread
// already holds (re-confirmation before phase 2) and an Unlock issued without holding anything (clean-up after a
// failed Lock attempt) change nothing and are not events of the protocol.
func (r *absRec) onLocked(tid int, ns []string) {
	if r.held == nil {
		r.held = map[int]map[string]bool{}
	}
	if r.held[tid] == nil {
		r.held[tid] = map[string]bool{}
	}
	fresh := false
	for _, n := range ns {
		if !r.held[tid][n] {
			fresh = true
		}
		r.held[tid][n] = true
	}
	if fresh {
		r.events = append(r.events, absEvent{Op: "Lock", T: tid, Ns: ns})
	}
}

func (r *absRec) onUnlocked(tid int, ns []string) {
	had := false
	for _, n := range ns {
		if r.held[tid][n] {
			had = true
			delete(r.held[tid], n)
		}
	}
	if had {
		r.events = append(r.events, absEvent{Op: "Unlock", T: tid, Ns: ns})
	}
}

func newAbsRec() *absRec {
	return &absRec{names: map[string]string{}, staged: map[int]map[string]fsck.Handle{}, phys: map[string]string{}, lockPrefix: sopenv.L2.FormatLockKey("")}
}

func (r *absRec) name(lid string) string {
	if n, ok := r.names[lid]; ok {
		return n
	}
	n := fmt.Sprintf("n%d", len(r.names)+1)
	r.names[lid] = n
	return n
}

func (r *absRec) nodeKeys(keys []*sop.LockKey) []string {
	var ns []string
	for _, k := range keys {
		id := strings.TrimPrefix(k.Key, r.lockPrefix)
		if len(id) == 36 && strings.Count(id, "-") == 4 && id != k.Key {
			ns = append(ns, r.name(id))
		}
	}
	sort.Strings(ns)
	return ns
}

func (r *absRec) learn(h fsck.Handle) {
	lid := h.LogicalID.String()
	if !h.PhysicalIDA.IsNil() {
		r.phys[h.PhysicalIDA.String()] = lid
	}
	if !h.PhysicalIDB.IsNil() {
		r.phys[h.PhysicalIDB.String()] = lid
	}
}

// onBlock classifies what one registry block write does to each record.
func (r *absRec) onBlock(tid int, before, after map[fsck.UUID]fsck.Handle) {
	var lids []string
	byS := map[string]fsck.UUID{}
	for lid := range after {
		lids = append(lids, lid.String())
		byS[lid.String()] = lid
	}
	for lid := range before {
		if _, ok := after[lid]; !ok {
			r.unmodelled = append(r.unmodelled, "record-removed")
		}
	}
	sort.Strings(lids)
	for _, s := range lids {
		a := after[byS[s]]
		b, had := before[byS[s]]
		r.learn(a)
		if !had {
			r.unmodelled = append(r.unmodelled, "record-added")
			continue
		}
		r.learn(b)
		if a == b {
			continue
		}
		sameVA := a.Version == b.Version && a.Active() == b.Active() && a.IsDeleted == b.IsDeleted
		fresh := func(h fsck.Handle) bool { return !h.Inactive().IsNil() && h.WorkInProgressTimestamp > 1 }
		switch {
		case a.IsDeleted || b.IsDeleted:
			r.unmodelled = append(r.unmodelled, "node-removal-mark")
		case a.Version == b.Version+1 && a.Active() != b.Active():
			r.events = append(r.events, absEvent{Op: "Flip", T: tid, N: r.name(s)})
		case sameVA && fresh(a) && (!fresh(b) || a.Inactive() != b.Inactive()):
			if r.staged[tid] == nil {
				r.staged[tid] = map[string]fsck.Handle{}
			}
			r.staged[tid][s] = a
			r.events = append(r.events, absEvent{Op: "Stage", T: tid, N: r.name(s)})
		case sameVA && fresh(b) && !fresh(a):
			r.events = append(r.events, absEvent{Op: "Unstage", T: tid, N: r.name(s)})
		case sameVA:
			// only stale leftovers changed (an expired reservation cleared, timestamp reset): not a protocol step
		default:
			r.unmodelled = append(r.unmodelled, fmt.Sprintf("record-change v%d->v%d", b.Version, a.Version))
		}
	}
}

// onIO sees every file operation when it executes.
func (r *absRec) onIO(tid int, op, path string) {
	base := filepath.Base(path)
	switch {
	case strings.HasSuffix(base, ".plg"):
		if op == "WriteFile" {
			r.events = append(r.events, absEvent{Op: "Log", T: tid})
		} else if op == "Remove" {
			r.events = append(r.events, absEvent{Op: "Unplog", T: tid})
		}
	case len(base) == 36 && strings.Count(base, "-") == 4 && (op == "WriteFile" || op == "Remove"):
		lid, known := r.phys[base]
		if !known {
			return // the blob of a node the monitor has not seen in the registry (a brand-new node)
		}
		st, mine := r.staged[tid][lid]
		switch {
		case op == "WriteFile" && mine && st.Inactive().String() == base:
			r.events = append(r.events, absEvent{Op: "Blob", T: tid, N: r.name(lid)})
		case op == "Remove" && mine && st.Active().String() == base:
			r.events = append(r.events, absEvent{Op: "DelOld", T: tid, N: r.name(lid)})
		case op == "Remove" && mine && st.Inactive().String() == base:
			r.events = append(r.events, absEvent{Op: "DelNew", T: tid, N: r.name(lid)})
		default:
			r.unmodelled = append(r.unmodelled, "blob-"+op+"-of-foreign-id")
		}
	}
}

type absTrace struct {
	Scenario   string              `json:"scenario"`
	Threads    []string            `json:"threads"`
	Upd        map[string][]string `json:"upd"`
	Events     []absEvent          `json:"events"`
	Unmodelled []string            `json:"unmodelled,omitempty"`
}

// finish renders the execution's abstract trace: Upd[t] is the union of the nodes t locked.
func (r *absRec) finish(sc *scenario, x *sched.Execution) absTrace {
	tr := absTrace{Scenario: sc.Name, Upd: map[string][]string{}, Events: r.events, Unmodelled: r.unmodelled}
	used := map[int]bool{}
	upd := map[int]map[string]bool{}
	for _, e := range r.events {
		used[e.T] = true
		if e.Op == "Lock" {
			if upd[e.T] == nil {
				upd[e.T] = map[string]bool{}
			}
			for _, n := range e.Ns {
				upd[e.T][n] = true
			}
		}
	}
	var ts []int
	for t := range used {
		ts = append(ts, t)
	}
	sort.Ints(ts)
	for _, t := range ts {
		name := fmt.Sprintf("t%d", t)
		tr.Threads = append(tr.Threads, name)
		var ns []string
		for n := range upd[t] {
			ns = append(ns, n)
		}
		sort.Strings(ns)
		tr.Upd[name] = ns
	}
	for i, t := range x.Threads {
		if t.Stalled && used[i] {
			tr.Events = append(tr.Events, absEvent{Op: "Die", T: i})
		}
	}
	return tr
}

var absSeen = map[string]bool{}
var absFile *os.File

// absEmit appends the trace to the worker's file unless an identical one was already written.
func absEmit(tr absTrace, shard int) {
	dir := os.Getenv("VERIF_C37_ABS")
	if dir == "" {
		return
	}
	b, _ := json.Marshal(tr)
	if absSeen[string(b)] {
		return
	}
	absSeen[string(b)] = true
	if absFile == nil {
		os.MkdirAll(dir, 0o755)
		f, err := os.OpenFile(filepath.Join(dir, fmt.Sprintf("%s.%d.%d.jsonl", tr.Scenario, shard, os.Getpid())), os.O_CREATE|os.O_WRONLY|os.O_APPEND, 0o644)
		if err != nil {
			return
		}
		absFile = f
	}
	absFile.Write(append(b, '\n'))
}
