// schedx: stateless model checking (controlled scheduler + deviation-bounded DFS) of concurrent
// transactions through the public infs API. Serves C02, C03, C04, C05, C06 (interleaving part).
package main

import (
	"context"
	"encoding/json"
	"path/filepath"
	"verif.local/mc/fsck"

	"fmt"
	"github.com/sharedcode/sop/cache"
	"os"
	"sort"
	"strings"
	"time"
	"verif.local/mc/vhook"

	"github.com/sharedcode/sop"
	"verif.local/mc/ev"
	"verif.local/mc/sched"
	"verif.local/mc/sopenv"
	"verif.local/mc/txn"
)

type scenario struct {
	Name   string
	Stores []txn.StoreSpec
	Progs  []txn.Prog
	// Seq, when set, gives each thread a sequence of programs (run one after the other); Progs is then
	// the flattened list (filled by mkSeq) and recs follow the same flattened order.
	Seq [][]txn.Prog
	// MaxTime is the transactions' commit budget and lock TTL (0 = default 15 min).
	MaxTime time.Duration
	// NewStores: stores that the programs create themselves with NewBtree (C12 concurrent creation).
	NewStores []txn.StoreSpec
	// StallThread0 (C15): additionally explore, for every scheduling point k of thread 0, the execution in
	// which thread 0 stalls forever at k while the others run on.
	StallThread0 bool
	stallAt      int
	// StallBound: deviation bound for the other threads in the stall executions (default 0).
	StallBound int
	// Env adds an environment thread performing these cache/clock events, one per step.
	Env []string
	// Props this scenario serves.
	Props []string
	// MaxTime overrides the transactions' commit budget (0 = default 15 min).
	Bound int
}

var epoch = time.Date(2026, 1, 2, 3, 4, 5, 0, time.UTC)

type execEnv struct {
	recs     []*txn.Record
	final    txn.Dump
	cold     txn.Dump
	followup *txn.Record
	// C15: lock keys each thread was granted (thread -> key name -> the LockKey with its lock id)
	granted map[int]map[string]*sop.LockKey
	// C15: item lock records each thread wrote (thread -> cache key -> lock id in the record)
	itemLocks map[int]map[string]string
	leaked    []string
	// C37 monitor: registry block images and install events
	blocks   map[string][]byte
	installs map[string]map[string]int // "<lid>@<version>" -> active physical id -> installing thread
	c37      []string
	abs      *absRec // C37: abstract event trace for the model binder
}

func newStoreMap(sc *scenario) map[string]txn.StoreSpec {
	if len(sc.NewStores) == 0 {
		return nil
	}
	m := map[string]txn.StoreSpec{}
	for _, s := range sc.NewStores {
		m[s.Name] = s
	}
	return m
}

func stallMap(sc *scenario) map[int]int {
	if sc.stallAt > 0 {
		return map[int]int{0: sc.stallAt}
	}
	return nil
}

func mkSeq(sc *scenario) *scenario {
	sc.Progs = nil
	for _, seq := range sc.Seq {
		sc.Progs = append(sc.Progs, seq...)
	}
	return sc
}

func names(sc *scenario) []string {
	var n []string
	for _, s := range sc.Stores {
		n = append(n, s.Name)
	}
	for _, s := range sc.NewStores {
		n = append(n, s.Name)
	}
	return n
}

func buildTemplate(sc *scenario) {
	sopenv.FreshDir(1)
	if err := txn.Build(sopenv.Bg, sc.Stores); err != nil {
		fmt.Fprintln(os.Stderr, "template build failed:", err)
		os.Exit(2)
	}
	sopenv.SaveTemplate()
}

func mkScenario(sc *scenario) *sched.Scenario {
	storeMap := map[string]txn.StoreSpec{}
	for _, s := range sc.Stores {
		storeMap[s.Name] = s
	}
	return &sched.Scenario{
		Name:       sc.Name,
		Classes:    []string{"l2", "dio", "file"},
		Epoch:      epoch,
		MaxVirtual: 8 * time.Hour,
		StallAt:    stallMap(sc),
		IO: func(x *sched.Execution, op, path string) {
			if env, ok := x.Env.(*execEnv); ok && env.abs != nil {
				env.abs.onIO(x.CurrentID(), op, path)
			}
		},
		Setup: func(x *sched.Execution) []sched.ThreadSpec {
			sopenv.Restore(2)
			sopenv.MaxTime = sc.MaxTime
			env := &execEnv{recs: make([]*txn.Record, len(sc.Progs))}
			x.Env = env
			if monitorC37 {
				installMonitor(x, env)
			}
			if sc.StallThread0 {
				env.granted = map[int]map[string]*sop.LockKey{}
				sopenv.L2.OnLocked = func(keys []*sop.LockKey) {
					tid := x.CurrentID()
					if env.granted[tid] == nil {
						env.granted[tid] = map[string]*sop.LockKey{}
					}
					for _, k := range keys {
						env.granted[tid][k.Key] = &sop.LockKey{Key: k.Key, LockID: k.LockID}
					}
				}
				// item locks are records {LockID, Action} written with SetStructs under FormatLockKey(item id)
				env.itemLocks = map[int]map[string]string{}
				lockPrefix := sopenv.L2.FormatLockKey("")
				sopenv.L2.OnSet = func(keys []string, values []interface{}) {
					tid := x.CurrentID()
					for i, k := range keys {
						if !strings.HasPrefix(k, lockPrefix) || i >= len(values) {
							continue
						}
						b, _ := json.Marshal(values[i])
						var rec struct{ LockID sop.UUID }
						if json.Unmarshal(b, &rec) != nil || rec.LockID.IsNil() {
							continue
						}
						if env.itemLocks[tid] == nil {
							env.itemLocks[tid] = map[string]string{}
						}
						env.itemLocks[tid][k] = rec.LockID.String()
					}
				}
			}
			var specs []sched.ThreadSpec
			if len(sc.Seq) > 0 {
				idx := 0
				for _, seq := range sc.Seq {
					seq := seq
					base := idx
					idx += len(seq)
					specs = append(specs, sched.ThreadSpec{Name: seq[0].Name, Fn: func(t *sched.T) {
						ctx := context.WithValue(t.Ctx(), txn.StampKey{}, func() int { return t.X().TraceLen() })
						ctx = context.WithValue(ctx, txn.ClockKey{}, func() int64 { return t.Now().UnixNano() })
						for k, p := range seq {
							env.recs[base+k] = txn.Run(ctx, p, nil)
						}
					}})
				}
			} else {
				for i, p := range sc.Progs {
					i, p := i, p
					specs = append(specs, sched.ThreadSpec{Name: p.Name, Fn: func(t *sched.T) {
						ctx := context.WithValue(t.Ctx(), txn.StampKey{}, func() int { return t.X().TraceLen() })
						ctx = context.WithValue(ctx, txn.ClockKey{}, func() int64 { return t.Now().UnixNano() })
						env.recs[i] = txn.Run(ctx, p, newStoreMap(sc))
					}})
				}
			}
			if len(sc.Env) > 0 {
				specs = append(specs, sched.ThreadSpec{Name: "ENV", Fn: func(t *sched.T) {
					for _, e := range sc.Env {
						vhook.Point("l2", "ENV "+e) // the event happens when this thread is next scheduled
						switch e {
						case "clear-l2":
							sopenv.L2.Inner().Clear(sopenv.Bg)
						case "clear-l1":
							cache.VerifEvictL1()
						case "advance-20m":
							t.X().Advance(20 * time.Minute)
						case "advance-2h":
							t.X().Advance(2 * time.Hour)
						}
						t.Note("ENVDONE " + e)
					}
				}})
			}
			return specs
		},
		Teardown: func(x *sched.Execution) {
			env := x.Env.(*execEnv)
			if env.abs != nil {
				sopenv.L2.OnLocked, sopenv.L2.OnUnlock = nil, nil
				absEmit(env.abs.finish(sc, x), absShard)
				env.abs = nil
			}
			if sc.StallThread0 {
				// C15 "a transaction that gives up releases its locks": a lock granted to a thread whose
				// transaction has ended by itself (committed, failed or gave up; not stalled) must be gone
				// from the lock service the moment the execution ends (no clock advance).
				sopenv.L2.OnLocked = nil
				sopenv.L2.OnSet = nil
				for tid, recs := range env.itemLocks {
					if tid >= len(env.recs) || env.recs[tid] == nil || x.Threads[tid].Stalled {
						continue
					}
					var ks []string
					for k := range recs {
						ks = append(ks, k)
					}
					sort.Strings(ks)
					for _, k := range ks {
						var rec struct{ LockID sop.UUID }
						if found, _ := sopenv.L2.Inner().GetStruct(sopenv.Bg, k, &rec); found && rec.LockID.String() == recs[k] {
							env.leaked = append(env.leaked, fmt.Sprintf("%s still holds item lock %s", env.recs[tid].Prog.Name, "item#"+fmt.Sprint(len(env.leaked))))
						}
					}
				}
				for tid, keys := range env.granted {
					if tid >= len(env.recs) || env.recs[tid] == nil || x.Threads[tid].Stalled {
						continue
					}
					var names []string
					for n := range keys {
						names = append(names, n)
					}
					sort.Strings(names)
					for _, n := range names {
						k := keys[n]
						if ok, _ := sopenv.L2.Inner().IsLocked(sopenv.Bg, []*sop.LockKey{{Key: k.Key, LockID: k.LockID}}); ok {
							env.leaked = append(env.leaked, fmt.Sprintf("%s still holds %s", env.recs[tid].Prog.Name, n))
						}
					}
				}
				// C15: once the budget (= lock TTL) of a stalled or failed transaction has elapsed, a later
				// transaction on the same keys must be able to commit.
				mt := sc.MaxTime
				if mt == 0 {
					mt = 15 * time.Minute
				}
				x.Advance(mt + time.Second)
				var ops []txn.Op
				for _, p := range sc.Progs {
					for _, o := range p.Ops {
						if o.Kind == "rmw" || o.Kind == "update" || o.Kind == "add" || o.Kind == "remove" {
							ops = append(ops, txn.Op{Kind: "upsert", Store: o.Store, K: o.K, V: "followup"})
						}
					}
				}
				env.followup = txn.Run(sopenv.Bg, txn.Prog{Name: "followup", Mode: sop.ForWriting, Ops: ops, End: "commit"}, nil)
				return
			}
			env.final = txn.ReadAll(sopenv.Bg, names(sc))
			// a reader whose commit-time validation fails was told so and retries (optimistic protocol); only a
			// failure that persists over retries means the caches keep serving superseded data
			for i := 0; i < 2 && len(env.final.Errs) > 0; i++ {
				env.final = txn.ReadAll(sopenv.Bg, names(sc))
			}
			sopenv.ResetCaches()
			env.cold = txn.ReadAll(sopenv.Bg, names(sc))
		},
	}
}

type outcomeSet map[string]int

func main() {
	prop := os.Args[1]
	monitorC37 = prop == "C37"
	run := ev.New(prop, "exploration")
	thorough := run.Thorough()
	scs := scenariosFor(prop, thorough)
	const shards = 8
	for i, a := range os.Args {
		if a == "--replay" && i+1 < len(os.Args) {
			replay(prop, os.Args[i+1], scs)
			return
		}
	}
	if job := ev.Job(); job != "" {
		var si, shard int
		fmt.Sscanf(job, "%d/%d", &si, &shard)
		worker(run, prop, scs[si], shard, shards, thorough)
		return
	}
	var jobs []string
	for i := range scs {
		for s := 0; s < shards; s++ {
			jobs = append(jobs, fmt.Sprintf("%d/%d", i, s))
		}
	}
	dl := 20 * time.Minute
	if thorough {
		dl = 4 * time.Hour
	}
	run.Parallel(jobs, 0, dl, nil)
	// aggregate distinct outcomes per scenario
	perJob, _ := run.Coverage["per_job"].(map[string]any)
	outcomes := map[string]map[string]bool{}
	wall := map[string]float64{}
	bounds := map[string]string{}
	for job, v := range perJob {
		var si, shard int
		fmt.Sscanf(job, "%d/%d", &si, &shard)
		m, _ := v.(map[string]any)
		os, _ := m["outcomes"].([]any)
		nm := scs[si].Name
		var w float64
		fmt.Sscan(fmt.Sprint(m["wall_s"]), &w)
		if w > wall[nm] {
			wall[nm] = w
		}
		if b := fmt.Sprint(m["bound_completed"]); bounds[nm] == "" || b < bounds[nm] {
			bounds[nm] = b
		}
		if outcomes[nm] == nil {
			outcomes[nm] = map[string]bool{}
		}
		for _, o := range os {
			outcomes[nm][fmt.Sprint(o)] = true
		}
	}
	delete(run.Coverage, "per_job")
	var scen []map[string]any
	distinct := 0
	for _, sc := range scs {
		var progs []string
		for _, p := range sc.Progs {
			progs = append(progs, p.String())
		}
		var outs []string
		for o := range outcomes[sc.Name] {
			outs = append(outs, o)
		}
		sort.Strings(outs)
		distinct += len(outs)
		if len(outs) > 8 {
			outs = append(outs[:8], fmt.Sprintf("... %d more", len(outs)-8))
		}
		scen = append(scen, map[string]any{"name": sc.Name, "threads": progs, "distinct_outcomes": len(outcomes[sc.Name]), "outcomes": outs, "max_shard_wall_s": wall[sc.Name], "bound_completed_all_shards": bounds[sc.Name]})
		fmt.Printf("scenario %-36s bound_completed=%s outcomes=%d max_shard_wall=%.0fs\n", sc.Name, bounds[sc.Name], len(outcomes[sc.Name]), wall[sc.Name])
		if len(outcomes[sc.Name]) <= 1 {
			run.Set("vacuity_warning", "scenario "+sc.Name+" produced a single outcome")
		}
	}
	run.Set("scenarios", scen)
	run.Set("evaluations", run.Coverage["executions"])
	run.Set("distinct_nontrivial", run.Coverage["schedules_with_context_switch"])
	run.Set("distinct_outcomes_total", distinct)
	run.Set("rule", "each execution = one complete schedule of the scenario's transaction programs under the cooperative scheduler; DFS over all schedules with at most `bound` deviations (preemptions / early wake-ups), switch points = every L2 cache call, registry block I/O and file operation; non-trivial = schedules with at least one context switch before a thread finished (each schedule is distinct by construction of the DFS)")
	run.Assumption("between two scheduling points a thread runs atomically (points: every sop.L2Cache call, fs.DirectIO call, defaultFileIO call, sop.Sleep); intra-transaction goroutines run inline; in-memory L2 cache; single OS process")
	run.Assumption("deviation bound as reported in bound_completed; virtual clock; deterministic UUIDs, jitter and map iteration (runtime overlay)")
	run.Finish()
}

func worker(run *ev.Run, prop string, sc *scenario, shard, shards int, thorough bool) {
	defer sopenv.Cleanup()
	t0 := time.Now()
	absShard = shard
	buildTemplate(sc)
	ssc := mkScenario(sc)
	// determinism self-test: the default schedule twice must give identical traces and outcomes.
	if shard == 0 {
		a := sched.Run(ssc, nil)
		b := sched.Run(ssc, nil)
		if strings.Join(a.Trace, "\n") != strings.Join(b.Trace, "\n") || outcomeOf(a) != outcomeOf(b) {
			fmt.Fprintf(os.Stderr, "DIVERGENCE in scenario %s: default schedule not reproducible\n", sc.Name)
			for i := 0; i < len(a.Trace) && i < len(b.Trace); i++ {
				if a.Trace[i] != b.Trace[i] {
					fmt.Fprintf(os.Stderr, "  step %d: %q vs %q\n", i, a.Trace[i], b.Trace[i])
					break
				}
			}
			os.Exit(2)
		}
		run.Add("replay_selftests_ok", 1)
	}
	// quick: every scenario to 1 deviation, scenarios marked Bound=2 to 2; thorough: one more.
	bound := sc.Bound
	if bound == 0 {
		bound = 1
	}
	if thorough {
		bound++
	}
	outcomes := outcomeSet{}
	var switched int64
	completed := -1
	budget := 6 * time.Minute
	if thorough {
		budget = 30 * time.Minute
	}
	deadline := time.Now().Add(budget)
	var total, allPasses int64
	maxDec, maxPts := 0, 0
	for b := 0; b <= bound; b++ {
		e := &sched.Explorer{Sc: ssc, Bound: b, Shard: shard, Shards: shards, Deadline: deadline}
		last := b == bound
		e.Check = func(x *sched.Execution, schedule []int) {
			o := outcomeOf(x)
			outcomes[o]++
			if x.Switches > 0 {
				switched++
			}
			checkExecution(run, prop, sc, x, schedule)
		}
		if !last {
			// pre-pass: lets a violation be found at the smallest bound first
			e.Check = func(x *sched.Execution, schedule []int) {
				outcomes[outcomeOf(x)]++
				checkExecution(run, prop, sc, x, schedule)
			}
		}
		e.Explore()
		allPasses += e.Executions
		if e.Truncated {
			run.NotExhaustive(fmt.Sprintf("scenario %s shard %d: budget reached at bound %d", sc.Name, shard, b))
			break
		}
		completed = b
		if last {
			total = e.Executions
		}
		if e.MaxDecisions > maxDec {
			maxDec = e.MaxDecisions
		}
		if e.MaxPoints > maxPts {
			maxPts = e.MaxPoints
		}
		if run.ViolationCount() > 0 {
			break // smallest-bound counterexample found; report it
		}
	}
	if sc.StallThread0 && run.NewViolationCount() == 0 {
		// every scheduling point of thread 0 as a stall point; the other threads under every schedule with <= 1 deviation
		base := sched.Run(ssc, nil)
		n0 := 0
		for _, tr := range base.Trace {
			if strings.HasPrefix(tr, "0:") && !strings.HasPrefix(tr, "0:sleep") && !strings.HasPrefix(tr, "0:note") {
				n0++
			}
		}
		for k := 1 + shard; k <= n0; k += shards {
			c := *sc
			c.stallAt = k
			e := &sched.Explorer{Sc: mkScenario(&c), Bound: sc.StallBound, Shards: 1, Deadline: deadline}
			e.Check = func(x *sched.Execution, schedule []int) {
				outcomes[outcomeOf(x)]++
				checkExecution(run, prop, &c, x, schedule)
			}
			e.Explore()
			allPasses += e.Executions
			run.Add("stall_points_explored", 1)
		}
	}
	run.Set("executions", allPasses)
	run.Set("schedules_at_final_bound", total)
	run.Set("schedules_with_context_switch", switched)
	var outs []string
	for o := range outcomes {
		outs = append(outs, o)
	}
	sort.Strings(outs)
	run.Set("outcomes", outs)
	run.Set("bound_completed", fmt.Sprint(completed))
	run.Set("wall_s", fmt.Sprintf("%.1f", time.Since(t0).Seconds()))
	run.Set("max_decisions", fmt.Sprint(maxDec))
	run.Set("max_points", fmt.Sprint(maxPts))
	if shard == 0 {
		run.Sample(map[string]any{"scenario": sc.Name, "bound_completed": completed, "max_scheduling_points_in_one_execution": maxPts})
	}
	run.EmitPartial()
}

func outcomeOf(x *sched.Execution) string {
	env := x.Env.(*execEnv)
	var sb strings.Builder
	for _, r := range env.recs {
		if r == nil {
			sb.WriteString("nil|")
			continue
		}
		st := "committed"
		if !r.Committed {
			st = "failed"
			if r.Prog.End == "rollback" {
				st = "rolledback"
			}
		}
		fmt.Fprintf(&sb, "%s=%s", r.Prog.Name, st)
		for _, res := range r.Results {
			switch res.Op.Kind {
			case "get", "rmw", "getnolock":
				fmt.Fprintf(&sb, ",%v:%q", res.Found, res.Val)
			case "count":
				fmt.Fprintf(&sb, ",#%d", res.Count)
			case "scan":
				fmt.Fprintf(&sb, ",%v", res.Scan)
			default:
				fmt.Fprintf(&sb, ",%v", res.OK)
			}
		}
		sb.WriteString("|")
	}
	sb.WriteString(env.final.String())
	if x.Deadlock {
		sb.WriteString(" DEADLOCK")
	}
	if x.Livelock {
		sb.WriteString(" LIVELOCK")
	}
	return sb.String()
}

func replayOf(sc *scenario, x *sched.Execution, schedule []int) map[string]any {
	env := x.Env.(*execEnv)
	var hist []string
	for _, r := range env.recs {
		if r != nil {
			b, _ := json.Marshal(r)
			hist = append(hist, string(b))
		}
	}
	tr := x.Trace
	if len(tr) > 400 {
		tr = tr[len(tr)-400:]
	}
	return map[string]any{"scenario": sc.Name, "schedule": schedule, "history": hist, "final": env.final.String(), "cold": env.cold.String(), "trace_tail": tr}
}

func checkExecution(run *ev.Run, prop string, sc *scenario, x *sched.Execution, schedule []int) {
	env := x.Env.(*execEnv)
	viol := func(kind, detail string) {
		rc := rootCause(x.Trace)
		if ec := errorClass(env); ec != "" {
			if rc == "none" {
				rc = ec
			} else {
				rc += "+" + ec
			}
		}
		run.Violate(ev.Violation{Sig: fmt.Sprintf("%s|rc=%s|%s", kind, rc, sc.Name), Detail: fmt.Sprintf("%s in scenario %s (root-cause tag: %s) schedule=%v: %s", kind, sc.Name, rc, schedule, detail), Replay: replayOf(sc, x, schedule)})
	}
	if x.Hang {
		run.Add("hangs", 1)
		run.NotExhaustive("an execution tripped the real-time watchdog")
		return
	}
	for i, t := range x.Threads {
		if t.Panicked() != "" {
			// A panicking transaction did not commit. Only C04 (every disjoint writer must commit) and
			// C15 judge that; elsewhere it is counted and the thread is treated as a failed transaction.
			run.Add("executions_with_panicking_thread", 1)
			if prop == "C04" {
				viol("writer-panicked", firstLines(t.Panicked(), 12))
				return
			}
			if env.recs[i] == nil {
				env.recs[i] = &txn.Record{Prog: sc.Progs[i], Aborted: true, EndErr: "panic: " + firstLines(t.Panicked(), 1)}
			}
		}
	}
	if x.Deadlock {
		viol("deadlock", "no enabled thread but unfinished threads remain")
		return
	}
	if x.Livelock {
		viol("livelock", "virtual-time / step horizon exceeded")
		return
	}
	_ = 0
	if prop == "C37" {
		for _, v := range env.c37 {
			parts := strings.SplitN(v, "|", 2)
			viol(parts[0], parts[1])
		}
		return
	}
	if prop == "C15" {
		checkC15(viol, sc, x, env)
		return
	}
	nm := names(sc)
	unique := map[string]bool{}
	for _, s := range sc.Stores {
		unique[s.Name] = s.Unique
	}
	initial := txn.NewModel(sc.Stores)
	var committed []*txn.Record
	for _, r := range env.recs {
		if r != nil && r.Committed {
			committed = append(committed, r)
		}
	}
	for n, e := range env.cold.Errs {
		if prop == "C12" && newStoreMap(sc) != nil {
			if _, isNew := newStoreMap(sc)[n]; isNew {
				continue // judged by checkC12 (the store may legitimately not exist)
			}
		}
		viol("unreadable-cold", fmt.Sprintf("store %s unreadable with cold caches after the run: %s", n, e))
		return
	}
	if prop == "C20" {
		// once everything has finished, a new transaction in this process (warm caches) must see the
		// latest committed state = what a cold process reads from disk.
		for n, e := range env.final.Errs {
			viol("warm-read-fails", fmt.Sprintf("store %s unreadable through the caches after the run although the cold view is fine: %s", n, e))
			return
		}
		if env.final.String() != env.cold.String() {
			viol("stale-after-quiescence", fmt.Sprintf("warm-cache view %s differs from cold view %s", env.final, env.cold))
		}
	}
	switch prop {
	case "C02":
		if ok, why := txn.Serializable(initial, committed, unique, env.cold, nm); !ok {
			viol("not-serializable", why)
		}
	case "C04":
		for _, r := range env.recs {
			if r == nil || !r.Committed {
				viol("disjoint-writer-failed", fmt.Sprintf("%v", recErr(r)))
			}
		}
		if ok, why := txn.Serializable(initial, committed, unique, env.cold, nm); !ok {
			viol("union-mismatch", why)
		}
	case "C05":
		for _, s := range sc.Stores {
			if !s.Unique {
				continue
			}
			kv := env.cold.Stores[s.Name]
			for i := 1; i < len(kv); i++ {
				if kv[i].K == kv[i-1].K {
					viol("duplicate-key", fmt.Sprintf("store %s holds key %d twice: %v", s.Name, kv[i].K, kv))
				}
			}
			// (the store's count is C06's subject, not judged here)
		}
	case "C06":
		for _, s := range sc.Stores {
			if int64(len(env.cold.Stores[s.Name])) != env.cold.Counts[s.Name] {
				viol("count-mismatch", fmt.Sprintf("store %s count=%d items=%d", s.Name, env.cold.Counts[s.Name], len(env.cold.Stores[s.Name])))
			}
		}
	case "C12":
		checkC12(viol, sc, env)
	case "C20":
		checkC20(viol, sc, env, initial, unique)
	case "C03":
		checkC03(viol, sc, x, env, initial, unique)
	}
}

// errorClass names the mechanism visible in the error text of a failed transaction (used in signatures).
func errorClass(env *execEnv) string {
	var cls []string
	addc := func(c string) {
		for _, x := range cls {
			if x == c {
				return
			}
		}
		cls = append(cls, c)
	}
	for _, r := range env.recs {
		if r == nil {
			continue
		}
		txt := r.EndErr + " " + r.OpenErr
		for _, res := range r.Results {
			txt += " " + res.Err
		}
		switch {
		case strings.Contains(txt, "no such file or directory"):
			addc("node-blob-deleted-under-reader")
		case strings.Contains(txt, "findAndAdd lock acquisition"):
			addc("registry-add-slot-wait-timeout")
		case strings.Contains(txt, "call detected conflict"):
			addc("item-lock-conflict")
		case strings.Contains(txt, "panic:"):
			addc("panic")
		}
	}
	sort.Strings(cls)
	return strings.Join(cls, "+")
}

func firstLines(s string, n int) string {
	l := strings.Split(s, "\n")
	if len(l) > n {
		l = l[:n]
	}
	return strings.Join(l, "\n")
}

// rootCause tags an execution with a known mechanism visible in its trace, so that known findings can
// be matched by mechanism and any violation WITHOUT that mechanism is still reported as new.
//
// stale-registry-cache-fill: a thread read registry block B (Registry.Get read-through), another
// thread then rewrote B (a commit), and afterwards the first thread stored the handle it had read into
// the L2 cache (SetStruct <logical id>), overwriting the newer cached handle.
func rootCause(trace []string) string {
	type ent struct {
		tid          int
		class, label string
		exec         int // position at which the operation actually executes (= thread's next entry)
	}
	es := make([]ent, len(trace))
	last := map[int]int{}
	for i, t := range trace {
		parts := strings.SplitN(t, ":", 3)
		if len(parts) < 3 {
			continue
		}
		var tid int
		fmt.Sscan(parts[0], &tid)
		es[i] = ent{tid: tid, class: parts[1], label: parts[2], exec: len(trace)}
		if j, ok := last[tid]; ok {
			es[j].exec = i
		}
		last[tid] = i
	}
	// commit-install-window-interleaving: a committer's phase 2 first rewrites the registry blocks of all
	// its nodes (one block write each) and then refreshes the cached handles one by one; it is bracketed by
	// the write and the removal of its priority log. If another thread ran between the first phase-2
	// block write and the priority-log removal it could observe a partially installed commit (some nodes /
	// cached handles new, others old).
	for i, e := range es {
		if e.class != "file" || !strings.HasPrefix(e.label, "WriteFile ") || !strings.HasSuffix(e.label, ".plg") {
			continue
		}
		first, end := -1, -1
		for j := i + 1; j < len(es); j++ {
			if es[j].tid != e.tid {
				continue
			}
			if es[j].class == "file" && strings.HasPrefix(es[j].label, "Remove ") && strings.HasSuffix(es[j].label, ".plg") {
				end = j
				break
			}
			if es[j].class == "dio" && strings.HasPrefix(es[j].label, "WriteAt ") && first < 0 {
				first = j
			}
		}
		if first >= 0 {
			if end < 0 {
				end = len(es)
			}
			for j := es[first].exec; j < end && j < len(es); j++ {
				if es[j].tid != e.tid {
					return "commit-install-window-interleaving"
				}
			}
		}
	}
	// stall-beyond-lock-ttl: the environment advanced the clock by more than the lock TTL while a committer
	// was between taking its node locks and removing its priority log (a stalled process).
	for i, e := range es {
		if e.class != "note" || !strings.HasPrefix(e.label, "ENVDONE advance") {
			continue
		}
		for tid := range last {
			if tid == e.tid {
				continue
			}
			locked := false
			for j := 0; j < len(es) && es[j].exec <= i; j++ {
				if es[j].tid != tid {
					continue
				}
				if es[j].class == "l2" && strings.HasPrefix(es[j].label, "Lock lock:") {
					locked = true
				}
				if es[j].class == "file" && strings.HasPrefix(es[j].label, "Remove ") && strings.HasSuffix(es[j].label, ".plg") {
					locked = false
				}
			}
			if locked {
				_ = i
				return "stall-beyond-lock-ttl"
			}
		}
	}
	// stale-storeinfo-cache-fill: same shape for the store-info record: ReadFile storeinfo.txt by t,
	// WriteFile storeinfo.txt by another thread, then t's SetStruct <folder>:<store>.
	for i, e := range es {
		if e.class != "l2" || !strings.HasPrefix(e.label, "SetStruct /") {
			continue
		}
		for j := i - 1; j >= 0; j-- {
			if es[j].tid != e.tid || es[j].class != "file" || !strings.HasSuffix(es[j].label, "storeinfo.txt") {
				continue
			}
			if strings.HasPrefix(es[j].label, "WriteFile ") {
				break
			}
			if strings.HasPrefix(es[j].label, "ReadFile ") {
				for _, w := range es {
					if w.tid != e.tid && w.class == "file" && strings.HasPrefix(w.label, "WriteFile ") && strings.HasSuffix(w.label, "storeinfo.txt") && w.exec > es[j].exec && w.exec <= e.exec {
						return "stale-storeinfo-cache-fill"
					}
				}
				break
			}
		}
	}
	for i, e := range es {
		if e.class != "l2" || !strings.HasPrefix(e.label, "SetStruct ") || len(e.label) != len("SetStruct ")+36 {
			continue
		}
		// most recent registry block op of the same thread before this SetStruct
		for j := i - 1; j >= 0; j-- {
			if es[j].tid != e.tid || es[j].class != "dio" {
				continue
			}
			if strings.HasPrefix(es[j].label, "WriteAt ") {
				break // own write then cache refresh: the normal commit path
			}
			if strings.HasPrefix(es[j].label, "ReadAt ") {
				blk := strings.TrimPrefix(es[j].label, "ReadAt ")
				// (since fix 24fd87d0 the filler reads the block again and deletes its fill when the block changed)
				repaired := false
				lid := strings.TrimPrefix(e.label, "SetStruct ")
				for k, n := i+1, 0; k < len(es) && n < 8; k++ {
					if es[k].tid != e.tid {
						continue
					}
					n++
					if es[k].class == "l2" && es[k].label == "Delete "+lid {
						repaired = true
					}
				}
				for k, w := range es {
					if !repaired && w.tid != e.tid && w.class == "dio" && w.label == "WriteAt "+blk && w.exec > es[j].exec && w.exec <= e.exec && k < len(es) {
						return "stale-registry-cache-fill"
					}
				}
				break
			}
		}
	}
	// navigated-node-superseded: thread A fetched the handle of a node (GetStructs <logical id>), another thread's
	// commit then installed a new version of that node (its SetStruct <logical id> after a registry block write),
	// A never fetched that handle again and still went on to its own phase 2 (priority log written): A used a
	// node version that was superseded before A committed and that nothing re-validated (nodes a transaction
	// only navigates through are not version-checked at commit).
	for i, e := range es {
		if e.class != "l2" || !strings.HasPrefix(e.label, "GetStructs ") {
			continue
		}
		for _, lid := range strings.Split(strings.TrimPrefix(e.label, "GetStructs "), ",") {
			if len(lid) != 36 {
				continue
			}
			sup := -1
			for j := i + 1; j < len(es); j++ {
				if es[j].tid != e.tid && es[j].class == "l2" && es[j].label == "SetStruct "+lid && es[j].exec > e.exec {
					sup = j
					break
				}
			}
			if sup < 0 {
				continue
			}
			refetched, committed := false, false
			for j := sup + 1; j < len(es); j++ {
				if es[j].tid != e.tid {
					continue
				}
				if es[j].class == "l2" && (strings.HasPrefix(es[j].label, "GetStructs ") || strings.HasPrefix(es[j].label, "GetStruct ")) && strings.Contains(es[j].label, lid) && !strings.Contains(es[j].label, "N"+lid) {
					refetched = true
				}
				if es[j].class == "file" && strings.HasPrefix(es[j].label, "WriteFile ") && strings.HasSuffix(es[j].label, ".plg") {
					committed = true
				}
			}
			if committed && !refetched {
				return "navigated-node-superseded"
			}
		}
	}
	return "none"
}

func recErr(r *txn.Record) string {
	if r == nil {
		return "thread did not run"
	}
	return fmt.Sprintf("%s: begin=%q open=%q end=%q aborted=%v results=%v", r.Prog.Name, r.BeginErr, r.OpenErr, r.EndErr, r.Aborted, r.Results)
}

// checkC03: item-level oracle. A value, item or count returned to a reader must come from the committed
// state before the writers or from a writer whose commit point (its last phase-2 registry block write)
// had been reached when the call returned. Values of writers that never commit, or of a writer that is
// still installing its commit, are violations. Stale or mixed-snapshot reads are NOT judged here (C20/C02).
func checkC03(viol func(kind, detail string), sc *scenario, x *sched.Execution, env *execEnv, initial txn.Model, unique map[string]bool) {
	cp := commitPoints(x.Trace)
	type wv struct {
		rec         *txn.Record
		tid         int
		commitPoint int // logical time from which its writes count as committed; -1 = never
	}
	var ws []wv
	for i, r := range env.recs {
		if r == nil || r.Prog.Mode != sop.ForWriting {
			continue
		}
		w := wv{rec: r, tid: i, commitPoint: -1}
		if r.Committed {
			w.commitPoint = r.EndAt
			if p, ok := cp[i]; ok && p < w.commitPoint {
				w.commitPoint = p
			}
		}
		ws = append(ws, w)
	}
	// value written to (store,key) by writer w, in program order (last write wins within w)
	writes := func(w wv, store string, k int) (vals []string) {
		cur := ""
		have := false
		for _, in := range initial[store] {
			if in.K == k {
				cur, have = in.V, true
			}
		}
		for _, res := range w.rec.Results {
			o := res.Op
			if o.Store != store || o.K != k {
				continue
			}
			switch o.Kind {
			case "add", "addif", "update", "upsert":
				if res.OK {
					cur, have = o.V, true
					vals = append(vals, cur)
				}
			case "rmw":
				if res.OK {
					cur = res.Val + o.V
					vals = append(vals, cur)
				}
			case "remove":
				have = false
			}
		}
		_ = have
		return vals
	}
	judgeItem := func(r *txn.Record, res txn.OpResult, store string, k int, v string) {
		for _, in := range initial[store] {
			if in.K == k && in.V == v {
				return
			}
		}
		for _, w := range ws {
			for _, wvv := range writes(w, store, k) {
				if wvv != v {
					continue
				}
				if w.commitPoint >= 0 && w.commitPoint <= res.At {
					return
				}
				if w.commitPoint < 0 {
					viol("dirty-read", fmt.Sprintf("reader %s %s returned %d=%q, written by %s which never committed (end: %q)", r.Prog.Name, res.Op, k, v, w.rec.Prog.Name, w.rec.EndErr))
				} else {
					viol("read-before-commit-point", fmt.Sprintf("reader %s %s returned %d=%q at logical time %d, written by %s whose commit was only installed at %d (Commit returned at %d)", r.Prog.Name, res.Op, k, v, res.At, w.rec.Prog.Name, w.commitPoint, w.rec.EndAt))
				}
				return
			}
		}
		viol("phantom-value", fmt.Sprintf("reader %s %s returned %d=%q which nobody wrote", r.Prog.Name, res.Op, k, v))
	}
	for _, r := range env.recs {
		if r == nil || r.Prog.Mode == sop.ForWriting {
			continue
		}
		for _, res := range r.Results {
			if res.Err != "" {
				continue
			}
			switch res.Op.Kind {
			case "get", "getnolock":
				if res.Found {
					judgeItem(r, res, res.Op.Store, res.Op.K, res.Val)
				}
			case "scan":
				for _, it := range res.Scan {
					judgeItem(r, res, res.Op.Store, it.K, it.V)
				}
			case "count":
				// acceptable counts: initial + deltas of any subset of writers that reached their commit point
				base := int64(len(initial[res.Op.Store]))
				var deltas []int64
				for _, w := range ws {
					if w.commitPoint < 0 || w.commitPoint > res.At {
						continue
					}
					var d int64
					for _, wr := range w.rec.Results {
						if wr.Op.Store != res.Op.Store || !wr.OK {
							continue
						}
						switch wr.Op.Kind {
						case "add", "addif":
							d++
						case "remove":
							d--
						}
					}
					deltas = append(deltas, d)
				}
				ok := false
				for mask := 0; mask < 1<<len(deltas); mask++ {
					c := base
					for i, d := range deltas {
						if mask&(1<<i) != 0 {
							c += d
						}
					}
					if c == res.Count {
						ok = true
					}
				}
				if !ok {
					viol("dirty-count", fmt.Sprintf("reader %s %s returned %d at logical time %d; committed counts possible then: base %d with deltas %v of writers past their commit point", r.Prog.Name, res.Op, res.Count, res.At, base, deltas))
				}
			}
		}
	}
}

// commitPoints returns, per thread id, the logical time at which its last phase-2 registry block write
// (after its priority log was written, before that log is removed) had executed.
func commitPoints(trace []string) map[int]int {
	out := map[int]int{}
	inWin := map[int]bool{}
	lastW := map[int]int{}
	next := func(from int, tid string) int {
		for j := from + 1; j < len(trace); j++ {
			if strings.HasPrefix(trace[j], tid+":") {
				return j
			}
		}
		return len(trace)
	}
	for i, t := range trace {
		parts := strings.SplitN(t, ":", 3)
		if len(parts) < 3 {
			continue
		}
		var tid int
		fmt.Sscan(parts[0], &tid)
		switch {
		case parts[1] == "file" && strings.HasPrefix(parts[2], "WriteFile ") && strings.HasSuffix(parts[2], ".plg"):
			inWin[tid] = true
			delete(lastW, tid)
		case parts[1] == "file" && strings.HasPrefix(parts[2], "Remove ") && strings.HasSuffix(parts[2], ".plg"):
			if inWin[tid] {
				if w, ok := lastW[tid]; ok {
					out[tid] = w
				}
				inWin[tid] = false
			}
		case parts[1] == "dio" && strings.HasPrefix(parts[2], "WriteAt ") && inWin[tid]:
			lastW[tid] = next(i, parts[0])
		}
	}
	return out
}

// matchesPartialCommit: does the observation match the initial state with some SUBSET of the ops of
// the committed writers applied (i.e. a partially installed commit)?
func matchesPartialCommit(initial txn.Model, writers []*txn.Record, res txn.OpResult, unique map[string]bool) bool {
	var ops []txn.Op
	for _, w := range writers {
		for _, r := range w.Results {
			ops = append(ops, r.Op)
		}
	}
	if len(ops) > 12 {
		return false
	}
	for mask := 0; mask < 1<<len(ops); mask++ {
		m := initial.Clone()
		for i, o := range ops {
			if mask&(1<<i) != 0 {
				m.Apply(o, unique[o.Store])
			}
		}
		if txn.SameResult(res, m.Apply(res.Op, unique[res.Op.Store])) {
			return true
		}
	}
	return false
}

// replay re-runs one recorded schedule 5 times and prints a condensed trace and the outcome.
func replay(prop, path string, scs []*scenario) {
	b, err := os.ReadFile(path)
	if err != nil {
		fmt.Fprintln(os.Stderr, err)
		os.Exit(2)
	}
	var f struct {
		Sig    string `json:"sig"`
		Replay struct {
			Scenario string `json:"scenario"`
			Schedule []int  `json:"schedule"`
		} `json:"replay"`
	}
	if err := json.Unmarshal(b, &f); err != nil {
		fmt.Fprintln(os.Stderr, err)
		os.Exit(2)
	}
	var sc *scenario
	for _, s := range scs {
		if s.Name == f.Replay.Scenario {
			sc = s
		}
	}
	if sc == nil {
		fmt.Fprintln(os.Stderr, "scenario not found:", f.Replay.Scenario)
		os.Exit(2)
	}
	defer sopenv.Cleanup()
	buildTemplate(sc)
	ssc := mkScenario(sc)
	run := ev.New(prop, "exploration")
	fails := 0
	var first *sched.Execution
	for i := 0; i < 5; i++ {
		x := sched.Run(ssc, f.Replay.Schedule)
		if first == nil {
			first = x
		}
		before := run.ViolationCount()
		checkExecution(run, prop, sc, x, f.Replay.Schedule)
		if run.ViolationCount() > before || (i > 0 && run.ViolationCount() > 0) {
			fails++
		}
	}
	re := strings.NewReplacer(sopenv.Dir, "W")
	prevTid := ""
	for i, t := range first.Trace {
		tid := strings.SplitN(t, ":", 2)[0]
		key := strings.Contains(t, ".plg") || strings.Contains(t, "WriteAt") || strings.Contains(t, "storeinfo")
		if tid != prevTid || key || os.Getenv("VERIF_REPLAY_FULL") != "" {
			fmt.Printf("%4d %s\n", i, re.Replace(t))
		}
		prevTid = tid
	}
	env := first.Env.(*execEnv)
	for _, r := range env.recs {
		fmt.Println(recErr(r), "committed=", r != nil && r.Committed)
	}
	fmt.Println("warm:", env.final.String())
	fmt.Println("cold:", env.cold.String())
	fmt.Printf("replayed 5 times: %d/5 reproduce a violation (sig recorded: %s)\n", fails, f.Sig)
	if fails > 0 {
		os.Exit(1)
	}
}

// checkC20: a read in a transaction that STARTED after a Commit returned nil must return that commit's
// value (or the value of a commit that completed later); never an older one.
func checkC20(viol func(kind, detail string), sc *scenario, env *execEnv, initial txn.Model, unique map[string]bool) {
	var ws []*txn.Record
	for _, r := range env.recs {
		if r != nil && r.Prog.Mode == sop.ForWriting && r.Committed {
			ws = append(ws, r)
		}
	}
	sort.Slice(ws, func(i, j int) bool { return ws[i].EndAt < ws[j].EndAt })
	for _, r := range env.recs {
		if r == nil || r.Prog.Mode == sop.ForWriting {
			continue
		}
		if r.Prog.Mode == sop.ForReading && !r.Committed && r.EndErr != "" {
			// The reader's Commit returned an error: SOP validates what a reader fetched at commit time ("on commit,
			// SOP will ensure the items you read did not change", docs/GO_CORE_ENGINE.md) and has told this reader
			// that its reads do not stand. What it returned before that is not a read the caller may rely on.
			continue
		}
		must := 0
		for _, w := range ws {
			if w.EndAt <= r.BeginAt {
				must++
			}
		}
		for _, res := range r.Results {
			if res.Err != "" {
				// a read that fails because a cache served a superseded handle is also not "the latest committed state"
				if strings.Contains(res.Err, "no such file") && must == len(ws) {
					viol("read-fails-on-superseded-handle", fmt.Sprintf("reader %s began at %d after every commit had returned, yet %s failed: %s", r.Prog.Name, r.BeginAt, res.Op, res.Err))
				}
				continue
			}
			if res.Op.Kind != "get" && res.Op.Kind != "getnolock" && res.Op.Kind != "count" && res.Op.Kind != "scan" {
				continue
			}
			ok := false
			var accept []string
			for n := must; n <= len(ws); n++ {
				m := initial.Clone()
				for _, w := range ws[:n] {
					for _, wr := range w.Results {
						m.Apply(wr.Op, unique[wr.Op.Store])
					}
				}
				exp := m.Apply(res.Op, unique[res.Op.Store])
				accept = append(accept, fmt.Sprintf("found=%v val=%q count=%d scan=%v", exp.Found, exp.Val, exp.Count, exp.Scan))
				if txn.SameResult(res, exp) {
					ok = true
				}
			}
			if !ok {
				viol("stale-read", fmt.Sprintf("reader %s began at logical time %d, after %d commit(s) had returned; %s returned found=%v val=%q count=%d scan=%v; acceptable (latest committed state or later): %v", r.Prog.Name, r.BeginAt, must, res.Op, res.Found, res.Val, res.Count, res.Scan, accept))
			}
		}
	}
}

// checkC15: every Commit of a live thread returns within maxTime + epsilon on the virtual clock, whatever the
// others do (including a lock holder that stalls forever), and afterwards a later transaction can commit.
func checkC15(viol func(kind, detail string), sc *scenario, x *sched.Execution, env *execEnv) {
	mt := sc.MaxTime
	if mt == 0 {
		mt = 15 * time.Minute
	}
	const eps = time.Second
	for i, r := range env.recs {
		if r == nil || x.Threads[i].Stalled || r.CommitStart == 0 {
			continue
		}
		d := time.Duration(r.CommitEnd - r.CommitStart)
		if d > mt+eps {
			viol("commit-overran-budget", fmt.Sprintf("%s: Commit took %v of virtual time, budget maxTime=%v (+%v); result: committed=%v err=%q; stalled thread 0 at point %d", r.Prog.Name, d, mt, eps, r.Committed, r.EndErr, sc.stallAt))
		}
	}
	if len(env.leaked) > 0 {
		var ended []string
		for i, r := range env.recs {
			if r != nil && !x.Threads[i].Stalled {
				ended = append(ended, fmt.Sprintf("%s committed=%v err=%q", r.Prog.Name, r.Committed, r.EndErr))
			}
		}
		viol("lock-not-released-by-ended-transaction", fmt.Sprintf("when the execution ended (no further clock advance) the lock service still held, unexpired: %v; transactions that had ended by themselves: %v (stalled thread 0 at point %d)", env.leaked, ended, sc.stallAt))
	}
	// "A transaction that gives up releases its locks": judged only when every transaction ended by itself
	// (a holder that stalls forever is a crashed transaction; what it leaves behind is C09's subject).
	if f := env.followup; f != nil && !f.Committed && sc.stallAt == 0 {
		viol("followup-blocked-after-ttl", fmt.Sprintf("after maxTime+1s a new transaction on the same keys failed: %s %s (stalled thread 0 at point %d)", f.EndErr, f.OpenErr, sc.stallAt))
	}
}

var monitorC37 bool
var absShard int

// installMonitor (C37): watches every registry block write. For each handle whose version is bumped by the
// write it records (logical id, new version) -> active physical id and the installing thread; two different
// successors installed for the same (id, version) mean two commits both installed their own successor of the
// same base version. At the moment of an install the new active node blob must exist and parse.
func installMonitor(x *sched.Execution, env *execEnv) {
	env.blocks = map[string][]byte{}
	env.installs = map[string]map[string]int{}
	env.abs = newAbsRec()
	sopenv.L2.OnLocked = func(keys []*sop.LockKey) {
		if ns := env.abs.nodeKeys(keys); len(ns) > 0 {
			env.abs.onLocked(x.CurrentID(), ns)
		}
	}
	sopenv.L2.OnUnlock = func(keys []*sop.LockKey) {
		if ns := env.abs.nodeKeys(keys); len(ns) > 0 {
			env.abs.onUnlocked(x.CurrentID(), ns)
		}
	}
	parse := func(blk []byte) map[fsck.UUID]fsck.Handle {
		m := map[fsck.UUID]fsck.Handle{}
		for i := 0; i+fsck.RecSz <= fsck.CRCOff && i+fsck.RecSz <= len(blk); i += fsck.RecSz {
			h := fsck.DecodeRecord(blk[i : i+fsck.RecSz])
			if !h.LogicalID.IsNil() {
				m[h.LogicalID] = h
			}
		}
		return m
	}
	sopenv.DIO.OnWrite = func(file string, off int64, block []byte) {
		key := fmt.Sprintf("%s@%d", file, off)
		old := env.blocks[key]
		if old == nil {
			// first write seen for this block in this execution: read the current image from disk
			if f, err := os.Open(file); err == nil {
				buf := make([]byte, len(block))
				f.ReadAt(buf, off)
				f.Close()
				old = buf
			}
		}
		before, after := parse(old), parse(block)
		tid := x.CurrentID()
		env.abs.onBlock(tid, before, after)
		for lid, h := range after {
			o, had := before[lid]
			if had && o.Version == h.Version && o.Active() == h.Active() {
				continue
			}
			if !had || h.Version > o.Version || o.Active() != h.Active() {
				k := fmt.Sprintf("%s@v%d", lid, h.Version)
				if env.installs[k] == nil {
					env.installs[k] = map[string]int{}
				}
				act := h.Active().String()
				if prev, dup := env.installs[k][act]; !dup {
					for otherAct, otherTid := range env.installs[k] {
						if otherAct != act {
							env.c37 = append(env.c37, fmt.Sprintf("two-successors|node %s: thread %d installs version %d with active blob %s, but thread %d had already installed version %d with active blob %s (both are successors of version %d)", lid, tid, h.Version, act, otherTid, h.Version, otherAct, h.Version-1))
						}
					}
					env.installs[k][act] = tid
				} else {
					_ = prev
				}
				if !had {
					// a brand-new registry entry belongs to a node nothing references yet (its parent is installed
					// by a later flip); it is judged when it becomes reachable, i.e. through the parents' flips
					continue
				}
				// the node now (once this write lands) points at act: it must be fully written
				table := filepath.Base(filepath.Dir(file))
				bp := fsck.BlobPath(sopenv.Dir, table, h.Active())
				if b, err := os.ReadFile(bp); err != nil {
					env.c37 = append(env.c37, fmt.Sprintf("active-blob-missing|node %s version %d is being pointed at blob %s which does not exist: %v", lid, h.Version, act, err))
				} else if !json.Valid(b) {
					env.c37 = append(env.c37, fmt.Sprintf("active-blob-partial|node %s version %d is being pointed at blob %s which does not parse", lid, h.Version, act))
				}
			}
			if had && h.Version < o.Version {
				env.c37 = append(env.c37, fmt.Sprintf("version-regressed|node %s: thread %d writes version %d over version %d", lid, tid, h.Version, o.Version))
			}
		}
		env.blocks[key] = append([]byte(nil), block...)
	}
}

// checkC12 (concurrent creation): exactly one store per name afterwards, listed once, holding every item of
// every transaction that committed.
func checkC12(viol func(kind, detail string), sc *scenario, env *execEnv) {
	b, _ := os.ReadFile(filepath.Join(sopenv.Dir, "storelist.txt"))
	var list []string
	json.Unmarshal(b, &list)
	seen := map[string]int{}
	for _, n := range list {
		seen[n]++
	}
	for _, ns := range sc.NewStores {
		committed := 0
		want := map[int]string{}
		for _, r := range env.recs {
			if r == nil || !r.Committed {
				continue
			}
			creator := false
			for _, o := range r.Prog.Ops {
				if o.Store == ns.Name {
					creator = true
				}
			}
			if !creator {
				continue // a committed transaction that never touched the new store says nothing about it
			}
			committed++
			for _, res := range r.Results {
				if res.Op.Store == ns.Name && res.OK && (res.Op.Kind == "add" || res.Op.Kind == "upsert") {
					want[res.Op.K] = res.Op.V
				}
			}
		}
		if seen[ns.Name] > 1 {
			viol("store-listed-twice", fmt.Sprintf("storelist.txt = %v", list))
		}
		if committed == 0 {
			if seen[ns.Name] > 0 || env.cold.Errs[ns.Name] == "" {
				viol("store-exists-although-no-creator-committed", fmt.Sprintf("storelist=%v cold=%s", list, env.cold.String()))
			}
			continue
		}
		if seen[ns.Name] != 1 {
			viol("committed-store-not-listed-once", fmt.Sprintf("storelist.txt = %v", list))
		}
		if e := env.cold.Errs[ns.Name]; e != "" {
			viol("committed-store-unreadable", e)
			continue
		}
		got := map[int]string{}
		for _, kv := range env.cold.Stores[ns.Name] {
			if _, dup := got[kv.K]; dup {
				viol("duplicate-key-in-created-store", fmt.Sprint(env.cold.Stores[ns.Name]))
			}
			got[kv.K] = kv.V
		}
		for k, v := range want {
			if got[k] != v {
				viol("committed-item-missing-after-concurrent-creation", fmt.Sprintf("store %s: committed creators wrote %v, store holds %v", ns.Name, want, env.cold.Stores[ns.Name]))
				break
			}
		}
	}
}
