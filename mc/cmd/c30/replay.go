package main

import (
	"encoding/json"
	"fmt"
	"os"
	"strings"

	"github.com/sharedcode/sop"
	"github.com/sharedcode/sop/jsondb"
	"verif.local/mc/ev"
)

// replayFile re-runs the single case of a replay artefact written by this check (dispatch on its sig).
func replayFile(run *ev.Run, path string) {
	b, err := os.ReadFile(path)
	must(err, "read replay")
	var f struct {
		Sig    string `json:"sig"`
		Replay struct {
			Mode    string `json:"mode"`
			Warmup  []key  `json:"warmup"`
			Context any    `json:"context"`
			X       key    `json:"x"`
			Y       key    `json:"y"`
			Z       key    `json:"z"`
			A       []key  `json:"insert_order_A"`
			B       []key  `json:"insert_order_B"`
			L       []key  `json:"lookup_order_B"`
			Stored  key    `json:"stored"`
			Probe   key    `json:"probe"`
		} `json:"replay"`
	}
	must(json.Unmarshal(b, &f), "parse replay")
	r := f.Replay
	m := modeByName(r.Mode)
	sp := strings.Split(f.Sig, "|")
	kind := sp[0]
	oneInstance := len(sp) > 2 && sp[2] == "one-instance"
	if cm, ok := r.Context.(map[string]any); ok && r.Warmup == nil {
		wb, _ := json.Marshal(cm["warmup"])
		json.Unmarshal(wb, &r.Warmup)
	}
	lab := func(k key) string { b, _ := json.Marshal(k); return string(b) }
	warmed := func() cmpFn {
		c := m.fresh()
		for i := 0; i+1 < len(r.Warmup); i += 2 {
			c(r.Warmup[i], r.Warmup[i+1])
		}
		return c
	}
	bad := func(detail string) {
		run.Violate(ev.Violation{Sig: f.Sig, Detail: "replay: " + detail, Replay: f.Replay})
	}
	cleanup := func() {}
	switch kind {
	case "history-dependence":
		s0 := sign(m.fresh()(r.X, r.Y))
		s1 := sign(warmed()(r.X, r.Y))
		fmt.Printf("fresh: sign compare(%s,%s)=%d; after warm-up %v: %d\n", lab(r.X), lab(r.Y), s0, r.Warmup, s1)
		if s0 != s1 {
			bad(fmt.Sprintf("sign compare(%s,%s) is %d on a fresh comparer and %d after warm-up", lab(r.X), lab(r.Y), s0, s1))
		}
	case "not-reflexive":
		if oneInstance {
			w := warmed()
			w(r.X, r.Y)
			w(r.Y, r.X)
			if s := sign(w(r.Z, r.Z)); s != 0 {
				bad(fmt.Sprintf("compare(%s,%s)=%d", lab(r.Z), lab(r.Z), s))
			}
		} else if s := sign(warmed()(r.X, r.X)); s != 0 {
			bad(fmt.Sprintf("compare(%s,%s)=%d", lab(r.X), lab(r.X), s))
		}
	case "not-antisymmetric":
		var a, c int8
		if oneInstance {
			w := warmed()
			a, c = sign(w(r.X, r.Y)), sign(w(r.Y, r.X))
		} else {
			a, c = sign(warmed()(r.X, r.Y)), sign(warmed()(r.Y, r.X))
		}
		fmt.Printf("compare(x,y)=%d compare(y,x)=%d\n", a, c)
		if a != -c {
			bad(fmt.Sprintf("compare(%s,%s)=%d, compare(%s,%s)=%d", lab(r.X), lab(r.Y), a, lab(r.Y), lab(r.X), c))
		}
	case "not-transitive":
		var a, c, d int8
		if !oneInstance {
			a, c, d = sign(warmed()(r.X, r.Y)), sign(warmed()(r.Y, r.Z)), sign(warmed()(r.X, r.Z))
		} else {
			w := warmed()
			a, c, d = sign(w(r.X, r.Y)), sign(w(r.Y, r.Z)), sign(w(r.X, r.Z))
		}
		fmt.Printf("compare(x,y)=%d compare(y,z)=%d compare(x,z)=%d\n", a, c, d)
		if (a <= 0 && c <= 0 && (d > 0 || ((a < 0 || c < 0) && d == 0))) || (a >= 0 && c >= 0 && (d < 0 || ((a > 0 || c > 0) && d == 0))) {
			bad(fmt.Sprintf("compare(x,y)=%d compare(y,z)=%d compare(x,z)=%d for x=%s y=%s z=%s", a, c, d, lab(r.X), lab(r.Y), lab(r.Z)))
		}
	case "two-process-scan-order", "two-process-lookup-miss":
		store := newDB("replay")
		cleanup = store.close // (run.Finish exits the process: deferred calls would not run)
		build := func(name string, keys []key) []string {
			labs := make([]string, len(keys))
			for i, k := range keys {
				labs[i] = lab(k)
			}
			store.create(m, name, keys, labs)
			t := store.begin(sop.ForReading)
			j, err := jsondb.OpenJsonBtreeMapKey(ctx, store.opts, name, t)
			must(err, "open")
			sc := scanLabels(j)
			t.Commit(ctx)
			return sc
		}
		sa := build("A", r.A)
		fmt.Println("instance A inserts", r.A, "-> scan", sa)
		if kind == "two-process-scan-order" {
			sb := build("B", r.B)
			fmt.Println("instance B inserts", r.B, "-> scan", sb)
			pos := map[string]int{}
			for i, s := range sa {
				pos[s] = i
			}
			byLab := map[string]key{}
			for _, k := range r.A {
				byLab[lab(k)] = k
			}
			for i := range sb {
				for j := i + 1; j < len(sb); j++ {
					if pos[sb[i]] > pos[sb[j]] {
						x, y := byLab[sb[i]], byLab[sb[j]]
						if sign(m.fresh()(x, y)) != 0 || sign(m.fresh()(y, x)) != 0 {
							bad(fmt.Sprintf("scan orders differ: %v vs %v", sa, sb))
						}
					}
				}
			}
		} else {
			t := store.begin(sop.ForReading)
			j, err := jsondb.OpenJsonBtreeMapKey(ctx, store.opts, "A", t)
			must(err, "open")
			for _, k := range r.L {
				found, err := j.BtreeInterface.Find(ctx, k, false)
				must(err, "Find")
				fmt.Printf("fresh instance B: Find(%s)=%v\n", lab(k), found)
				if !found {
					bad(fmt.Sprintf("key %s inserted by instance A is not found by a fresh instance B (lookup order %v)", lab(k), r.L))
				}
			}
			t.Commit(ctx)
		}
	default:
		must(fmt.Errorf("no replay support for sig %q", f.Sig), "replay")
	}
	cleanup()
	closeDefault()
	run.Set("evaluations", 1)
	run.Set("distinct_nontrivial", 1)
	run.Set("rule", "replay of one case from "+path)
	run.Finish()
}
