// c30: JSON map-key stores order keys consistently, regardless of history (property C30).
//
// Complete enumeration over a small JSON value domain of
//   - every ordered warm-up pair (the first comparison a FRESH comparer instance performs) followed by
//     every ordered pair of keys (history independence, oracle 1),
//   - total-preorder axioms on every distinct sign matrix obtained that way (each comparison by its own
//     instance) and on pairs / triples compared by ONE live instance (oracle 2),
//   - real map-key stores written by one fresh instance ("process A") and read by other fresh instances
//     ("process B") for every insertion / lookup order of every small key set (oracle 3),
//
// for an index specification (ascending, descending, two fields) and for the default field-wise order.
//
// Comparers are the real ones: jsondb.IndexSpecification.Comparer for index specifications; for the default
// order the function value that the real B-tree of a jsondb.NewJsonBtreeMapKey store calls (see defaultcmp.go).
// A "bridge" pass re-derives the first-comparison sign of every pair through exported API only (a fresh
// OpenJsonBtreeMapKey instance over a one-item store: Find + Add + First) and requires it to agree.
package main

import (
	"context"
	"encoding/json"
	"fmt"
	"os"
	"runtime/debug"
	"sort"
	"strings"
	"time"

	"github.com/sharedcode/sop"
	"github.com/sharedcode/sop/database"
	"github.com/sharedcode/sop/jsondb"
	"verif.local/mc/ev"
)

var ctx = context.Background()

type key = map[string]any
type cmpFn func(x, y key) int

// ---- value / key domain ----

type jval struct {
	Label   string
	Present bool
	V       any
}

// JSON-typed values exactly as encoding/json decodes them into map[string]any (numbers are float64).
var allVals = []jval{
	{"-", false, nil}, // field missing
	{"null", true, nil},
	{"false", true, false},
	{"true", true, true},
	{"1", true, float64(1)},
	{"2", true, float64(2)},
	{"10", true, float64(10)},
	{"1.5", true, float64(1.5)},
	{`"1"`, true, "1"},
	{`"10"`, true, "10"},
	{`"a"`, true, "a"},
}

// reduced value domain for the B-tree scenarios over two fields (a store per case is ~2 ms).
var treeVals2Quick = []string{"-", "null", "2", `"a"`}
var treeVals2Thorough = []string{"-", "null", "true", "2", "10", `"a"`}

// quick tier: value domain of the two-field warm-up x pair matrices (64 keys, 1.7e7 evaluations per mode);
// thorough uses all 11 values (121 keys, 2.1e8 evaluations per mode). One-field modes always use all values.
var matrixVals2Quick = []string{"-", "null", "false", "1", "2", "10", `"1"`, `"a"`}

// thorough: two-comparison warm-up sequences for the two-field modes over this domain (25 keys).
var warm2Vals2Thorough = []string{"-", "null", "2", "10", `"a"`}

func matrixDomain(m mode, thorough bool) kdom {
	if m.TwoFields && !thorough {
		return mkKeys(valsByLabel(matrixVals2Quick), true)
	}
	return mkKeys(allVals, m.TwoFields)
}

func valsByLabel(labels []string) []jval {
	var out []jval
	for _, l := range labels {
		for _, v := range allVals {
			if v.Label == l {
				out = append(out, v)
			}
		}
	}
	return out
}

type kdom struct {
	keys   []key
	labels []string
}

func mkKeys(vals []jval, twoFields bool) kdom {
	var d kdom
	add := func(a jval, b *jval) {
		k := key{}
		lab := "{"
		if a.Present {
			k["a"] = a.V
			lab += "a:" + a.Label
		}
		if b != nil && b.Present {
			k["b"] = b.V
			if a.Present {
				lab += ","
			}
			lab += "b:" + b.Label
		}
		d.keys = append(d.keys, k)
		d.labels = append(d.labels, lab+"}")
	}
	for _, a := range vals {
		if !twoFields {
			add(a, nil)
			continue
		}
		for i := range vals {
			add(a, &vals[i])
		}
	}
	return d
}

// ---- modes ----

type mode struct {
	Name      string
	Spec      []jsondb.IndexFieldSpecification // nil: default field-wise order
	TwoFields bool
}

var modes = []mode{
	{"spec-asc", []jsondb.IndexFieldSpecification{{FieldName: "a", AscendingSortOrder: true}}, false},
	{"spec-desc", []jsondb.IndexFieldSpecification{{FieldName: "a", AscendingSortOrder: false}}, false},
	{"spec-2field", []jsondb.IndexFieldSpecification{{FieldName: "a", AscendingSortOrder: true}, {FieldName: "b", AscendingSortOrder: false}}, true},
	{"default-1field", nil, false},
	{"default-2field", nil, true},
}

func modeByName(n string) mode {
	for _, m := range modes {
		if m.Name == n {
			return m
		}
	}
	panic("unknown mode " + n)
}

func (m mode) specJSON() string {
	if m.Spec == nil {
		return ""
	}
	b, err := json.Marshal(jsondb.NewIndexSpecification(m.Spec))
	if err != nil {
		panic(err)
	}
	return string(b)
}

// fresh returns a comparer instance that has never compared anything.
// Index specification: the comparer's only memory is IndexFields[i].coercedComparer; assigning a new
// IndexFieldSpecification value (exported fields only) over each element leaves that memory zero, exactly as in
// a specification just built by NewIndexSpecification / unmarshalled from the store's JSON (no allocation, so
// that 10^8 fresh instances are affordable).
var specCache = map[string]*jsondb.IndexSpecification{}

func (m mode) fresh() cmpFn {
	if m.Spec != nil {
		is := specCache[m.Name]
		if is == nil {
			is = jsondb.NewIndexSpecification(make([]jsondb.IndexFieldSpecification, len(m.Spec)))
			specCache[m.Name] = is
			specFn[m.Name] = is.Comparer
		}
		for i := range m.Spec {
			is.IndexFields[i] = jsondb.IndexFieldSpecification{FieldName: m.Spec[i].FieldName, AscendingSortOrder: m.Spec[i].AscendingSortOrder}
		}
		return specFn[m.Name]
	}
	return freshDefaultComparer()
}

var specFn = map[string]cmpFn{}

func sign(i int) int8 {
	if i < 0 {
		return -1
	}
	if i > 0 {
		return 1
	}
	return 0
}

// ---- failure classes ----
//
// A Sig is "<oracle>|<mode>|[<context>|]<type pair>". The type pair names the JSON types of the field that
// separates the two keys which seed a comparer's memory (the first key a comparer instance compares): the
// one field whose JSON type differs between the two keys ("same-types" if none, "several-fields" if the
// types differ in both fields, which cannot be attributed to one type pair).
//   history-dependence: the two histories' first keys (warm-up's first key vs the compared pair's first key);
//   not-antisymmetric / not-transitive: x vs y (compare(x,y), compare(x,z) are seeded by x, compare(y,x), compare(y,z) by y).
// Context "separate-instances": every comparison is made by its own fresh instance (after the same warm-up, if
// any); "one-instance": all comparisons of the case are made by one live instance.

func jtype(k key, f string) string {
	v, ok := k[f]
	if !ok {
		return "missing"
	}
	switch v.(type) {
	case nil:
		return "null"
	case bool:
		return "bool"
	case float64:
		return "number"
	case string:
		return "string"
	}
	return fmt.Sprintf("%T", v)
}

var typeRank = map[string]int{"missing": 0, "null": 1, "bool": 2, "number": 3, "string": 4}

func (m mode) fields() []string {
	if m.Spec != nil {
		var l []string
		for _, f := range m.Spec {
			l = append(l, f.FieldName)
		}
		return l
	}
	if m.TwoFields {
		return []string{"a", "b"}
	}
	return []string{"a"}
}

func typePair(m mode, k1, k2 key) string {
	pair := "same-types"
	for _, f := range m.fields() {
		t1, t2 := jtype(k1, f), jtype(k2, f)
		if t1 != t2 {
			if pair != "same-types" {
				return "several-fields" // types differ in more than one field: not attributable to one type pair
			}
			if typeRank[t1] > typeRank[t2] {
				t1, t2 = t2, t1
			}
			pair = t1 + "~" + t2
		}
	}
	return pair
}

func typesOf(m mode, k key) string {
	var l []string
	for _, f := range m.fields() {
		l = append(l, jtype(k, f))
	}
	return strings.Join(l, ",")
}

// pairTable[i*n+j] = typePair(keys[i], keys[j]).
func pairTable(m mode, d kdom) []string {
	n := len(d.keys)
	t := make([]string, n*n)
	for i := 0; i < n; i++ {
		for j := 0; j < n; j++ {
			t[i*n+j] = typePair(m, d.keys[i], d.keys[j])
		}
	}
	return t
}

// ---- violation candidates (made deterministic in the parent: lowest job index wins per Sig) ----

type collector struct {
	run   *ev.Run
	cands map[string]ev.Violation
	order []string
}

func (c *collector) has(sig string) bool { _, ok := c.cands[sig]; return ok }

func (c *collector) violate(sig, detail string, replay any) {
	if c.has(sig) {
		return
	}
	c.cands[sig] = ev.Violation{Sig: sig, Detail: detail, Replay: replay}
	c.order = append(c.order, sig)
}

func (c *collector) emit() {
	var l []ev.Violation
	for _, s := range c.order {
		l = append(l, c.cands[s])
	}
	if len(l) > 0 {
		c.run.Set("candidates", l)
	}
	c.run.EmitPartial()
}

// ---- matrices ----

type matrix []int8 // n*n signs

func firstMatrix(m mode, d kdom) matrix {
	n := len(d.keys)
	M := make(matrix, n*n)
	for x := 0; x < n; x++ {
		for y := 0; y < n; y++ {
			M[x*n+y] = sign(m.fresh()(d.keys[x], d.keys[y]))
		}
	}
	return M
}

type axiomStats struct{ refl, anti, trans int64 }

// checkAxioms verifies that M (one comparison per cell, each by its own instance) is the sign matrix of a total preorder.
func checkAxioms(c *collector, m mode, d kdom, tp []string, M matrix, what string, whatReplay any) axiomStats {
	n := len(d.keys)
	var st axiomStats
	const ctxName = "separate-instances"
	for i := 0; i < n; i++ {
		if M[i*n+i] != 0 {
			st.refl++
			c.violate("not-reflexive|"+m.Name+"|"+ctxName+"|"+typesOf(m, d.keys[i]), fmt.Sprintf("mode %s, %s: compare(%s,%s)=%d, want 0", m.Name, what, d.labels[i], d.labels[i], M[i*n+i]),
				map[string]any{"mode": m.Name, "context": whatReplay, "x": d.keys[i]})
		}
		for j := 0; j < n; j++ {
			if M[i*n+j] != -M[j*n+i] {
				st.anti++
				if i > j {
					continue // the unordered pair was reported at (j,i)
				}
				sig := "not-antisymmetric|" + m.Name + "|" + ctxName + "|" + tp[i*n+j]
				if c.has(sig) {
					continue
				}
				c.violate(sig, fmt.Sprintf("mode %s, %s: sign compare(%s,%s)=%d but sign compare(%s,%s)=%d (must be opposite)", m.Name, what, d.labels[i], d.labels[j], M[i*n+j], d.labels[j], d.labels[i], M[j*n+i]),
					map[string]any{"mode": m.Name, "context": whatReplay, "x": d.keys[i], "y": d.keys[j]})
			}
		}
	}
	for i := 0; i < n; i++ {
		for j := 0; j < n; j++ {
			for k := 0; k < n; k++ {
				// transitivity of <= and of >= (equivalent only if the matrix is antisymmetric)
				if (M[i*n+j] <= 0 && M[j*n+k] <= 0 && M[i*n+k] > 0) || (M[i*n+j] >= 0 && M[j*n+k] >= 0 && M[i*n+k] < 0) {
					st.trans++
					sig := "not-transitive|" + m.Name + "|" + ctxName + "|" + tp[i*n+j]
					if c.has(sig) {
						continue
					}
					c.violate(sig, fmt.Sprintf("mode %s, %s: compare(%s,%s)=%d and compare(%s,%s)=%d but compare(%s,%s)=%d", m.Name, what, d.labels[i], d.labels[j], M[i*n+j], d.labels[j], d.labels[k], M[j*n+k], d.labels[i], d.labels[k], M[i*n+k]),
						map[string]any{"mode": m.Name, "context": whatReplay, "x": d.keys[i], "y": d.keys[j], "z": d.keys[k]})
				}
			}
		}
	}
	return st
}

// jobMatrix: warm-ups [from,to) of the n*n ordered warm-up pairs; for each, every pair on a fresh comparer.
func jobMatrix(run *ev.Run, c *collector, m mode, thorough bool, chunk, nchunks int) {
	d := matrixDomain(m, thorough)
	n := len(d.keys)
	tp := pairTable(m, d)
	M0 := firstMatrix(m, d)
	seen := map[string]bool{}
	var ax axiomStats
	addAx := func(s axiomStats) { ax.refl += s.refl; ax.anti += s.anti; ax.trans += s.trans }
	if chunk == 0 {
		seen[string(asBytes(M0))] = true
		addAx(checkAxioms(c, m, d, tp, M0, "first comparison of a fresh comparer per pair", "fresh comparer per pair, no warm-up"))
		run.Add("evaluations", int64(n*n))
		run.Add("nontrivial_cases", int64(n*n-n))
	}
	total := n * n
	from, to := chunk*total/nchunks, (chunk+1)*total/nchunks
	var histBad, warmBad int64
	MW := make(matrix, n*n)
	for w := from; w < to; w++ {
		w1, w2 := w/n, w%n
		diff := false
		for x := 0; x < n; x++ {
			reported := false
			for y := 0; y < n; y++ {
				f := m.fresh()
				f(d.keys[w1], d.keys[w2])
				s := sign(f(d.keys[x], d.keys[y]))
				MW[x*n+y] = s
				if s != M0[x*n+y] {
					histBad++
					diff = true
					if reported {
						continue
					}
					reported = true
					// class: JSON types of the field separating the two histories' first keys (w1 vs x).
					sig := "history-dependence|" + m.Name + "|" + tp[w1*n+x]
					if c.has(sig) {
						continue
					}
					c.violate(sig, fmt.Sprintf("mode %s: a fresh comparer gives sign compare(%s,%s)=%d as its first comparison, but %d after first comparing (%s,%s)", m.Name, d.labels[x], d.labels[y], M0[x*n+y], s, d.labels[w1], d.labels[w2]),
						map[string]any{"mode": m.Name, "warmup": []key{d.keys[w1], d.keys[w2]}, "x": d.keys[x], "y": d.keys[y], "sign_fresh": M0[x*n+y], "sign_after_warmup": s})
				}
			}
		}
		run.Add("evaluations", int64(n*n))
		run.Add("nontrivial_cases", int64(n*n-n))
		if diff {
			warmBad++
		}
		hk := string(asBytes(MW))
		if !seen[hk] {
			seen[hk] = true
			what := fmt.Sprintf("fresh comparer after warm-up (%s,%s) for each comparison", d.labels[w1], d.labels[w2])
			addAx(checkAxioms(c, m, d, tp, MW, what, map[string]any{"warmup": []key{d.keys[w1], d.keys[w2]}}))
		}
		if w == from+(to-from)/2 {
			run.Set("sample", map[string]any{"mode": m.Name, "warmup": d.labels[w1] + " vs " + d.labels[w2], "then": "all " + fmt.Sprint(n*n) + " ordered pairs, fresh comparer each"})
		}
	}
	run.Add("warmups", int64(to-from))
	run.Add("history_dependent_results", histBad)
	run.Add("warmups_changing_some_result", warmBad)
	run.Add("distinct_sign_matrices_seen_by_job", int64(len(seen)))
	run.Add("axiom_reflexive_failures", ax.refl)
	run.Add("axiom_antisymmetric_failures", ax.anti)
	run.Add("axiom_transitive_failures", ax.trans)
}

func asBytes(m matrix) []byte {
	b := make([]byte, len(m))
	for i, v := range m {
		b[i] = byte(v + 1)
	}
	return b
}

// jobWarm2: every warm-up SEQUENCE of two comparisons, then every pair.
func jobWarm2(run *ev.Run, c *collector, m mode, vals []jval, chunk, nchunks int) {
	d := mkKeys(vals, m.TwoFields)
	n := len(d.keys)
	M0 := firstMatrix(m, d)
	nn := n * n
	var bad int64
	from, to := chunk*nn/nchunks, (chunk+1)*nn/nchunks
	for w := from; w < to; w++ {
		for v := 0; v < nn; v++ {
			for p := 0; p < nn; p++ {
				f := m.fresh()
				f(d.keys[w/n], d.keys[w%n])
				f(d.keys[v/n], d.keys[v%n])
				s := sign(f(d.keys[p/n], d.keys[p%n]))
				if s != M0[p] {
					bad++
					// class: the warm-up comparison that makes the difference (found by leaving the second one out):
					// its first key's field types against those of the compared pair's first key.
					f1 := m.fresh()
					f1(d.keys[w/n], d.keys[w%n])
					tpair := typePair(m, d.keys[w/n], d.keys[p/n])
					if sign(f1(d.keys[p/n], d.keys[p%n])) == M0[p] {
						tpair = typePair(m, d.keys[v/n], d.keys[p/n])
					}
					sig := "history-dependence|" + m.Name + "|" + tpair
					if c.has(sig) {
						continue
					}
					c.violate(sig, fmt.Sprintf("mode %s: a fresh comparer gives sign compare(%s,%s)=%d as its first comparison, but %d after first comparing (%s,%s) then (%s,%s)", m.Name, d.labels[p/n], d.labels[p%n], M0[p], s, d.labels[w/n], d.labels[w%n], d.labels[v/n], d.labels[v%n]),
						map[string]any{"mode": m.Name, "warmup": []key{d.keys[w/n], d.keys[w%n], d.keys[v/n], d.keys[v%n]}, "x": d.keys[p/n], "y": d.keys[p%n], "sign_fresh": M0[p], "sign_after_warmup": s})
				}
			}
		}
	}
	run.Add("evaluations", int64(to-from)*int64(nn)*int64(nn))
	run.Add("nontrivial_cases", int64(to-from)*int64(nn)*int64(nn-n))
	run.Add("two_step_warmups", int64(to-from)*int64(nn))
	run.Add("history_dependent_results", bad)
}

// jobTriples: ONE live comparer instance per case.
//
//	pairs:   compare(x,y), compare(y,x), compare(x,x), compare(y,y) for every ordered pair (reflexive, antisymmetric);
//	triples: compare(x,y), compare(y,z), compare(x,z) for every ordered triple (transitive).
//
// withWarm: additionally after every warm-up pair (1-field modes).
func jobTriples(run *ev.Run, c *collector, m mode, thorough, withWarm bool, chunk, nchunks int) {
	d := matrixDomain(m, thorough)
	n := len(d.keys)
	tp := pairTable(m, d)
	var bad, cnt, pairBad, pairCnt int64
	warmOf := func(w1, w2 int) (string, any) {
		if w1 < 0 {
			return "no warm-up", nil
		}
		return fmt.Sprintf("warm-up (%s,%s)", d.labels[w1], d.labels[w2]), []key{d.keys[w1], d.keys[w2]}
	}
	pair := func(w1, w2, x, y int) {
		f := m.fresh()
		if w1 >= 0 {
			f(d.keys[w1], d.keys[w2])
		}
		a, b, rx, ry := sign(f(d.keys[x], d.keys[y])), sign(f(d.keys[y], d.keys[x])), sign(f(d.keys[x], d.keys[x])), sign(f(d.keys[y], d.keys[y]))
		pairCnt++
		if a != -b {
			pairBad++
			warm, wr := warmOf(w1, w2)
			c.violate("not-antisymmetric|"+m.Name+"|one-instance|"+tp[x*n+y], fmt.Sprintf("mode %s, one comparer instance, %s: compare(%s,%s)=%d then compare(%s,%s)=%d (must be opposite)", m.Name, warm, d.labels[x], d.labels[y], a, d.labels[y], d.labels[x], b),
				map[string]any{"mode": m.Name, "warmup": wr, "x": d.keys[x], "y": d.keys[y]})
		}
		for i, r := range []int8{rx, ry} {
			if r != 0 {
				pairBad++
				k := []int{x, y}[i]
				warm, wr := warmOf(w1, w2)
				c.violate("not-reflexive|"+m.Name+"|one-instance|"+typesOf(m, d.keys[k]), fmt.Sprintf("mode %s, one comparer instance, %s, after compare(%s,%s) and compare(%s,%s): compare(%s,%s)=%d, want 0", m.Name, warm, d.labels[x], d.labels[y], d.labels[y], d.labels[x], d.labels[k], d.labels[k], r),
					map[string]any{"mode": m.Name, "warmup": wr, "x": d.keys[x], "y": d.keys[y], "z": d.keys[k]})
			}
		}
	}
	one := func(w1, w2, x, y, z int) {
		f := m.fresh()
		if w1 >= 0 {
			f(d.keys[w1], d.keys[w2])
		}
		a, b, cc := sign(f(d.keys[x], d.keys[y])), sign(f(d.keys[y], d.keys[z])), sign(f(d.keys[x], d.keys[z]))
		cnt++
		ok := true
		if a <= 0 && b <= 0 && (cc > 0 || ((a < 0 || b < 0) && cc == 0)) {
			ok = false
		}
		if a >= 0 && b >= 0 && (cc < 0 || ((a > 0 || b > 0) && cc == 0)) {
			ok = false
		}
		if !ok {
			bad++
			warm, wr := warmOf(w1, w2)
			c.violate("not-transitive|"+m.Name+"|one-instance|"+tp[x*n+y], fmt.Sprintf("mode %s, one comparer instance, %s: compare(%s,%s)=%d, compare(%s,%s)=%d, compare(%s,%s)=%d", m.Name, warm, d.labels[x], d.labels[y], a, d.labels[y], d.labels[z], b, d.labels[x], d.labels[z], cc),
				map[string]any{"mode": m.Name, "warmup": wr, "x": d.keys[x], "y": d.keys[y], "z": d.keys[z]})
		}
	}
	for x := chunk * n / nchunks; x < (chunk+1)*n/nchunks; x++ {
		for y := 0; y < n; y++ {
			pair(-1, -1, x, y)
			for w := 0; w < n*n; w++ { // pairs are cheap: every warm-up in every mode
				pair(w/n, w%n, x, y)
			}
			for z := 0; z < n; z++ {
				one(-1, -1, x, y, z)
				if withWarm {
					for w := 0; w < n*n; w++ {
						one(w/n, w%n, x, y, z)
					}
				}
			}
		}
	}
	run.Add("evaluations", cnt+pairCnt)
	run.Add("live_triples", cnt)
	run.Add("live_pairs", pairCnt)
	run.Add("nontrivial_cases", cnt+pairCnt)
	run.Add("live_triple_failures", bad)
	run.Add("live_pair_failures", pairBad)
}

// ---- real stores ----

type db struct {
	dir  string
	opts sop.DatabaseOptions
}

func newDB(tag string) *db {
	dir := fmt.Sprintf("/dev/shm/c30_%d_%s", os.Getpid(), tag)
	os.RemoveAll(dir)
	return &db{dir: dir, opts: sop.DatabaseOptions{StoresFolders: []string{dir}, CacheType: sop.InMemory}}
}

func (d *db) close() { os.RemoveAll(d.dir) }

func must(err error, what string) {
	if err != nil {
		fmt.Fprintf(os.Stderr, "HARNESS: %s: %v\n", what, err)
		os.Exit(2)
	}
}

func (d *db) begin(mode sop.TransactionMode) sop.Transaction {
	t, err := database.BeginTransaction(ctx, d.opts, mode)
	must(err, "BeginTransaction")
	return t
}

// create: "process A": a fresh JsonDBMapKey creates the store and inserts keys in the given order; value = label.
func (d *db) create(m mode, name string, keys []key, labels []string) {
	t := d.begin(sop.ForWriting)
	j, err := jsondb.NewJsonBtreeMapKey(ctx, d.opts, sop.StoreOptions{Name: name, SlotLength: 2, IsUnique: false, IsValueDataInNodeSegment: true}, t, m.specJSON())
	must(err, "NewJsonBtreeMapKey")
	for i, k := range keys {
		ok, err := j.BtreeInterface.Add(ctx, k, any(labels[i]))
		must(err, "Add")
		if !ok {
			must(fmt.Errorf("Add returned false on a non-unique store"), "Add")
		}
	}
	must(t.Commit(ctx), "Commit")
}

func scanLabels(j *jsondb.JsonDBMapKey) []string {
	var out []string
	ok, err := j.First(ctx)
	for ok && err == nil {
		var v any
		v, err = j.BtreeInterface.GetCurrentValue(ctx)
		if err != nil {
			break
		}
		out = append(out, fmt.Sprint(v))
		if len(out) > 100 {
			must(fmt.Errorf("scan does not end"), "scan")
		}
		ok, err = j.Next(ctx)
	}
	must(err, "scan")
	return out
}

// jobBridge: first-comparison sign of every pair through exported API only; must equal the direct matrix.
func jobBridge(run *ev.Run, c *collector, m mode, chunk, nchunks int) {
	d := mkKeys(allVals, m.TwoFields)
	n := len(d.keys)
	M0 := firstMatrix(m, d)
	store := newDB("bridge")
	defer store.close()
	from, to := chunk*n/nchunks, (chunk+1)*n/nchunks
	var mism int64
	for x := from; x < to; x++ {
		name := fmt.Sprint("b", x)
		store.create(m, name, []key{d.keys[x]}, []string{"X"})
		for y := 0; y < n; y++ {
			t := store.begin(sop.ForWriting)
			j, err := jsondb.OpenJsonBtreeMapKey(ctx, store.opts, name, t) // fresh instance = fresh comparer
			must(err, "OpenJsonBtreeMapKey")
			found, err := j.BtreeInterface.Find(ctx, d.keys[y], false) // first comparison: compare(x, y)
			must(err, "Find")
			ok, err := j.BtreeInterface.Add(ctx, d.keys[y], any("Y"))
			must(err, "Add")
			if !ok {
				must(fmt.Errorf("Add false"), "Add")
			}
			sc := scanLabels(j)
			must(t.Rollback(ctx), "Rollback")
			var s int8
			switch {
			case found:
				s = 0
			case len(sc) == 2 && sc[0] == "Y": // y was placed before x: compare(x,y) >= 0
				s = 1
			case len(sc) == 2 && sc[0] == "X":
				s = -1
			default:
				must(fmt.Errorf("unexpected scan %v", sc), "bridge scan")
			}
			if found && !(len(sc) == 2 && sc[0] == "Y") {
				// Find says equal but Add (sort.Search on compare>=0) placed y after x: the comparer changed its mind.
				s = 2
			}
			if s != M0[x*n+y] {
				mism++
				c.violate("bridge-mismatch|"+m.Name, fmt.Sprintf("mode %s: store holding only %s, fresh OpenJsonBtreeMapKey instance: Find(%s)=%v and Add places it %v, i.e. sign compare=%d; the directly called fresh comparer says %d", m.Name, d.labels[x], d.labels[y], found, sc, s, M0[x*n+y]),
					map[string]any{"mode": m.Name, "stored": d.keys[x], "probe": d.keys[y]})
			}
		}
	}
	run.Add("evaluations", int64((to-from)*n))
	run.Add("bridge_pairs_through_real_store", int64((to-from)*n))
	run.Add("bridge_mismatches", mism)
}

func permutations(n int) [][]int {
	var out [][]int
	var rec func(cur []int, used int)
	rec = func(cur []int, used int) {
		if len(cur) == n {
			out = append(out, append([]int(nil), cur...))
			return
		}
		for i := 0; i < n; i++ {
			if used&(1<<i) == 0 {
				rec(append(cur, i), used|1<<i)
			}
		}
	}
	rec(nil, 0)
	return out
}

func subsets(n, k int) [][]int {
	var out [][]int
	var rec func(start int, cur []int)
	rec = func(start int, cur []int) {
		if len(cur) == k {
			out = append(out, append([]int(nil), cur...))
			return
		}
		for i := start; i < n; i++ {
			rec(i+1, append(cur, i))
		}
	}
	rec(0, nil)
	return out
}

func treeDomain(m mode, thorough bool) kdom {
	if !m.TwoFields {
		return mkKeys(allVals, false)
	}
	if thorough {
		return mkKeys(valsByLabel(treeVals2Thorough), true)
	}
	return mkKeys(valsByLabel(treeVals2Quick), true)
}

func treeSetSize(m mode, thorough bool) int {
	if thorough && !m.TwoFields {
		return 4
	}
	return 3
}

// jobTree: for every key set S and every insertion order p a fresh instance builds a store; every such
// store must scan in the same order (up to keys that compare equal), and every other fresh instance must
// find every key whatever its own lookup order q.
func jobTree(run *ev.Run, c *collector, m mode, thorough bool, chunk, nchunks int) {
	d := treeDomain(m, thorough)
	n := len(d.keys)
	k := treeSetSize(m, thorough)
	M0 := firstMatrix(m, d)
	equal := func(a, b int) bool { return M0[a*n+b] == 0 && M0[b*n+a] == 0 }
	subs := subsets(n, k)
	perms := permutations(k)
	store := newDB("tree")
	defer store.close()
	from, to := chunk*len(subs)/nchunks, (chunk+1)*len(subs)/nchunks
	var scanBad, findBad, stores, finds int64
	for si := from; si < to; si++ {
		S := subs[si]
		var scan0 []string
		var p0 []int
		for pi, p := range perms {
			name := fmt.Sprintf("t%d_%d", si, pi)
			keys := make([]key, k)
			labs := make([]string, k)
			for i, pp := range p {
				keys[i] = d.keys[S[pp]]
				labs[i] = fmt.Sprint(S[pp])
			}
			store.create(m, name, keys, labs)
			stores++
			t := store.begin(sop.ForReading)
			j, err := jsondb.OpenJsonBtreeMapKey(ctx, store.opts, name, t)
			must(err, "OpenJsonBtreeMapKey")
			sc := scanLabels(j)
			must(t.Commit(ctx), "Commit(read)")
			insOrder := func(p []int) []string {
				var l []string
				for _, pp := range p {
					l = append(l, d.labels[S[pp]])
				}
				return l
			}
			toLabels := func(sc []string) []string {
				var l []string
				for _, s := range sc {
					var idx int
					fmt.Sscan(s, &idx)
					l = append(l, d.labels[idx])
				}
				return l
			}
			if len(sc) != k {
				scanBad++
				c.violate("two-process-scan-order|"+m.Name, fmt.Sprintf("mode %s: inserted %v, scan returns %d items %v", m.Name, insOrder(p), len(sc), toLabels(sc)), map[string]any{"mode": m.Name, "insert_order": keys})
			} else if pi == 0 {
				scan0, p0 = sc, p
			} else if scan0 != nil {
				pos := map[string]int{}
				for i, s := range scan0 {
					pos[s] = i
				}
				bad := false
				for i := 0; i < k && !bad; i++ {
					for jx := i + 1; jx < k; jx++ {
						if pos[sc[i]] > pos[sc[jx]] {
							var a, b int
							fmt.Sscan(sc[i], &a)
							fmt.Sscan(sc[jx], &b)
							if !equal(a, b) {
								bad = true
								break
							}
						}
					}
				}
				if bad {
					scanBad++
					keys0 := make([]key, k)
					for i, pp := range p0 {
						keys0[i] = d.keys[S[pp]]
					}
					c.violate("two-process-scan-order|"+m.Name, fmt.Sprintf("mode %s: the same keys inserted by two fresh instances: insertion order %v scans as %v, insertion order %v scans as %v", m.Name, insOrder(p0), toLabels(scan0), insOrder(p), toLabels(sc)),
						map[string]any{"mode": m.Name, "insert_order_A": keys0, "insert_order_B": keys})
				}
			}
			// process B: fresh instance per lookup order q.
			for _, q := range perms {
				t := store.begin(sop.ForReading)
				jb, err := jsondb.OpenJsonBtreeMapKey(ctx, store.opts, name, t)
				must(err, "OpenJsonBtreeMapKey")
				for qi, qq := range q {
					finds++
					found, err := jb.BtreeInterface.Find(ctx, d.keys[S[qq]], false)
					must(err, "Find")
					if !found {
						findBad++
						var lk []key
						for _, x := range q[:qi+1] {
							lk = append(lk, d.keys[S[x]])
						}
						c.violate("two-process-lookup-miss|"+m.Name, fmt.Sprintf("mode %s: instance A inserted %v and committed; a fresh instance B looking up %v does not find %s although it is in the store", m.Name, insOrder(p), insOrder(q[:qi+1]), d.labels[S[qq]]),
							map[string]any{"mode": m.Name, "insert_order_A": keys, "lookup_order_B": lk})
					}
				}
				must(t.Commit(ctx), "Commit(read)")
			}
		}
		if si == from {
			run.Set("sample", map[string]any{"mode": m.Name, "key_set": func() []string {
				var l []string
				for _, s := range S {
					l = append(l, d.labels[s])
				}
				return l
			}(), "what": fmt.Sprintf("%d insertion orders x %d lookup orders on real stores", len(perms), len(perms))})
		}
	}
	run.Add("evaluations", stores+finds)
	run.Add("nontrivial_cases", stores)
	run.Add("stores_built", stores)
	run.Add("two_process_lookups", finds)
	run.Add("scan_order_disagreements", scanBad)
	run.Add("lookups_missing_present_key", findBad)
}

// ---- main ----

func main() {
	prop := "C30"
	if len(os.Args) > 1 && strings.HasPrefix(os.Args[1], "C") {
		prop = os.Args[1]
	}
	run := ev.New(prop, "exploration")
	thorough := run.Thorough()
	for i, a := range os.Args {
		if a == "--replay" && i+1 < len(os.Args) {
			replayFile(run, os.Args[i+1])
		}
	}
	if job := ev.Job(); job != "" {
		debug.SetGCPercent(1000) // small heaps, allocation-heavy comparers: avoid spending the time in GC
		c := &collector{run: run, cands: map[string]ev.Violation{}}
		parts := strings.Split(job, ":")
		m := modeByName(parts[2])
		var chunk, nchunks int
		fmt.Sscan(parts[3], &chunk)
		fmt.Sscan(parts[4], &nchunks)
		switch parts[1] {
		case "matrix":
			jobMatrix(run, c, m, thorough, chunk, nchunks)
		case "warm2":
			vals := allVals
			if m.TwoFields {
				vals = valsByLabel(warm2Vals2Thorough)
			}
			jobWarm2(run, c, m, vals, chunk, nchunks)
		case "triples":
			jobTriples(run, c, m, thorough, !m.TwoFields, chunk, nchunks)
		case "bridge":
			jobBridge(run, c, m, chunk, nchunks)
		case "tree":
			jobTree(run, c, m, thorough, chunk, nchunks)
		default:
			panic(job)
		}
		closeDefault()
		c.emit()
	}
	// job names start with a zero-padded index so that the lowest index is the canonical source of a Sig's example.
	var jobs []string
	add := func(kind string, m mode, n int) {
		for i := 0; i < n; i++ {
			jobs = append(jobs, fmt.Sprintf("%04d:%s:%s:%d:%d", len(jobs), kind, m.Name, i, n))
		}
	}
	for _, m := range modes {
		if m.TwoFields && thorough {
			add("matrix", m, 32)
		} else if m.TwoFields {
			add("matrix", m, 8)
		} else {
			add("matrix", m, 1)
		}
	}
	for _, m := range modes {
		if !m.TwoFields {
			add("warm2", m, 1)
		} else if thorough {
			add("warm2", m, 32)
		}
		switch {
		case m.TwoFields && thorough:
			add("triples", m, 32)
		case m.TwoFields:
			add("triples", m, 8)
		default:
			add("triples", m, 1)
		}
	}
	for _, m := range modes {
		if m.TwoFields {
			add("bridge", m, 8)
		} else {
			add("bridge", m, 1)
		}
	}
	for _, m := range modes {
		switch {
		case m.TwoFields && thorough:
			add("tree", m, 32)
		case m.TwoFields:
			add("tree", m, 16)
		case thorough:
			add("tree", m, 8)
		default:
			add("tree", m, 2)
		}
	}
	dl := 10 * time.Minute
	if thorough {
		dl = 40 * time.Minute
	}
	run.Parallel(jobs, 0, dl, func(job, output string) *ev.Violation {
		// a comparer that panics on JSON-typed keys is not a total preorder; anything else is a harness failure.
		if i := strings.Index(output, "panic:"); i >= 0 && !strings.Contains(output, "HARNESS:") {
			parts := strings.Split(job, ":")
			msg := output[i:]
			if len(msg) > 600 {
				msg = msg[:600]
			}
			return &ev.Violation{Sig: "panic|" + parts[2], Detail: fmt.Sprintf("mode %s, job %s: the code under test panicked while comparing JSON-typed keys: %s", parts[2], job, msg), Replay: map[string]any{"job": job}}
		}
		return nil
	})
	// deterministic choice of the example per Sig: candidate from the lowest job index.
	pj, _ := run.Coverage["per_job"].(map[string]any)
	names := make([]string, 0, len(pj))
	for k := range pj {
		names = append(names, k)
	}
	sort.Strings(names)
	sampled := map[string]bool{}
	for _, jn := range names {
		ex, _ := pj[jn].(map[string]any)
		if ex == nil {
			continue
		}
		if sm, ok := ex["sample"].(map[string]any); ok {
			k := strings.Split(jn, ":")[1] + fmt.Sprint(sm["mode"])
			if !sampled[k] && (strings.Contains(jn, "2field") || strings.Contains(jn, ":tree:")) {
				sampled[k] = true
				run.Sample(sm)
			}
		}
		if cl, ok := ex["candidates"]; ok {
			b, _ := json.Marshal(cl)
			var l []ev.Violation
			json.Unmarshal(b, &l)
			for _, v := range l {
				run.Violate(v)
			}
		}
	}
	delete(run.Coverage, "per_job")
	cov := run.Coverage
	run.Set("distinct_nontrivial", cov["nontrivial_cases"])
	run.Set("modes", []string{"spec-asc {a asc}", "spec-desc {a desc}", "spec-2field {a asc, b desc}", "default-1field (no spec, keys with field a)", "default-2field (no spec, keys with fields a,b)"})
	var vl []string
	for _, v := range allVals {
		vl = append(vl, v.Label)
	}
	run.Set("value_domain", vl)
	run.Set("rule", "per mode: keys = every assignment of the value domain ('-' = field missing) to 1 field (11 keys) or 2 fields (thorough 121 keys; quick 64 keys over "+fmt.Sprint(matrixVals2Quick)+"); "+
		"matrix jobs: for EVERY ordered warm-up pair (w1,w2) and EVERY ordered pair (x,y): fresh comparer, compare(w1,w2), then sign compare(x,y), compared with the no-warm-up sign (history independence); "+
		"total-preorder axioms on every distinct resulting sign matrix over all pairs/triples; warm2: every two-comparison warm-up sequence (1-field modes; thorough also 2-field modes over "+fmt.Sprint(warm2Vals2Thorough)+"); one-instance jobs: on ONE live instance compare(x,y),compare(y,x),compare(x,x),compare(y,y) for every ordered pair after no / every warm-up, and compare(x,y),compare(y,z),compare(x,z) for every ordered triple (1-field modes: after every warm-up too); "+
		"bridge: sign of the first comparison of a fresh OpenJsonBtreeMapKey instance observed through Find/Add/First on a one-item store for every pair; "+
		"tree: every k-subset of keys (k=3; thorough 4 for 1-field modes; 2-field modes use the reduced values "+fmt.Sprint(treeVals2Quick)+" / thorough "+fmt.Sprint(treeVals2Thorough)+") x every insertion order on a real store (slot length 2) x every lookup order by another fresh instance. "+
		"non-trivial = case whose compared keys differ (x != y) / one store built. "+
		"Violation classes (Sig): <oracle>|<mode>|[separate-instances|one-instance|]<JSON types, e.g. bool~number, of the one field whose type differs between the two keys that seed the comparers involved: the two histories' first keys for history-dependence, x and y for the axioms>; two-process-* per mode")
	run.Assumption("JSON numbers are float64 (as encoding/json decodes keys read back from a store); Go-only types (int, time.Time, ...) are outside the JSON key domain of the statement")
	run.Assumption("default field-wise order: the comparer the real store uses is obtained from a jsondb.NewJsonBtreeMapKey store by reflection (no exported accessor) and brought back to the state of a new instance by zeroing the instance's fields (a new instance has them all zero); the bridge pass validates this against fresh OpenJsonBtreeMapKey instances using exported API only")
	run.Assumption("'two processes' are two JsonDBMapKey instances in separate transactions of one OS process (the comparer state lives in the instance); CEL-expression ordering is not part of this property")
	run.Finish()
}
