package main

import (
	"fmt"
	"os"
	"reflect"
	"unsafe"

	"github.com/sharedcode/sop"
	"github.com/sharedcode/sop/btree"
	"github.com/sharedcode/sop/jsondb"
)

// The default field-wise comparer (JsonDBMapKey.proxyComparer -> defaultComparer) has no exported accessor.
// It is obtained from where the real store keeps it: jsondb.NewJsonBtreeMapKey(...) hands the method value to
// the B-tree, whose `comparer` field is read here by reflection. The comparer's whole memory are the two slice
// fields defaultComparerSortedFields / defaultCoercedFieldsComparers of the JsonDBMapKey; a new instance has
// them nil (checked below together with "no other state"), so zeroing them gives a fresh comparer without
// paying for a new store per evaluation. If /repo renames any of this the harness stops with exit 2.

type defaultHandle struct {
	db   *db
	t    sop.Transaction
	cmp  btree.ComparerFunc[map[string]any]
	f1   *[]string
	f2   *[]func(a, b any) int
	dead bool
}

var defH *defaultHandle

func harnessFail(msg string) {
	fmt.Fprintln(os.Stderr, "HARNESS: default comparer access: "+msg)
	os.Exit(2)
}

func setupDefault() *defaultHandle {
	h := &defaultHandle{db: newDB("defcmp")}
	h.t = h.db.begin(sop.ForWriting)
	j, err := jsondb.NewJsonBtreeMapKey(ctx, h.db.opts, sop.StoreOptions{Name: "defcmp", SlotLength: 2, IsValueDataInNodeSegment: true}, h.t, "")
	must(err, "NewJsonBtreeMapKey(default)")
	// 1. a new instance carries no comparer state at all.
	jv := reflect.ValueOf(j).Elem()
	for i := 0; i < jv.NumField(); i++ {
		name := jv.Type().Field(i).Name
		if name == "JsonDBAnyKey" {
			continue
		}
		if !jv.Field(i).IsZero() {
			harnessFail("new JsonDBMapKey has non-zero field " + name)
		}
	}
	f1 := jv.FieldByName("defaultComparerSortedFields")
	f2 := jv.FieldByName("defaultCoercedFieldsComparers")
	if !f1.IsValid() || !f2.IsValid() || f1.Type() != reflect.TypeOf([]string(nil)) || f2.Type() != reflect.TypeOf([]func(a, b any) int(nil)) {
		harnessFail("JsonDBMapKey cache fields not found / changed type")
	}
	if jv.NumField() != 5 {
		harnessFail(fmt.Sprintf("JsonDBMapKey has %d fields, expected 5 (new state to reset?)", jv.NumField()))
	}
	h.f1 = (*[]string)(unsafe.Pointer(f1.UnsafeAddr()))
	h.f2 = (*[]func(a, b any) int)(unsafe.Pointer(f2.UnsafeAddr()))
	// 2. the comparer the B-tree calls.
	v := reflect.ValueOf(j.JsonDBAnyKey.BtreeInterface)
	for depth := 0; depth < 8 && h.cmp == nil; depth++ {
		switch v.Kind() {
		case reflect.Interface, reflect.Ptr:
			v = v.Elem()
		case reflect.Struct:
			if f := v.FieldByName("comparer"); f.IsValid() {
				if !f.CanAddr() {
					harnessFail("comparer field not addressable")
				}
				c, ok := reflect.NewAt(f.Type(), unsafe.Pointer(f.UnsafeAddr())).Elem().Interface().(btree.ComparerFunc[map[string]any])
				if !ok || c == nil {
					harnessFail("comparer field has unexpected type or is nil")
				}
				h.cmp = c
			} else if f := v.FieldByName("BtreeInterface"); f.IsValid() {
				v = f
			} else {
				harnessFail("cannot walk to btree.Btree.comparer from " + v.Type().String())
			}
		default:
			harnessFail("unexpected kind while walking to comparer: " + v.Kind().String())
		}
	}
	if h.cmp == nil {
		harnessFail("comparer not found")
	}
	// 3. the function really is bound to j: using it must populate j's cache fields.
	h.cmp(map[string]any{"a": 1.0}, map[string]any{"a": 2.0})
	if *h.f1 == nil || *h.f2 == nil {
		harnessFail("calling the extracted comparer did not touch the instance's cache fields")
	}
	return h
}

func freshDefaultComparer() cmpFn {
	if defH == nil {
		defH = setupDefault()
	}
	*defH.f1 = nil
	*defH.f2 = nil
	return cmpFn(defH.cmp)
}

func closeDefault() {
	if defH != nil && !defH.dead {
		defH.dead = true
		defH.t.Rollback(ctx)
		defH.db.close()
	}
}
