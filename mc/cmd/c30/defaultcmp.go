package main

import (
	"fmt"
	"os"
	"reflect"
	"unsafe"

	"github.com/sharedcode/sop"
	"github.com/sharedcode/sop/btree"
	"github.com/sharedcode/sop/jsondb"
)

// The default field-wise comparer (JsonDBMapKey.proxyComparer -> defaultComparer) has no exported accessor.
// It is obtained from where the real store keeps it: jsondb.NewJsonBtreeMapKey(...) hands the method value to
// the B-tree, whose `comparer` field is read here by reflection. Whatever the comparer remembers lives in the
// JsonDBMapKey instance it is bound to; a new default-order instance has every field except the embedded
// JsonDBAnyKey zero (verified at setup), so zeroing those fields gives a fresh comparer without paying for a
// new store per evaluation (no field names are assumed). The bridge pass (exported API only, really new
// instances) must agree with what is computed this way. If /repo moves the B-tree's comparer field the harness
// stops with exit 2 (no verdict).

type defaultHandle struct {
	db    *db
	t     sop.Transaction
	cmp   btree.ComparerFunc[map[string]any]
	state []reflect.Value // settable views of all JsonDBMapKey fields except JsonDBAnyKey
	dead  bool
}

var defH *defaultHandle

func harnessFail(msg string) {
	fmt.Fprintln(os.Stderr, "HARNESS: default comparer access: "+msg)
	os.Exit(2)
}

func setupDefault() *defaultHandle {
	h := &defaultHandle{db: newDB("defcmp")}
	h.t = h.db.begin(sop.ForWriting)
	j, err := jsondb.NewJsonBtreeMapKey(ctx, h.db.opts, sop.StoreOptions{Name: "defcmp", SlotLength: 2, IsValueDataInNodeSegment: true}, h.t, "")
	must(err, "NewJsonBtreeMapKey(default)")
	// 1. a new instance carries no comparer state at all.
	jv := reflect.ValueOf(j).Elem()
	for i := 0; i < jv.NumField(); i++ {
		name := jv.Type().Field(i).Name
		if name == "JsonDBAnyKey" {
			continue
		}
		f := jv.Field(i)
		if !f.IsZero() {
			harnessFail("new JsonDBMapKey has non-zero field " + name)
		}
		h.state = append(h.state, reflect.NewAt(f.Type(), unsafe.Pointer(f.UnsafeAddr())).Elem())
	}
	// 2. the comparer the B-tree calls.
	v := reflect.ValueOf(j.JsonDBAnyKey.BtreeInterface)
	for depth := 0; depth < 8 && h.cmp == nil; depth++ {
		switch v.Kind() {
		case reflect.Interface, reflect.Ptr:
			v = v.Elem()
		case reflect.Struct:
			if f := v.FieldByName("comparer"); f.IsValid() {
				if !f.CanAddr() {
					harnessFail("comparer field not addressable")
				}
				c, ok := reflect.NewAt(f.Type(), unsafe.Pointer(f.UnsafeAddr())).Elem().Interface().(btree.ComparerFunc[map[string]any])
				if !ok || c == nil {
					harnessFail("comparer field has unexpected type or is nil")
				}
				h.cmp = c
			} else if f := v.FieldByName("BtreeInterface"); f.IsValid() {
				v = f
			} else {
				harnessFail("cannot walk to btree.Btree.comparer from " + v.Type().String())
			}
		default:
			harnessFail("unexpected kind while walking to comparer: " + v.Kind().String())
		}
	}
	if h.cmp == nil {
		harnessFail("comparer not found")
	}
	return h
}

func freshDefaultComparer() cmpFn {
	if defH == nil {
		defH = setupDefault()
	}
	for _, f := range defH.state {
		f.SetZero()
	}
	return cmpFn(defH.cmp)
}

func closeDefault() {
	if defH != nil && !defH.dead {
		defH.dead = true
		defH.t.Rollback(ctx)
		defH.db.close()
	}
}
