package main

import (
	"context"
	"fmt"
	"os"

	"github.com/sharedcode/sop"
	"github.com/sharedcode/sop/infs"
)

func main() {
	ctx := context.Background()
	dir := "/dev/shm/verif_hello"
	os.RemoveAll(dir)
	defer os.RemoveAll(dir)
	opts := sop.TransactionOptions{Mode: sop.ForWriting, StoresFolders: []string{dir}, CacheType: sop.InMemory, MaxTime: 0}
	t, err := infs.NewTransaction(ctx, opts)
	if err != nil { panic(err) }
	if err := t.Begin(ctx); err != nil { panic(err) }
	b, err := infs.NewBtree[int, string](ctx, sop.StoreOptions{Name: "s1", SlotLength: 4, IsUnique: true}, t, nil)
	if err != nil { panic(err) }
	for i := 0; i < 10; i++ { b.Add(ctx, i, fmt.Sprint("v", i)) }
	if err := t.Commit(ctx); err != nil { panic(err) }
	opts.Mode = sop.ForReading
	t, _ = infs.NewTransaction(ctx, opts)
	t.Begin(ctx)
	b, err = infs.OpenBtree[int, string](ctx, "s1", t, nil)
	if err != nil { panic(err) }
	ok, _ := b.First(ctx)
	for ok {
		v, _ := b.GetCurrentValue(ctx)
		fmt.Print(b.GetCurrentKey().Key, "=", v, " ")
		ok, _ = b.Next(ctx)
	}
	fmt.Println(b.Count())
	t.Commit(ctx)
}
