// c34: complete enumeration of access-control decisions (property C34).
//
// Every (caller, resource name, visibility, owner, role grants, user grants, action) tuple of a finite
// domain is evaluated on the real sop.CheckPolicy / Authorize / EnforcePolicy / CanPerformAction and on
// the UI capability map produced by sop.ResolveRBACMap (blueprint without evaluator), and compared with
// the decision table of the property statement, written independently below (func expect).
package main

import (
	"context"
	"fmt"
	"os"
	"runtime"
	"sort"
	"strings"
	"sync"

	"github.com/sharedcode/sop"
	"verif.local/mc/ev"
)

// ---------- domain ----------

type caller struct {
	NoAuth   bool     `json:"no_auth_in_context,omitempty"` // plain context without ContextWithAuth
	Roles    []string `json:"roles"`
	User     string   `json:"user"`
	IsSystem bool     `json:"is_system"`
}

type grants map[string][]string

type input struct {
	Caller     caller `json:"caller"`
	Name       string `json:"resource_name"`
	Visibility string `json:"visibility"`
	Owner      string `json:"owner"`
	RoleGrants grants `json:"role_grants"`
	UserGrants grants `json:"user_grants"`
	Action     string `json:"action"`
}

// The names the code declares as core system resources (sop.IsSystemReadOnly). The reference model has
// its own copy of this list (taken from the property statement's anchors); that the code's predicate
// agrees with the list is checked in main.
var coreNames = []string{"SOP", "LongTermMemory"}

var allActions = []sop.Action{sop.ActionRead, sop.ActionWrite, sop.ActionDelete, sop.ActionList, sop.ActionAISelect}

// orderedRoleLists returns every ordered selection without repetition of the given roles
// (Authorize walks the role list in order, so order is part of the input).
func orderedRoleLists(roles []string) [][]string {
	out := [][]string{{}}
	var rec func(cur []string, used int)
	rec = func(cur []string, used int) {
		for i, r := range roles {
			if used&(1<<i) != 0 {
				continue
			}
			n := append(append([]string(nil), cur...), r)
			out = append(out, n)
			rec(n, used|1<<i)
		}
	}
	rec(nil, 0)
	return out
}

// grantMaps enumerates every assignment key -> one of the action-set options (nil option = key absent).
func grantMaps(keys []string, options [][]string) []grants {
	out := []grants{{}}
	for _, k := range keys {
		var next []grants
		for _, g := range out {
			for _, o := range options {
				n := grants{}
				for kk, vv := range g {
					n[kk] = vv
				}
				if o != nil {
					n[k] = o
				}
				next = append(next, n)
			}
		}
		out = next
	}
	return out
}

type domain struct {
	callers      []caller
	names        []string
	visibilities []string
	owners       []string
	roleGrants   []grants
	userGrants   []grants
}

func buildDomain(thorough bool) domain {
	var d domain
	roleConsts := []string{sop.RoleAdmin, sop.RoleUser, sop.RoleGuest}
	roleKeys := append([]string(nil), roleConsts...)
	users := []string{"", "u1", "u2"}
	userKeys := []string{"u1", "u2"}
	// nil = key absent
	options := [][]string{nil, {"read"}, {"write"}, {"*"}}
	userOptions := options
	d.names = append(append([]string(nil), coreNames...), "orders")
	d.visibilities = []string{"public", "private", "system", ""}
	if thorough {
		// widen: an unknown role, an ""-keyed user grant, an unknown visibility value, more action sets.
		roleConsts = append(roleConsts, "Auditor")
		roleKeys = append(roleKeys, "Auditor")
		userKeys = append(userKeys, "")
		options = [][]string{nil, {}, {"read"}, {"write", "delete"}, {"*"}}
		userOptions = [][]string{nil, {"list", "ai_select"}, {"write"}, {"*"}}
		d.visibilities = append(d.visibilities, "internal")
	}
	lists := orderedRoleLists(roleConsts)
	if thorough {
		// keep the caller set tractable: all ordered lists over the three role constants, plus the
		// unknown role alone, first and last in a list of two.
		lists = orderedRoleLists(roleConsts[:3])
		lists = append(lists, []string{"Auditor"}, []string{"Auditor", sop.RoleUser}, []string{sop.RoleGuest, "Auditor"}, []string{"Auditor", sop.RoleAdmin})
	}
	d.callers = append(d.callers, caller{NoAuth: true, Roles: []string{}})
	for _, rl := range lists {
		for _, u := range users {
			for _, s := range []bool{false, true} {
				d.callers = append(d.callers, caller{Roles: rl, User: u, IsSystem: s})
			}
		}
	}
	d.owners = users
	d.roleGrants = grantMaps(roleKeys, options)
	d.userGrants = grantMaps(userKeys, userOptions)
	return d
}

// ---------- reference model (independent of the code; from the property statement) ----------

type verdict int

const (
	deny verdict = iota
	allow
	unjudged // the statement does not determine the decision
)

type reasons struct {
	core, coreMutation       bool
	sysVis, sysCaller        bool
	admin, owner             bool
	roleGrant, userGrant     bool
	anonUserGrant            bool // the only user-grant match is the ""-keyed grant of a caller without user id
	publicRead, unsetVisRead bool
}

func covers(list []string, action string) bool {
	for _, a := range list {
		if a == action || a == "*" {
			return true
		}
	}
	return false
}

func isCore(name string) bool {
	for _, n := range coreNames {
		if n == name {
			return true
		}
	}
	return false
}

// expect is the decision table of the statement:
//  1. core system resources can never be written or deleted, by anyone;
//  2. system-visibility resources are accessible only to system callers;
//  3. otherwise: admins, the owner, holders of a role or user grant for the action, or (read and list
//     only) anyone on a public resource — nobody else.
//
// Not determined by the statement (returned as unjudged, reported separately):
//   - visibility "" (unset) when the only possible ground would be "public" read/list;
//   - a user grant stored under the empty user id matched by a caller that has no user id.
func expect(in input) (verdict, reasons) {
	var r reasons
	c := in.Caller
	r.core = isCore(in.Name)
	r.coreMutation = r.core && (in.Action == "write" || in.Action == "delete")
	r.sysVis = in.Visibility == "system"
	r.sysCaller = c.IsSystem
	for _, role := range c.Roles {
		if role == "Admin" {
			r.admin = true
		}
		if covers(in.RoleGrants[role], in.Action) {
			r.roleGrant = true
		}
	}
	r.owner = in.Owner != "" && c.User == in.Owner
	if g, ok := in.UserGrants[c.User]; ok && covers(g, in.Action) {
		if c.User == "" {
			r.anonUserGrant = true
		} else {
			r.userGrant = true
		}
	}
	readish := in.Action == "read" || in.Action == "list"
	r.publicRead = in.Visibility == "public" && readish
	r.unsetVisRead = in.Visibility == "" && readish

	if r.coreMutation {
		return deny, r
	}
	if r.sysVis {
		if r.sysCaller {
			return allow, r
		}
		return deny, r
	}
	if r.admin || r.owner || r.roleGrant || r.userGrant || r.publicRead {
		return allow, r
	}
	if r.unsetVisRead || r.anonUserGrant {
		return unjudged, r
	}
	return deny, r
}

// classKey is the allocation-free form of class (used to count the distinct decision classes reached).
func (r reasons) classKey(visIdx, actIdx int) int {
	k := visIdx<<3 | actIdx
	for _, b := range [...]bool{r.core, r.sysCaller, r.admin, r.owner, r.roleGrant, r.userGrant, r.anonUserGrant} {
		k <<= 1
		if b {
			k |= 1
		}
	}
	return k
}

func (r reasons) class(vis, action string) string {
	b := func(x bool) string {
		if x {
			return "1"
		}
		return "0"
	}
	return "core" + b(r.core) + " vis=" + vis + " sys" + b(r.sysCaller) + " adm" + b(r.admin) + " own" + b(r.owner) + " rg" + b(r.roleGrant) + " ug" + b(r.userGrant) + " aug" + b(r.anonUserGrant) + " " + action
}

// ---------- implementation side ----------

const assetType = "c34-asset" // blueprint without evaluator: ResolveRBACMap delegates to CanPerformAction

func ctxFor(c caller) context.Context {
	if c.NoAuth {
		return context.Background()
	}
	return sop.ContextWithAuth(context.Background(), sop.AuthContext{UserID: c.User, Roles: c.Roles, IsSystem: c.IsSystem})
}

func accessFor(vis, owner string, rg, ug grants) sop.ResourceAccess {
	a := sop.ResourceAccess{Visibility: sop.Visibility(vis), OwnerID: owner}
	if len(rg) > 0 {
		a.Roles = map[string][]string(rg)
	}
	if len(ug) > 0 {
		a.Users = map[string][]string(ug)
	}
	return a
}

type localResult struct {
	evaluations, nontrivial           int64
	uiComparisons                     int64
	unsetVisAllowed, unsetVisDenied   int64
	anonGrantAllowed, anonGrantDenied int64
	allowedN, deniedN                 int64
	classes                           map[int]bool
	violations                        []ev.Violation
	seenSig                           map[string]bool
	samples                           []any
	errNil, errSysRO, errUnauth       int64
	errOther                          map[string]int64
}

func (l *localResult) violate(kind string, in input, r reasons, detail string) {
	nm := "ordinary"
	if r.core {
		nm = "core"
	}
	sig := fmt.Sprintf("%s|name=%s|vis=%s|action=%s", kind, nm, visLabel(in.Visibility), in.Action)
	if l.seenSig[sig] {
		return
	}
	l.seenSig[sig] = true
	l.violations = append(l.violations, ev.Violation{Sig: sig, Detail: fmt.Sprintf("%s: %s; input: caller{noauth=%v roles=%v user=%q system=%v} resource=%q visibility=%q owner=%q role_grants=%v user_grants=%v action=%s",
		kind, detail, in.Caller.NoAuth, in.Caller.Roles, in.Caller.User, in.Caller.IsSystem, in.Name, in.Visibility, in.Owner, in.RoleGrants, in.UserGrants, in.Action), Replay: in})
}

func observed(allowed, denied int64, allAllowed, allDenied, mixed string) string {
	switch {
	case allowed == 0 && denied == 0:
		return "not exercised in this tier"
	case denied == 0:
		return allAllowed
	case allowed == 0:
		return allDenied
	}
	return mixed
}

func visLabel(v string) string {
	if v == "" {
		return "unset"
	}
	return v
}

func errKind(err error) string {
	switch err {
	case nil:
		return "nil"
	case sop.ErrSystemReadOnly:
		return "ErrSystemReadOnly"
	case sop.ErrUnauthorized:
		return "ErrUnauthorized"
	}
	return "other:" + err.Error()
}

func evalCaller(d domain, ci int) *localResult {
	l := &localResult{classes: map[int]bool{}, seenSig: map[string]bool{}, errOther: map[string]int64{}}
	c := d.callers[ci]
	ctx := ctxFor(c)
	for _, name := range d.names {
		for vi, vis := range d.visibilities {
			for _, owner := range d.owners {
				for _, rg := range d.roleGrants {
					for _, ug := range d.userGrants {
						access := accessFor(vis, owner, rg, ug)
						ui := sop.ResolveRBACMap(ctx, assetType, sop.EntitlementContext{AssetID: name, UserID: c.User}, func() sop.ResourceAccess { return access })
						if len(ui) != len(allActions) {
							in := input{c, name, vis, owner, rg, ug, "*"}
							_, r := expect(in)
							l.violate("ui-map-shape", in, r, fmt.Sprintf("capability map has %d entries for a blueprint with %d actions: %v", len(ui), len(allActions), ui))
						}
						for ai, act := range allActions {
							in := input{c, name, vis, owner, rg, ug, string(act)}
							l.evaluations++
							want, r := expect(in)
							err := sop.CheckPolicy(ctx, name, access, act)
							got := err == nil
							switch err {
							case nil:
								l.errNil++
							case sop.ErrSystemReadOnly:
								l.errSysRO++
							case sop.ErrUnauthorized:
								l.errUnauth++
							default:
								l.errOther[errKind(err)]++
							}
							if got {
								l.allowedN++
							} else {
								l.deniedN++
							}
							l.classes[r.classKey(vi, ai)] = true
							// non-trivial: at least one allow ground is present (the decision is then made by the
							// interplay of rules) — or the statement leaves it open.
							if r.admin || r.owner || r.roleGrant || r.userGrant || r.publicRead || (r.sysVis && r.sysCaller) || want == unjudged {
								l.nontrivial++
							}
							switch want {
							case allow:
								if !got {
									l.violate("under-permit", in, r, fmt.Sprintf("CheckPolicy denied (%v) although the statement's grounds hold (%s)", err, r.class(vis, string(act))))
								}
							case deny:
								if got {
									why := "no admin/owner/grant/public ground"
									if r.coreMutation {
										why = "core system resources can never be written or deleted"
									} else if r.sysVis {
										why = "system-visibility resource and caller is not a system caller"
									}
									l.violate("over-permit", in, r, "CheckPolicy allowed although the statement forbids: "+why)
								}
							case unjudged:
								if r.unsetVisRead {
									if got {
										l.unsetVisAllowed++
									} else {
										l.unsetVisDenied++
									}
								} else {
									if got {
										l.anonGrantAllowed++
									} else {
										l.anonGrantDenied++
									}
								}
							}
							// enforcement entry points agree with each other
							if e2 := sop.EnforcePolicy(ctx, name, access, act); (e2 == nil) != got {
								l.violate("enforce-vs-check", in, r, fmt.Sprintf("EnforcePolicy=%v CheckPolicy=%v", e2, err))
							}
							if b := sop.CanPerformAction(ctx, name, access, act); b != got {
								l.violate("can-vs-check", in, r, fmt.Sprintf("CanPerformAction=%v CheckPolicy=%v", b, err))
							}
							// the local ACL layer alone may only differ from enforcement by the core-resource rule
							if a := sop.Authorize(ctx, access, act); a != got && !(r.coreMutation && a && !got) {
								l.violate("authorize-vs-check", in, r, fmt.Sprintf("Authorize=%v CheckPolicy=%v outside the core write/delete rule", a, err))
							}
							// UI capability map agrees with enforcement
							l.uiComparisons++
							capKey := sop.ActionToUICapability(act)
							uiv, present := ui[capKey]
							if !present || uiv != got {
								l.violate("ui-disagree", in, r, fmt.Sprintf("ResolveRBACMap[%s]=%v (present=%v) but CheckPolicy allowed=%v (%v)", capKey, uiv, present, got, err))
							}
							if len(l.samples) < 1 && want != unjudged && l.evaluations%50021 == int64(ci*7907)%50021 {
								l.samples = append(l.samples, map[string]any{"input": in, "expected_allow": want == allow, "check_policy": errKind(err), "ui": uiv})
							}
						}
					}
				}
			}
		}
	}
	return l
}

func main() {
	prop := "C34"
	if len(os.Args) > 1 && strings.HasPrefix(os.Args[1], "C") {
		prop = os.Args[1]
	}
	run := ev.New(prop, "exploration")
	d := buildDomain(run.Thorough())

	sop.RegisterAssetRBAC(sop.AssetBlueprint{AssetType: assetType, Description: "C34 harness asset (no evaluator)", Actions: allActions})

	// The model's list of core names must be what the code declares (both directions on the name domain
	// plus near misses, which the statement does not call core).
	for _, n := range append(append([]string(nil), d.names...), "sop", "", "longtermmemory", "SOP ", "LongTermMemory/x") {
		if sop.IsSystemReadOnly(n) != isCore(n) {
			run.Violate(ev.Violation{Sig: "core-name-set|" + n, Detail: fmt.Sprintf("IsSystemReadOnly(%q)=%v but the reference list of core system resources says %v", n, sop.IsSystemReadOnly(n), isCore(n)), Replay: map[string]any{"name": n}})
		}
	}
	// capability keys must be distinct per action, else the map cannot agree for every action
	seenCap := map[sop.UICapability]sop.Action{}
	for _, a := range allActions {
		k := sop.ActionToUICapability(a)
		if o, dup := seenCap[k]; dup {
			run.Violate(ev.Violation{Sig: "ui-capability-collision", Detail: fmt.Sprintf("actions %s and %s map to the same UI capability %s", o, a, k), Replay: map[string]any{"a": a, "b": o}})
		}
		seenCap[k] = a
	}
	// unknown asset type: documented safety fallback is an empty map (no capability shown)
	if m := sop.ResolveRBACMap(context.Background(), "c34-unregistered", sop.EntitlementContext{AssetID: "orders"}, nil); len(m) != 0 {
		run.Violate(ev.Violation{Sig: "ui-unknown-asset-not-empty", Detail: fmt.Sprintf("unregistered asset type yields capabilities %v", m), Replay: map[string]any{"asset_type": "c34-unregistered"}})
	}
	// nil getLocalAccess = zero ResourceAccess: must agree with enforcement on the zero ACL
	nilAccessCmp := 0
	for _, c := range d.callers {
		ctx := ctxFor(c)
		for _, name := range d.names {
			ui := sop.ResolveRBACMap(ctx, assetType, sop.EntitlementContext{AssetID: name}, nil)
			for _, act := range allActions {
				nilAccessCmp++
				got := sop.CheckPolicy(ctx, name, sop.ResourceAccess{}, act) == nil
				if v, ok := ui[sop.ActionToUICapability(act)]; !ok || v != got {
					in := input{c, name, "", "", grants{}, grants{}, string(act)}
					run.Violate(ev.Violation{Sig: "ui-disagree-nil-access|" + string(act), Detail: fmt.Sprintf("ResolveRBACMap(nil access)=%v present=%v, CheckPolicy(zero ACL) allowed=%v, caller=%+v name=%s", v, ok, got, c, name), Replay: in})
				}
			}
		}
	}

	// full product, one goroutine per caller; results merged in caller order (deterministic)
	results := make([]*localResult, len(d.callers))
	sem := make(chan struct{}, runtime.NumCPU())
	var wg sync.WaitGroup
	for ci := range d.callers {
		wg.Add(1)
		sem <- struct{}{}
		go func(ci int) {
			defer wg.Done()
			defer func() { <-sem }()
			results[ci] = evalCaller(d, ci)
		}(ci)
	}
	wg.Wait()

	classes := map[int]bool{}
	errKinds := map[string]int64{}
	var tot localResult
	for _, l := range results {
		tot.evaluations += l.evaluations
		tot.nontrivial += l.nontrivial
		tot.uiComparisons += l.uiComparisons
		tot.unsetVisAllowed += l.unsetVisAllowed
		tot.unsetVisDenied += l.unsetVisDenied
		tot.anonGrantAllowed += l.anonGrantAllowed
		tot.anonGrantDenied += l.anonGrantDenied
		tot.allowedN += l.allowedN
		tot.deniedN += l.deniedN
		for k := range l.classes {
			classes[k] = true
		}
		errKinds["nil"] += l.errNil
		errKinds["ErrSystemReadOnly"] += l.errSysRO
		errKinds["ErrUnauthorized"] += l.errUnauth
		for k, v := range l.errOther {
			errKinds[k] += v
		}
		for _, v := range l.violations {
			run.Violate(v)
		}
	}
	for i := 0; i < 6; i++ {
		for _, s := range results[(i*len(results)/6+3)%len(results)].samples {
			run.Sample(s)
		}
	}
	run.Add("evaluations", tot.evaluations)
	run.Set("distinct_nontrivial", tot.nontrivial)
	run.Set("ui_map_comparisons", tot.uiComparisons+int64(nilAccessCmp))
	run.Set("decision_classes_reached", len(classes))
	run.Set("decisions_allowed", tot.allowedN)
	run.Set("decisions_denied", tot.deniedN)
	ek := make([]string, 0, len(errKinds))
	for k := range errKinds {
		ek = append(ek, k)
	}
	sort.Strings(ek)
	ekm := map[string]int64{}
	for _, k := range ek {
		ekm[k] = errKinds[k]
	}
	run.Set("check_policy_results", ekm)
	run.Set("domain", map[string]any{
		"callers": len(d.callers), "resource_names": d.names, "visibilities": d.visibilities, "owners": d.owners,
		"role_grant_maps": len(d.roleGrants), "user_grant_maps": len(d.userGrants), "actions": allActions,
	})
	run.Set("unjudged_unset_visibility", map[string]any{
		"what":    "visibility \"\" (unset), action read/list, caller has no admin/owner/grant ground: the statement only speaks of 'public' resources; docs/RBAC_ENTITLEMENTS.md lists public/private/system and says nothing about an unset value. Reported, not judged.",
		"allowed": tot.unsetVisAllowed, "denied": tot.unsetVisDenied,
		"observed": observed(tot.unsetVisAllowed, tot.unsetVisDenied, "the implementation treats unset visibility like public (read and list open to everyone, including callers without any identity)", "the implementation treats unset visibility like private", "mixed decisions"),
	})
	run.Set("unjudged_empty_user_id_grant", map[string]any{
		"what":    "user grant stored under the empty user id, matched by a caller without user id (thorough tier only). Not addressed by the statement. Reported, not judged.",
		"allowed": tot.anonGrantAllowed, "denied": tot.anonGrantDenied,
		"observed": observed(tot.anonGrantAllowed, tot.anonGrantDenied, "the implementation honours a grant stored under the empty user id for every caller without user id (including a context without any auth)", "the implementation ignores grants stored under the empty user id", "mixed decisions"),
	})
	run.Set("rule", "full cartesian product callers(ordered role lists x user x IsSystem, plus a context without auth) x resource names x visibility x owner x role-grant maps x user-grant maps x 5 actions; every tuple is distinct by construction and is evaluated on CheckPolicy, EnforcePolicy, CanPerformAction, Authorize and ResolveRBACMap; non-trivial = tuples where at least one allow ground (admin, owner, role grant, user grant, public read/list, system caller on system visibility) is present or the statement leaves the decision open; decision_classes_reached = distinct (core, visibility, system caller, admin, owner, role grant, user grant, action) abstractions reached")
	run.Assumption("role names, user ids, resource names, visibilities and grant action sets are limited to the stated small domain (coverage.domain)")
	run.Assumption("UI agreement is checked for a blueprint WITHOUT a custom Evaluator (ResolveRBACMap -> CanPerformAction); blueprints registered by tools/httpserver carry their own Evaluator functions, which are outside the anchors of this property and are not exercised here")
	run.Assumption("the model treats a grant list entry \"*\" as covering every action (wildcard as used by the ACL format)")
	run.Finish()
}
