// c14: "Transaction modes and lifecycle are enforced".
//
// Every call sequence up to length 5 (thorough: 6) over
//
//	{Begin, Commit, Rollback, Phase1Commit, Phase2Commit, Close, OpenBtree, Add(4), Update(2), Remove(3), Find(1)+GetCurrentValue}
//
// is executed on ONE transaction object per sequence, in each mode (ForWriting, ForReading, NoCheck),
// against a store with the committed content {1,2,3}; one restored /dev/shm folder per sequence. A small
// lifecycle model written from the property statement (new / begun / phase1-done / done x committed)
// says which calls may succeed and what the store may contain afterwards; the store is then read with
// cold caches in a fresh transaction and, for ForReading / NoCheck, the folder is compared byte by byte
// with the template.
package main

import (
	"bytes"
	"context"
	"encoding/json"
	"fmt"
	"io"
	"log/slog"
	"os"
	"path/filepath"
	"runtime/debug"
	"sort"
	"strings"
	"sync"
	"time"

	"github.com/sharedcode/sop"
	"github.com/sharedcode/sop/btree"
	"github.com/sharedcode/sop/infs"
	"verif.local/mc/detuuid"
	"verif.local/mc/ev"
	"verif.local/mc/sopenv"
	"verif.local/mc/txn"
	"verif.local/mc/vhook"
)

var ctx = context.Background()

// ---------------- alphabet ----------------

type letter int

const (
	lBegin letter = iota
	lCommit
	lRollback
	lP1
	lP2
	lClose
	lOpen
	lAdd
	lUpdate
	lRemove
	lFind
	nLetters
	// lNew is not part of the main alphabet: it is used by the supplementary enumeration over
	// {Begin, Commit, Rollback, NewBtree} (store creation attempted in every mode and lifecycle state).
	lNew = nLetters
)

var letterNames = [...]string{"Begin", "Commit", "Rollback", "Phase1Commit", "Phase2Commit", "Close", "OpenBtree", "Add(4)", "Update(2)", "Remove(3)", "Find(1)", "NewBtree(t)"}

func (l letter) String() string { return letterNames[l] }
func (l letter) isStoreOp() bool { return l >= lAdd && l <= lFind }
func (l letter) isWrite() bool   { return l == lAdd || l == lUpdate || l == lRemove }

func parseLetter(s string) letter {
	for i, n := range letterNames {
		if n == s {
			return letter(i)
		}
	}
	panic("unknown call " + s)
}

var modes = []sop.TransactionMode{sop.ForWriting, sop.ForReading, sop.NoCheck}

func modeName(m sop.TransactionMode) string {
	switch m {
	case sop.ForWriting:
		return "ForWriting"
	case sop.ForReading:
		return "ForReading"
	}
	return "NoCheck"
}

const storeName = "s"

// storeVariants: [0] runs at full depth; [2] (values written to disk at Add time, so a write operation that
// slips through in a read-only mode is visible on disk) at depth-1; thorough also runs [1] at depth-1.
var storeVariants = []txn.StoreSpec{
	{Name: storeName, Slot: 4, Unique: true, Place: "node", Initial: []txn.KV{{K: 1, V: "v1"}, {K: 2, V: "v2"}, {K: 3, V: "v3"}}},
	{Name: storeName, Slot: 2, Unique: true, Place: "segment", Initial: []txn.KV{{K: 1, V: "v1"}, {K: 2, V: "v2"}, {K: 3, V: "v3"}}},
	{Name: storeName, Slot: 4, Unique: true, Place: "active", Initial: []txn.KV{{K: 1, V: "v1"}, {K: 2, V: "v2"}, {K: 3, V: "v3"}}},
}

// ---------------- folder snapshot (byte-exact comparison and cheap restore) ----------------

type snapshot struct {
	files map[string][]byte
	dirs  map[string]bool
}

const logsDir = "translogs"

func takeSnapshot(root string) *snapshot {
	s := &snapshot{files: map[string][]byte{}, dirs: map[string]bool{}}
	filepath.Walk(root, func(p string, info os.FileInfo, err error) error {
		if err != nil {
			panic(err)
		}
		rel, _ := filepath.Rel(root, p)
		if rel == "." {
			return nil
		}
		if info.IsDir() {
			if rel == logsDir {
				return filepath.SkipDir
			}
			s.dirs[rel] = true
			return nil
		}
		b, err := os.ReadFile(p)
		if err != nil {
			panic(err)
		}
		s.files[rel] = b
		return nil
	})
	return s
}

// diffAndRepair compares root with the snapshot (ignoring the transaction-log folder and all
// metadata such as mtimes), returns the differences in data files and in directories, and
// makes root identical to the snapshot again.
func (s *snapshot) diffAndRepair(root string) (fileDiffs, dirDiffs []string) {
	seenF := map[string]bool{}
	seenD := map[string]bool{}
	var extraDirs []string
	filepath.Walk(root, func(p string, info os.FileInfo, err error) error {
		if err != nil {
			return nil
		}
		rel, _ := filepath.Rel(root, p)
		if rel == "." {
			return nil
		}
		if info.IsDir() {
			if rel == logsDir {
				return filepath.SkipDir
			}
			if !s.dirs[rel] {
				dirDiffs = append(dirDiffs, "+dir "+rel)
				extraDirs = append(extraDirs, p)
			}
			seenD[rel] = true
			return nil
		}
		want, ok := s.files[rel]
		if !ok {
			fileDiffs = append(fileDiffs, "+file "+rel)
			os.Remove(p)
			return nil
		}
		seenF[rel] = true
		if !sameFile(p, info.Size(), want) {
			fileDiffs = append(fileDiffs, "changed "+rel)
			if err := os.WriteFile(p, want, 0o644); err != nil {
				panic(err)
			}
		}
		return nil
	})
	for i := len(extraDirs) - 1; i >= 0; i-- {
		os.RemoveAll(extraDirs[i])
	}
	var missD []string
	for d := range s.dirs {
		if !seenD[d] {
			missD = append(missD, d)
		}
	}
	sort.Strings(missD)
	for _, d := range missD {
		dirDiffs = append(dirDiffs, "-dir "+d)
		os.MkdirAll(filepath.Join(root, d), 0o755)
	}
	var missF []string
	for f := range s.files {
		if !seenF[f] {
			missF = append(missF, f)
		}
	}
	sort.Strings(missF)
	for _, f := range missF {
		fileDiffs = append(fileDiffs, "-file "+f)
		os.MkdirAll(filepath.Dir(filepath.Join(root, f)), 0o755)
		if err := os.WriteFile(filepath.Join(root, f), s.files[f], 0o644); err != nil {
			panic(err)
		}
	}
	os.RemoveAll(filepath.Join(root, logsDir))
	os.MkdirAll(filepath.Join(root, logsDir), 0o755)
	sort.Strings(fileDiffs)
	sort.Strings(dirDiffs)
	return
}

var scratch []byte

// sameFile compares the file with want without allocating per call.
func sameFile(p string, size int64, want []byte) bool {
	if size != int64(len(want)) {
		return false
	}
	f, err := os.Open(p)
	if err != nil {
		return false
	}
	defer f.Close()
	if len(scratch) < len(want)+1 {
		scratch = make([]byte, len(want)+1)
	}
	n, err := io.ReadFull(f, scratch[:len(want)+1])
	if n != len(want) || (err != io.ErrUnexpectedEOF && err != io.EOF) {
		return false
	}
	return bytes.Equal(scratch[:n], want)
}

// ---------------- virtual clock (no real sleeping inside sop; deterministic timestamps) ----------------

var (
	clockMu sync.Mutex
	vnow    = time.Date(2026, 1, 1, 0, 0, 0, 0, time.UTC)
)

func installClock() {
	slog.SetDefault(slog.New(slog.NewTextHandler(io.Discard, nil)))
	debug.SetGCPercent(400)
	sop.RetryStartDuration = time.Millisecond
	vhook.Install(&vhook.Hooks{
		Sleep: func(_ context.Context, d time.Duration) bool {
			clockMu.Lock()
			vnow = vnow.Add(d)
			clockMu.Unlock()
			return true
		},
		Now: func() time.Time {
			clockMu.Lock()
			defer clockMu.Unlock()
			vnow = vnow.Add(time.Millisecond)
			return vnow
		},
	})
}

// ---------------- lifecycle model (written from the statement, not from the code) ----------------

const (
	phNew = iota
	phBegun
	phP1
	phDone
)

// mstate is one possible lifecycle state. Marks / Finals are bit sets over n = "number of
// acknowledged writes": Marks records n at every successful Phase1Commit, Finals (when Committed)
// the prefixes of the acknowledged-write list that the committed store content may be.
type mstate struct {
	Phase     int
	Committed bool
	Marks     uint16
	Finals    uint16
}

func (s mstate) inTx() bool { return s.Phase == phBegun || s.Phase == phP1 }

func (s mstate) String() string {
	switch s.Phase {
	case phNew:
		return "new"
	case phBegun:
		return "begun"
	case phP1:
		return "phase1-done"
	}
	if s.Committed {
		return "done-committed"
	}
	return "done-aborted"
}

func setString(set []mstate) string {
	m := map[string]bool{}
	for _, s := range set {
		m[s.String()] = true
	}
	var n []string
	for k := range m {
		n = append(n, k)
	}
	sort.Strings(n)
	return strings.Join(n, "+")
}

// outcome of a call as seen by the caller.
const (
	oSuccess = iota // lifecycle: nil error; OpenBtree: handle; write op: (true,nil); Find: found and value read
	oRefused        // store op returned (false, nil)
	oError          // an error was returned
)

var aborted = mstate{Phase: phDone}

// next returns the states s may move to when call returns outcome o with nAcked writes acknowledged
// so far, or a reason why the observation is not allowed in s.
func next(s mstate, call letter, o int, nAcked int) ([]mstate, string) {
	bit := uint16(1) << uint(nAcked)
	switch call {
	case lBegin:
		switch s.Phase {
		case phNew:
			if o == oSuccess {
				return []mstate{{Phase: phBegun}}, ""
			}
			return []mstate{s}, ""
		case phBegun, phP1:
			if o == oSuccess {
				return []mstate{s}, ""
			}
			return []mstate{s, aborted}, ""
		}
		// A finished transaction cannot be started again: whatever Begin returns the transaction stays
		// finished (a later successful store operation is then reported as outside the transaction).
		return []mstate{s}, ""
	case lCommit:
		switch s.Phase {
		case phNew:
			return []mstate{s}, ""
		case phBegun, phP1:
			if o == oSuccess {
				return []mstate{{Phase: phDone, Committed: true, Finals: s.Marks | bit}}, ""
			}
			return []mstate{aborted, s}, ""
		}
		return []mstate{s}, ""
	case lP1:
		switch s.Phase {
		case phNew:
			return []mstate{s}, ""
		case phBegun, phP1:
			if o == oSuccess {
				return []mstate{{Phase: phP1, Marks: s.Marks | bit}}, ""
			}
			return []mstate{aborted, s}, ""
		}
		return []mstate{s}, ""
	case lP2:
		switch s.Phase {
		case phNew:
			return []mstate{s}, ""
		case phBegun:
			if o == oSuccess {
				return []mstate{{Phase: phDone, Committed: true, Finals: bit}}, ""
			}
			return []mstate{s, aborted}, ""
		case phP1:
			if o == oSuccess {
				return []mstate{{Phase: phDone, Committed: true, Finals: s.Marks | bit}}, ""
			}
			return []mstate{aborted, s}, ""
		}
		return []mstate{s}, ""
	case lRollback:
		switch s.Phase {
		case phNew:
			if o == oSuccess {
				return []mstate{s, aborted}, ""
			}
			return []mstate{s}, ""
		case phBegun, phP1:
			if o == oSuccess {
				return []mstate{aborted}, ""
			}
			return []mstate{aborted, s}, ""
		}
		if s.Committed && o == oSuccess {
			return nil, "Rollback returned nil after a successful commit"
		}
		return []mstate{s}, ""
	case lClose:
		return []mstate{s}, ""
	}
	// store operations (OpenBtree and the item operations)
	if !s.inTx() {
		if o == oSuccess {
			return nil, "store operation succeeded outside Begin..end"
		}
		return []mstate{s}, ""
	}
	if o == oError {
		return []mstate{s, aborted}, ""
	}
	return []mstate{s}, ""
}

func dedupe(set []mstate) []mstate {
	var out []mstate
	for _, s := range set {
		dup := false
		for _, o := range out {
			if o == s {
				dup = true
			}
		}
		if !dup {
			out = append(out, s)
		}
	}
	return out
}

// ---------------- content model ----------------

func applyWrites(initial []txn.KV, ws []letter) []txn.KV {
	m := map[int]string{}
	for _, kv := range initial {
		m[kv.K] = kv.V
	}
	for _, w := range ws {
		switch w {
		case lAdd:
			m[4] = "a4"
		case lUpdate:
			m[2] = "u2"
		case lRemove:
			delete(m, 3)
		}
	}
	var out []txn.KV
	for k, v := range m {
		out = append(out, txn.KV{K: k, V: v})
	}
	sort.Slice(out, func(i, j int) bool { return out[i].K < out[j].K })
	return out
}

// ---------------- one case ----------------

type callRes struct {
	Call     string `json:"call"`
	OK       bool   `json:"ok"`
	Err      string `json:"err,omitempty"`
	Val      string `json:"val,omitempty"`
	HasBegun bool   `json:"has_begun_after"`
	Model    string `json:"model_after"`
}

type finding struct {
	Sig, Detail string
}

type caseResult struct {
	Calls      []callRes
	Findings   []finding
	HandleOpen bool
	// statistics
	BeginOK, CommitOKWithChanges, CommitOK, OutsideRejected, RollbackAfterCommitRejected bool
	NOutsideRejected, NWriteRefusedRO, NWriteAckedRO, NHasBegunDisagree                   int
	FinalContent                                                                          string
	Hung                                                                                  bool
}

type env struct {
	spec txn.StoreSpec
	snap *snapshot
}

func newEnv(spec txn.StoreSpec) *env {
	installClock()
	sopenv.FreshDir(1)
	if err := txn.Build(ctx, []txn.StoreSpec{spec}); err != nil {
		panic(err)
	}
	// One read transaction so that anything a first reader creates lazily is part of the template.
	sopenv.ResetCaches()
	if d := txn.ReadAll(ctx, []string{storeName}); len(d.Errs) > 0 {
		panic(fmt.Sprint("template unreadable: ", d))
	}
	e := &env{spec: spec, snap: takeSnapshot(sopenv.Dir)}
	e.snap.diffAndRepair(sopenv.Dir)
	return e
}

func skeleton(seq []letter) string {
	var p []string
	for _, l := range seq {
		switch {
		case l.isWrite():
			if len(p) > 0 && p[len(p)-1] == "w" {
				continue
			}
			p = append(p, "w")
		case l == lFind:
			if len(p) > 0 && p[len(p)-1] == "r" {
				continue
			}
			p = append(p, "r")
		default:
			p = append(p, l.String())
		}
	}
	return strings.Join(p, ",")
}

func seqNames(seq []letter) []string {
	r := make([]string, len(seq))
	for i, l := range seq {
		r[i] = l.String()
	}
	return r
}

// invoke runs f, converting a panic into a string.
func invoke(f func()) (panicked string) {
	defer func() {
		if r := recover(); r != nil {
			st := string(debug.Stack())
			if i := strings.Index(st, "panic("); i >= 0 {
				st = st[i:]
			}
			if len(st) > 1200 {
				st = st[:1200]
			}
			panicked = fmt.Sprintf("%v @ %s", r, st)
		}
	}()
	f()
	return ""
}

func firstLine(s string) string {
	if i := strings.IndexByte(s, '\n'); i >= 0 {
		return s[:i]
	}
	return s
}

func (e *env) runCase(mode sop.TransactionMode, seq []letter) *caseResult {
	res := &caseResult{}
	mn := modeName(mode)
	add := func(sig, detail string) {
		res.Findings = append(res.Findings, finding{sig, fmt.Sprintf("mode=%s sequence=%v store{slot=%d place=%s}: %s", mn, seqNames(seq), e.spec.Slot, e.spec.Place, detail)})
	}
	sopenv.ResetCaches()
	detuuid.Reset(1000)
	tx, err := infs.NewTransaction(ctx, sopenv.Opts(mode))
	if err != nil {
		panic(err)
	}
	var handle btree.BtreeInterface[int, string]
	set := []mstate{{Phase: phNew}}
	var acked []letter
	pending := map[int]string{}
	for _, kv := range e.spec.Initial {
		pending[kv.K] = kv.V
	}
	writeSucceededRO := false
	// lifecycle features of the sequence that name the input class of a persisted-effect violation
	reexecP1, writeAfterP1, usedNew := false, false, false
	lastLifecycle := "none"

	rcTag := func() string {
		switch {
		case reexecP1 && writeAfterP1:
			return "phase1-reexecuted+write-after-phase1"
		case reexecP1:
			return "phase1-reexecuted"
		case writeAfterP1:
			return "write-after-phase1"
		case usedNew:
			return "newbtree"
		}
		return "none"
	}
	doCall := func(l letter, judged bool) bool {
		cr := callRes{Call: l.String()}
		var o int
		gcvErr := ""
		before := setString(set)
		if !l.isStoreOp() && l != lOpen && l != lNew {
			lastLifecycle = l.String()
		}
		if l == lNew {
			usedNew = true
		}
		if (l == lP1 || l == lCommit) && strings.Contains(before, "phase1-done") {
			reexecP1 = true
		}
		definitelyInTx := true
		for _, s := range set {
			if !s.inTx() {
				definitelyInTx = false
			}
		}
		p := invoke(func() {
			var err error
			switch l {
			case lBegin:
				err = tx.Begin(ctx)
			case lCommit:
				err = tx.Commit(ctx)
			case lRollback:
				err = tx.Rollback(ctx)
			case lP1:
				err = tx.GetPhasedTransaction().Phase1Commit(ctx)
			case lP2:
				err = tx.GetPhasedTransaction().Phase2Commit(ctx)
			case lClose:
				err = tx.Close()
			case lOpen:
				var b btree.BtreeInterface[int, string]
				b, err = infs.OpenBtree[int, string](ctx, storeName, tx, nil)
				if err == nil && b != nil {
					handle = b
				}
			case lNew:
				_, err = infs.NewBtree[int, string](ctx, sop.StoreOptions{Name: "t", SlotLength: 4, IsUnique: true, IsValueDataInNodeSegment: true}, tx, nil)
			case lAdd:
				cr.OK, err = handle.Add(ctx, 4, "a4")
			case lUpdate:
				cr.OK, err = handle.Update(ctx, 2, "u2")
			case lRemove:
				cr.OK, err = handle.Remove(ctx, 3)
			case lFind:
				// two store operations: the outcome of Find is judged by itself, GetCurrentValue separately
				cr.OK, err = handle.Find(ctx, 1, false)
				if cr.OK && err == nil {
					var gerr error
					if cr.Val, gerr = handle.GetCurrentValue(ctx); gerr != nil {
						gcvErr = gerr.Error()
					}
				}
			}
			switch {
			case err != nil:
				cr.Err = err.Error()
				o = oError
			case l.isStoreOp() && !cr.OK:
				o = oRefused
			default:
				cr.OK = true
				o = oSuccess
			}
		})
		if p != "" {
			cr.Err = "PANIC: " + firstLine(p)
			res.Calls = append(res.Calls, cr)
			add(fmt.Sprintf("panic|%s|%s|%s", mn, l, before), fmt.Sprintf("call #%d %s panicked in model state {%s}: %s", len(res.Calls), l, before, p))
			return false
		}
		// lifecycle model
		var nx []mstate
		reason := ""
		for _, s := range set {
			n, why := next(s, l, o, len(acked))
			if why != "" {
				reason = why
				continue
			}
			nx = append(nx, n...)
		}
		nx = dedupe(nx)
		if len(nx) == 0 {
			kind := "op-outside-transaction"
			if l == lRollback {
				kind = "rollback-after-commit"
			}
			add(fmt.Sprintf("%s|%s|%s|%s", kind, mn, l, before), fmt.Sprintf("call #%d %s returned ok=%v err=%q val=%q in lifecycle state {%s}: %s", len(res.Calls)+1, l, cr.OK, cr.Err, cr.Val, before, reason))
			// continue with the state unchanged so that the persisted effect is still judged
			nx = set
		} else if reason == "" && !definitelyInTx && (l.isStoreOp() || l == lOpen || l == lNew) && o != oSuccess {
			res.NOutsideRejected++
		}
		if gcvErr != "" {
			// Find succeeded, the following GetCurrentValue returned an error: a second store operation that failed
			cr.Err = "GetCurrentValue: " + gcvErr
			var n2 []mstate
			for _, s := range nx {
				n, _ := next(s, lFind, oError, len(acked))
				n2 = append(n2, n...)
			}
			nx = dedupe(n2)
		}
		if l == lRollback && o == oError && strings.Contains(before, "done-committed") {
			res.RollbackAfterCommitRejected = true
		}
		// content bookkeeping
		if o == oSuccess {
			switch {
			case l == lBegin && before == "new":
				res.BeginOK = true
			case l.isWrite():
				if mode == sop.ForWriting {
					// auxiliary sanity check of the acknowledged result against the in-transaction view
					_, present := pending[map[letter]int{lAdd: 4, lUpdate: 2, lRemove: 3}[l]]
					if definitelyInTx && present == (l == lAdd) {
						add(fmt.Sprintf("aux-op-result|%s|rc=%s|%s", mn, rcTag(), l), fmt.Sprintf("call #%d %s returned true although the transaction's own view %v says it cannot", len(res.Calls)+1, l, pending))
					}
					acked = append(acked, l)
					if strings.Contains(before, "phase1-done") {
						writeAfterP1 = true
					}
					switch l {
					case lAdd:
						pending[4] = "a4"
					case lUpdate:
						pending[2] = "u2"
					case lRemove:
						delete(pending, 3)
					}
				} else {
					writeSucceededRO = true
					res.NWriteAckedRO++
				}
			case l == lFind && gcvErr == "":
				if want, ok := pending[1]; definitelyInTx && !writeSucceededRO && (!ok || want != cr.Val) {
					add(fmt.Sprintf("aux-op-result|%s|rc=%s|%s", mn, rcTag(), l), fmt.Sprintf("call #%d Find(1)+GetCurrentValue returned %q, the transaction's own view is %v", len(res.Calls)+1, cr.Val, pending))
				}
			}
		} else if l.isWrite() && mode != sop.ForWriting && definitelyInTx {
			res.NWriteRefusedRO++
		}
		// resolve the model's nondeterminism with the public HasBegun observation
		hbPanic := invoke(func() { cr.HasBegun = tx.HasBegun() })
		if hbPanic == "" {
			var f []mstate
			for _, s := range nx {
				if s.inTx() == cr.HasBegun {
					f = append(f, s)
				}
			}
			if len(f) > 0 {
				nx = f
			} else {
				res.NHasBegunDisagree++
			}
		}
		set = nx
		cr.Model = setString(set)
		res.Calls = append(res.Calls, cr)
		return true
	}

	class := func() string {
		return fmt.Sprintf("%s|rc=%s|store=slot%d-%s|last=%s|len=%d", mn, rcTag(), e.spec.Slot, e.spec.Place, lastLifecycle, len(seq))
	}
	checkUntouched := func(when string) {
		fd, dd := e.snap.diffAndRepair(sopenv.Dir)
		if mode == sop.ForWriting {
			return
		}
		// when: "in-flight" = the transaction was still open when the folder was compared, "after-end" = it had ended
		switch {
		case len(fd) > 0:
			add(fmt.Sprintf("readonly-changed-disk|%s", strings.Replace(class(), "|store=", "|when="+when+"|store=", 1)), fmt.Sprintf("%s: a %s transaction changed store data on disk: %v %v", when, mn, fd, dd))
		case len(dd) > 0:
			add(fmt.Sprintf("readonly-changed-dirs|%s", strings.Replace(class(), "|store=", "|when="+when+"|store=", 1)), fmt.Sprintf("%s: a %s transaction changed the directory tree: %v", when, mn, dd))
		}
	}

	alive := true
	for _, l := range seq {
		if l.isStoreOp() && handle == nil {
			panic("harness: store op without handle in " + fmt.Sprint(seq))
		}
		if !doCall(l, true) {
			alive = false
			break
		}
	}
	res.HandleOpen = handle != nil
	if mode != sop.ForWriting {
		open := false
		invoke(func() { open = tx.HasBegun() })
		if open {
			checkUntouched("in-flight")
		} else {
			checkUntouched("after-end")
		}
	}
	// epilogue: an undecided transaction is ended by Rollback (what happens to in-flight state is not this property's business)
	epilogue := false
	if alive {
		hb := false
		invoke(func() { hb = tx.HasBegun() })
		if hb {
			epilogue = true
			doCall(lRollback, false)
			res.Calls[len(res.Calls)-1].Call = "(epilogue) Rollback"
		}
		invoke(func() { tx.Close() })
	}
	// expected persisted contents
	allowed := map[string]bool{}
	committedWithChanges := false
	for _, s := range set {
		if s.Committed && mode == sop.ForWriting && s.Finals != 0 {
			for n := 0; n <= len(acked); n++ {
				if s.Finals&(1<<uint(n)) != 0 {
					allowed[fmt.Sprint(applyWrites(e.spec.Initial, acked[:n]))] = true
					if n > 0 {
						committedWithChanges = true
					}
				}
			}
			res.CommitOK = true
		} else {
			if s.Committed {
				res.CommitOK = true
			}
			allowed[fmt.Sprint(applyWrites(e.spec.Initial, nil))] = true
		}
	}
	res.CommitOKWithChanges = committedWithChanges
	if mode != sop.ForWriting && (epilogue || !alive) {
		checkUntouched("after-end")
	}
	// observe with cold caches in a fresh transaction
	sopenv.ResetCaches()
	var d txn.Dump
	if p := invoke(func() { d = txn.ReadAll(ctx, []string{storeName}) }); p != "" {
		add(fmt.Sprintf("unreadable|%s", class()), "reading the store afterwards panicked: "+p)
	} else if len(d.Errs) > 0 {
		add(fmt.Sprintf("unreadable|%s", class()), fmt.Sprintf("the store cannot be read afterwards (cold caches, fresh transaction): %v", d.Errs))
	} else {
		got := fmt.Sprint(d.Stores[storeName])
		if len(d.Stores[storeName]) == 0 {
			got = fmt.Sprint([]txn.KV(nil))
		}
		res.FinalContent = got
		if !allowed[got] {
			var al []string
			for k := range allowed {
				al = append(al, k)
			}
			sort.Strings(al)
			add(fmt.Sprintf("contents|%s", class()), fmt.Sprintf("persisted contents %s; the lifecycle model {%s} with acknowledged writes %v allows only %v; calls=%s", got, setString(set), seqNames(acked), al, brief(res.Calls)))
		} else if int(d.Counts[storeName]) != len(d.Stores[storeName]) {
			add(fmt.Sprintf("count|%s", class()), fmt.Sprintf("persisted Count()=%d but the store holds %d items %s; calls=%s", d.Counts[storeName], len(d.Stores[storeName]), got, brief(res.Calls)))
		}
	}
	// leave a clean folder for the next case (the read-only modes were compared and repaired above;
	// the verifying reader is itself a ForReading transaction)
	if mode == sop.ForWriting || len(res.Findings) > 0 {
		e.snap.diffAndRepair(sopenv.Dir)
	}
	return res
}

func brief(cs []callRes) string {
	var p []string
	for _, c := range cs {
		s := c.Call + "="
		switch {
		case c.Err != "":
			e := c.Err
			if len(e) > 70 {
				e = e[:70] + "..."
			}
			s += "err(" + e + ")"
		case c.OK:
			s += "ok"
		default:
			s += "false"
		}
		p = append(p, s)
	}
	return strings.Join(p, "; ")
}

// runGuarded runs one case with a watchdog: a case that does not return is reported and ends the job.
func (e *env) runGuarded(run *ev.Run, mode sop.TransactionMode, seq []letter) *caseResult {
	ch := make(chan *caseResult, 1)
	go func() { ch <- e.runCase(mode, seq) }()
	select {
	case r := <-ch:
		return r
	case <-time.After(90 * time.Second):
		run.Violate(ev.Violation{Sig: fmt.Sprintf("hang|%s|%s", modeName(mode), skeleton(seq)),
			Detail: fmt.Sprintf("mode=%s sequence=%v did not return within 90 s (virtual sleeps are instantaneous)", modeName(mode), seqNames(seq)),
			Replay: replayOf(e.spec, mode, seq)})
		run.NotExhaustive("a case hung; the rest of its job was not explored")
		return &caseResult{Hung: true}
	}
}

type replay struct {
	Mode  string        `json:"mode"`
	Seq   []string      `json:"sequence"`
	Store txn.StoreSpec `json:"store"`
	How   string        `json:"how"`
}

func replayOf(spec txn.StoreSpec, mode sop.TransactionMode, seq []letter) replay {
	return replay{Mode: modeName(mode), Seq: seqNames(seq), Store: spec, How: "./bin/c14 C14 --replay <this file>"}
}

// ---------------- enumeration ----------------

type node struct {
	seq    []letter
	handle bool
}

func permitted(handle bool, l letter) bool {
	if l.isStoreOp() {
		return handle
	}
	if l == lOpen {
		return !handle
	}
	return true
}

func (e *env) record(run *ev.Run, mode sop.TransactionMode, seq []letter, r *caseResult) {
	run.Add("evaluations", 1)
	run.Add("calls_executed", int64(len(r.Calls)))
	if r.BeginOK && len(seq) > 1 {
		run.Add("distinct_nontrivial", 1)
	}
	if r.CommitOK {
		run.Add("cases_with_successful_commit", 1)
	}
	if r.CommitOKWithChanges {
		run.Add("cases_committing_changes", 1)
	}
	run.Add("store_ops_correctly_refused_outside_transaction", int64(r.NOutsideRejected))
	run.Add("writes_refused_in_readonly_modes", int64(r.NWriteRefusedRO))
	run.Add("writes_acknowledged_in_readonly_modes", int64(r.NWriteAckedRO))
	run.Add("hasbegun_disagrees_with_model", int64(r.NHasBegunDisagree))
	if r.RollbackAfterCommitRejected {
		run.Add("rollback_after_commit_rejected", 1)
	}
	if mode != sop.ForWriting {
		run.Add("readonly_cases_byte_compared", 1)
	}
	for _, f := range r.Findings {
		run.Violate(ev.Violation{Sig: f.Sig, Detail: f.Detail, Replay: replayOf(e.spec, mode, seq)})
	}
	if r.CommitOKWithChanges && len(seq) >= 4 {
		run.Sample(map[string]any{"mode": modeName(mode), "sequence": seqNames(seq), "calls": brief(r.Calls), "final": r.FinalContent})
	}
}

// explore runs the subtree rooted at [a,b] breadth first (so the first case of a violation class is a shortest one).
func (e *env) explore(run *ev.Run, mode sop.TransactionMode, a, b letter, depth int) {
	if !permitted(false, a) {
		return
	}
	ra := e.runGuarded(run, mode, []letter{a})
	if ra.Hung {
		return
	}
	if b == 0 {
		e.record(run, mode, []letter{a}, ra)
	}
	if depth < 2 || !permitted(ra.HandleOpen, b) {
		return
	}
	frontier := []node{{seq: []letter{a, b}}}
	for len(frontier) > 0 {
		var nextF []node
		for _, n := range frontier {
			r := e.runGuarded(run, mode, n.seq)
			if r.Hung {
				return
			}
			e.record(run, mode, n.seq, r)
			if len(n.seq) >= depth {
				continue
			}
			for l := letter(0); l < nLetters; l++ {
				if permitted(r.HandleOpen, l) {
					nextF = append(nextF, node{seq: append(append([]letter(nil), n.seq...), l)})
				}
			}
		}
		frontier = nextF
	}
}

// exploreNew: every sequence up to the given length over {Begin, Commit, Rollback, NewBtree(t)}.
func (e *env) exploreNew(run *ev.Run, mode sop.TransactionMode, depth int) {
	sub := []letter{lBegin, lCommit, lRollback, lNew}
	frontier := [][]letter{{}}
	for d := 1; d <= depth; d++ {
		var nextF [][]letter
		for _, pre := range frontier {
			for _, l := range sub {
				seq := append(append([]letter(nil), pre...), l)
				nextF = append(nextF, seq)
				hasNew := false
				for _, x := range seq {
					if x == lNew {
						hasNew = true
					}
				}
				if !hasNew {
					continue // covered by the main enumeration
				}
				r := e.runGuarded(run, mode, seq)
				if r.Hung {
					return
				}
				e.record(run, mode, seq, r)
				run.Add("supplementary_newbtree_cases", 1)
			}
		}
		frontier = nextF
	}
}

func doReplay(file string) {
	b, err := os.ReadFile(file)
	if err != nil {
		fmt.Fprintln(os.Stderr, err)
		os.Exit(2)
	}
	var f struct {
		Replay replay `json:"replay"`
	}
	if err := json.Unmarshal(b, &f); err != nil || len(f.Replay.Seq) == 0 {
		fmt.Fprintln(os.Stderr, "not a C14 replay file:", err)
		os.Exit(2)
	}
	spec := f.Replay.Store
	if spec.Name == "" {
		spec = storeVariants[0]
	}
	defer sopenv.Cleanup()
	e := newEnv(spec)
	var mode sop.TransactionMode
	for _, m := range modes {
		if modeName(m) == f.Replay.Mode {
			mode = m
		}
	}
	var seq []letter
	for _, s := range f.Replay.Seq {
		seq = append(seq, parseLetter(s))
	}
	r := e.runCase(mode, seq)
	fmt.Printf("mode=%s store{slot=%d place=%s}\n", modeName(mode), spec.Slot, spec.Place)
	for i, c := range r.Calls {
		fmt.Printf("  #%d %-22s ok=%-5v val=%-4q hasBegun=%-5v model={%s} err=%s\n", i+1, c.Call, c.OK, c.Val, c.HasBegun, c.Model, c.Err)
	}
	fmt.Println("  persisted afterwards:", r.FinalContent)
	for _, f := range r.Findings {
		fmt.Printf("VIOLATION sig=%s\n  %s\n", f.Sig, f.Detail)
	}
	sopenv.Cleanup()
	if len(r.Findings) > 0 {
		os.Exit(1)
	}
	fmt.Println("no violation")
	os.Exit(0)
}

func main() {
	for i, a := range os.Args {
		if a == "--replay" && i+1 < len(os.Args) {
			doReplay(os.Args[i+1])
		}
	}
	run := ev.New("C14", "exploration")
	depth := 5
	if run.Thorough() {
		depth = 6
	}
	if v := os.Getenv("C14_DEPTH"); v != "" {
		fmt.Sscan(v, &depth)
	}
	// jobs: variant:mode:a:b
	type jobSpec struct {
		variant, depth int
	}
	plan := []jobSpec{{0, depth}, {2, depth - 1}}
	if run.Thorough() {
		plan = append(plan, jobSpec{1, depth - 1})
	}
	if job := ev.Job(); strings.HasPrefix(job, "W:") {
		var vi int
		fmt.Sscanf(job, "W:%d", &vi)
		exploreWriteOps(run, vi)
		sopenv.Cleanup()
		run.EmitPartial()
	}
	if job := ev.Job(); job != "" {
		var v, m, a, b, d int
		fmt.Sscanf(job, "%d:%d:%d:%d:%d", &v, &m, &a, &b, &d)
		e := newEnv(storeVariants[v])
		if a < 0 {
			e.exploreNew(run, modes[m], d)
		} else {
			e.explore(run, modes[m], letter(a), letter(b), d)
		}
		sopenv.Cleanup()
		run.EmitPartial()
	}
	var jobs []string
	for _, p := range plan {
		for m := range modes {
			// big subtrees (those starting with Begin) first
			for a := letter(0); a < nLetters; a++ {
				for b := letter(0); b < nLetters; b++ {
					if a.isStoreOp() {
						continue
					}
					jobs = append(jobs, fmt.Sprintf("%d:%d:%d:%d:%d", p.variant, m, a, b, p.depth))
				}
			}
		}
	}
	for m := range modes {
		jobs = append(jobs, fmt.Sprintf("0:%d:-1:0:%d", m, depth-1))
	}
	for vi := range writeOpsVariants() {
		jobs = append(jobs, fmt.Sprintf("W:%d", vi))
	}
	dl := 20 * time.Minute
	if run.Thorough() {
		dl = 2 * time.Hour
	}
	run.Parallel(jobs, 0, dl, func(job, out string) *ev.Violation {
		return &ev.Violation{Sig: "crash|job", Detail: "worker " + job + " (variant:mode:first:second:depth) died: " + out, Replay: map[string]any{"job": job}}
	})
	run.Set("alphabet", letterNames[:])
	run.Set("modes", []string{"ForWriting", "ForReading", "NoCheck"})
	run.Set("max_sequence_length", depth)
	run.Set("rule", "every call sequence of length 1..max over the alphabet on one transaction object, per mode, enumerated exactly once breadth-first; canonical form: item operations only once an OpenBtree returned a handle (they cannot be called otherwise), OpenBtree only while no handle exists; each case starts from a byte-identical restored store folder {1:v1,2:v2,3:v3}, cold caches, deterministic UUIDs; an undecided transaction is ended by an epilogue Rollback before the store is read back cold; distinct_nontrivial = sequences (all distinct by construction) of length >= 2 in which Begin succeeded")
	run.Set("supplementary", "every sequence of length <= max-1 over {Begin, Commit, Rollback, NewBtree(t)} that contains NewBtree, per mode (store creation is a store operation: allowed only inside Begin..end, and in ForReading / NoCheck it must leave the folder byte-identical)")
	run.Set("supplementary_write_methods", "mode {ForWriting (control), ForReading, NoCheck} x store {values in node, in separate segments, actively persisted; the last two also with values 2,3 rewritten by a later transaction} x cursor prelude {none, Find(2), Find(2)+GetCurrentValue, First+GetCurrentItem} x each of the wrapper's write methods {Add, AddIfNotExist, Upsert(existing), Upsert(new), Update, UpdateKey, UpdateCurrentValue, UpdateCurrentItem, UpdateCurrentKey, Remove, RemoveCurrentItem} x epilogue {Commit, Rollback}: in the two non-writer modes the store folder must stay byte-identical and read back cold unchanged")
	run.Assumption("single transaction object and single thread per case; fault-free environment (in-memory L2 cache, tmpfs)")
	run.Assumption("keys fixed per operation: Add(4), Update(2), Remove(3), Find(1)+GetCurrentValue on the unique store {1,2,3}; stores: slot length 4 with values in the node at full depth, slot length 4 with actively persisted values at depth-1; thorough also slot length 2 with values in separate segments at depth-1")
	run.Assumption("statement says which calls MAY succeed: return values of lifecycle calls are judged only where the statement is explicit (Rollback after a successful commit must fail; store operations outside Begin..end must return an error or false); everything else is judged by the persisted effect: store content read cold must be the content before, or, iff a ForWriting Commit / Phase2Commit returned nil, the content with the writes acknowledged up to a Phase1Commit/Commit applied exactly once")
	run.Assumption("a write acknowledged between Phase1Commit and Phase2Commit may or may not be part of the commit (the statement does not say)")
	run.Assumption("ForReading / NoCheck: every file under the store folder except translogs/ is compared byte by byte with the template right after the sequence (when=in-flight if the transaction is still open then) and after the epilogue Rollback ended it (when=after-end); file times and modes ignored")
	run.Finish()
}
