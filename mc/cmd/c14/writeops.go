package main

// Supplementary enumeration for C14: EVERY write method of the store interface in the non-writer modes.
//
// The main alphabet drives Add/Update/Remove only. The transaction wrapper has ten write methods, each with its
// own mode guard, and what a slipped-through write does depends on where the store keeps its values (a value
// that lives in its own blob and is "actively persisted" is rewritten on disk at call time, before any commit).
// So, for mode in {ForReading, NoCheck} x store variant x cursor prelude x write method x epilogue, the case
// is executed on a restored folder and the folder must afterwards be byte-identical to the template (and read
// back cold with the template's content). ForWriting runs as a positive control: it shows how many of the cases
// would change stored data if the guard were absent (non-vacuity).

import (
	"fmt"
	"reflect"
	"strings"

	"github.com/sharedcode/sop"
	"github.com/sharedcode/sop/btree"
	"github.com/sharedcode/sop/infs"
	"verif.local/mc/detuuid"
	"verif.local/mc/ev"
	"verif.local/mc/sopenv"
	"verif.local/mc/txn"
)

type wop struct {
	Name string
	Do   func(b btree.BtreeInterface[int, string]) (bool, error)
}

var writeMethods = []wop{
	{"Add(4)", func(b btree.BtreeInterface[int, string]) (bool, error) { return b.Add(ctx, 4, "a4") }},
	{"AddIfNotExist(4)", func(b btree.BtreeInterface[int, string]) (bool, error) { return b.AddIfNotExist(ctx, 4, "a4") }},
	{"Upsert(2)", func(b btree.BtreeInterface[int, string]) (bool, error) { return b.Upsert(ctx, 2, "u2") }},
	{"Upsert(5)", func(b btree.BtreeInterface[int, string]) (bool, error) { return b.Upsert(ctx, 5, "u5") }},
	{"Update(2)", func(b btree.BtreeInterface[int, string]) (bool, error) { return b.Update(ctx, 2, "u2") }},
	{"UpdateKey(2)", func(b btree.BtreeInterface[int, string]) (bool, error) { return b.UpdateKey(ctx, 2) }},
	{"UpdateCurrentValue", func(b btree.BtreeInterface[int, string]) (bool, error) { return b.UpdateCurrentValue(ctx, "cv") }},
	{"UpdateCurrentItem", func(b btree.BtreeInterface[int, string]) (bool, error) {
		return b.UpdateCurrentItem(ctx, b.GetCurrentKey().Key, "ci")
	}},
	{"UpdateCurrentKey", func(b btree.BtreeInterface[int, string]) (bool, error) {
		return b.UpdateCurrentKey(ctx, b.GetCurrentKey().Key)
	}},
	{"Remove(3)", func(b btree.BtreeInterface[int, string]) (bool, error) { return b.Remove(ctx, 3) }},
	{"RemoveCurrentItem", func(b btree.BtreeInterface[int, string]) (bool, error) { return b.RemoveCurrentItem(ctx) }},
}

// preludes position the cursor (and optionally fetch the value, which is what makes an actively persisted
// value known to the item tracker) before the write method is called.
var preludes = []wop{
	{"none", func(b btree.BtreeInterface[int, string]) (bool, error) { return true, nil }},
	{"Find(2)", func(b btree.BtreeInterface[int, string]) (bool, error) { return b.Find(ctx, 2, false) }},
	{"Find(2)+GetCurrentValue", func(b btree.BtreeInterface[int, string]) (bool, error) {
		ok, err := b.Find(ctx, 2, false)
		if ok && err == nil {
			_, err = b.GetCurrentValue(ctx)
		}
		return ok, err
	}},
	{"First+GetCurrentItem", func(b btree.BtreeInterface[int, string]) (bool, error) {
		ok, err := b.First(ctx)
		if ok && err == nil {
			_, err = b.GetCurrentItem(ctx)
		}
		return ok, err
	}},
}

var epilogues = []string{"Commit", "Rollback"}

// writeOpsVariants: the three store variants of the main enumeration plus stores whose values 2 and 3 were
// rewritten by a later transaction (an updated value of a separate-segment / actively persisted store lives in
// a blob of its own).
func writeOpsVariants() []struct {
	Tag     string
	Spec    txn.StoreSpec
	Updated bool
} {
	return []struct {
		Tag     string
		Spec    txn.StoreSpec
		Updated bool
	}{
		{"node", storeVariants[0], false},
		{"segment", storeVariants[1], false},
		{"active", storeVariants[2], false},
		{"segment-updated", storeVariants[1], true},
		{"active-updated", storeVariants[2], true},
	}
}

func newWriteOpsEnv(spec txn.StoreSpec, updated bool) (*env, []txn.KV) {
	installClock()
	sopenv.FreshDir(1)
	if err := txn.Build(ctx, []txn.StoreSpec{spec}); err != nil {
		panic(err)
	}
	want := append([]txn.KV(nil), spec.Initial...)
	if updated {
		sopenv.ResetCaches()
		r := txn.Run(ctx, txn.Prog{Name: "prep", Mode: sop.ForWriting, End: "commit",
			Ops: []txn.Op{{Kind: "update", Store: storeName, K: 2, V: "w2"}, {Kind: "update", Store: storeName, K: 3, V: "w3"}}}, nil)
		if !r.Committed {
			panic(fmt.Sprint("prep transaction did not commit: ", r))
		}
		want = []txn.KV{{K: 1, V: "v1"}, {K: 2, V: "w2"}, {K: 3, V: "w3"}}
	}
	sopenv.ResetCaches()
	d := txn.ReadAll(ctx, []string{storeName})
	if len(d.Errs) > 0 || !reflect.DeepEqual(d.Stores[storeName], want) {
		panic(fmt.Sprint("template unreadable or wrong: ", d))
	}
	e := &env{spec: spec, snap: takeSnapshot(sopenv.Dir)}
	e.snap.diffAndRepair(sopenv.Dir)
	return e, want
}

// exploreWriteOps runs all cases of one store variant and returns (cases, cases in which ForWriting changed data).
func exploreWriteOps(run *ev.Run, vi int) {
	v := writeOpsVariants()[vi]
	e, want := newWriteOpsEnv(v.Spec, v.Updated)
	var cases, acked, control int64
	for _, mode := range modes {
		mn := modeName(mode)
		for _, pre := range preludes {
			for _, w := range writeMethods {
				for _, epi := range epilogues {
					cases++
					sopenv.ResetCaches()
					detuuid.Reset(2000)
					var log []string
					var ok bool
					var werr error
					p := invoke(func() {
						tx, err := infs.NewTransaction(ctx, sopenv.Opts(mode))
						if err != nil {
							panic(err)
						}
						if err := tx.Begin(ctx); err != nil {
							panic(err)
						}
						b, err := infs.OpenBtree[int, string](ctx, storeName, tx, nil)
						if err != nil {
							panic(err)
						}
						pok, perr := pre.Do(b)
						log = append(log, fmt.Sprintf("%s=%v,%v", pre.Name, pok, perr))
						ok, werr = w.Do(b)
						log = append(log, fmt.Sprintf("%s=%v,%v", w.Name, ok, werr))
						var eerr error
						if epi == "Commit" {
							eerr = tx.Commit(ctx)
						} else {
							eerr = tx.Rollback(ctx)
						}
						log = append(log, fmt.Sprintf("%s=%v", epi, eerr))
						if tx.HasBegun() {
							tx.Rollback(ctx)
						}
					})
					fd, dd := e.snap.diffAndRepair(sopenv.Dir)
					changed := len(fd)+len(dd) > 0
					if mode == sop.ForWriting {
						if changed {
							control++
						}
						continue
					}
					replay := map[string]any{"writeops": true, "variant": v.Tag, "mode": mn, "prelude": pre.Name, "method": w.Name, "epilogue": epi}
					what := fmt.Sprintf("mode=%s store{%s slot=%d} calls: Begin, OpenBtree, %s", mn, v.Tag, v.Spec.Slot, strings.Join(log, ", "))
					if p != "" {
						run.Violate(ev.Violation{Sig: fmt.Sprintf("panic|%s|%s", mn, w.Name), Detail: what + ": panicked: " + firstLine(p), Replay: replay})
						continue
					}
					if ok && werr == nil {
						acked++
					}
					if changed {
						run.Violate(ev.Violation{Sig: fmt.Sprintf("readonly-mode-changed-stored-data|%s|%s|store=%s", mn, w.Name, v.Tag),
							Detail: fmt.Sprintf("%s: the store folder differs from the one before the transaction: files %v dirs %v", what, fd, dd), Replay: replay})
						continue
					}
					// the folder is byte-identical, so a cold read can only differ through caches
					sopenv.ResetCaches()
					if d := txn.ReadAll(ctx, []string{storeName}); len(d.Errs) > 0 || !reflect.DeepEqual(d.Stores[storeName], want) {
						run.Violate(ev.Violation{Sig: fmt.Sprintf("readonly-mode-changed-stored-data|%s|%s|store=%s|cold-read", mn, w.Name, v.Tag),
							Detail: fmt.Sprintf("%s: a later cold read returns %v, want %v", what, d, want), Replay: replay})
					}
				}
			}
		}
	}
	run.Add("writeops_cases", cases)
	run.Add("writeops_write_acked_in_readonly_mode", acked)
	run.Add("writeops_control_forwriting_changed_folder", control)
	run.Add("evaluations", cases)
}
