#!/bin/bash
# Builds bin/c33 against the CURRENT /repo through (instrumentation overlay + the two determinism patches of
# mkoverlay.py). Expects bin/overlay/overlay.json to exist (./check generates it with tools/instr.py first).
# usage: mc/cmd/c33/build.sh [mutation[,mutation...]]   (mutations: detection demos / fix validation, see mkoverlay.py)
cd "$(dirname "$0")/../../.." || exit 2
export GOTOOLCHAIN=local GOPROXY=off GOSUMDB=off GOFLAGS= GOWORK=$PWD/go.work
export PATH=/opt/veriftools/go1.26.8/bin:$PATH
[ -f bin/overlay/overlay.json ] || python3 tools/instr.py bin/overlay > bin/overlay.log 2>&1 || { echo "INSTRUMENTATION FAILURE (no verdict)" >&2; cat bin/overlay.log >&2; exit 2; }
out=bin/c33_overlay; bin=bin/c33
if [ -n "$1" ]; then out=/tmp/c33_mut_$$/ov; bin=/tmp/c33_mut_$$/c33; mkdir -p /tmp/c33_mut_$$; fi
python3 mc/cmd/c33/mkoverlay.py bin/overlay/overlay.json $out "$@" > bin/c33_overlay.log 2>&1 || { echo "INSTRUMENTATION FAILURE for C33 (anchor in ai/vector changed?) — not a property verdict" >&2; cat bin/c33_overlay.log >&2; exit 2; }
if ! go1.26.8 build -overlay $out/overlay.json -o $bin ./mc/cmd/c33 2> bin/c33.buildlog; then
  echo "BUILD FAILURE for C33 (harness c33) — not a property verdict" >&2; tail -30 bin/c33.buildlog >&2; exit 2
fi
[ -n "$1" ] && echo "mutant binary: $bin (run it with VERIF_ROOT=/tmp/c33_mut_$$/root to keep /verif/evidence untouched)"
exit 0
