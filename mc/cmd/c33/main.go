// c33: bounded-exhaustive check of property C33 — "The vector store returns live items and correctly
// ranked query hits" — against the real github.com/sharedcode/sop/ai/vector store, opened through
// ai/database.Database.OpenVectorStore on infs transactions (/dev/shm, in-memory L2 cache).
//
// Enumerated completely (SEQX): every sequence of mutating operations up to a family's depth over that
// family's alphabet {Upsert(id,vec,payload), UpsertBatch(two items, also the same id twice), Delete(id),
// Optimize; "ext": Upsert with an explicit centroid, a 4-item and a 9-item batch}, each operation in its
// own committed transaction, per store configuration (usage mode x ingestion buffer). After EVERY step
// the whole read alphabet is executed in one further committed transaction: Count, Get(id) for every id,
// Query(probe,k,filter) for every probe x k in {1,2,5[,100]} x filter in {all, payload==x}. So the
// Query/Get operations of the property's alphabet are not sequence members that may be left out: all of
// them run (and are judged) between any two mutators.
//
// Oracle: reference model map id -> (vector, payload, live) and an independent float64 cosine.
//
// Build: mc/cmd/c33/build.sh. On top of the instrumentation overlay it needs two determinism patches that
// mc/cmd/c33/mkoverlay.py applies to COPIES of ai/vector files (k-means++ seed time.Now() -> vhook.Now();
// Optimize phase 2 iterates a stack-allocated Go map -> iterate its keys in ascending order);
// `//go:debug randseednop=0` below makes the patched rand.Seed(vhook.Now()) effective. main() self-tests the
// plumbing (seed, k-means, and whole sequences run twice) and fails loudly (exit 2) otherwise.
// Aids: --replay <file> [C33_DUMP=1 dumps the index B-trees after every step, C33_NO_MID_READS=1 drops the
// read blocks between the mutators]; C33_ONLY=<families> / C33_MODES=<modes> restrict a run;
// C33_NPROC, C33_BUDGET_S. build.sh <mutation,...> builds a mutant / fix-validation binary in /tmp.
//
//go:debug randseednop=0
package main

import (
	"context"
	"encoding/json"
	"fmt"
	"hash/fnv"
	"io"
	"log/slog"
	"math"
	"math/rand"
	"os"
	"sort"
	"strings"
	"syscall"
	"time"

	"github.com/sharedcode/sop"
	"github.com/sharedcode/sop/ai"
	aidb "github.com/sharedcode/sop/ai/database"
	"github.com/sharedcode/sop/ai/vector"
	"verif.local/mc/ev"
	"verif.local/mc/sopenv"
	"verif.local/mc/vhook"
)

var ctx = context.Background()

type payloadT = map[string]any

// ---------------------------------------------------------------- domain

// Vectors (2-D). v0,v1 are colinear (equal cosine to every probe: ties), v2 is orthogonal to them, v3 is
// "zero-ish" (tiny norm, well-defined direction), v4 is anti-parallel to v0 (negative scores), v5 is the
// exact zero vector (cosine undefined; see assumption "zero vector").
var vecs = [][]float32{{1, 0}, {3, 0}, {0, 1}, {0.001, 0.001}, {-2, 0}, {0, 0}}
var vecsPristine = [][]float32{{1, 0}, {3, 0}, {0, 1}, {0.001, 0.001}, {-2, 0}, {0, 0}}
var probes = [][]float32{{1, 0}, {1, 1}}
var ks = []int{1, 2, 5} // + bigK in the ext families (more than 5 items can be live there)
var payloads = []string{"x", "y"}

const bigK = 100

// ids read with Get after every step ("d".."i" only appear in the 4-/9-item batches; "zz" is never stored).
var obsIDs = []string{"a", "b", "c", "zz"}
var obsIDsExt = []string{"a", "b", "c", "d", "e", "i", "zz"}

// setReadAlphabet selects the ids/ks read after every step: sequences that contain a 4-/9-item batch also
// read ids d,e,i and query with k=100.
func setReadAlphabet(seq []Op) {
	obsIDs, ks = []string{"a", "b", "c", "zz"}, []int{1, 2, 5}
	for _, o := range seq {
		if len(o.Items) > 2 {
			obsIDs, ks = obsIDsExt, []int{1, 2, 5, bigK}
		}
	}
}

type Item struct {
	ID  string    `json:"id"`
	Vec int       `json:"vec"` // index into vecs, or -1 with Raw set
	Pay string    `json:"pay"`
	Cid int       `json:"cid,omitempty"` // explicit centroid id (0 = auto)
	Raw []float32 `json:"raw,omitempty"`
}

func (it Item) vector() []float32 {
	if it.Vec < 0 {
		return it.Raw
	}
	return vecs[it.Vec]
}

// Op is one mutating operation of a sequence.
type Op struct {
	Kind  string `json:"kind"` // Upsert | UpsertBatch | Delete | Optimize
	Items []Item `json:"items,omitempty"`
	ID    string `json:"id,omitempty"`
	Label string `json:"label,omitempty"` // alphabet sub-class used in signatures (Batch2, Batch2dup, Batch4, Batch9, UpsertCid)
}

func (o Op) String() string {
	switch o.Kind {
	case "Upsert", "UpsertBatch":
		var parts []string
		for _, it := range o.Items {
			s := fmt.Sprintf("%s:%v:%s", it.ID, it.vector(), it.Pay)
			if it.Cid != 0 {
				s += fmt.Sprintf(":cid%d", it.Cid)
			}
			parts = append(parts, s)
		}
		return o.Kind + "(" + strings.Join(parts, ", ") + ")"
	case "Delete":
		return "Delete(" + o.ID + ")"
	}
	return o.Kind
}

func (o Op) class() string {
	if o.Label != "" {
		return o.Label
	}
	return o.Kind
}

func seqString(seq []Op) string {
	var ss []string
	for _, o := range seq {
		ss = append(ss, o.String())
	}
	return strings.Join(ss, "; ")
}

// Mode is one store configuration.
type Mode struct {
	Name   string
	Usage  ai.UsageMode
	Buffer bool
	// BufferOffAfterOptimize: the application turns EnableIngestionBuffer off once Optimize has sealed the
	// index (the usage shown by ai/vector/temp_vectors_test.go).
	BufferOffAfterOptimize bool
}

var allModes = []Mode{
	{"dynamic", ai.Dynamic, false, false},
	{"counted", ai.DynamicWithVectorCountTracking, false, false},
	{"buildonce", ai.BuildOnceQueryMany, false, false},
	{"buildonce+buffer", ai.BuildOnceQueryMany, true, false},
	{"counted+buffer", ai.DynamicWithVectorCountTracking, true, false},
	{"dynamic+buffer", ai.Dynamic, true, false},
	{"sealed+buildonce", ai.BuildOnceQueryMany, true, true},
}

func modeByName(n string) (Mode, bool) {
	for _, m := range allModes {
		if m.Name == n {
			return m, true
		}
	}
	return Mode{}, false
}

func up(id string, v int, p string) Op {
	return Op{Kind: "Upsert", Items: []Item{{ID: id, Vec: v, Pay: p}}}
}
func batch(label string, its ...Item) Op { return Op{Kind: "UpsertBatch", Items: its, Label: label} }
func del(id string) Op                   { return Op{Kind: "Delete", ID: id} }

var optimize = Op{Kind: "Optimize"}
var batchAB = batch("Batch2", Item{ID: "a", Vec: 0, Pay: "x"}, Item{ID: "b", Vec: 2, Pay: "y"})
var batchDupA = batch("Batch2dup", Item{ID: "a", Vec: 0, Pay: "x"}, Item{ID: "a", Vec: 2, Pay: "y"})

// coreAlphabet: the smallest alphabet that still has two ids, re-upserts with the same and with another
// vector/payload, two ids with the same vector, a batch, a batch naming one id twice, deletes and Optimize.
// The quick tier leaves the duplicate-id batch to the depth-2 full alphabet (8 members).
func coreAlphabet(thorough bool) []Op {
	if !thorough {
		return []Op{up("a", 0, "x"), up("a", 2, "y"), up("b", 0, "y"), up("b", 3, "x"), batchAB, del("a"), del("b"), optimize}
	}
	return []Op{up("a", 0, "x"), up("a", 2, "y"), up("b", 0, "y"), up("b", 3, "x"), batchAB, batchDupA, del("a"), del("b"), optimize}
}

// fullAlphabet: Upsert(id in {a,b,c}, vec in nv vectors, payload in {x,y}), two-item batches, Delete(id), Optimize.
func fullAlphabet(wide bool) []Op {
	var out []Op
	nv := 4
	if wide {
		nv = 6
	}
	for _, id := range []string{"a", "b", "c"} {
		for v := 0; v < nv; v++ {
			for _, p := range payloads {
				out = append(out, up(id, v, p))
			}
		}
	}
	out = append(out, batchAB,
		batch("Batch2", Item{ID: "c", Vec: 1, Pay: "y"}, Item{ID: "b", Vec: 3, Pay: "x"}),
		batch("Batch2", Item{ID: "c", Vec: 2, Pay: "x"}, Item{ID: "a", Vec: 1, Pay: "y"}),
		batchDupA)
	if wide {
		out = append(out,
			batch("Batch2", Item{ID: "b", Vec: 4, Pay: "x"}, Item{ID: "a", Vec: 5, Pay: "x"}),
			batch("Batch2", Item{ID: "b", Vec: 0, Pay: "y"}, Item{ID: "c", Vec: 0, Pay: "x"}),
			batch("Batch2dup", Item{ID: "b", Vec: 2, Pay: "y"}, Item{ID: "b", Vec: 1, Pay: "x"}))
	}
	out = append(out, del("a"), del("b"), del("c"), optimize)
	return out
}

// midAlphabet (thorough, depth 3): three ids x four (vector,payload) pairs, a batch, two deletes, Optimize.
func midAlphabet() []Op {
	var out []Op
	for _, id := range []string{"a", "b", "c"} {
		out = append(out, up(id, 0, "x"), up(id, 1, "y"), up(id, 2, "y"), up(id, 3, "x"))
	}
	out = append(out, batch("Batch2", Item{ID: "c", Vec: 1, Pay: "y"}, Item{ID: "b", Vec: 3, Pay: "x"}), del("a"), del("c"), optimize)
	return out
}

// extAlphabet: members that create several centroids (IVF buckets) + a few core members to combine with.
func extAlphabet() []Op {
	var out []Op
	// explicit centroid assignment: one centroid per id -> three buckets, Query probes the 2 closest
	for i, id := range []string{"a", "b", "c"} {
		for _, v := range []int{0, 2} {
			out = append(out, Op{Kind: "Upsert", Label: "UpsertCid", Items: []Item{{ID: id, Vec: v, Pay: payloads[i%2], Cid: i + 1}}})
		}
	}
	// four items -> k-means++ with k=2 when the store has no centroid yet
	out = append(out, batch("Batch4", Item{ID: "a", Vec: 0, Pay: "x"}, Item{ID: "b", Vec: 1, Pay: "y"}, Item{ID: "c", Vec: 2, Pay: "x"}, Item{ID: "d", Vec: 4, Pay: "y"}))
	// nine items in three well separated directions -> k=3: probing 2 centroids leaves one bucket unscanned
	var nine []Item
	for i, id := range []string{"a", "b", "c", "d", "e", "f", "g", "h", "i"} {
		ang := float64(i/3)*2.0*math.Pi/3.0 + float64(i%3)*0.05
		nine = append(nine, Item{ID: id, Vec: -1, Raw: []float32{float32(math.Cos(ang)), float32(math.Sin(ang))}, Pay: payloads[i%2]})
	}
	out = append(out, batch("Batch9", nine...))
	out = append(out, up("a", 2, "y"), del("a"), del("b"), optimize)
	return out
}

// family: all sequences of length 1..Depth over Alphabet, in each mode and k-means seed.
type family struct {
	Name     string
	Alphabet []Op
	Depth    int
	Modes    []string
	Seeds    []int
}

func families(thorough bool) []family {
	core, full, wide, ext := coreAlphabet(thorough), fullAlphabet(false), fullAlphabet(true), extAlphabet()
	if !thorough {
		return []family{
			{"core3", core, 3, []string{"dynamic", "counted"}, []int{0}},
			{"core2-buffer", core, 2, []string{"buildonce+buffer", "counted+buffer", "sealed+buildonce"}, []int{0}},
			{"ext2", ext, 2, []string{"dynamic", "counted"}, []int{0}},
			// deeper sequences over three members each: duplicate-id batch, delete + (optimize | upsert of another id)
			{"lite4-optimize", []Op{batchDupA, del("a"), optimize}, 4, []string{"counted"}, []int{0}},
			{"lite4-upsert", []Op{batchDupA, del("a"), up("b", 3, "x")}, 4, []string{"counted"}, []int{0}},
			{"lite3-buffer", []Op{up("a", 0, "x"), batchAB, del("a"), optimize}, 3, []string{"buildonce+buffer", "sealed+buildonce"}, []int{0}},
			{"full2", full, 2, []string{"dynamic"}, []int{0}},
			{"full1", full, 1, []string{"counted", "buildonce+buffer"}, []int{0}},
		}
	}
	_ = full
	return []family{
		{"core4", core, 4, []string{"dynamic", "counted"}, []int{0}},
		{"core3-buffer", core, 3, []string{"buildonce+buffer", "counted+buffer", "sealed+buildonce"}, []int{0}},
		{"core2-other", core, 2, []string{"buildonce", "dynamic+buffer"}, []int{0}},
		{"ext3", ext, 3, []string{"dynamic"}, []int{0, 1}},
		{"ext2-counted", ext, 2, []string{"counted"}, []int{0, 1}},
		{"ext2-buffer", ext, 2, []string{"buildonce+buffer"}, []int{0}},
		{"wide2", wide, 2, []string{"dynamic", "counted", "buildonce+buffer"}, []int{0}},
		{"mid3", midAlphabet(), 3, []string{"dynamic"}, []int{0}},
	}
}

// coveredEarlier: seq (in mode/seed) is already enumerated by a family listed before index fi.
func coveredEarlier(fams []family, fi int, mode string, seed int, seq []Op) bool {
	for _, f := range fams[:fi] {
		if len(seq) > f.Depth || !contains(f.Modes, mode) || !containsInt(f.Seeds, seed) {
			continue
		}
		all := true
		for _, o := range seq {
			found := false
			for _, a := range f.Alphabet {
				if a.String() == o.String() {
					found = true
					break
				}
			}
			if !found {
				all = false
				break
			}
		}
		if all {
			return true
		}
	}
	return false
}

func contains(xs []string, x string) bool {
	for _, y := range xs {
		if y == x {
			return true
		}
	}
	return false
}
func containsInt(xs []int, x int) bool {
	for _, y := range xs {
		if y == x {
			return true
		}
	}
	return false
}

// ---------------------------------------------------------------- reference model

type rec struct {
	vec  []float32
	pay  string
	live bool
}

type model struct {
	m        map[string]*rec
	tomb     map[string]bool // ids deleted since the last Optimize and not upserted again
	optimize int             // number of Optimize ops so far
}

func newModel() *model { return &model{m: map[string]*rec{}, tomb: map[string]bool{}} }

func (md *model) apply(o Op) {
	switch o.Kind {
	case "Upsert", "UpsertBatch":
		for _, it := range o.Items {
			md.m[it.ID] = &rec{vec: it.vector(), pay: it.Pay, live: true}
			delete(md.tomb, it.ID)
		}
	case "Delete":
		if r := md.m[o.ID]; r != nil && r.live {
			r.live = false
			md.tomb[o.ID] = true
		}
	case "Optimize":
		md.tomb = map[string]bool{}
		md.optimize++
	}
}

func (md *model) liveIDs() []string {
	var out []string
	for id, r := range md.m {
		if r.live {
			out = append(out, id)
		}
	}
	sort.Strings(out)
	return out
}

func (md *model) key() string {
	ids := make([]string, 0, len(md.m))
	for id := range md.m {
		ids = append(ids, id)
	}
	sort.Strings(ids)
	var sb strings.Builder
	for _, id := range ids {
		r := md.m[id]
		fmt.Fprintf(&sb, "%s=%v/%s/%v ", id, r.vec, r.pay, r.live)
	}
	return sb.String()
}

func trueCosine(a, b []float32) float64 {
	var dot, na, nb float64
	for i := range a {
		dot += float64(a[i]) * float64(b[i])
		na += float64(a[i]) * float64(a[i])
		nb += float64(b[i]) * float64(b[i])
	}
	if na == 0 || nb == 0 {
		return 0 // assumption "zero vector"
	}
	return dot / (math.Sqrt(na) * math.Sqrt(nb))
}

func vecEq(a, b []float32) bool {
	if len(a) != len(b) {
		return false
	}
	for i := range a {
		if a[i] != b[i] {
			return false
		}
	}
	return true
}

// ---------------------------------------------------------------- execution on the implementation

type env struct {
	mode Mode
	db   *aidb.Database
	cfg  vector.Config
}

var fixedClock = time.Date(2026, 1, 2, 3, 4, 5, 6789, time.UTC)
var curSeed int // index of the k-means++ seed (fixed clock value)

func installClock() {
	vhook.Install(&vhook.Hooks{Now: func() time.Time { return fixedClock.Add(time.Duration(curSeed) * 7919 * time.Millisecond) }})
}

const domain = "vs"

func newEnv(mode Mode, ns uint64) *env {
	sopenv.FreshDir(ns)
	db := aidb.NewDatabase(sop.DatabaseOptions{StoresFolders: []string{sopenv.Dir}, CacheType: sop.InMemory})
	return &env{mode: mode, db: db, cfg: vector.Config{UsageMode: mode.Usage, EnableIngestionBuffer: mode.Buffer}}
}

func toItem(it Item) ai.Item[payloadT] {
	v := append([]float32(nil), it.vector()...) // the store keeps (and may alias) the slice: never hand out the table
	return ai.Item[payloadT]{ID: it.ID, Vector: v, Payload: payloadT{"tag": it.Pay}, CentroidID: it.Cid}
}

// apply runs one op in its own transaction. Returns the error of the op or of its commit.
func (e *env) apply(o Op) (err error) {
	defer func() {
		if r := recover(); r != nil {
			err = fmt.Errorf("PANIC: %v", r)
		}
	}()
	tx, err := e.db.BeginTransaction(ctx, sop.ForWriting)
	if err != nil {
		return fmt.Errorf("begin: %w", err)
	}
	idx, err := e.db.OpenVectorStore(ctx, domain, tx, e.cfg)
	if err != nil {
		tx.Rollback(ctx)
		return fmt.Errorf("open: %w", err)
	}
	switch o.Kind {
	case "Upsert":
		err = idx.Upsert(ctx, toItem(o.Items[0]))
	case "UpsertBatch":
		var its []ai.Item[payloadT]
		for _, it := range o.Items {
			its = append(its, toItem(it))
		}
		err = idx.UpsertBatch(ctx, its)
	case "Delete":
		err = idx.Delete(ctx, o.ID)
	case "Optimize":
		// Optimize commits the transaction the store was opened with and then runs its own ones.
		err = idx.Optimize(ctx)
		if err != nil && tx.HasBegun() {
			tx.Rollback(ctx)
		}
		if err == nil && e.mode.BufferOffAfterOptimize {
			e.cfg.EnableIngestionBuffer = false
		}
		return err
	default:
		panic(o.Kind)
	}
	if err != nil {
		tx.Rollback(ctx)
		return err
	}
	if err := tx.Commit(ctx); err != nil {
		return fmt.Errorf("commit: %w", err)
	}
	return nil
}

type getRes struct {
	item *ai.Item[payloadT]
	err  error
}

type queryRes struct {
	probe, k int
	filtered bool
	hits     []ai.Hit[payloadT]
	err      error
}

type obs struct {
	openErr   error
	count     int64
	countErr  error
	centroids int64 // number of centroids of the active index version (-1 unknown)
	gets      map[string]getRes
	queries   []queryRes
}

func filterX(p payloadT) bool { return p["tag"] == "x" }

type querySpec struct {
	probe, k int
	filtered bool
}

func allQuerySpecs() []querySpec {
	var out []querySpec
	for pi := range probes {
		for _, k := range ks {
			for _, f := range []bool{false, true} {
				out = append(out, querySpec{pi, k, f})
			}
		}
	}
	return out
}

// observe runs the read alphabet in one transaction.
func (e *env) observe() (o obs) {
	defer func() {
		if r := recover(); r != nil {
			o.openErr = fmt.Errorf("PANIC during observation: %v", r)
		}
	}()
	tx, err := e.db.BeginTransaction(ctx, sop.ForWriting)
	if err != nil {
		o.openErr = fmt.Errorf("begin: %w", err)
		return
	}
	idx, err := e.db.OpenVectorStore(ctx, domain, tx, e.cfg)
	if err != nil {
		tx.Rollback(ctx)
		o.openErr = fmt.Errorf("open: %w", err)
		return
	}
	o.count, o.countErr = idx.Count(ctx)
	o.centroids = -1
	if cs, err := idx.Centroids(ctx); err == nil && cs != nil {
		o.centroids = cs.Count()
	}
	o.gets = map[string]getRes{}
	for _, id := range obsIDs {
		it, err := idx.Get(ctx, id)
		o.gets[id] = getRes{it, err}
	}
	for _, q := range allQuerySpecs() {
		var f func(payloadT) bool
		if q.filtered {
			f = filterX
		}
		hits, err := idx.Query(ctx, append([]float32(nil), probes[q.probe]...), q.k, f)
		o.queries = append(o.queries, queryRes{q.probe, q.k, q.filtered, hits, err})
	}
	if err := tx.Commit(ctx); err != nil {
		o.openErr = fmt.Errorf("commit of the read-only observation transaction: %w", err)
	}
	return
}

// dump lists the B-trees of the active index version through the store's public accessors (replay aid).
func (e *env) dump() string {
	var sb strings.Builder
	tx, err := e.db.BeginTransaction(ctx, sop.ForWriting)
	if err != nil {
		return err.Error()
	}
	defer tx.Rollback(ctx)
	idx, err := e.db.OpenVectorStore(ctx, domain, tx, e.cfg)
	if err != nil {
		return err.Error()
	}
	ver, _ := idx.Version(ctx)
	fmt.Fprintf(&sb, "  active version %d\n", ver)
	if cs, err := idx.Centroids(ctx); err == nil {
		for ok, _ := cs.First(ctx); ok; ok, _ = cs.Next(ctx) {
			it, _ := cs.GetCurrentItem(ctx)
			if it.Value != nil {
				fmt.Fprintf(&sb, "  centroid %d: %v count=%d\n", it.Key, it.Value.Vector, it.Value.VectorCount)
			}
		}
	}
	if vs, err := idx.Vectors(ctx); err == nil {
		for ok, _ := vs.First(ctx); ok; ok, _ = vs.Next(ctx) {
			it, _ := vs.GetCurrentItem(ctx)
			if it.Value != nil {
				fmt.Fprintf(&sb, "  vector %+v = %v\n", it.Key, *it.Value)
			} else {
				fmt.Fprintf(&sb, "  vector %+v = nil\n", it.Key)
			}
		}
	}
	if ct, err := idx.Content(ctx); err == nil {
		for ok, _ := ct.First(ctx); ok; ok, _ = ct.Next(ctx) {
			it, _ := ct.GetCurrentItem(ctx)
			v := ""
			if it.Value != nil {
				v = *it.Value
			}
			fmt.Fprintf(&sb, "  content %+v = %s\n", it.Key, v)
		}
	}
	return sb.String()
}

// ---------------------------------------------------------------- judging

type finding struct {
	family string // failure family, independent of the last op (used to report only the first step at which it appears)
	kind   string // reported kind (optimize-* when the family first appears right after an Optimize)
	check  string
	detail string
}

type counters struct {
	gets, queries, hits                                    int64
	underReturnAllProbed, underReturnPartialProbe, notTopK int64
	countNeLive                                            int64
	multiCentroidStates, partialProbeStates                int64
}

func queryName(probe, k int, filtered bool) string {
	return fmt.Sprintf("Query(probe=%v,k=%d,filter=%s)", probes[probe], k, map[bool]string{false: "all", true: "tag==x"}[filtered])
}

func hitsStr(hs []ai.Hit[payloadT]) string {
	var parts []string
	for _, h := range hs {
		parts = append(parts, fmt.Sprintf("%s(%.7g,%v)", h.ID, h.Score, h.Payload["tag"]))
	}
	return "[" + strings.Join(parts, " ") + "]"
}

// judge compares one observation with the model. c (may be nil) receives the coverage counters.
func judge(mode Mode, lastOp Op, md *model, o obs, c *counters) []finding {
	var out []finding
	afterOptimize := lastOp.Kind == "Optimize"
	add := func(family, optimizeKind, check, detail string) {
		kind := family
		if afterOptimize && optimizeKind != "" {
			kind = optimizeKind
		}
		out = append(out, finding{family, kind, check, detail})
	}
	if o.openErr != nil {
		add("observe-error", "", "open", o.openErr.Error())
		return out
	}
	live := md.liveIDs()
	// Count. The statement does not mention Count and the interface only says "total number of items in
	// the store", while Delete is documented as a soft delete that Optimize reaps. Demanded here:
	// live <= Count <= live + (ids deleted since the last Optimize); hence Count == live right after an
	// Optimize and whenever nothing was deleted. Count != live is only counted (info_count_differs_from_live).
	if o.countErr != nil {
		add("count-error", "", "Count", o.countErr.Error())
	} else {
		n := int64(len(live))
		if o.count != n && c != nil {
			c.countNeLive++
		}
		if o.count < n || o.count > n+int64(len(md.tomb)) {
			add("count", "optimize-count", "Count", fmt.Sprintf("Count()=%d, live items=%d %v, ids deleted since the last Optimize=%d", o.count, n, live, len(md.tomb)))
		}
	}
	for _, id := range obsIDs {
		g := o.gets[id]
		if c != nil {
			c.gets++
		}
		r := md.m[id]
		chk := "Get(" + id + ")"
		switch {
		case r != nil && r.live:
			if g.err != nil {
				add("get-live-error", "optimize-lost", chk, fmt.Sprintf("live item (vec=%v payload=%s) but Get returned error %q", r.vec, r.pay, g.err))
			} else if g.item == nil {
				add("get-nil", "", chk, "Get returned (nil, nil)")
			} else {
				if g.item.ID != id {
					add("get-wrong-id", "", chk, fmt.Sprintf("returned item id %q", g.item.ID))
				}
				if !vecEq(g.item.Vector, r.vec) {
					add("get-stale-vector", "optimize-changed-vector", chk, fmt.Sprintf("vector=%v, latest upsert had %v", g.item.Vector, r.vec))
				}
				if fmt.Sprint(g.item.Payload["tag"]) != r.pay || len(g.item.Payload) != 1 {
					add("get-stale-payload", "optimize-changed-payload", chk, fmt.Sprintf("payload=%v, latest upsert had tag=%s", g.item.Payload, r.pay))
				}
			}
		default:
			if g.err == nil {
				if r != nil {
					add("get-deleted-ok", "optimize-resurrected", chk, fmt.Sprintf("item was deleted but Get returned %+v", g.item))
				} else {
					add("get-never-stored-ok", "", chk, fmt.Sprintf("item was never stored but Get returned %+v", g.item))
				}
			}
		}
	}
	// vector that Get returns per id (to attribute wrong scores to a corrupted stored vector, reported once as get-stale-vector)
	gotVec := map[string][]float32{}
	for id, g := range o.gets {
		if g.item != nil {
			gotVec[id] = g.item.Vector
		}
	}
	scoreOf := func(probe int, id string, r *rec) float64 {
		if gv, ok := gotVec[id]; ok && !vecEq(gv, r.vec) {
			return trueCosine(probes[probe], gv) // stale/corrupted stored vector: already reported by the Get check
		}
		return trueCosine(probes[probe], r.vec)
	}
	buffered := mode.Buffer && !(mode.BufferOffAfterOptimize && md.optimize > 0)
	allProbed := o.centroids >= 0 && o.centroids <= 2 && !buffered // Query scans the 2 closest buckets
	bruteForce := buffered && md.optimize == 0                     // everything is staged in TempVectors and scanned
	if c != nil && o.centroids > 1 {
		c.multiCentroidStates++
		if o.centroids > 2 {
			c.partialProbeStates++
		}
	}
	for _, q := range o.queries {
		if c != nil {
			c.queries++
		}
		chk := queryName(q.probe, q.k, q.filtered)
		if q.err != nil {
			add("query-error", "", chk, q.err.Error())
			continue
		}
		var best []float64
		for _, id := range live {
			r := md.m[id]
			if !q.filtered || r.pay == "x" {
				best = append(best, trueCosine(probes[q.probe], r.vec))
			}
		}
		matching := len(best)
		sort.Sort(sort.Reverse(sort.Float64Slice(best)))
		if len(q.hits) > q.k {
			add("query-more-than-k", "", chk, fmt.Sprintf("%d hits: %s", len(q.hits), hitsStr(q.hits)))
		}
		seen := map[string]bool{}
		for i, h := range q.hits {
			if c != nil {
				c.hits++
			}
			r := md.m[h.ID]
			if seen[h.ID] {
				add("query-duplicate", "optimize-duplicated", chk, fmt.Sprintf("id %q twice in %s", h.ID, hitsStr(q.hits)))
				continue
			}
			seen[h.ID] = true
			if r == nil || !r.live {
				add("query-dead-hit", "optimize-resurrected-hit", chk, fmt.Sprintf("hit %q is not live; hits=%s live=%v", h.ID, hitsStr(q.hits), live))
				continue
			}
			if q.filtered && r.pay != "x" {
				add("query-filter", "", chk, fmt.Sprintf("hit %q has payload %s; hits=%s", h.ID, r.pay, hitsStr(q.hits)))
			}
			if fmt.Sprint(h.Payload["tag"]) != r.pay {
				add("query-stale-payload", "", chk, fmt.Sprintf("hit %q payload=%v latest=%s", h.ID, h.Payload, r.pay))
			}
			want := scoreOf(q.probe, h.ID, r)
			if math.Abs(float64(h.Score)-want) > 1e-6 || math.IsNaN(float64(h.Score)) {
				add("query-score", "optimize-changed-score", chk, fmt.Sprintf("hit %q score=%v, cosine(probe,%v)=%v", h.ID, h.Score, r.vec, want))
			}
			if i > 0 {
				if h.Score > q.hits[i-1].Score {
					add("query-order", "", chk, fmt.Sprintf("returned scores not non-increasing: %s", hitsStr(q.hits)))
				}
				if pr := md.m[q.hits[i-1].ID]; pr != nil && pr.live && scoreOf(q.probe, q.hits[i-1].ID, pr) < want-2e-6 {
					add("query-order-true", "", chk, fmt.Sprintf("true cosines not non-increasing: %s", hitsStr(q.hits)))
				}
			}
		}
		wantN := matching
		if q.k < wantN {
			wantN = q.k
		}
		if len(q.hits) < wantN {
			switch {
			case bruteForce:
				// store.go Query: "Search TempVectors (Brute Force). This ensures we find items that are staged but
				// not yet optimized." -> exact search is promised for staged items.
				add("query-under-return-bruteforce", "", chk, fmt.Sprintf("%d hits %s but %d live items match (k=%d); all items are staged and the staged scan is documented as brute force", len(q.hits), hitsStr(q.hits), matching, q.k))
			case allProbed && afterOptimize && q.k >= matching && !q.filtered:
				// every bucket of the new index is scanned: an item that is missing was not migrated
				add("index-lost-item", "optimize-lost-from-index", chk, fmt.Sprintf("full scan (k=%d >= live items, %d centroids, all probed) returns %s but live=%v", q.k, o.centroids, hitsStr(q.hits), live))
			case buffered && afterOptimize && o.centroids >= 0 && o.centroids <= 2 && q.k >= matching && !q.filtered:
				// ingestion buffer still enabled: Optimize moved every staged item into the index (<= 2 buckets, a
				// probe of 2 would scan them all), yet no query can reach them any more
				add("index-lost-item", "optimize-lost-from-index", chk, fmt.Sprintf("unfiltered query with k=%d >= live items right after Optimize (ingestion buffer enabled, %d centroids) returns %s but live=%v", q.k, o.centroids, hitsStr(q.hits), live))
			}
			if c != nil {
				if allProbed || bruteForce {
					c.underReturnAllProbed++
				} else {
					c.underReturnPartialProbe++
				}
			}
		} else if c != nil && len(q.hits) == wantN {
			for i, h := range q.hits {
				if r := md.m[h.ID]; r != nil && i < len(best) && trueCosine(probes[q.probe], r.vec) < best[i]-2e-6 {
					c.notTopK++
					break
				}
			}
		}
	}
	return out
}

// ---------------------------------------------------------------- worker

type replayT struct {
	Mode  string `json:"mode"`
	Seed  int    `json:"seed"`
	Seq   []Op   `json:"seq"`
	Check string `json:"check,omitempty"`
}

type worker struct {
	run                               *ev.Run
	c                                 counters
	sequences, steps, nontrivial      int64
	cutByOpError, suppressedFollowOns int64
	states                            map[string]bool
	verbose                           bool
}

func histClass(seq []Op) string {
	set := map[string]bool{}
	for _, o := range seq {
		set[o.class()] = true
	}
	var ks []string
	for k := range set {
		ks = append(ks, k)
	}
	sort.Strings(ks)
	return strings.Join(ks, "+")
}

func nsOf(mode Mode, seed int, seq []Op) uint64 {
	h := fnv.New64a()
	fmt.Fprintf(h, "%s|%d|%s", mode.Name, seed, seqString(seq))
	return h.Sum64() | 1
}

func (w *worker) report(mode Mode, seed int, seq []Op, f finding, cold string) {
	last := seq[len(seq)-1]
	w.run.Violate(ev.Violation{
		Sig:    fmt.Sprintf("%s|mode=%s|last=%s|ops=%s", f.kind, mode.Name, last.class(), histClass(seq)),
		Detail: fmt.Sprintf("%s: mode=%s kmeans-seed=%d sequence=[%s] (each op and each read block in its own committed transaction) check=%s: %s%s", f.kind, mode.Name, seed, seqString(seq), f.check, f.detail, cold),
		Replay: replayT{Mode: mode.Name, Seed: seed, Seq: seq, Check: f.check},
	})
}

// runSeq executes seq from scratch (fresh folder, cold caches, fixed UUID stream), reads and judges after
// every step, and reports the findings of the LAST step whose failure family did not already appear at an
// earlier step (those are reported by the enumeration of the prefix).
func (w *worker) runSeq(mode Mode, seed int, seq []Op) (violated bool) {
	curSeed = seed
	setReadAlphabet(seq)
	e := newEnv(mode, nsOf(mode, seed, seq))
	md := newModel()
	earlier := map[string]bool{}
	w.sequences++
	for i, o := range seq {
		lastStep := i == len(seq)-1
		err := e.apply(o)
		w.steps++
		if err != nil {
			if lastStep {
				w.report(mode, seed, seq, finding{"op-error", "op-error", o.String(), fmt.Sprintf("operation returned error %q", err)}, "")
				if w.verbose {
					fmt.Printf("  op-error %s: %v\n", o, err)
				}
				return true
			}
			w.cutByOpError++
			return false
		}
		md.apply(o)
		if !lastStep && w.verbose && os.Getenv("C33_NO_MID_READS") != "" {
			continue // replay diagnostic: is the read block between the mutators needed for the failure?
		}
		ob := e.observe()
		if w.verbose && os.Getenv("C33_DUMP") != "" {
			fmt.Printf("after step %d %s (err=%v): Count=%d centroids=%d\n%s", i+1, o, err, ob.count, ob.centroids, e.dump())
		}
		if !lastStep {
			for _, f := range judge(mode, o, md, ob, nil) {
				earlier[f.family] = true
			}
			continue
		}
		fs := judge(mode, o, md, ob, &w.c)
		if len(md.m) > 0 {
			w.nontrivial++
		}
		if w.states != nil {
			w.states[mode.Name+"|"+md.key()] = true
		}
		var fresh []finding
		seenKind := map[string]bool{}
		for _, f := range fs {
			if earlier[f.family] {
				continue
			}
			if !seenKind[f.kind] {
				seenKind[f.kind] = true
				fresh = append(fresh, f)
			}
		}
		if len(fs) > 0 && len(fresh) == 0 {
			w.suppressedFollowOns++
		}
		if len(fresh) > 0 {
			// classification aid: does the failure persist when every cache is dropped (i.e. is it on disk)?
			sopenv.ResetCaches()
			coldFam := map[string]bool{}
			for _, f := range judge(mode, o, md, e.observe(), nil) {
				coldFam[f.family] = true
			}
			for _, f := range fresh {
				cold := " [re-read with cold caches: same failure -> persisted state]"
				if !coldFam[f.family] {
					cold = " [re-read with cold caches: failure gone -> only in cached in-process state]"
				}
				w.report(mode, seed, seq, f, cold)
				if w.verbose {
					fmt.Printf("  %s %s: %s%s\n", f.kind, f.check, f.detail, cold)
				}
			}
			violated = true
		}
	}
	for i := range vecs {
		if !vecEq(vecs[i], vecsPristine[i]) {
			fmt.Fprintln(os.Stderr, "c33: harness vector table was modified — harness bug")
			os.Exit(2)
		}
	}
	return violated
}

// enumerate runs every sequence of the family of EXACTLY the given length that starts with the alphabet
// members first[, second] (< 0: any). The parent runs the lengths in increasing order, so the replay
// kept for a signature is one of the shortest sequences of its class.
func (w *worker) enumerate(fams []family, fi int, mode Mode, seed int, length, first, second int, deadline time.Time) {
	f := fams[fi]
	var rec func(seq []Op)
	rec = func(seq []Op) {
		if len(seq) == length {
			if !deadline.IsZero() && time.Now().After(deadline) {
				w.run.Add("sequences_skipped_by_time_budget", 1)
				return
			}
			if !coveredEarlier(fams, fi, mode.Name, seed, seq) {
				w.runSeq(mode, seed, seq)
				if w.sequences%97 == 60 {
					w.run.Sample(map[string]any{"family": f.Name, "mode": mode.Name, "sequence": seqString(seq)})
				}
			}
			return
		}
		for _, o := range f.Alphabet {
			rec(append(append([]Op(nil), seq...), o))
		}
	}
	var prefix []Op
	if first >= 0 {
		prefix = append(prefix, f.Alphabet[first])
		if second >= 0 {
			prefix = append(prefix, f.Alphabet[second])
		}
	}
	rec(prefix)
}

func (w *worker) flush() {
	r := w.run
	r.Add("sequences", w.sequences)
	r.Add("mutating_ops_executed", w.steps)
	r.Add("sequences_nontrivial", w.nontrivial)
	r.Add("get_checks", w.c.gets)
	r.Add("query_checks", w.c.queries)
	r.Add("hits_checked", w.c.hits)
	r.Add("evaluations", w.c.gets+w.c.queries+w.sequences)
	r.Add("info_queries_under_return_all_buckets_scanned", w.c.underReturnAllProbed)
	r.Add("info_queries_under_return_partial_probe", w.c.underReturnPartialProbe)
	r.Add("info_queries_full_but_not_the_best_k", w.c.notTopK)
	r.Add("info_count_differs_from_live", w.c.countNeLive)
	r.Add("final_states_with_2plus_centroids", w.c.multiCentroidStates)
	r.Add("final_states_with_3plus_centroids", w.c.partialProbeStates)
	r.Add("sequences_cut_by_error_in_prefix", w.cutByOpError)
	r.Add("sequences_with_only_follow_on_failures", w.suppressedFollowOns)
	if w.states != nil {
		var st []string
		for s := range w.states {
			st = append(st, s)
		}
		sort.Strings(st)
		r.Set("states", st)
	}
}

// ---------------------------------------------------------------- main

var realStdout = -1

func quietLogs() {
	slog.SetDefault(slog.New(slog.NewTextHandler(io.Discard, &slog.HandlerOptions{Level: slog.LevelError + 4})))
	// the vector package prints progress with fmt.Printf: silence fd 1 while sequences run
	if os.Getenv("C33_KEEP_STDOUT") == "" {
		if devnull, err := os.OpenFile(os.DevNull, os.O_WRONLY, 0); err == nil {
			realStdout, _ = syscall.Dup(1)
			syscall.Dup2(int(devnull.Fd()), 1)
		}
	}
}

func restoreStdout() {
	if realStdout >= 0 {
		syscall.Dup2(realStdout, 1)
		realStdout = -1
	}
}

// selfTest: the determinism plumbing works (fails loudly otherwise).
func selfTest() {
	rand.Seed(42)
	a := rand.Int63()
	rand.Seed(42)
	if rand.Int63() != a {
		fmt.Fprintln(os.Stderr, "c33: math/rand.Seed is a no-op (//go:debug randseednop=0 not effective): k-means cannot be made deterministic")
		os.Exit(2)
	}
	var items []ai.Item[payloadT]
	for i := 0; i < 12; i++ {
		items = append(items, ai.Item[payloadT]{ID: fmt.Sprint(i), Vector: []float32{float32(i % 5), float32(i * i % 7)}})
	}
	outs := map[int]string{}
	for r := 0; r < 8; r++ {
		curSeed = r % 2
		rand.Seed(int64(r) * 7919) // perturb the global stream: ComputeCentroids must reseed from the (fixed) clock
		cs, _ := vector.ComputeCentroids(items, 3)
		s := fmt.Sprint(cs[1], cs[2], cs[3])
		if prev, ok := outs[curSeed]; ok && prev != s {
			fmt.Fprintln(os.Stderr, "c33: k-means is not deterministic under the fixed clock — build with the overlay from mc/cmd/c33/mkoverlay.py (anchor rand.Seed(time.Now().UnixNano()) in ai/vector/kmeans.go)")
			os.Exit(2)
		}
		outs[curSeed] = s
	}
	curSeed = 0
}

type jobT struct {
	Fam    int    `json:"f"`
	Mode   string `json:"m"`
	Seed   int    `json:"s"`
	Len    int    `json:"l"`
	First  int    `json:"o"`
	Second int    `json:"p"` // -1: any
}

func main() {
	quietLogs()
	installClock()
	selfTest()
	run := ev.New("C33", "exploration")
	thorough := run.Thorough()
	fams := families(thorough)
	finish := func() { restoreStdout(); sopenv.Cleanup(); run.Finish() }

	// --replay <file>: re-run one stored sequence (all reads after every step).
	for i, a := range os.Args {
		if a == "--replay" && i+1 < len(os.Args) {
			raw, err := os.ReadFile(os.Args[i+1])
			var art struct {
				Replay replayT `json:"replay"`
			}
			if err == nil {
				err = json.Unmarshal(raw, &art)
			}
			mode, ok := modeByName(art.Replay.Mode)
			if err != nil || !ok || len(art.Replay.Seq) == 0 {
				fmt.Fprintln(os.Stderr, "cannot use replay artefact:", err)
				os.Exit(2)
			}
			w := &worker{run: run, verbose: true}
			restoreStdout()
			fmt.Printf("replaying mode=%s seed=%d [%s]\n", mode.Name, art.Replay.Seed, seqString(art.Replay.Seq))
			v := w.runSeq(mode, art.Replay.Seed, art.Replay.Seq)
			fmt.Printf("violation at the last step: %v\n", v)
			w.flush()
			run.Set("rule", "replay of one stored sequence")
			finish()
		}
	}

	if job := ev.Job(); job != "" {
		var j jobT
		if err := json.Unmarshal([]byte(job), &j); err != nil {
			fmt.Fprintln(os.Stderr, "bad job", job)
			os.Exit(2)
		}
		var deadline time.Time
		var dl int64
		if fmt.Sscan(os.Getenv("C33_DEADLINE"), &dl); dl > 0 {
			deadline = time.Unix(dl, 0)
		}
		mode, _ := modeByName(j.Mode)
		w := &worker{run: run, states: map[string]bool{}}
		w.enumerate(fams, j.Fam, mode, j.Seed, j.Len, j.First, j.Second, deadline)
		w.flush()
		sopenv.Cleanup()
		restoreStdout()
		run.EmitPartial()
	}

	// determinism: the same sequences twice in this process -> identical reads
	detSeqs := [][]Op{
		{extAlphabet()[7], optimize, del("a"), optimize},
		{extAlphabet()[6], up("a", 2, "y"), optimize},
		{up("a", 0, "x"), up("b", 3, "x"), del("a"), optimize, up("a", 2, "y")},
	}
	for _, mname := range []string{"dynamic", "counted"} {
		mode, _ := modeByName(mname)
		for _, seq := range detSeqs {
			var outs [2]string
			for r := 0; r < 2; r++ {
				curSeed = 0
				setReadAlphabet(seq)
				e := newEnv(mode, nsOf(mode, 0, seq))
				var sb strings.Builder
				for _, o := range seq {
					err := e.apply(o)
					ob := e.observe()
					fmt.Fprintf(&sb, "%v|%d|%d|", err, ob.count, ob.centroids)
					for _, id := range obsIDs {
						g := ob.gets[id]
						if g.item != nil {
							fmt.Fprintf(&sb, "%s=%v/%v/%d ", id, g.item.Vector, g.item.Payload, g.item.CentroidID)
						} else {
							fmt.Fprintf(&sb, "%s=ERR ", id)
						}
					}
					for _, q := range ob.queries {
						fmt.Fprintf(&sb, "%s%v ", hitsStr(q.hits), q.err)
					}
				}
				outs[r] = sb.String()
			}
			if outs[0] != outs[1] {
				restoreStdout()
				fmt.Fprintf(os.Stderr, "c33: NON-DETERMINISTIC run of [%s] in mode %s:\n%s\n%s\n", seqString(seq), mname, outs[0], outs[1])
				sopenv.Cleanup()
				os.Exit(2)
			}
		}
	}
	run.Add("determinism_self_checks", int64(2*len(detSeqs)))

	// debugging / mutation-testing aids: C33_ONLY=<family,...> and C33_MODES=<mode,...> restrict the run
	onlyFam, onlyMode := os.Getenv("C33_ONLY"), os.Getenv("C33_MODES")
	if onlyFam != "" || onlyMode != "" {
		run.NotExhaustive("C33_ONLY/C33_MODES set: restricted run")
	}
	// rounds[l] = jobs that run the sequences of length l (a job = all of them when there are <= 150, else one
	// first op, or one first+second op when a first op alone would exceed 400 sequences)
	rounds := map[int][]string{}
	maxLen := 0
	for fi, f := range fams {
		if onlyFam != "" && !contains(strings.Split(onlyFam, ","), f.Name) {
			continue
		}
		for _, m := range f.Modes {
			if onlyMode != "" && !contains(strings.Split(onlyMode, ","), m) {
				continue
			}
			for _, s := range f.Seeds {
				for l := 1; l <= f.Depth; l++ {
					if l > maxLen {
						maxLen = l
					}
					perFirst := 1
					for i := 1; i < l; i++ {
						perFirst *= len(f.Alphabet)
					}
					if perFirst*len(f.Alphabet) <= 150 { // few sequences: one job
						b, _ := json.Marshal(jobT{fi, m, s, l, -1, -1})
						rounds[l] = append(rounds[l], string(b))
						continue
					}
					for first := range f.Alphabet {
						if perFirst > 400 && l >= 2 {
							for second := range f.Alphabet {
								b, _ := json.Marshal(jobT{fi, m, s, l, first, second})
								rounds[l] = append(rounds[l], string(b))
							}
						} else {
							b, _ := json.Marshal(jobT{fi, m, s, l, first, -1})
							rounds[l] = append(rounds[l], string(b))
						}
					}
				}
			}
		}
	}
	// safety valve for an overloaded machine only (expected: quick ~1 min, thorough ~8 min on 16 idle cores)
	budget := 8 * time.Minute
	if thorough {
		budget = 40 * time.Minute
	}
	if b := os.Getenv("C33_BUDGET_S"); b != "" {
		var s int
		if fmt.Sscan(b, &s); s > 0 {
			budget = time.Duration(s) * time.Second
		}
	}
	nproc := 0
	if p := os.Getenv("C33_NPROC"); p != "" {
		fmt.Sscan(p, &nproc)
	}
	os.Setenv("C33_DEADLINE", fmt.Sprint(time.Now().Add(budget).Unix()))
	for l := 1; l <= maxLen; l++ { // shortest sequences first: the first replay kept per signature is a shortest one
		run.Parallel(rounds[l], nproc, budget+3*time.Minute, func(job, output string) *ev.Violation {
			return &ev.Violation{Sig: "worker-died", Detail: "worker process for job " + job + " died (panic outside an operation / fatal error):\n" + output, Replay: job}
		})
	}
	if sk, _ := run.Coverage["sequences_skipped_by_time_budget"].(int64); sk > 0 {
		run.NotExhaustive(fmt.Sprintf("global time budget of %v reached: %d enumeration subtrees not run (overloaded machine?)", budget, sk))
	}

	// distinct final model states (mode, id -> vec/payload/live): measured across workers
	states := map[string]bool{}
	if pj, ok := run.Coverage["per_job"].(map[string]any); ok {
		for _, x := range pj {
			if m, ok := x.(map[string]any); ok {
				if l, ok := m["states"].([]any); ok {
					for _, s := range l {
						states[fmt.Sprint(s)] = true
					}
				}
			}
		}
	}
	delete(run.Coverage, "per_job")
	run.Set("distinct_final_model_states", len(states))
	run.Set("distinct_nontrivial", run.Coverage["sequences_nontrivial"])
	var fdesc []string
	for _, f := range fams {
		fdesc = append(fdesc, fmt.Sprintf("%s: |alphabet|=%d depth<=%d modes=%v kmeans-seeds=%v", f.Name, len(f.Alphabet), f.Depth, f.Modes, f.Seeds))
	}
	run.Set("families", fdesc)
	var al []string
	for _, o := range fullAlphabet(thorough) {
		al = append(al, o.String())
	}
	run.Set("alphabet_full", al)
	al = nil
	for _, o := range coreAlphabet(thorough) {
		al = append(al, o.String())
	}
	run.Set("alphabet_core", al)
	al = nil
	for _, o := range extAlphabet() {
		s := o.String()
		if len(s) > 90 {
			s = s[:90] + "...)"
		}
		al = append(al, s)
	}
	run.Set("alphabet_ext", al)
	run.Set("rule", "per family (see families): EVERY sequence of 1..depth mutating ops over the family's alphabet, per mode and k-means seed; a sequence already enumerated by an earlier family (same mode/seed, all ops in that alphabet, length within its depth) is not run again, so all counted sequences are distinct. Each sequence runs from scratch (fresh folder, cold caches, fixed UUID stream; caches stay warm across the ops of one sequence as in one server process); each op in its own committed transaction; after every op one committed transaction reads Count, Get(a,b,c,zz) and 12 queries (2 probes x k in {1,2,5} x {no filter, tag==x}); sequences with a 4-/9-item batch read Get(a,b,c,d,e,i,zz) and 16 queries (k=100 added); the LAST step of every sequence is judged (earlier steps are the last step of a shorter sequence). evaluations = get checks + query checks + Count checks; non-trivial (distinct_nontrivial) = sequences whose model has stored at least one id")
	run.Assumption("payload T = map[string]any{\"tag\": \"x\"|\"y\"} through Database.OpenVectorStore; vectors are 2-dimensional; ids are a..c (d..i only in the 4/9-item batches)")
	run.Assumption("zero vector (wide alphabet only): the cosine with a zero vector is taken as 0 (what a similarity of 'no direction' can only mean); the zero-ish vector (0.001,0.001) has its true cosine")
	run.Assumption("UpsertBatch naming the same id twice is modelled as sequential upserts (the later entry is the latest)")
	run.Assumption("no recall claim: a query that returns fewer than min(k, matching live items) is only counted (info_queries_under_return_*), except (a) in buffer modes before the first Optimize, where store.go documents the staged scan as brute force that 'ensures we find items that are staged', and (b) an unfiltered query with k >= number of live items right after Optimize when the index has <= 2 centroids (Query scans the 2 closest buckets, i.e. all of them): an item missing there is unreachable for every query = lost by optimization")
	run.Assumption("Count: demanded live <= Count <= live + ids deleted since the last Optimize (Delete is a documented soft delete reaped by Optimize); Count != live is reported as info_count_differs_from_live only, because the statement does not mention Count")
	run.Assumption("a failure family (e.g. get-live-error) is reported for the shortest sequence prefix at which it appears; longer sequences that only repeat families already present at an earlier step are counted in sequences_with_only_follow_on_failures, so an independent defect that needs a failing prefix can be masked until the first one is fixed")
	run.Assumption("k-means++ seeding made deterministic: ai/vector/kmeans.go time.Now() -> vhook.Now() (fixed clock, 1 or 2 seed values) with GODEBUG randseednop=0; Go map iteration order fixed by the instrumentation overlay; every sequence is independent of what the worker ran before (verified at start-up by running sequences twice)")
	run.Assumption("the same vector.Config is used for every transaction of a sequence (an application setting), in particular EnableIngestionBuffer stays on in the *+buffer modes after Optimize (the package documents TempVectors as 'a buffer for Active Memory ingestion across all versions' and Consolidate as a recurring 'sleep cycle'); mode sealed+buildonce instead turns the buffer off after the first successful Optimize, the usage shown in ai/vector/temp_vectors_test.go")
	finish()
}
