// lockx (C28): stateless model checking of the in-memory lock service at shardedMap-primitive
// granularity: 2-3 owners x short lock programs x TTL-expiry clock event x shard capacities, every
// interleaving within the deviation bound; lock-table reference model evaluated at every call return.
package main

import (
	"context"
	"encoding/json"
	"fmt"
	"hash/fnv"
	"os"
	"sort"
	"strings"
	"time"

	"github.com/sharedcode/sop"
	goredis "github.com/redis/go-redis/v9"
	redisadapter "github.com/sharedcode/sop/adapters/redis"
	"github.com/sharedcode/sop/cache"
	"verif.local/mc/fakeredis"
	"verif.local/mc/vhook"
	"verif.local/mc/detuuid"
	"verif.local/mc/ev"
	"verif.local/mc/sched"
	"verif.local/mc/sopenv"
)

type lop struct {
	Kind string // lock | duallock | islocked | islockedttl | unlock | unlock-foreign
	Keys []string
}

func (o lop) String() string { return o.Kind + "(" + strings.Join(o.Keys, ",") + ")" }

type scenario struct {
	Backend  string // "inmem" (default) | "redis" (adapters/redis against the fake RESP server)
	Name     string
	Owners   [][]lop
	Clock    bool          // add a thread that advances the clock past the TTL once
	Capacity int           // per-shard capacity
	Fillers  int           // unrelated cache entries colliding with the lock keys' shards
	TTL      time.Duration
	Bound    int
}

var epoch = time.Date(2026, 1, 2, 3, 4, 5, 0, time.UTC)

const ttl = 10 * time.Minute

type belief struct {
	until time.Time
}

type env struct {
	c       sop.L2Cache
	keys    []map[string]*sop.LockKey // per owner: name -> lock key (own lock id)
	beliefs []map[string]belief       // per owner: key -> believed-held-until
	log     []string
	viol    []string
}

func shardOf(k string) uint32 {
	h := fnv.New32a()
	h.Write([]byte(k))
	return h.Sum32() % 256
}

// collidingFillers returns n plain cache keys that live in the same shard as the lock key of name.
func collidingFillers(name string, n int) []string {
	target := shardOf("lock:" + name)
	var r []string
	for i := 0; len(r) < n && i < 1000000; i++ {
		k := fmt.Sprintf("lock:filler%d", i)
		if shardOf(k) == target {
			r = append(r, k)
		}
	}
	return r
}

// collidingName returns a lock name other than name whose lock key lives in the same shard.
func collidingName(name string) string {
	target := shardOf("lock:" + name)
	for i := 0; ; i++ {
		n := fmt.Sprintf("z%d", i)
		if shardOf("lock:"+n) == target {
			return n
		}
	}
}

func mk(sc *scenario) *sched.Scenario {
	return &sched.Scenario{
		Name:       sc.Name,
		Classes:    []string{"map", "redis"},
		Epoch:      epoch,
		MaxVirtual: 24 * time.Hour,
		Setup: func(x *sched.Execution) []sched.ThreadSpec {
			detuuid.Reset(7)
			cache.DefaultInMemoryCacheShardCapacity = sc.Capacity
			e := &env{c: cache.NewL2InMemoryCache()}
			if sc.Backend == "redis" {
				redisServer.Flush()
				e.c = redisClient
			}
			x.Env = e
			names := map[string]bool{}
			for _, prog := range sc.Owners {
				for _, o := range prog {
					for _, k := range o.Keys {
						names[k] = true
					}
				}
			}
			var sorted []string
			for n := range names {
				sorted = append(sorted, n)
			}
			sort.Strings(sorted)
			for range sc.Owners {
				m := map[string]*sop.LockKey{}
				for _, n := range sorted {
					m[n] = e.c.CreateLockKeys([]string{n})[0]
				}
				e.keys = append(e.keys, m)
				e.beliefs = append(e.beliefs, map[string]belief{})
			}
			// fillers: other owners' long-lived locks on unrelated keys in the same shards (what a busy system has)
			if sc.Fillers > 0 {
				for _, n := range sorted {
					for _, f := range collidingFillers(n, sc.Fillers) {
						lk := &sop.LockKey{Key: f, LockID: sop.NewUUID()}
						e.c.Lock(sopenv.Bg, 24*time.Hour, []*sop.LockKey{lk})
					}
				}
			}
			var specs []sched.ThreadSpec
			for oi, prog := range sc.Owners {
				oi, prog := oi, prog
				specs = append(specs, sched.ThreadSpec{Name: fmt.Sprintf("O%d", oi), Fn: func(t *sched.T) {
					for _, o := range prog {
						runOp(t, e, oi, o, sc)
					}
				}})
			}
			if sc.Clock {
				specs = append(specs, sched.ThreadSpec{Name: "CLOCK", Fn: func(t *sched.T) {
					// the event takes effect when this thread is scheduled: yield once first
					cacheYield()
					t.X().Advance(sc.TTL + time.Second)
					e.log = append(e.log, "CLOCK +TTL+1s")
					check(t, e, "clock")
				}})
			}
			return specs
		},
	}
}

func cacheYield() {
	// a scheduling point of class "map" without touching the cache under test
	yieldCache.Get(sopenv.Bg, "x")
}

var yieldCache = cache.NewL2InMemoryCache()

var redisServer *fakeredis.Server
var redisClient sop.L2Cache

type pointHook struct{}

func (pointHook) DialHook(next goredis.DialHook) goredis.DialHook { return next }
func (pointHook) ProcessHook(next goredis.ProcessHook) goredis.ProcessHook {
	return func(ctx context.Context, cmd goredis.Cmder) error {
		vhook.Point("redis", cmd.Name())
		return next(ctx, cmd)
	}
}
func (pointHook) ProcessPipelineHook(next goredis.ProcessPipelineHook) goredis.ProcessPipelineHook {
	return func(ctx context.Context, cmds []goredis.Cmder) error {
		names := make([]string, len(cmds))
		for i, c := range cmds {
			names[i] = c.Name()
		}
		vhook.Point("redis", "pipeline "+strings.Join(names, ","))
		return next(ctx, cmds)
	}
}

func startRedis() {
	var addr string
	var err error
	redisServer, addr, err = fakeredis.Start(vhook.Now)
	if err != nil {
		fmt.Fprintln(os.Stderr, "HARNESS FAILURE: cannot start fake redis:", err)
		os.Exit(2)
	}
	redisClient = redisadapter.NewConnectionClient(redisadapter.Options{Address: addr})
	gc := redisadapter.VerifGoRedisClient(redisClient)
	if gc == nil {
		fmt.Fprintln(os.Stderr, "HARNESS FAILURE: cannot reach the go-redis client of the adapter")
		os.Exit(2)
	}
	gc.AddHook(pointHook{})
	if err := redisClient.Ping(context.Background()); err != nil {
		fmt.Fprintln(os.Stderr, "HARNESS FAILURE: ping:", err)
		os.Exit(2)
	}
}

func lks(e *env, owner int, names []string) []*sop.LockKey {
	var r []*sop.LockKey
	for _, n := range names {
		r = append(r, e.keys[owner][n])
	}
	return r
}

func runOp(t *sched.T, e *env, oi int, o lop, sc *scenario) {
	ctx := t.Ctx()
	start := t.Now() // a TTL granted by a call counts from when the call was issued (conservative owner view)
	now := func() time.Time { return start }
	switch o.Kind {
	case "lock", "duallock":
		var ok bool
		if o.Kind == "lock" {
			ok, _, _ = e.c.Lock(ctx, sc.TTL, lks(e, oi, o.Keys))
		} else {
			ok, _, _ = e.c.DualLock(ctx, sc.TTL, lks(e, oi, o.Keys))
		}
		e.log = append(e.log, fmt.Sprintf("O%d %s=%v", oi, o, ok))
		if ok {
			for _, k := range o.Keys {
				e.beliefs[oi][k] = belief{until: now().Add(sc.TTL)}
			}
		}
	case "islocked":
		ok, _ := e.c.IsLocked(ctx, lks(e, oi, o.Keys))
		e.log = append(e.log, fmt.Sprintf("O%d %s=%v", oi, o, ok))
		if !ok {
			for _, k := range o.Keys {
				delete(e.beliefs[oi], k) // told it does not hold them (all of them) any more
			}
		}
	case "islockedttl":
		ok, _ := e.c.IsLockedTTL(ctx, sc.TTL, lks(e, oi, o.Keys))
		e.log = append(e.log, fmt.Sprintf("O%d %s=%v", oi, o, ok))
		if ok {
			for _, k := range o.Keys {
				if _, held := e.beliefs[oi][k]; held {
					e.beliefs[oi][k] = belief{until: now().Add(sc.TTL)}
				}
			}
		} else {
			for _, k := range o.Keys {
				delete(e.beliefs[oi], k)
			}
		}
	case "unlock":
		// an owner that has issued the release no longer claims the locks
		for _, k := range o.Keys {
			delete(e.beliefs[oi], k)
		}
		e.c.Unlock(ctx, lks(e, oi, o.Keys))
		e.log = append(e.log, fmt.Sprintf("O%d %s", oi, o))
	case "unlock-foreign":
		// a release request by someone who is not the holder: same key names, own lock ids
		e.c.Unlock(ctx, lks(e, oi, o.Keys))
		e.log = append(e.log, fmt.Sprintf("O%d %s", oi, o))
	}
	check(t, e, fmt.Sprintf("O%d %s", oi, o))
}

// check evaluates the lock-table model at a call return.
func check(t *sched.T, e *env, at string) {
	t.Atomic(func() { checkNow(t, e, at) })
}

func checkNow(t *sched.T, e *env, at string) {
	now := t.Now()
	holders := map[string][]int{}
	for oi, b := range e.beliefs {
		for k, bl := range b {
			if bl.until.After(now) {
				holders[k] = append(holders[k], oi)
			}
		}
	}
	for k, hs := range holders {
		if len(hs) > 1 {
			e.viol = append(e.viol, fmt.Sprintf("two-owners|after %s: key %s is held unexpired by owners %v at the same time (each had Lock/DualLock return true, no Unlock since, TTL not elapsed)", at, k, hs))
		}
	}
	// a sole believer whose lock record is gone or belongs to someone else: its lock was freed or stolen
	for k, hs := range holders {
		if len(hs) != 1 {
			continue
		}
		if ok, _ := e.c.IsLocked(sopenv.Bg, []*sop.LockKey{e.keys[hs[0]][k]}); !ok {
			e.viol = append(e.viol, fmt.Sprintf("holder-lost-lock|after %s: owner %d holds key %s unexpired by the model but the service no longer has its lock", at, hs[0], k))
		}
	}
}

func scenarios(thorough bool) []*scenario {
	L := func(kind string, keys ...string) lop { return lop{kind, keys} }
	var out []*scenario
	for _, cap := range []int{1000, 2, 1} {
		fill := 0
		if cap < 1000 {
			fill = cap
		}
		sfx := fmt.Sprintf("-cap%d", cap)
		out = append(out,
			&scenario{Name: "two-lockers-one-key" + sfx, Capacity: cap, Fillers: fill, TTL: ttl, Clock: true,
				Owners: [][]lop{{L("lock", "a"), L("islocked", "a"), L("unlock", "a")}, {L("lock", "a"), L("islocked", "a"), L("unlock", "a")}}},
			&scenario{Name: "duallock-opposite-order" + sfx, Capacity: cap, Fillers: fill, TTL: ttl, Clock: true,
				Owners: [][]lop{{L("duallock", "a", "b"), L("unlock", "a", "b")}, {L("duallock", "b", "a"), L("unlock", "b", "a")}}},
			&scenario{Name: "foreign-unlock" + sfx, Capacity: cap, Fillers: fill, TTL: ttl,
				Owners: [][]lop{{L("lock", "a"), L("islocked", "a")}, {L("unlock-foreign", "a"), L("lock", "a")}}},
			&scenario{Name: "ttl-refresh-vs-taker" + sfx, Capacity: cap, Fillers: fill, TTL: ttl, Clock: true,
				Owners: [][]lop{{L("lock", "a"), L("islockedttl", "a"), L("islocked", "a")}, {L("lock", "a"), L("islocked", "a")}}},
		)
		// re-entrant request that fails: an owner already holding "a" asks for {a,b} while "b" is taken; the failed
		// request must not cost it the lock on "a" it was granted earlier (a third owner then tries "a")
		out = append(out, &scenario{Name: "held-key-in-failed-multi-lock" + sfx, Capacity: cap, Fillers: fill, TTL: ttl, Bound: 1,
			Owners: [][]lop{{L("lock", "a"), L("lock", "a", "b"), L("islocked", "a")}, {L("lock", "b")}, {L("lock", "a"), L("islocked", "a")}}})
		// a third owner locks an unrelated key that lives in the same shard as "a" (capacity pressure)
		col := collidingName("a")
		out = append(out, &scenario{Name: "unrelated-lock-in-same-shard" + sfx, Capacity: cap, Fillers: fill, TTL: ttl, Bound: 1,
			Owners: [][]lop{{L("lock", "a"), L("islocked", "a")}, {L("lock", col)}, {L("lock", "a"), L("islocked", "a")}}})
		if thorough || cap == 1000 {
			out = append(out, &scenario{Name: "three-lockers" + sfx, Capacity: cap, Fillers: fill, TTL: ttl, Clock: true, Bound: 1,
				Owners: [][]lop{{L("lock", "a", "b"), L("unlock", "a", "b")}, {L("lock", "b"), L("islocked", "b"), L("unlock", "b")}, {L("duallock", "a"), L("unlock", "a")}}})
		}
	}
	// the Redis lock service (adapters/redis) against the fake RESP server
	out = append(out,
		&scenario{Backend: "redis", Name: "redis-two-lockers-one-key", TTL: ttl, Clock: true,
			Owners: [][]lop{{L("lock", "a"), L("islocked", "a"), L("unlock", "a")}, {L("lock", "a"), L("islocked", "a"), L("unlock", "a")}}},
		&scenario{Backend: "redis", Name: "redis-duallock-opposite-order", TTL: ttl, Clock: true,
			Owners: [][]lop{{L("duallock", "a", "b"), L("unlock", "a", "b")}, {L("duallock", "b", "a"), L("unlock", "b", "a")}}},
		&scenario{Backend: "redis", Name: "redis-foreign-unlock", TTL: ttl,
			Owners: [][]lop{{L("lock", "a"), L("islocked", "a")}, {L("unlock-foreign", "a"), L("lock", "a")}}},
		&scenario{Backend: "redis", Name: "redis-ttl-refresh-vs-taker", TTL: ttl, Clock: true,
			Owners: [][]lop{{L("lock", "a"), L("islockedttl", "a"), L("islocked", "a")}, {L("lock", "a"), L("islocked", "a")}}},
		&scenario{Backend: "redis", Name: "redis-held-key-in-failed-multi-lock", TTL: ttl, Bound: 1,
			Owners: [][]lop{{L("lock", "a"), L("lock", "a", "b"), L("islocked", "a")}, {L("lock", "b")}, {L("lock", "a"), L("islocked", "a")}}},
		&scenario{Backend: "redis", Name: "redis-late-unlock-after-expiry", TTL: ttl, Clock: true,
			Owners: [][]lop{{L("lock", "a"), L("unlock", "a")}, {L("lock", "a"), L("islocked", "a")}}},
	)
	return out
}

func main() {
	run := ev.New("C28", "exploration")
	thorough := run.Thorough()
	scs := scenarios(thorough)
	for i, a := range os.Args {
		if a == "--replay" && i+1 < len(os.Args) {
			b, _ := os.ReadFile(os.Args[i+1])
			var f struct {
				Replay struct {
					Scenario string
					Schedule []int
				}
			}
			json.Unmarshal(b, &f)
			for _, sc := range scs {
				if sc.Name == f.Replay.Scenario {
					x := sched.Run(mk(sc), f.Replay.Schedule)
					for i, t := range x.Trace {
						fmt.Println(i, t)
					}
					en := x.Env.(*env)
					fmt.Println(en.log)
					fmt.Println(en.viol)
				}
			}
			return
		}
	}
	if job := ev.Job(); job != "" {
		var si int
		fmt.Sscan(job, &si)
		sc := scs[si]
		if sc.Backend == "redis" {
			startRedis()
		}
		ssc := mk(sc)
		a, b := sched.Run(ssc, nil), sched.Run(ssc, nil)
		if strings.Join(a.Trace, ";") != strings.Join(b.Trace, ";") || strings.Join(a.Env.(*env).log, ";") != strings.Join(b.Env.(*env).log, ";") {
			fmt.Fprintln(os.Stderr, "DIVERGENCE: default schedule not reproducible in", sc.Name)
			os.Exit(2)
		}
		bound := sc.Bound
		if bound == 0 {
			bound = 2
		}
		if thorough {
			bound++
		}
		outcomes := map[string]bool{}
		var execs, switched int64
		deadline := time.Now().Add(8 * time.Minute)
		if thorough {
			deadline = time.Now().Add(60 * time.Minute)
		}
		e := &sched.Explorer{Sc: ssc, Bound: bound, Shards: 1, Deadline: deadline}
		e.Check = func(x *sched.Execution, schedule []int) {
			execs++
			if x.Switches > 0 {
				switched++
			}
			en := x.Env.(*env)
			outcomes[strings.Join(en.log, ";")] = true
			if x.Deadlock || x.Livelock || x.Hang {
				run.Violate(ev.Violation{Sig: "stuck|" + sc.Name, Detail: fmt.Sprintf("deadlock=%v livelock=%v hang=%v schedule=%v", x.Deadlock, x.Livelock, x.Hang, schedule), Replay: map[string]any{"scenario": sc.Name, "schedule": schedule}})
			}
			for _, t := range x.Threads {
				if t.Panicked() != "" {
					run.Violate(ev.Violation{Sig: "panic|" + sc.Name, Detail: t.Panicked(), Replay: map[string]any{"scenario": sc.Name, "schedule": schedule}})
				}
			}
			for _, v := range en.viol {
				kind := strings.SplitN(v, "|", 2)[0]
				run.Violate(ev.Violation{Sig: kind + "|" + sc.Name, Detail: fmt.Sprintf("scenario %s schedule=%v: %s; history: %v", sc.Name, schedule, v, en.log), Replay: map[string]any{"scenario": sc.Name, "schedule": schedule, "history": en.log}})
			}
		}
		e.Explore()
		if e.Truncated {
			run.NotExhaustive("budget reached in " + sc.Name)
		}
		run.Set("executions", execs)
		run.Set("schedules_with_context_switch", switched)
		run.Set("distinct_histories", len(outcomes))
		run.Set("scenario", sc.Name)
		run.Set("bound", fmt.Sprint(bound))
		run.Set("max_points", fmt.Sprint(e.MaxPoints))
		if si == 0 {
			for o := range outcomes {
				run.Sample(o)
				break
			}
		}
		run.EmitPartial()
	}
	var jobs []string
	for i := range scs {
		jobs = append(jobs, fmt.Sprint(i))
	}
	run.Parallel(jobs, 0, 70*time.Minute, nil)
	run.Set("evaluations", run.Coverage["executions"])
	run.Set("distinct_nontrivial", run.Coverage["schedules_with_context_switch"])
	run.Set("rule", "every schedule with at most `bound` deviations of 2-3 lock owners (1-3 calls each over keys a,b) plus a clock thread that lets the TTL elapse at any position, with scheduling points at every shardedMap primitive (load/store/loadOrStore/compareAndSwap/compareAndDelete/delete) of the real in-memory L2 cache, for shard capacities 1000, 2 and 1 (shards pre-filled with unrelated locks); lock-table model evaluated at every call return")
	run.Assumption("each shardedMap primitive is atomic (it holds the shard mutex for its whole body); only the in-memory lock service is exercised — the Redis adapter is not (no Redis server, miniredis not available offline)")
	run.Finish()
}
