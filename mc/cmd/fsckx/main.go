package main

import (
	"fmt"
	"os"
	"os/exec"

	"verif.local/mc/sopenv"
	"verif.local/mc/txn"
)

func main() {
	sopenv.FreshDir(1)
	defer sopenv.Cleanup()
	specs := []txn.StoreSpec{
		{Name: "a", Slot: 2, Unique: true, Place: "node", Initial: []txn.KV{{1, "a"}, {2, "b"}, {3, "c"}}},
		{Name: "s", Slot: 2, Unique: true, Place: "segment", Initial: []txn.KV{{1, "a"}, {2, "b"}, {3, "c"}}},
		{Name: "p", Slot: 4, Unique: true, Place: "active", Initial: []txn.KV{{1, "a"}}},
	}
	if err := txn.Build(sopenv.Bg, specs); err != nil {
		panic(err)
	}
	out, _ := exec.Command("bash", "-c", "cd "+sopenv.Dir+" && find . -type f | sort | head -60 && echo && cat a/storeinfo.txt && echo && cat storelist.txt; echo; f=$(find s -type f ! -name '*.reg' ! -name '*.txt' | head -2); for x in $f; do echo $x; cat $x; echo; done").CombinedOutput()
	fmt.Println(string(out))
	_ = os.Stdout
}
