package main

import (
	"fmt"
	"os"

	"verif.local/mc/fsck"
	"verif.local/mc/sopenv"
	"verif.local/mc/txn"
	"github.com/sharedcode/sop"
)

func rep(tag string) {
	r := fsck.Check(sopenv.Dir)
	for n, s := range r.Stores {
		fmt.Println(tag, n, "items", s.Items, "orphanblobs", s.OrphanBlobs, "problems", s.Problems)
	}
}

func main() {
	place := os.Args[1]
	sopenv.FreshDir(1)
	defer sopenv.Cleanup()
	specs := []txn.StoreSpec{{Name: "p", Slot: 4, Unique: true, Place: place, Initial: []txn.KV{{1, "a"}, {2, "b"}, {3, "c"}}}}
	if err := txn.Build(sopenv.Bg, specs); err != nil {
		panic(err)
	}
	rep("built")
	for _, ops := range [][]txn.Op{{{Kind: "update", Store: "p", K: 1, V: "new"}}, {{Kind: "remove", Store: "p", K: 2}}, {{Kind: "add", Store: "p", K: 4, V: "n4"}}, {{Kind: "update", Store: "p", K: 1, V: "new2"}}} {
		r := txn.Run(sopenv.Bg, txn.Prog{Name: "t", Mode: sop.ForWriting, Ops: ops, End: "commit"}, nil)
		fmt.Println(ops, "committed", r.Committed, r.EndErr)
		rep("  after")
	}
}
