// c13: bounded-exhaustive check of property C13 — "Committing changes never alters or corrupts a
// store's configuration" — against the real infs/common/fs stack on /dev/shm.
//
// A case = (where a generated text goes, the text, store options, a history of commits, cache mode).
// After EVERY commit the persisted storeinfo.txt is (1) parsed directly as JSON and (2) read through a
// brand-new fs.StoreRepository with an empty L2 cache (what a fresh process would see); at the end the
// process-wide L2 cache is cleared and the store is reopened through a new transaction. Every view must
// equal the StoreInfo returned right after creation in every field except Count (= model) and Timestamp.
package main

import (
	"context"
	"encoding/json"
	"fmt"
	"io"
	"log/slog"
	"os"
	"path/filepath"
	"reflect"
	"sort"
	"strings"
	"time"

	"github.com/sharedcode/sop"
	"github.com/sharedcode/sop/btree"
	"github.com/sharedcode/sop/cache"
	"github.com/sharedcode/sop/fs"
	"github.com/sharedcode/sop/infs"
	"verif.local/mc/detuuid"
	"verif.local/mc/ev"
)

var ctx = context.Background()

var keepDir bool

// ---- text domain ----

var tokens = []string{"count", `"count"`, "timestamp", ":", ",", "}", `\`, `"`, "a", " ", "é"}

func texts(maxTokens int) []string {
	seen := map[string]bool{}
	var out []string
	var rec func(prefix string, left int)
	rec = func(prefix string, left int) {
		if !seen[prefix] {
			seen[prefix] = true
			out = append(out, prefix)
		}
		if left == 0 {
			return
		}
		for _, t := range tokens {
			rec(prefix+t, left-1)
		}
	}
	rec("", maxTokens)
	sort.SliceStable(out, func(i, j int) bool { return len(out[i]) < len(out[j]) }) // shortest first
	return out
}

var placements = []string{"name", "description", "customdata-key", "customdata-value", "mapkey-spec", "cel"}

// textClass: stable class of a text for signatures.
func textClass(s string) string {
	switch {
	case s == "count" || s == "timestamp":
		return "is-" + s
	case strings.HasSuffix(s, `"count`):
		return "ends-with-quote-count"
	case strings.HasSuffix(s, `"timestamp`):
		return "ends-with-quote-timestamp"
	case strings.Contains(s, `"count"`):
		return "contains-quoted-count"
	case strings.Contains(s, "count"):
		return "contains-count"
	case strings.Contains(s, "timestamp"):
		return "contains-timestamp"
	}
	return "other-text"
}

// ---- options ----

type optCombo struct {
	Unique      bool
	Slot        int
	InNode      bool
	Active      bool
	Global      bool
	LLB         bool
	CustomCache bool
}

func (o optCombo) String() string {
	return fmt.Sprintf("unique=%v slot=%d innode=%v active=%v global=%v llb=%v customcache=%v", o.Unique, o.Slot, o.InNode, o.Active, o.Global, o.LLB, o.CustomCache)
}

var baseOpts = optCombo{Unique: true, Slot: 4, InNode: true}

func optionCombos(thorough bool) []optCombo {
	var out []optCombo
	type vp struct{ in, act, glob bool }
	vps := []vp{{true, false, false}, {false, false, false}, {false, false, true}, {false, true, false}, {false, true, true}}
	llbs := []bool{false}
	if thorough {
		llbs = []bool{false, true}
	}
	for _, u := range []bool{true, false} {
		for _, sl := range []int{2, 4, 100} {
			for _, v := range vps {
				for _, cc := range []bool{false, true} {
					for _, llb := range llbs {
						out = append(out, optCombo{Unique: u, Slot: sl, InNode: v.in, Active: v.act, Global: v.glob, LLB: llb, CustomCache: cc})
					}
				}
			}
		}
	}
	return out
}

// ---- histories ----

// ops: P = add 2 items (+2), Z = add 1 and remove 1 (0), N = remove 1 (-1; 0 when the store is empty),
// A = add 1 (+1, thorough only), E = remove every item (thorough only).
func histories(alphabet string, depth int) []string {
	out := []string{""}
	for d := 0; d < depth; d++ {
		var nx []string
		for _, h := range out {
			for _, c := range alphabet {
				nx = append(nx, h+string(c))
			}
		}
		out = nx
	}
	return out // all of length exactly depth: every shorter history is a prefix and is checked on the way
}

// ---- case ----

type tcase struct {
	Placement      string   `json:"placement"` // "" for option cases
	Text           string   `json:"text"`
	Opts           optCombo `json:"options"`
	History        string   `json:"history"`
	Cold           bool     `json:"clear_l2_cache_after_each_commit"`
	CreateSeparate bool     `json:"creation_committed_separately"`
	Idx            int      `json:"-"`
}

// space is the enumerated case space, generated lazily by index (the thorough tier has ~8e5 cases and
// every worker process needs only its own stride).
type space struct {
	texts   []string
	textH   []string // histories for text cases
	opts    []optCombo
	optH    []string // histories for option cases
	widthH  []string // histories that move the count across decimal digit widths (9<->10, 99<->100)
	nText   int
	nOpt    int
	indices []int // nil = all; otherwise the selected subset (C13_MAXCASES)
}

func enumerate(thorough bool) *space {
	maxTok := 2
	if thorough {
		maxTok = 3
	}
	sp := &space{texts: texts(maxTok), textH: histories("PZN", 3), opts: optionCombos(thorough)}
	sp.optH = sp.textH
	if thorough {
		sp.optH = histories("PZNAE", 4)
	}
	sp.nText = len(placements) * len(sp.texts) * len(sp.textH) * 2
	sp.nOpt = len(sp.opts) * len(sp.optH) * 4
	// T = add 10 items, H = add 90, D = remove 5, A = add 1, N = remove 1: the persisted count changes its number of
	// digits in both directions (the in-place patch of storeinfo.txt must cope with a shorter and a longer number)
	depthW := 3
	if thorough {
		depthW = 4
	}
	sp.widthH = histories("TDANH", depthW)
	return sp
}

func (sp *space) Len() int {
	if sp.indices != nil {
		return len(sp.indices)
	}
	return sp.nText + sp.nOpt + len(sp.widthH)*4
}

// At returns case number i. Order: text cases by placement, text (shortest first), history, cache mode;
// then option cases by option combination, history, cache mode, creation style.
func (sp *space) At(i int) tcase {
	if sp.indices != nil {
		i = sp.indices[i]
	}
	idx := i
	if i < sp.nText {
		cold := i%2 == 1
		i /= 2
		h := sp.textH[i%len(sp.textH)]
		i /= len(sp.textH)
		tx := sp.texts[i%len(sp.texts)]
		i /= len(sp.texts)
		// creation in the same transaction as the first commit when warm, separately when cold: both
		// creation styles are crossed with everything in the option cases.
		return tcase{Placement: placements[i], Text: tx, Opts: baseOpts, History: h, Cold: cold, CreateSeparate: cold, Idx: idx}
	}
	i -= sp.nText
	if i >= sp.nOpt {
		i -= sp.nOpt
		sep := i%2 == 1
		i /= 2
		cold := i%2 == 1
		i /= 2
		return tcase{Opts: baseOpts, History: sp.widthH[i%len(sp.widthH)], Cold: cold, CreateSeparate: sep, Idx: idx}
	}
	sep := i%2 == 1
	i /= 2
	cold := i%2 == 1
	i /= 2
	h := sp.optH[i%len(sp.optH)]
	i /= len(sp.optH)
	return tcase{Opts: sp.opts[i], History: h, Cold: cold, CreateSeparate: sep, Idx: idx}
}

// isPrepass selects, for every (placement, text), two short warm-cache histories that reach the
// full-rewrite path (first add) and then the in-place patch path with a count equal to (PPN: 4) and
// different from (PNP: 1) the base slot length.
func isPrepass(c tcase) bool {
	return c.Placement != "" && (c.History == "PPN" || c.History == "PNP") && !c.Cold
}

func (c tcase) storeOptions() sop.StoreOptions {
	so := sop.StoreOptions{
		Name: "s", Description: "d",
		SlotLength: c.Opts.Slot, IsUnique: c.Opts.Unique,
		IsValueDataInNodeSegment: c.Opts.InNode, IsValueDataActivelyPersisted: c.Opts.Active, IsValueDataGloballyCached: c.Opts.Global,
		LeafLoadBalancing: c.Opts.LLB,
		// keys are ints: state it, as database.NewBtree does (btree.New overrides an untruthful false in
		// memory only, which would make the creation-time file differ from GetStoreInfo()).
		IsPrimitiveKey: true,
	}
	if c.Opts.CustomCache {
		so.CacheConfig = &sop.StoreCacheConfig{
			RegistryCacheDuration: 20 * time.Minute, IsRegistryCacheTTL: true,
			NodeCacheDuration:      6 * time.Minute,
			ValueDataCacheDuration: 7 * time.Minute, IsValueDataCacheTTL: true,
			StoreInfoCacheDuration: 8 * time.Minute, IsStoreInfoCacheTTL: true,
		}
	}
	switch c.Placement {
	case "name":
		so.Name = c.Text
	case "description":
		so.Description = c.Text
	case "customdata-key":
		so.CustomData = map[string]any{c.Text: "v"}
	case "customdata-value":
		so.CustomData = map[string]any{"k": c.Text}
	case "mapkey-spec":
		so.MapKeyIndexSpecification = c.Text
	case "cel":
		so.CELexpression = c.Text
	}
	return so
}

// ---- comparison ----

// normalize clears what the property allows to change (Count, Timestamp), what is never persisted, and
// the schema fields that the B-tree infers from the Go types at the first Add (derived data, not part
// of the configuration the store was created with; their stability is checked separately).
func normalize(si sop.StoreInfo) sop.StoreInfo {
	si.Count, si.Timestamp, si.CountDelta, si.NeedsMetaDataSave = 0, 0, 0, false
	si.Schema, si.KeyFields, si.ValueFields = nil, nil, nil
	return si
}

func asMap(si sop.StoreInfo) map[string]any {
	b, _ := json.Marshal(si)
	var m map[string]any
	json.Unmarshal(b, &m)
	return m
}

// diffFields lists the top-level JSON fields in which got differs from want.
func diffFields(want, got sop.StoreInfo) []string {
	w, g := asMap(normalize(want)), asMap(normalize(got))
	keys := map[string]bool{}
	for k := range w {
		keys[k] = true
	}
	for k := range g {
		keys[k] = true
	}
	var out []string
	for k := range keys {
		if !reflect.DeepEqual(w[k], g[k]) {
			out = append(out, k)
		}
	}
	sort.Strings(out)
	return out
}

type worker struct {
	run       *ev.Run
	base      string
	coldCache sop.L2Cache
}

func txOpts(dir string, mode sop.TransactionMode) sop.TransactionOptions {
	return sop.TransactionOptions{Mode: mode, StoresFolders: []string{dir}, CacheType: sop.InMemory}
}

type schemaView struct {
	Schema      map[string]string
	KeyFields   []string
	ValueFields []string
}

func (w *worker) runCase(c tcase) {
	run := w.run
	dir := fmt.Sprintf("%s/c%d", w.base, c.Idx)
	os.RemoveAll(dir)
	if !keepDir {
		defer os.RemoveAll(dir)
	}
	detuuid.Reset(uint64(c.Idx) + 1)
	globalL2 := sop.GetL2Cache(txOpts(dir, sop.ForWriting))
	defer globalL2.Clear(ctx)

	so := c.storeOptions()
	name := so.Name
	where := "options"
	class := "plain"
	if c.Placement != "" {
		where = "field-in-" + c.Placement
		class = textClass(c.Text)
	}
	stopped := false
	fail := func(symptom, detail string, step int) {
		stopped = true
		sig := fmt.Sprintf("storeinfo-patch|%s|%s|%s", where, class, symptom)
		if os.Getenv("C13_DEBUG_SIG") != "" {
			sig += fmt.Sprintf("|%s|%s|cold=%v|sep=%v|step=%d", c.Opts, c.History, c.Cold, c.CreateSeparate, step)
		}
		run.Violate(ev.Violation{
			Sig:    sig,
			Detail: fmt.Sprintf("%s after commit #%d of history %q (P=add 2, Z=add 1 remove 1, N=remove 1, A=add 1, E=remove all, T=add 10, H=add 90, D=remove 5): store options %+v [%s], %s: %s", symptom, step, c.History, describe(so), c.Opts, map[bool]string{true: "L2 cache cleared after each commit", false: "warm L2 cache"}[c.Cold], detail),
			Replay: map[string]any{"case": c, "store_name": so.Name, "description": so.Description, "custom_data": so.CustomData, "mapkey_index_spec": so.MapKeyIndexSpecification, "cel_expression": so.CELexpression, "failed_after_commit": step},
		})
	}

	begin := func(mode sop.TransactionMode) sop.Transaction {
		t, err := infs.NewTransaction(ctx, txOpts(dir, mode))
		if err != nil {
			panic("NewTransaction: " + err.Error())
		}
		if err := t.Begin(ctx); err != nil {
			panic("Begin: " + err.Error())
		}
		return t
	}

	// creation
	t := begin(sop.ForWriting)
	b, err := infs.NewBtree[int, string](ctx, so, t, nil)
	if err != nil {
		// the API rejects this configuration at creation: outside the property's domain
		run.Add("rejected_at_creation", 1)
		if c.Placement == "name" {
			run.Add("names_rejected_at_creation", 1)
		}
		t.Rollback(ctx)
		return
	}
	created := b.GetStoreInfo()
	run.Add("stores_created", 1)
	if created.Name != so.Name || created.Description != so.Description || created.MapKeyIndexSpecification != so.MapKeyIndexSpecification ||
		created.CELexpression != so.CELexpression || !reflect.DeepEqual(created.CustomData, so.CustomData) || created.IsUnique != so.IsUnique || created.SlotLength != so.SlotLength {
		fail("created-differs-from-options", fmt.Sprintf("StoreInfo right after creation = %+v", created), 0)
		t.Rollback(ctx)
		return
	}
	if c.CreateSeparate {
		if err := t.Commit(ctx); err != nil {
			fail("commit-error", "commit of the creating transaction: "+err.Error(), 0)
			return
		}
		if c.Cold {
			globalL2.Clear(ctx)
		}
		b = nil
	}

	var model []int // sorted keys present
	next := 1
	var firstSchema *schemaView
	storeFile := filepath.Join(dir, name, fs.StoreInfoFilename)

	verify := func(step int) {
		// (1) the file itself
		raw, err := os.ReadFile(storeFile)
		if err != nil {
			fail("storeinfo-file-missing", err.Error(), step)
			return
		}
		run.Add("evaluations", 1)
		if !json.Valid(raw) {
			fail("invalid-json", fmt.Sprintf("storeinfo.txt is not valid JSON: %s", raw), step)
			return
		}
		var disk sop.StoreInfo
		if err := json.Unmarshal(raw, &disk); err != nil {
			fail("unreadable", fmt.Sprintf("storeinfo.txt does not decode into a StoreInfo (%v): %s", err, raw), step)
			return
		}
		if d := diffFields(created, disk); len(d) > 0 {
			fail("config-changed:"+strings.Join(d, ","), fmt.Sprintf("fields %v differ from creation; created=%s on disk=%s", d, mustJSON(normalize(created)), raw), step)
			return
		}
		if disk.Count != int64(len(model)) {
			// Is the count wrong, or did the commit not apply what was asked? Look at the actual contents.
			keys, serr := scanKeys(dir, name)
			if serr == "" && int64(len(keys)) == disk.Count && fmt.Sprint(keys) != fmt.Sprint(model) {
				// The persisted count agrees with what the store really holds: the commit silently dropped
				// an operation. That is not a store-configuration defect (C13) — it is recorded as by-catch
				// and the model follows the store so that the rest of the history stays meaningful.
				run.Add("bycatch_commit_lost_operation", 1)
				k := fmt.Sprintf("bycatch_commit_lost_operation[active_persisted=%v]", c.Opts.Active)
				run.Add(k, 1)
				if lostCommitIsViolation {
					fail("bycatch-commit-lost-operation", fmt.Sprintf("Commit returned nil but the store holds keys %v, the committed history gives %v", keys, model), step)
					return
				}
				run.Sample(map[string]any{"bycatch": "commit #" + fmt.Sprint(step) + " returned nil but its operations were not applied", "case": c, "store_holds": keys, "history_gives": model})
				model = keys
			} else {
				fail("count-wrong", fmt.Sprintf("persisted count=%d, model count=%d, keys actually in the store=%v (%s); file=%s", disk.Count, len(model), keys, serr, raw), step)
				return
			}
		}
		sv := schemaView{disk.Schema, disk.KeyFields, disk.ValueFields}
		if firstSchema == nil {
			if len(sv.Schema) > 0 || len(sv.KeyFields) > 0 || len(sv.ValueFields) > 0 {
				firstSchema = &sv
			}
		} else if !reflect.DeepEqual(*firstSchema, sv) {
			fail("inferred-schema-changed", fmt.Sprintf("schema fields changed from %+v to %+v", *firstSchema, sv), step)
			return
		}
		// (2) what a fresh process reads: new StoreRepository over an empty cache
		w.coldCache.Clear(ctx)
		rt, err := fs.NewReplicationTracker(ctx, []string{dir}, false, w.coldCache)
		if err != nil {
			panic(err)
		}
		sr, err := fs.NewStoreRepository(ctx, rt, nil, w.coldCache, 0)
		if err != nil {
			panic(err)
		}
		run.Add("evaluations", 1)
		got, err := sr.Get(ctx, name)
		if err != nil || len(got) != 1 {
			fail("unreadable", fmt.Sprintf("cold StoreRepository.Get(%q) returned %d stores, err=%v; file=%s", name, len(got), err, raw), step)
			return
		}
		if d := diffFields(created, got[0]); len(d) > 0 {
			fail("config-changed:"+strings.Join(d, ","), fmt.Sprintf("cold StoreRepository.Get: fields %v differ from creation; got=%s", d, mustJSON(got[0])), step)
			return
		}
		if got[0].Count != int64(len(model)) {
			fail("count-wrong", fmt.Sprintf("cold StoreRepository.Get count=%d, model count=%d", got[0].Count, len(model)), step)
		}
	}

	for step := 1; step <= len(c.History) && !stopped; step++ {
		if b == nil {
			t = begin(sop.ForWriting)
			b, err = infs.OpenBtree[int, string](ctx, name, t, nil)
			if err != nil {
				fail("reopen-error", fmt.Sprintf("OpenBtree(%q) before commit #%d: %v", name, step, err), step-1)
				return
			}
			if d := diffFields(created, b.GetStoreInfo()); len(d) > 0 {
				fail("config-changed:"+strings.Join(d, ","), fmt.Sprintf("OpenBtree before commit #%d: fields %v differ from creation; got=%s", step, d, mustJSON(b.GetStoreInfo())), step-1)
				t.Rollback(ctx)
				return
			}
		}
		m2, n2, perr := applyOp(b, c.History[step-1], model, next)
		if perr != "" {
			fail("operation-error", perr, step)
			t.Rollback(ctx)
			return
		}
		if err := t.Commit(ctx); err != nil {
			fail("commit-error", fmt.Sprintf("commit #%d: %v", step, err), step)
			return
		}
		model, next = m2, n2
		run.Add("commits", 1)
		b = nil
		verify(step)
		if c.Cold {
			globalL2.Clear(ctx)
		}
	}
	if stopped {
		return
	}
	if b != nil { // empty history cannot happen, but keep the transaction balanced
		t.Commit(ctx)
	}

	// final: cold process-wide cache, reopen through the public API
	globalL2.Clear(ctx)
	t = begin(sop.ForReading)
	rb, err := infs.OpenBtree[int, string](ctx, name, t, nil)
	run.Add("evaluations", 1)
	if err != nil {
		fail("reopen-error", fmt.Sprintf("OpenBtree(%q) with a cleared cache: %v", name, err), len(c.History))
		return
	}
	got := rb.GetStoreInfo()
	if d := diffFields(created, got); len(d) > 0 {
		fail("config-changed:"+strings.Join(d, ","), fmt.Sprintf("reopened store: fields %v differ from creation; got=%s", d, mustJSON(got)), len(c.History))
	} else if rb.Count() != int64(len(model)) {
		fail("count-wrong", fmt.Sprintf("reopened store Count()=%d, model=%d", rb.Count(), len(model)), len(c.History))
	} else {
		var keys []int
		ok, err := rb.First(ctx)
		for ok && err == nil && len(keys) <= len(model)+2 {
			keys = append(keys, rb.GetCurrentKey().Key)
			ok, err = rb.Next(ctx)
		}
		if err != nil || fmt.Sprint(keys) != fmt.Sprint(model) {
			fail("contents-wrong", fmt.Sprintf("reopened store holds keys %v (err=%v), model %v", keys, err, model), len(c.History))
		}
	}
	t.Commit(ctx)
	run.Add("cases", 1)
	if c.Idx%9973 == 11 {
		run.Sample(map[string]any{"case": c, "store_name": so.Name})
	}
}

func applyOp(b btree.BtreeInterface[int, string], op byte, model []int, next int) ([]int, int, string) {
	m := append([]int(nil), model...)
	add := func() string {
		ok, err := b.Add(ctx, next, fmt.Sprint("v", next))
		if err != nil || !ok {
			return fmt.Sprintf("Add(%d) = %v, %v", next, ok, err)
		}
		m = append(m, next)
		next++
		return ""
	}
	removeSmallest := func() string {
		if len(m) == 0 {
			ok, err := b.Remove(ctx, 0)
			if err != nil || ok {
				return fmt.Sprintf("Remove(absent key) = %v, %v", ok, err)
			}
			return ""
		}
		sort.Ints(m)
		ok, err := b.Remove(ctx, m[0])
		if err != nil || !ok {
			return fmt.Sprintf("Remove(%d) = %v, %v", m[0], ok, err)
		}
		m = m[1:]
		return ""
	}
	var e string
	switch op {
	case 'P':
		if e = add(); e == "" {
			e = add()
		}
	case 'A':
		e = add()
	case 'T', 'H':
		n := map[byte]int{'T': 10, 'H': 90}[op]
		for i := 0; i < n && e == ""; i++ {
			e = add()
		}
	case 'D':
		for i := 0; i < 5 && len(m) > 0 && e == ""; i++ {
			e = removeSmallest()
		}
	case 'Z':
		if e = add(); e == "" {
			e = removeSmallest()
		}
	case 'N':
		e = removeSmallest()
	case 'E':
		for len(m) > 0 && e == "" {
			e = removeSmallest()
		}
	}
	sort.Ints(m)
	return m, next, e
}

// lostCommitIsViolation: see the by-catch note in verify.
const lostCommitIsViolation = false

// scanKeys lists the keys the store holds, through a new reading transaction.
func scanKeys(dir, name string) ([]int, string) {
	t, err := infs.NewTransaction(ctx, txOpts(dir, sop.ForReading))
	if err != nil {
		return nil, err.Error()
	}
	if err := t.Begin(ctx); err != nil {
		return nil, err.Error()
	}
	defer t.Rollback(ctx)
	b, err := infs.OpenBtree[int, string](ctx, name, t, nil)
	if err != nil {
		return nil, err.Error()
	}
	var keys []int
	ok, err := b.First(ctx)
	for ok && err == nil && len(keys) < 1000 {
		keys = append(keys, b.GetCurrentKey().Key)
		ok, err = b.Next(ctx)
	}
	if err != nil {
		return keys, err.Error()
	}
	return keys, ""
}

func mustJSON(v any) string {
	b, _ := json.Marshal(v)
	return string(b)
}

func describe(so sop.StoreOptions) string {
	return fmt.Sprintf("{Name:%q Description:%q CustomData:%v MapKeyIndexSpecification:%q CELexpression:%q}", so.Name, so.Description, so.CustomData, so.MapKeyIndexSpecification, so.CELexpression)
}

const nJobs = 61

func main() {
	slog.SetDefault(slog.New(slog.NewTextHandler(io.Discard, &slog.HandlerOptions{Level: slog.LevelError + 4})))
	run := ev.New("C13", "exploration")
	thorough := run.Thorough()
	cases := enumerate(thorough)
	if mc := os.Getenv("C13_MAXCASES"); mc != "" {
		// debugging / mutation-testing aid: only an evenly strided subset of the enumeration
		var n int
		fmt.Sscan(mc, &n)
		if n > 0 && n < cases.Len() {
			total := cases.Len()
			for i := 0; i < n; i++ {
				cases.indices = append(cases.indices, i*total/n)
			}
			if ev.Job() == "" {
				run.NotExhaustive("C13_MAXCASES set: only " + mc + " cases run")
			}
		}
	}
	if only := os.Getenv("C13_ONLY"); only != "" {
		// debugging aid: run the cases whose JSON contains the given substring, in-process
		w := &worker{run: run, base: fmt.Sprintf("/dev/shm/c13_%d_only", os.Getpid()), coldCache: cache.NewL2InMemoryCache()}
		os.MkdirAll(w.base, 0o755)
		for i := 0; i < cases.Len(); i++ {
			c := cases.At(i)
			if strings.Contains(mustJSON(c), only) {
				if os.Getenv("C13_KEEP") != "" {
					keepDir = true
				}
				w.runCase(c)
			}
		}
		if !keepDir {
			os.RemoveAll(w.base)
		}
		run.Finish()
	}
	// --replay <file>: re-run the single case stored in a replay artefact, in-process
	for i, a := range os.Args {
		if a == "--replay" && i+1 < len(os.Args) {
			raw, err := os.ReadFile(os.Args[i+1])
			if err != nil {
				fmt.Fprintln(os.Stderr, "cannot read replay:", err)
				os.Exit(2)
			}
			var art struct {
				Replay struct {
					Case tcase `json:"case"`
				} `json:"replay"`
			}
			if err := json.Unmarshal(raw, &art); err != nil || art.Replay.Case.History == "" {
				fmt.Fprintln(os.Stderr, "not a C13 replay artefact:", err)
				os.Exit(2)
			}
			w := &worker{run: run, base: fmt.Sprintf("/dev/shm/c13_%d_replay", os.Getpid()), coldCache: cache.NewL2InMemoryCache()}
			os.MkdirAll(w.base, 0o755)
			w.runCase(art.Replay.Case)
			os.RemoveAll(w.base)
			run.Set("rule", "replay of one stored case")
			run.Set("distinct_nontrivial", 1)
			run.Finish()
		}
	}
	if job := ev.Job(); job != "" {
		w := &worker{run: run, base: fmt.Sprintf("/dev/shm/c13_%d_%s", os.Getpid(), job), coldCache: cache.NewL2InMemoryCache()}
		os.MkdirAll(w.base, 0o755)
		if job == "pre" {
			for i := 0; i < cases.Len(); i++ {
				if c := cases.At(i); isPrepass(c) {
					w.runCase(c)
				}
			}
		} else {
			var j int
			fmt.Sscan(job, &j)
			var deadline int64
			fmt.Sscan(os.Getenv("C13_DEADLINE"), &deadline)
			for i := j; i < cases.Len(); i += nJobs {
				if deadline > 0 && time.Now().Unix() > deadline {
					run.Add("cases_skipped_by_time_budget", int64((cases.Len()-i+nJobs-1)/nJobs))
					break
				}
				if c := cases.At(i); !isPrepass(c) {
					w.runCase(c)
				}
			}
		}
		os.RemoveAll(w.base)
		run.EmitPartial()
	}

	budget := 12 * time.Minute
	if thorough {
		budget = 50 * time.Minute
	}
	if b := os.Getenv("C13_BUDGET_MIN"); b != "" { // override of the global time budget, in minutes
		var m int
		if fmt.Sscan(b, &m); m > 0 {
			budget = time.Duration(m) * time.Minute
		}
	}
	os.Setenv("C13_DEADLINE", fmt.Sprint(time.Now().Add(budget).Unix()))
	dl := budget + 5*time.Minute
	onCrash := func(job, output string) *ev.Violation {
		return &ev.Violation{Sig: "storeinfo-patch|worker-crash", Detail: "worker " + job + " died: " + output, Replay: map[string]any{"job": job}}
	}
	// The pre-pass runs alone and first, in enumeration order (shortest text first): ev keeps the first
	// violation per signature, so every signature gets a deterministic, minimal replay.
	run.Parallel([]string{"pre"}, 1, dl, onCrash)
	var jobs []string
	for j := 0; j < nJobs; j++ {
		jobs = append(jobs, fmt.Sprint(j))
	}
	run.Parallel(jobs, 0, dl, onCrash)
	if sk, _ := run.Coverage["cases_skipped_by_time_budget"].(int64); sk > 0 {
		run.NotExhaustive(fmt.Sprintf("global time budget of %v reached: %d of %d cases not run (overloaded machine?)", budget, sk, cases.Len()))
	}

	nText, nOpt := 0, 0
	tx := map[string]bool{}
	for i := 0; i < cases.Len(); i++ {
		if c := cases.At(i); c.Placement != "" {
			nText++
			tx[c.Text] = true
		} else {
			nOpt++
		}
	}
	run.Set("cases_enumerated", cases.Len())
	run.Set("text_cases", nText)
	run.Set("option_cases", nOpt-len(cases.widthH)*4)
	run.Set("digit_width_cases", len(cases.widthH)*4)
	run.Set("digit_width_histories", fmt.Sprintf("every history of %d commits over {T=add 10 items, H=add 90, D=remove 5, A=add 1, N=remove 1} (%d) x {warm, cold} x {creation in the first commit, separately}: the persisted count gains and loses decimal digits (9<->10, 99<->100, 10->5, ...)", len(cases.widthH[0]), len(cases.widthH)))
	run.Set("distinct_texts", len(tx))
	run.Set("distinct_nontrivial", run.Coverage["cases"])
	maxTok := 2
	hist := "every history of 3 commits over {P=add 2 items, Z=add 1 + remove 1, N=remove 1} (27; shorter histories are their prefixes and are verified after each commit)"
	ohist := hist
	if thorough {
		maxTok = 3
		ohist = "every history of 4 commits over {P, Z, N, A=add 1, E=remove all} (625)"
	}
	run.Set("rule", fmt.Sprintf("text cases: every string of <=%d tokens from {count, \"count\", timestamp, ':', ',', '}', backslash, '\"', a, space, é} (%d strings, shortest first) x placement in {store name, Description, CustomData key, CustomData value, MapKeyIndexSpecification, CELexpression} x %s x {warm L2 cache with creation in the first committing transaction, L2 cache cleared after every commit with creation committed separately}, base options unique/slot 4/value in node. "+
		"option cases: IsUnique x SlotLength{2,4,100} x 5 legal value placements x {default, custom CacheConfig with TTL}%s x %s x {warm, cold} x {creation with first commit, creation committed separately}. "+
		"distinct_nontrivial = cases whose store was created and whose every commit was verified (each case is a distinct tuple by construction); evaluations = individual cold views compared (file parse, fresh StoreRepository.Get, final reopen)",
		maxTok, len(tx), hist, map[bool]string{true: " x LeafLoadBalancing", false: ""}[thorough], ohist))
	run.Assumption("Schema/KeyFields/ValueFields are inferred by the B-tree from the Go key/value types at the first Add and are not options the store was created with; they are excluded from the equality with the creation-time StoreInfo and only required to be stable once set")
	run.Assumption("the cold view is a brand-new fs.StoreRepository over an empty L2 cache plus a direct parse of storeinfo.txt (equivalent to a fresh process: store info is cached only in L2, the L1 cache holds nodes/handles); the final reopen clears the process-wide L2 cache and goes through infs.OpenBtree")
	run.Assumption("stores are created with IsPrimitiveKey=true (truthful for the int keys used; database.NewBtree does the same). With the default false, btree.New corrects the flag in memory only, so the file written at creation says false until the first count-changing commit rewrites it — a derived hint for language bindings, not checked here")
	run.Assumption("\"correct count\" is judged against what the store really holds: when the persisted count equals the number of items found by a scan but differs from the committed history, the COMMIT dropped operations (observed: transactions that only remove items from an IsValueDataActivelyPersisted store return nil and change nothing). That is a lost-update defect outside C13; it is counted in bycatch_commit_lost_operation, sampled, and the model is resynchronised with the store. Set lostCommitIsViolation=true to fail on it")
	run.Assumption("store names are limited to the generated domain (no path separators); names the API rejects at creation are counted (names_rejected_at_creation) and skipped")
	run.Finish()
}
