// c38: "Values returned by reads are private to the caller".
//
// Full matrix, no sampling: value/key type x value placement x read path x what the reading transaction
// does next x cache state before the read; in every cell a value (or key, or item) obtained from a store
// read is modified IN PLACE and never written back, and every later reader (the same transaction after a
// new Find, the next transaction in the same process with warm caches, the same process after
// sopenv.ResetCaches(), a fresh process) must still read the committed value.
package main

import (
	"bytes"
	"context"
	"encoding/json"
	"fmt"
	"os"
	"os/exec"
	"path/filepath"
	"runtime"
	"sort"
	"strings"
	"time"

	"github.com/sharedcode/sop"
	"github.com/sharedcode/sop/btree"
	"github.com/sharedcode/sop/infs"
	"verif.local/mc/ev"
	"verif.local/mc/sopenv"
)

var ctx = context.Background()

const storeName = "s"

// ---------------- the matrix ----------------

var valueTypes = []string{"bytes", "map", "ints", "ptrstruct", "structslice", "string"}

// read paths whose subject is the value; "key"/"item-key" use the struct-key store instead.
var valueReads = []string{"value", "value-nolock", "item-deep", "item-overwrite", "item-nolock-deep", "item-nolock-overwrite", "scan-value", "scan-item"}
var keyReads = []string{"key", "item-key"}

// placements: the four options as created by Add; "-upd" = every value additionally rewritten by Update
// in a second committed transaction (the path on which out-of-node values really are fetched from blobs).
var places = []string{"node", "segment", "active", "global", "segment-upd", "active-upd", "global-upd"}

// what the mutating transaction does next.
// "writeback-rollback": the reader additionally WRITES a new value for the item back (UpdateCurrentValue) and then rolls
// the transaction back: written back but not committed, so later readers must still see the committed value.
var endings = []string{"rollback", "commit-nothing-written", "commit-unrelated-write", "reading-commit", "nocheck-commit", "writeback-rollback"}

var caches = []string{"warm", "cold"}

type cell struct {
	Type   string `json:"type"`
	Read   string `json:"read"`
	Place  string `json:"place"`
	Ending string `json:"ending"`
	Cache  string `json:"cache"`
	Slot   int    `json:"slot"`
}

func (c cell) String() string {
	return fmt.Sprintf("type=%s read=%s place=%s ending=%s cache-before-read=%s slot=%d", c.Type, c.Read, c.Place, c.Ending, c.Cache, c.Slot)
}

func storeOptions(place string, slot int) sop.StoreOptions {
	so := sop.StoreOptions{Name: storeName, SlotLength: slot, IsUnique: true}
	switch strings.TrimSuffix(place, "-upd") {
	case "node":
		so.IsValueDataInNodeSegment = true
	case "segment":
	case "active":
		so.IsValueDataActivelyPersisted = true
	case "global":
		so.IsValueDataGloballyCached = true
	}
	return so
}

func modeOf(ending string) sop.TransactionMode {
	switch ending {
	case "reading-commit":
		return sop.ForReading
	case "nocheck-commit":
		return sop.NoCheck
	}
	return sop.ForWriting
}

// ---------------- typed harness ----------------

type rec struct {
	A int
	N string
	S []int
}

type recS struct {
	A int
	S []int
}

type skey struct {
	ID   int
	Tags []string
	M    map[string]int
}

// kit describes one (key type, value type) store.
type kit[TK btree.Ordered, TV any] struct {
	keyOf func(i int) TK
	cmp   btree.ComparerFunc[TK]
	mk    func(i, gen int) TV
	// deepV modifies, in place, storage reachable from v; false when v reaches none (nothing to modify).
	deepV func(v TV) bool
	// otherV is a different value used to overwrite *Item.Value.
	otherV func() TV
	deepK  func(k TK) bool
}

type harness interface {
	build(place string, slot int) error
	mutate(c cell) (sameTxn []string, applied bool, err error)
	observe() ([]string, error)
	expected(gen3 int) []string
}

func render(k, v any) string {
	if b, ok := v.([]byte); ok {
		v = "bytes:" + string(b)
	}
	kb, _ := json.Marshal(k)
	vb, _ := json.Marshal(v)
	return fmt.Sprintf("%s=>%s", kb, vb)
}

func (h kit[TK, TV]) expected(gen3 int) []string {
	var out []string
	for i := 1; i <= 3; i++ {
		g := 0
		if i == 3 {
			g = gen3
		}
		out = append(out, render(h.keyOf(i), h.mk(i, g)))
	}
	return out
}

func begin(mode sop.TransactionMode) (sop.Transaction, error) {
	tx, err := infs.NewTransaction(ctx, sopenv.Opts(mode))
	if err != nil {
		return nil, err
	}
	if err := tx.Begin(ctx); err != nil {
		return nil, err
	}
	return tx, nil
}

func (h kit[TK, TV]) build(place string, slot int) error {
	tx, err := begin(sop.ForWriting)
	if err != nil {
		return err
	}
	b, err := infs.NewBtree[TK, TV](ctx, storeOptions(place, slot), tx, h.cmp)
	if err != nil {
		return err
	}
	for i := 1; i <= 3; i++ {
		if ok, err := b.Add(ctx, h.keyOf(i), h.mk(i, 0)); !ok || err != nil {
			return fmt.Errorf("build add %d: %v %v", i, ok, err)
		}
	}
	if err := tx.Commit(ctx); err != nil {
		return err
	}
	if strings.HasSuffix(place, "-upd") {
		tx, err := begin(sop.ForWriting)
		if err != nil {
			return err
		}
		b, err := infs.OpenBtree[TK, TV](ctx, storeName, tx, h.cmp)
		if err != nil {
			return err
		}
		for i := 1; i <= 3; i++ {
			if ok, err := b.Update(ctx, h.keyOf(i), h.mk(i, 0)); !ok || err != nil {
				return fmt.Errorf("build update %d: %v %v", i, ok, err)
			}
		}
		if err := tx.Commit(ctx); err != nil {
			return err
		}
	}
	return nil
}

// look reads keys 1..3 through Find + GetCurrentKey + GetCurrentValue.
func (h kit[TK, TV]) look(b btree.BtreeInterface[TK, TV]) ([]string, error) {
	var out []string
	for i := 1; i <= 3; i++ {
		ok, err := b.Find(ctx, h.keyOf(i), false)
		if err != nil {
			return out, err
		}
		if !ok {
			out = append(out, fmt.Sprintf("key %d missing", i))
			continue
		}
		k := b.GetCurrentKey().Key
		v, err := b.GetCurrentValue(ctx)
		if err != nil {
			return out, err
		}
		out = append(out, render(k, v))
	}
	return out, nil
}

func (h kit[TK, TV]) observe() ([]string, error) {
	tx, err := begin(sop.ForReading)
	if err != nil {
		return nil, err
	}
	b, err := infs.OpenBtree[TK, TV](ctx, storeName, tx, h.cmp)
	if err != nil {
		tx.Rollback(ctx)
		return nil, err
	}
	out, err := h.look(b)
	if err != nil {
		tx.Rollback(ctx)
		return out, err
	}
	return out, tx.Commit(ctx)
}

// mutate runs the transaction of the cell: read through c.Read, modify in place, read again after a new
// Find in the same transaction, then end as c.Ending says. Nothing modified is ever written back and committed.
func (h kit[TK, TV]) mutate(c cell) (same []string, applied bool, err error) {
	tx, err := begin(modeOf(c.Ending))
	if err != nil {
		return nil, false, err
	}
	fail := func(e error) ([]string, bool, error) {
		if tx.HasBegun() {
			tx.Rollback(ctx)
		}
		return nil, false, e
	}
	b, err := infs.OpenBtree[TK, TV](ctx, storeName, tx, h.cmp)
	if err != nil {
		return fail(err)
	}
	onItem := func(it btree.Item[TK, TV], overwrite bool) bool {
		if it.Value == nil {
			return false
		}
		if overwrite {
			*it.Value = h.otherV()
			return true
		}
		return h.deepV(*it.Value)
	}
	one := func() (bool, error) {
		switch c.Read {
		case "value":
			v, err := b.GetCurrentValue(ctx)
			return err == nil && h.deepV(v), err
		case "value-nolock":
			v, err := b.GetCurrentValueNoLock(ctx)
			return err == nil && h.deepV(v), err
		case "item-deep", "item-overwrite", "scan-item":
			it, err := b.GetCurrentItem(ctx)
			return err == nil && onItem(it, c.Read == "item-overwrite"), err
		case "item-nolock-deep", "item-nolock-overwrite":
			it, err := b.GetCurrentItemNoLock(ctx)
			return err == nil && onItem(it, c.Read == "item-nolock-overwrite"), err
		case "scan-value":
			v, err := b.GetCurrentValue(ctx)
			return err == nil && h.deepV(v), err
		case "key":
			return h.deepK(b.GetCurrentKey().Key), nil
		case "item-key":
			it, err := b.GetCurrentItem(ctx)
			return err == nil && h.deepK(it.Key), err
		}
		panic("unknown read path " + c.Read)
	}
	if strings.HasPrefix(c.Read, "scan-") {
		ok, err := b.First(ctx)
		for ok && err == nil {
			var a bool
			if a, err = one(); err != nil {
				break
			}
			applied = applied || a
			ok, err = b.Next(ctx)
		}
		if err != nil {
			return fail(err)
		}
	} else {
		ok, err := b.Find(ctx, h.keyOf(1), false)
		if err != nil || !ok {
			return fail(fmt.Errorf("find key 1: %v %v", ok, err))
		}
		if applied, err = one(); err != nil {
			return fail(err)
		}
	}
	// later reader 1: this transaction, after a new Find.
	if same, err = h.look(b); err != nil {
		return fail(err)
	}
	switch c.Ending {
	case "rollback":
		err = tx.Rollback(ctx)
	case "writeback-rollback":
		var ok bool
		if ok, err = b.Find(ctx, h.keyOf(1), false); err != nil || !ok {
			return fail(fmt.Errorf("find key 1 for the write-back: %v %v", ok, err))
		}
		if ok, err = b.UpdateCurrentValue(ctx, h.mk(1, 9)); err != nil || !ok {
			return fail(fmt.Errorf("write-back of key 1: %v %v", ok, err))
		}
		err = tx.Rollback(ctx)
	case "commit-unrelated-write":
		var ok bool
		if ok, err = b.Update(ctx, h.keyOf(3), h.mk(3, 1)); err != nil || !ok {
			return fail(fmt.Errorf("update key 3: %v %v", ok, err))
		}
		err = tx.Commit(ctx)
	default:
		err = tx.Commit(ctx)
	}
	return same, applied, err
}

func intKey(i int) int { return i }

func harnessFor(typ string) harness {
	switch typ {
	case "bytes":
		return kit[int, []byte]{keyOf: intKey,
			mk: func(i, g int) []byte { return []byte(fmt.Sprintf("hello-%d-%d", i, g)) },
			deepV: func(v []byte) bool {
				if len(v) == 0 {
					return false
				}
				v[0] = 'X'
				return true
			},
			otherV: func() []byte { return []byte("OVERWRITTEN") }}
	case "map":
		return kit[int, map[string]int]{keyOf: intKey,
			mk: func(i, g int) map[string]int { return map[string]int{"a": i, "b": 10*i + g} },
			deepV: func(v map[string]int) bool {
				if v == nil {
					return false
				}
				v["a"] = 999
				v["new"] = 1
				delete(v, "b")
				return true
			},
			otherV: func() map[string]int { return map[string]int{"overwritten": 1} }}
	case "ints":
		return kit[int, []int]{keyOf: intKey,
			mk: func(i, g int) []int { return []int{i, 2 * i, g} },
			deepV: func(v []int) bool {
				if len(v) == 0 {
					return false
				}
				v[0] = 999
				return true
			},
			otherV: func() []int { return []int{-1} }}
	case "ptrstruct":
		return kit[int, *rec]{keyOf: intKey,
			mk: func(i, g int) *rec { return &rec{A: i, N: fmt.Sprint("n", g), S: []int{i, g}} },
			deepV: func(v *rec) bool {
				if v == nil {
					return false
				}
				v.A = 999
				v.N = "X"
				if len(v.S) > 0 {
					v.S[0] = 999
				}
				return true
			},
			otherV: func() *rec { return &rec{A: -1, N: "OVERWRITTEN"} }}
	case "structslice":
		return kit[int, recS]{keyOf: intKey,
			mk: func(i, g int) recS { return recS{A: i, S: []int{i, g, 7}} },
			deepV: func(v recS) bool {
				if len(v.S) == 0 {
					return false
				}
				v.S[0] = 999
				return true
			},
			otherV: func() recS { return recS{A: -1} }}
	case "string":
		// control: a value type without reachable storage; only *Item.Value can be overwritten.
		return kit[int, string]{keyOf: intKey,
			mk:     func(i, g int) string { return fmt.Sprintf("s-%d-%d", i, g) },
			deepV:  func(string) bool { return false },
			otherV: func() string { return "OVERWRITTEN" }}
	case "skey":
		return kit[skey, string]{
			keyOf:  func(i int) skey { return skey{ID: i, Tags: []string{"t", fmt.Sprint(i)}, M: map[string]int{"a": i}} },
			cmp:    func(a, b skey) int { return a.ID - b.ID },
			mk:     func(i, g int) string { return fmt.Sprintf("s-%d-%d", i, g) },
			deepV:  func(string) bool { return false },
			otherV: func() string { return "OVERWRITTEN" },
			deepK: func(k skey) bool {
				if len(k.Tags) == 0 || k.M == nil {
					return false
				}
				k.Tags[0] = "X"
				k.M["a"] = 999
				k.M["new"] = 1
				return true
			}}
	}
	panic("unknown type " + typ)
}

// ---------------- one job = all cells of one (type, read path) ----------------

type cellResult struct {
	c       cell
	dir     string
	gen3    int
	applied bool
	failed  bool // an earlier reader already reported an error; skip the fresh read
}

type agg struct {
	first  cell
	detail string
	cells  []string
}

type job struct {
	run   *ev.Run
	typ   string
	read  string
	aggs  map[string]*agg
	order []string
}

func (j *job) report(mech string, c cell, detail string) {
	sig := fmt.Sprintf("aliased-read|%s|read=%s|type=%s", mech, c.Read, c.Type)
	a := j.aggs[sig]
	if a == nil {
		a = &agg{first: c, detail: detail}
		j.aggs[sig] = a
		j.order = append(j.order, sig)
	}
	label := fmt.Sprintf("%s/%s/%s", c.Place, c.Ending, c.Cache)
	if c.Slot != 4 {
		label += fmt.Sprintf("/slot%d", c.Slot)
	}
	for _, l := range a.cells {
		if l == label {
			return // the same cell already reported in this class by an earlier reader
		}
	}
	a.cells = append(a.cells, label)
	j.run.Add("violating_cells_by_class", 1)
}

func diff(got, want []string) string {
	var d []string
	for i := range want {
		g := "(nothing)"
		if i < len(got) {
			g = got[i]
		}
		if g != want[i] {
			d = append(d, fmt.Sprintf("read %s, committed is %s", g, want[i]))
		}
	}
	if len(got) > len(want) {
		d = append(d, fmt.Sprintf("extra observations %v", got[len(want):]))
	}
	return strings.Join(d, "; ")
}

func (j *job) runCell(idx int, c cell) cellResult {
	h := harnessFor(c.Type)
	res := cellResult{c: c}
	sopenv.Dir = filepath.Join(sopenv.Base, fmt.Sprintf("c%03d", idx))
	res.dir = sopenv.Dir
	sopenv.FreshDir(uint64(100 + idx))
	harnessErr := func(stage string, err error) cellResult {
		// build / first read failing is not what the property is about, but it must not go unnoticed.
		j.report("error-"+stage, c, fmt.Sprintf("%s: %s failed: %v", c, stage, err))
		res.failed = true
		return res
	}
	if err := h.build(c.Place, c.Slot); err != nil {
		return harnessErr("build", err)
	}
	if c.Cache == "cold" {
		sopenv.ResetCaches()
	}
	same, applied, err := h.mutate(c)
	if err != nil {
		return harnessErr("mutating-transaction", err)
	}
	res.applied = applied
	j.run.Add("cells", 1)
	if !applied {
		// the read returned nothing that can be modified in place (e.g. NoLock read of an unfetched value).
		j.run.Add("cells_nothing_to_modify", 1)
	} else {
		j.run.Add("cells_modified_in_place", 1)
	}
	if c.Ending == "commit-unrelated-write" {
		res.gen3 = 1
	}
	want0, want := h.expected(0), h.expected(res.gen3)
	j.run.Add("evaluations", 1)
	if d := diff(same, want0); d != "" {
		j.report("same-txn", c, fmt.Sprintf("%s: after modifying in place what the read returned, THE SAME transaction (new Find + GetCurrentValue/GetCurrentKey) %s", c, d))
	}
	warm, err := h.observe()
	if err != nil {
		return harnessErr("next-transaction-warm", err)
	}
	sopenv.ResetCaches()
	cold, err := h.observe()
	if err != nil {
		return harnessErr("next-transaction-cold", err)
	}
	j.run.Add("evaluations", 2)
	if idx%29 == 3 {
		j.run.Sample(map[string]any{"cell": c.String(), "same_txn": same, "next_txn_warm": warm, "after_reset_caches": cold, "committed": want})
	}
	dw, dc := diff(warm, want), diff(cold, want)
	if dc != "" {
		j.report("durable", c, fmt.Sprintf("%s: a later transaction in the same process AFTER sopenv.ResetCaches() (cold L1/L2, data from disk) %s - the never-written-back modification was persisted", c, dc))
	} else if dw != "" {
		j.report("process-cache", c, fmt.Sprintf("%s: the NEXT transaction in the same process (warm caches) %s; after sopenv.ResetCaches() the committed value is read again", c, dw))
	}
	return res
}

func (j *job) freshReads(cells []cellResult) {
	type req struct {
		Dir, Type string
	}
	var reqs []req
	var idx []int
	for i, r := range cells {
		if !r.failed {
			reqs = append(reqs, req{r.dir, r.c.Type})
			idx = append(idx, i)
		}
	}
	if len(reqs) == 0 {
		return
	}
	in, _ := json.Marshal(reqs)
	cmd := exec.Command(os.Args[0], os.Args[1:]...)
	cmd.Env = append(os.Environ(), "VERIF_JOB=reader")
	cmd.Stdin = bytes.NewReader(in)
	var stdout, stderr bytes.Buffer
	cmd.Stdout, cmd.Stderr = &stdout, &stderr
	err := cmd.Run()
	var outs []struct {
		Obs []string
		Err string
	}
	p := bytes.LastIndex(stdout.Bytes(), []byte("@@OBS "))
	if err == nil && p >= 0 {
		err = json.Unmarshal(stdout.Bytes()[p+len("@@OBS "):], &outs)
	}
	if err != nil || p < 0 || len(outs) != len(reqs) {
		fmt.Fprintf(os.Stderr, "fresh reader process failed: %v\n%s\n", err, stderr.String())
		os.Exit(3)
	}
	for n, o := range outs {
		r := cells[idx[n]]
		j.run.Add("evaluations", 1)
		j.run.Add("fresh_process_reads", 1)
		if o.Err != "" {
			j.report("error-fresh-process", r.c, fmt.Sprintf("%s: fresh process read failed: %s", r.c, o.Err))
			continue
		}
		if d := diff(o.Obs, harnessFor(r.c.Type).expected(r.gen3)); d != "" {
			j.report("durable", r.c, fmt.Sprintf("%s: a FRESH process %s - the never-written-back modification was persisted", r.c, d))
		}
	}
}

func readerMain() {
	runtime.GOMAXPROCS(1)
	var reqs []struct{ Dir, Type string }
	if err := json.NewDecoder(os.Stdin).Decode(&reqs); err != nil {
		fmt.Fprintln(os.Stderr, "reader: bad input:", err)
		os.Exit(3)
	}
	type out struct {
		Obs []string
		Err string
	}
	var outs []out
	for i, r := range reqs {
		sopenv.Dir = r.Dir
		if i > 0 {
			sopenv.ResetCaches() // folders reuse the same deterministic ids
		}
		obs, err := harnessFor(r.Type).observe()
		o := out{Obs: obs}
		if err != nil {
			o.Err = err.Error()
		}
		outs = append(outs, o)
	}
	b, _ := json.Marshal(outs)
	fmt.Printf("\n@@OBS %s\n", b)
	sopenv.Cleanup()
	os.Exit(0)
}

// slots: 4 = the 3 items share one root node; 2 (thorough) = root [2] over leaves [1] and [3], so the
// modified item (key 1) and the unrelated write (key 3) are in different nodes.
func slots(thorough bool) []int {
	if thorough {
		return []int{4, 2}
	}
	return []int{4}
}

func cellsOf(typ, read string, thorough bool) []cell {
	var cs []cell
	for _, sl := range slots(thorough) {
		for _, p := range places {
			for _, e := range endings {
				for _, ca := range caches {
					cs = append(cs, cell{typ, read, p, e, ca, sl})
				}
			}
		}
	}
	return cs
}

// compact renders the violating cells grouped by placement ("*" = every ending x cache of that placement).
func compact(cells []string, j int) string {
	by := map[string][]string{}
	for _, c := range cells {
		p := strings.SplitN(c, "/", 2)
		by[p[0]] = append(by[p[0]], p[1])
	}
	var out []string
	for _, p := range places {
		l := by[p]
		if len(l) == 0 {
			continue
		}
		sort.Strings(l)
		if len(l) == len(endings)*len(caches)*j {
			out = append(out, p+":*")
		} else {
			out = append(out, p+":{"+strings.Join(l, ",")+"}")
		}
	}
	return strings.Join(out, " ")
}

func (j *job) finish() {
	for _, sig := range j.order {
		a := j.aggs[sig]
		ns := len(slots(j.run.Thorough()))
		total := len(places) * len(endings) * len(caches) * ns
		// finest part of the signature: the set of placements with at least one violating cell.
		var ps []string
		for _, p := range places {
			for _, l := range a.cells {
				if strings.HasPrefix(l, p+"/") {
					ps = append(ps, p)
					break
				}
			}
		}
		j.run.Violate(ev.Violation{
			Sig:    sig + "|places=" + strings.Join(ps, ","),
			Detail: fmt.Sprintf("%s  [cells of this (type, read path) in this class: %d of %d; placement:{ending/cache-before-read}: %s]", a.detail, len(a.cells), total, compact(a.cells, ns)),
			Replay: a.first,
		})
	}
}

func main() {
	if ev.Job() == "reader" {
		readerMain()
	}
	run := ev.New("C38", "exploration")
	for i, a := range os.Args {
		if a == "--replay" && i+1 < len(os.Args) {
			replay(run, os.Args[i+1])
		}
	}
	if jb := ev.Job(); jb != "" {
		runtime.GOMAXPROCS(1)
		parts := strings.SplitN(jb, "/", 2)
		j := &job{run: run, typ: parts[0], read: parts[1], aggs: map[string]*agg{}}
		var results []cellResult
		for i, c := range cellsOf(j.typ, j.read, run.Thorough()) {
			results = append(results, j.runCell(i, c))
		}
		j.freshReads(results)
		j.finish()
		sopenv.Cleanup()
		run.EmitPartial()
	}
	var jobs []string
	for _, t := range valueTypes {
		for _, r := range valueReads {
			jobs = append(jobs, t+"/"+r)
		}
	}
	for _, r := range keyReads {
		jobs = append(jobs, "skey/"+r)
	}
	run.Parallel(jobs, 0, 10*time.Minute, nil)
	cov := run.Coverage
	run.Set("matrix", map[string]any{"value_types": valueTypes, "key_type": "skey{ID int; Tags []string; M map[string]int} (comparer on ID)", "value_read_paths": valueReads, "key_read_paths": keyReads,
		"placements": places, "endings": endings, "cache_before_read": caches, "later_readers": []string{"same transaction after a new Find", "next transaction, same process, warm caches", "same process after sopenv.ResetCaches()", "fresh process"}})
	run.Set("distinct_nontrivial", cov["cells_modified_in_place"])
	run.Set("rule", "every cell of {6 value types x 8 value read paths + struct-key x 2 key read paths} x 7 placements (node|segment|active|global as created by Add; segment|active|global with every value rewritten by Update in a second transaction) x 5 endings x {warm, cold} caches before the read (thorough: x slot length {4, 2}) is executed on a fresh 3-item store (slot length 4 unless stated): read, modify IN PLACE (bytes v[0]='X'; map set/add/delete; ints v[0]=999; *struct fields and its slice; struct's slice element; for item paths also *Item.Value = other value; key: Tags[0] and map), never write back, end the transaction, then compare what each of the 4 later readers gets for all 3 keys (key and value rendered as JSON) with the committed content. evaluations = later-reader comparisons; distinct_nontrivial = cells in which the read returned something that was modified in place (cells_nothing_to_modify: a string value on value paths - control - or a NoLock read that returned the zero value of an unfetched out-of-node value)")
	run.Assumption("3 items: a single root node with slot length 4 (thorough also slot length 2: root + two leaves); one modified item per cell (all items for scan paths); in-memory L2 cache; every later reader uses Find+GetCurrentKey+GetCurrentValue")
	run.Assumption("the fresh process reads the store folders in place, one process per (type, read path) job, cold caches between folders")
	run.Finish()
}

func replay(run *ev.Run, file string) {
	b, err := os.ReadFile(file)
	if err != nil {
		panic(err)
	}
	var r struct {
		Replay cell `json:"replay"`
	}
	if err := json.Unmarshal(b, &r); err != nil {
		panic(err)
	}
	j := &job{run: run, typ: r.Replay.Type, read: r.Replay.Read, aggs: map[string]*agg{}}
	res := j.runCell(0, r.Replay)
	j.freshReads([]cellResult{res})
	j.finish()
	sopenv.Cleanup()
	fmt.Println("replayed:", r.Replay)
	run.Finish()
}
