// c32: bounded-exhaustive check of property C32 — "Text search returns exactly the matching documents,
// ranked by BM25" — against the real github.com/sharedcode/sop/search.Index on infs transactions
// (/dev/shm, in-memory L2 cache).
//
// Enumerated completely (see rule in the evidence file):
//   - corpora: every set of <= 3 distinct documents; a document is a multiset of <= 3 words from
//     {ab, abc, zed, the(stop word), Ünï};
//   - every split of the indexing into 1..3 committed transactions (quick: one document order per
//     corpus x all compositions; thorough: every document order x all compositions = every ordered
//     assignment of documents to transactions);
//   - every query of <= 2 words from {ab, abc, zed, the, Ünï, AB (case variant), nope (unknown)},
//     searched in a fresh transaction.
//
// Oracle: an independent BM25 (k1=1.2, b=0.75, idf=ln((N-n+0.5)/(n+0.5)+1)) computed from the
// tokenizer output only.
package main

import (
	"context"
	"fmt"
	"io"
	"log/slog"
	"math"
	"os"
	"runtime/debug"
	"runtime/pprof"
	"sort"
	"strings"
	"time"

	"github.com/sharedcode/sop"
	"github.com/sharedcode/sop/infs"
	"github.com/sharedcode/sop/search"
	"verif.local/mc/detuuid"
	"verif.local/mc/ev"
)

var ctx = context.Background()

// ---- domain ----

var docWords = []string{"ab", "abc", "zed", "the", "Ünï"}
var queryWords = []string{"ab", "abc", "zed", "the", "Ünï", "nope", "AB"}

// document ids by position in the indexing order. One contains the posting-key separator and a
// non-ASCII letter, one differs from another only by case: ids are caller-chosen opaque strings.
var docIDs = []string{"d1", "é|2", "D1"}

var separators = []string{" ", ", ", "|", "\n", " - "}

// wordToken is the reference expectation for the tokenizer on one word ("" = dropped).
func wordToken(w string) string {
	switch w {
	case "the":
		return ""
	case "Ünï":
		return "ünï"
	case "AB":
		return "ab"
	}
	return w
}

type doc []int // sorted indices into docWords (a multiset)

func allDocs() []doc {
	var out []doc
	out = append(out, doc{})
	n := len(docWords)
	for a := 0; a < n; a++ {
		out = append(out, doc{a})
	}
	for a := 0; a < n; a++ {
		for b := a; b < n; b++ {
			out = append(out, doc{a, b})
		}
	}
	for a := 0; a < n; a++ {
		for b := a; b < n; b++ {
			for c := b; c < n; c++ {
				out = append(out, doc{a, b, c})
			}
		}
	}
	return out
}

// text renders the multiset; word order and separator vary deterministically with salt (the index
// only ever sees Tokenize(text); tokenizer behaviour over all orders/separators is checked apart).
func (d doc) text(salt int) string {
	if len(d) == 0 {
		return ""
	}
	ws := make([]string, len(d))
	rot := salt % len(d)
	for i := range d {
		ws[i] = docWords[d[(i+rot)%len(d)]]
	}
	return strings.Join(ws, separators[salt%len(separators)])
}

var perms3 = [][]int{{0, 1, 2}, {0, 2, 1}, {1, 0, 2}, {1, 2, 0}, {2, 0, 1}, {2, 1, 0}}
var perms2 = [][]int{{0, 1}, {1, 0}}

func permsOf(n int) [][]int {
	switch n {
	case 0:
		return [][]int{{}}
	case 1:
		return [][]int{{0}}
	case 2:
		return perms2
	}
	return perms3
}

// compositions of n into 1..3 non-empty parts (block sizes, in order).
func compositions(n int) [][]int {
	switch n {
	case 0:
		return [][]int{{}}
	case 1:
		return [][]int{{1}}
	case 2:
		return [][]int{{2}, {1, 1}}
	}
	return [][]int{{3}, {1, 2}, {2, 1}, {1, 1, 1}}
}

type tcase struct {
	Corpus []int // indices into allDocs (ascending = canonical)
	Perm   []int // indexing order: position p indexes Corpus[Perm[p]]
	Blocks []int // block sizes (transactions)
	Idx    int
}

// tokenSig is the corpus' content as the index can see it: the multiset of per-document token multisets.
func tokenSig(docs []doc, corpus []int) string {
	var sig []string
	for _, di := range corpus {
		var ts []string
		for _, wi := range docs[di] {
			if t := wordToken(docWords[wi]); t != "" {
				ts = append(ts, t)
			}
		}
		sort.Strings(ts)
		sig = append(sig, strings.Join(ts, " "))
	}
	sort.Strings(sig)
	return strings.Join(sig, "/")
}

func allCorpora(nd int) [][]int {
	var corpora [][]int
	corpora = append(corpora, []int{})
	for a := 0; a < nd; a++ {
		corpora = append(corpora, []int{a})
	}
	for a := 0; a < nd; a++ {
		for b := a + 1; b < nd; b++ {
			corpora = append(corpora, []int{a, b})
		}
	}
	for a := 0; a < nd; a++ {
		for b := a + 1; b < nd; b++ {
			for c := b + 1; c < nd; c++ {
				corpora = append(corpora, []int{a, b, c})
			}
		}
	}
	return corpora
}

// enumerate lists the index cases.
// quick: one corpus per token-content class (the LAST corpus of the class in enumeration order, which
// is the one using the stop word most), one document order per corpus (rotating), every composition.
// thorough: every corpus, every ordered partition of its documents into 1..3 transactions.
func enumerate(thorough bool) []tcase {
	docs := allDocs()
	corpora := allCorpora(len(docs))
	var out []tcase
	if !thorough {
		last := map[string]int{}
		for ci, c := range corpora {
			last[tokenSig(docs, c)] = ci
		}
		k := 0
		for ci, c := range corpora {
			if last[tokenSig(docs, c)] != ci {
				continue
			}
			ps := permsOf(len(c))
			p := ps[k%len(ps)]
			k++
			for _, bl := range compositions(len(c)) {
				out = append(out, tcase{Corpus: c, Perm: p, Blocks: bl, Idx: len(out)})
			}
		}
		return out
	}
	for ci, c := range corpora {
		ps := permsOf(len(c))
		seen := map[string]bool{}
		// start from a different permutation per corpus so that the order inside a transaction varies
		for pi := range ps {
			p := ps[(pi+ci)%len(ps)]
			for _, bl := range compositions(len(c)) {
				// canonical form of the ordered partition: blocks in order, members sorted
				var key []string
				q := 0
				for _, sz := range bl {
					m := append([]int(nil), p[q:q+sz]...)
					sort.Ints(m)
					key = append(key, fmt.Sprint(m))
					q += sz
				}
				ks := strings.Join(key, "|")
				if seen[ks] {
					continue
				}
				seen[ks] = true
				out = append(out, tcase{Corpus: c, Perm: p, Blocks: bl, Idx: len(out)})
			}
		}
	}
	return out
}

// allQueries: every sequence of <= 2 words from the first 6 query words (4 terms, stop word, unknown
// term), plus the upper-case variant alone and next to its lower-case form.
func allQueries() [][]int {
	var qs [][]int
	qs = append(qs, []int{})
	n := len(queryWords) - 1
	for a := 0; a < n; a++ {
		qs = append(qs, []int{a})
	}
	for a := 0; a < n; a++ {
		for b := 0; b < n; b++ {
			qs = append(qs, []int{a, b})
		}
	}
	qs = append(qs, []int{n}, []int{n, 0}, []int{1, n})
	return qs
}

func queryText(q []int, salt int) string {
	ws := make([]string, len(q))
	for i, w := range q {
		ws[i] = queryWords[w]
	}
	return strings.Join(ws, separators[salt%len(separators)])
}

// ---- reference BM25 ----

type refDoc struct {
	id   string
	tf   map[string]int
	dlen int
}

func reference(docs []refDoc, qTokens []string) map[string]float64 {
	const k1, b = 1.2, 0.75
	N := float64(len(docs))
	total := 0
	for _, d := range docs {
		total += d.dlen
	}
	scores := map[string]float64{}
	if len(docs) == 0 {
		return scores
	}
	avg := float64(total) / N
	for _, t := range qTokens {
		n := 0
		for _, d := range docs {
			if d.tf[t] > 0 {
				n++
			}
		}
		if n == 0 {
			continue
		}
		idf := math.Log((N-float64(n)+0.5)/(float64(n)+0.5) + 1)
		for _, d := range docs {
			f := float64(d.tf[t])
			if f == 0 {
				continue
			}
			scores[d.id] += idf * (f * (k1 + 1)) / (f + k1*(1-b+b*float64(d.dlen)/avg))
		}
	}
	return scores
}

func queryKind(q []int) string {
	toks := 0
	for _, w := range q {
		if wordToken(queryWords[w]) != "" {
			toks++
		}
	}
	switch {
	case len(q) == 0:
		return "empty"
	case toks == 0:
		return "stopword-only"
	case len(q) == 2 && wordToken(queryWords[q[0]]) == wordToken(queryWords[q[1]]):
		return "repeated-term"
	case len(q) == 2 && toks == 2:
		return "two-terms"
	}
	return "one-term"
}

// ---- one case on the implementation ----

type worker struct {
	run     *ev.Run
	base    string
	tk      search.SimpleTokenizer
	docs    []doc
	queries [][]int
	coldToo bool
}

func (w *worker) txOpts(dir string, mode sop.TransactionMode) sop.TransactionOptions {
	return sop.TransactionOptions{Mode: mode, StoresFolders: []string{dir}, CacheType: sop.InMemory}
}

func (w *worker) runCase(c tcase) {
	run := w.run
	dir := fmt.Sprintf("%s/c%d", w.base, c.Idx)
	os.RemoveAll(dir)
	defer os.RemoveAll(dir)
	detuuid.Reset(uint64(c.Idx) + 1)
	dbo := sop.DatabaseOptions{StoresFolders: []string{dir}}

	type placed struct {
		ID, Text string
		Tx       int
	}
	var plan []placed
	{
		p := 0
		for tx, sz := range c.Blocks {
			for k := 0; k < sz; k++ {
				d := w.docs[c.Corpus[c.Perm[p]]]
				plan = append(plan, placed{ID: docIDs[p], Text: d.text(c.Idx + p), Tx: tx})
				p++
			}
		}
	}
	replay := map[string]any{"docs": plan, "transactions": len(c.Blocks)}
	sigClass := fmt.Sprintf("ndocs=%d|ntx=%d", len(plan), len(c.Blocks))
	fail := func(kind, detail string, extra map[string]any) {
		r := map[string]any{}
		for k, v := range replay {
			r[k] = v
		}
		for k, v := range extra {
			r[k] = v
		}
		run.Violate(ev.Violation{Sig: kind + "|" + sigClass, Detail: fmt.Sprintf("%s: docs=%+v: %s", kind, plan, detail), Replay: r})
	}

	// index
	ntx := len(c.Blocks)
	if ntx == 0 {
		ntx = 1 // empty corpus: create the index in one transaction with no document
	}
	p := 0
	for tx := 0; tx < ntx; tx++ {
		t, err := infs.NewTransaction(ctx, w.txOpts(dir, sop.ForWriting))
		if err != nil {
			fail("harness-error", "NewTransaction: "+err.Error(), nil)
			return
		}
		if err := t.Begin(ctx); err != nil {
			fail("harness-error", "Begin: "+err.Error(), nil)
			return
		}
		idx, err := search.NewIndex(ctx, dbo, t, "ix")
		if err != nil {
			fail("index-error", fmt.Sprintf("NewIndex in transaction %d: %v", tx, err), nil)
			return
		}
		for p < len(plan) && plan[p].Tx == tx {
			if err := idx.Add(ctx, plan[p].ID, plan[p].Text); err != nil {
				fail("index-error", fmt.Sprintf("Add(%q,%q): %v", plan[p].ID, plan[p].Text, err), nil)
				t.Rollback(ctx)
				return
			}
			p++
		}
		if err := t.Commit(ctx); err != nil {
			fail("index-error", fmt.Sprintf("Commit of transaction %d: %v", tx, err), nil)
			return
		}
	}

	// reference statistics, from the tokenizer output only
	var rdocs []refDoc
	for _, pl := range plan {
		toks := w.tk.Tokenize(pl.Text)
		tf := map[string]int{}
		for _, t := range toks {
			tf[t]++
		}
		rdocs = append(rdocs, refDoc{id: pl.ID, tf: tf, dlen: len(toks)})
	}

	passes := []string{"warm"}
	if w.coldToo {
		passes = append(passes, "cold")
	}
	for _, pass := range passes {
		if pass == "cold" {
			// forget everything cached by the writers: statistics must come from what was persisted
			sop.GetL2Cache(w.txOpts(dir, sop.ForReading)).Clear(ctx)
		}
		t, err := infs.NewTransaction(ctx, w.txOpts(dir, sop.ForReading))
		if err != nil {
			fail("harness-error", "NewTransaction(read): "+err.Error(), nil)
			return
		}
		if err := t.Begin(ctx); err != nil {
			fail("harness-error", "Begin(read): "+err.Error(), nil)
			return
		}
		idx, err := search.NewIndex(ctx, dbo, t, "ix")
		if err != nil {
			fail("search-error", "NewIndex in the reading transaction: "+err.Error(), nil)
			return
		}
		for qi, q := range w.queries {
			qt := queryText(q, c.Idx+qi)
			qToks := w.tk.Tokenize(qt)
			want := reference(rdocs, qToks)
			got, err := idx.Search(ctx, qt)
			run.Add("evaluations", 1)
			if len(want) > 0 {
				run.Add("distinct_nontrivial", 1)
			}
			kind := queryKind(q)
			ex := map[string]any{"query": qt, "pass": pass}
			if err != nil {
				fail("search-error|q="+kind, fmt.Sprintf("Search(%q) error: %v", qt, err), ex)
				continue
			}
			seen := map[string]int{}
			for _, r := range got {
				seen[r.DocID]++
			}
			bad := false
			for id, n := range seen {
				if _, ok := want[id]; !ok {
					fail("extra-doc|q="+kind, fmt.Sprintf("Search(%q) returned %q which contains no query term; got=%v want=%v", qt, id, got, want), ex)
					bad = true
				} else if n > 1 {
					fail("duplicate-doc|q="+kind, fmt.Sprintf("Search(%q) returned %q %d times; got=%v", qt, id, n, got), ex)
					bad = true
				}
			}
			for id := range want {
				if seen[id] == 0 {
					fail("missing-doc|q="+kind, fmt.Sprintf("Search(%q) did not return %q which contains a query term; got=%v want=%v", qt, id, got, want), ex)
					bad = true
				}
			}
			if bad {
				continue
			}
			for i, r := range got {
				ref := want[r.DocID]
				if math.IsNaN(r.Score) || math.Abs(r.Score-ref) > 1e-9*math.Abs(ref) {
					fail("score|q="+kind, fmt.Sprintf("Search(%q): score of %q = %.15g, reference BM25 = %.15g; got=%v want=%v", qt, r.DocID, r.Score, ref, got, want), ex)
					break
				}
				if i > 0 && got[i-1].Score < r.Score {
					fail("order|q="+kind, fmt.Sprintf("Search(%q): results not in non-increasing score order: %v", qt, got), ex)
					break
				}
			}
		}
		if err := t.Commit(ctx); err != nil {
			fail("search-error", "Commit of the reading transaction: "+err.Error(), nil)
		}
	}
	run.Add("index_cases", 1)
	run.Add("commits", int64(ntx))
	if c.Idx%20011 == 7 {
		run.Sample(map[string]any{"docs": plan, "transactions": len(c.Blocks), "queries": len(w.queries)})
	}
	// keep the process-wide in-memory L2 cache small
	sop.GetL2Cache(w.txOpts(dir, sop.ForReading)).Clear(ctx)
}

// tokenizerChecks: the exported tokenizer over every word sequence of <= 3 (documents) / <= 2
// (queries) and every separator must equal the per-word reference (lower-casing, stop word removal,
// unicode letters kept). This is what justifies enumerating documents as multisets.
func tokenizerChecks(run *ev.Run) {
	var tk search.SimpleTokenizer
	words := append(append([]string{}, docWords...), "AB", "nope")
	var seqs [][]string
	seqs = append(seqs, nil)
	for _, a := range words {
		seqs = append(seqs, []string{a})
		for _, b := range words {
			seqs = append(seqs, []string{a, b})
			for _, c := range words {
				seqs = append(seqs, []string{a, b, c})
			}
		}
	}
	n := 0
	for _, s := range seqs {
		var want []string
		for _, w := range s {
			if t := wordToken(w); t != "" {
				want = append(want, t)
			}
		}
		for _, sep := range separators {
			n++
			txt := strings.Join(s, sep)
			got := tk.Tokenize(txt)
			if fmt.Sprint(got) != fmt.Sprint(want) || len(got) != len(want) {
				run.Violate(ev.Violation{Sig: "tokenizer", Detail: fmt.Sprintf("Tokenize(%q)=%q, expected %q", txt, got, want), Replay: map[string]any{"text": txt}})
			}
		}
	}
	run.Add("tokenizer_cases", int64(n))
}

const nJobs = 97

func main() {
	if g := os.Getenv("C32_GC"); g != "" {
		var n int
		fmt.Sscan(g, &n)
		debug.SetGCPercent(n)
	}
	slog.SetDefault(slog.New(slog.NewTextHandler(io.Discard, &slog.HandlerOptions{Level: slog.LevelError + 4})))
	run := ev.New("C32", "exploration")
	thorough := run.Thorough()
	cases := enumerate(thorough)

	if job := ev.Job(); job != "" {
		var j int
		fmt.Sscan(job, &j)
		w := &worker{run: run, base: fmt.Sprintf("/dev/shm/c32_%d_%d", os.Getpid(), j), docs: allDocs(), queries: allQueries(), coldToo: thorough}
		os.MkdirAll(w.base, 0o755)
		defer os.RemoveAll(w.base)
		if j == 0 {
			tokenizerChecks(run)
		}
		if pf := os.Getenv("C32_PROF"); pf != "" {
			f, _ := os.Create(pf)
			pprof.StartCPUProfile(f)
			defer pprof.StopCPUProfile()
			cases = cases[:20000]
		}
		for i := j; i < len(cases); i += nJobs {
			w.runCase(cases[i])
		}
		os.RemoveAll(w.base)
		pprof.StopCPUProfile()
		run.EmitPartial()
	}

	var jobs []string
	for j := 0; j < nJobs; j++ {
		jobs = append(jobs, fmt.Sprint(j))
	}
	dl := 10 * time.Minute
	if thorough {
		dl = 60 * time.Minute
	}
	run.Parallel(jobs, 0, dl, nil)

	// measured description of the enumerated space
	corp := map[string]bool{}
	tokSig := map[string]bool{}
	docs := allDocs()
	for _, c := range cases {
		corp[fmt.Sprint(c.Corpus)] = true
		tokSig[tokenSig(docs, c.Corpus)] = true
	}
	run.Set("documents_in_domain", len(docs))
	run.Set("corpora_in_domain", len(allCorpora(len(docs))))
	run.Set("corpora_run", len(corp))
	run.Set("corpora_distinct_by_token_content", len(tokSig))
	run.Set("index_cases_enumerated", len(cases))
	run.Set("queries_per_case", len(allQueries()))
	dom := "domain: corpus = set of <=3 distinct documents, document = multiset of <=3 words from {ab,abc,zed,the(stop word),Ünï} (56 documents, 29317 corpora); "
	qry := "; then, in a fresh reading transaction, every query of <=2 words from {ab,abc,zed,the,Ünï,nope(unknown)} plus AB, 'AB ab', 'abc AB' (46 incl. the empty query)"
	tail := ". evaluations = (index case, pass, query) triples, all distinct by construction; non-trivial = the reference result set is non-empty"
	if thorough {
		run.Set("rule", dom+"EVERY corpus x EVERY ordered partition of its documents into 1..3 committed infs transactions (13 for 3 documents; the order inside a transaction rotates with the corpus number)"+qry+", once with the caches left by the writers and once after clearing the L2 cache"+tail)
	} else {
		run.Set("rule", dom+"one corpus per token-content class (corpora whose documents tokenize to the same multiset of token multisets are merged; the representative is the member using the stop word most), one document order per corpus (rotating through all orders), x every composition of the documents into 1..3 committed infs transactions"+qry+tail)
	}
	run.Assumption("reference BM25: k1=1.2, b=0.75, idf=ln((N-n+0.5)/(n+0.5)+1), score(d)=sum over query TOKENS (a repeated query term counts twice) of idf*f*(k1+1)/(f+k1*(1-b+b*len(d)/avglen)); N counts every indexed document including those with no tokens")
	run.Assumption("documents are enumerated as word multisets: Index.Add sees the text only through Tokenize(text) and reduces it to a Go map of frequencies (iteration order random by language definition), so word order cannot be observed; the tokenizer itself is checked over all word sequences and separators (tokenizer_cases)")
	if !thorough {
		run.Assumption("quick-tier dedupe 1 (token content): Index.Add(docID,text) uses text only as Tokenize(text), so two corpora whose documents have pairwise equal token lists drive the index identically; tokenizer_cases verifies Tokenize on every text. Corpora with several documents of equal token content exist only thanks to the stop word and are kept as their own classes")
		run.Assumption("quick-tier dedupe 2 (document order / which document goes to which transaction): the committed index content is a commutative function of the (docID, tokens) pairs — distinct-key B-tree inserts and integer sums — and with <= 9 postings every index B-tree is a single node (slot length 5000) whose slots are sorted by key whatever the insertion order. The thorough tier drops both dedupes (every corpus, every ordered partition) and thereby validates these arguments")
	}
	run.Assumption("index B-trees stay single-node (NewIndex hard-codes slot length 5000), so the postings prefix scan across node boundaries is not exercised here (cursor placement after a miss is covered on multi-node trees by C18)")
	run.Finish()
}
