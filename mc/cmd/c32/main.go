// c32: bounded-exhaustive check of property C32 — "Text search returns exactly the matching documents,
// ranked by BM25" — against the real github.com/sharedcode/sop/search.Index on infs transactions
// (/dev/shm, in-memory L2 cache).
//
// Enumerated completely (see rule in the evidence file):
//   - corpora: every set of <= 3 distinct documents; a document is a multiset of <= 3 words from
//     {ab, abc, zed, the(stop word), abÉ};
//   - every split of the indexing into 1..3 committed transactions (quick: one document order per
//     corpus x all compositions; thorough: every document order x all compositions = every ordered
//     assignment of documents to transactions);
//   - every query of <= 2 words from {ab, abc, zed, the, abÉ, AB (case variant), nope (unknown)},
//     searched in a fresh transaction.
//
// Oracle: an independent BM25 (k1=1.2, b=0.75, idf=ln((N-n+0.5)/(n+0.5)+1)) computed from the
// tokenizer output only.
package main

import (
	"bytes"
	"context"
	"encoding/json"
	"fmt"
	"io"
	"log/slog"
	"math"
	"os"
	"os/exec"
	"sort"
	"strings"
	"time"

	"github.com/sharedcode/sop"
	"github.com/sharedcode/sop/infs"
	"github.com/sharedcode/sop/search"
	"verif.local/mc/detuuid"
	"verif.local/mc/ev"
)

var ctx = context.Background()

// ---- domain ----

// Vocabulary. Thorough (and replay): 4 terms (ab is a prefix of abc - ASCII continuation - and of abé - non-ASCII continuation, which sorts AFTER the posting-key separator "|"; abÉ needs unicode lower-casing) + a
// stop word. Quick drops the plain term "zed" (see setVocabulary): every index B-tree operation copies a
// 5000-slot node, which makes a case ~40 ms of CPU, and the quick tier has to stay well under 2 minutes.
var docWords = []string{"ab", "abc", "zed", "the", "abÉ"}
var queryWords = []string{"ab", "abc", "zed", "the", "abÉ", "nope", "AB"} // the last one is only used in 3 fixed variants

func setVocabulary(thorough bool) {
	if !thorough {
		docWords = []string{"ab", "abc", "the", "abÉ"}
		queryWords = []string{"ab", "abc", "the", "abÉ", "nope", "AB"}
	}
}

// document ids by position in the indexing order. One contains the posting-key separator and a
// non-ASCII letter, one differs from another only by case: ids are caller-chosen opaque strings.
var docIDs = []string{"d1", "é|2", "D1"}

var separators = []string{" ", ", ", "|", "\n", " - "}

// wordToken is the reference expectation for the tokenizer on one word ("" = dropped).
func wordToken(w string) string {
	switch w {
	case "the":
		return ""
	case "abÉ":
		return "abé"
	case "AB":
		return "ab"
	}
	return w
}

type doc []int // sorted indices into docWords (a multiset)

func allDocs() []doc {
	var out []doc
	out = append(out, doc{})
	n := len(docWords)
	for a := 0; a < n; a++ {
		out = append(out, doc{a})
	}
	for a := 0; a < n; a++ {
		for b := a; b < n; b++ {
			out = append(out, doc{a, b})
		}
	}
	for a := 0; a < n; a++ {
		for b := a; b < n; b++ {
			for c := b; c < n; c++ {
				out = append(out, doc{a, b, c})
			}
		}
	}
	return out
}

// text renders the multiset; word order and separator vary deterministically with salt (the index
// only ever sees Tokenize(text); tokenizer behaviour over all orders/separators is checked apart).
func (d doc) text(salt int) string {
	if len(d) == 0 {
		return ""
	}
	ws := make([]string, len(d))
	rot := salt % len(d)
	for i := range d {
		ws[i] = docWords[d[(i+rot)%len(d)]]
	}
	return strings.Join(ws, separators[salt%len(separators)])
}

var perms3 = [][]int{{0, 1, 2}, {0, 2, 1}, {1, 0, 2}, {1, 2, 0}, {2, 0, 1}, {2, 1, 0}}
var perms2 = [][]int{{0, 1}, {1, 0}}

func permsOf(n int) [][]int {
	switch n {
	case 0:
		return [][]int{{}}
	case 1:
		return [][]int{{0}}
	case 2:
		return perms2
	}
	return perms3
}

// compositions of n into 1..3 non-empty parts (block sizes, in order).
func compositions(n int) [][]int {
	switch n {
	case 0:
		return [][]int{{}}
	case 1:
		return [][]int{{1}}
	case 2:
		return [][]int{{2}, {1, 1}}
	}
	return [][]int{{3}, {1, 2}, {2, 1}, {1, 1, 1}}
}

type tcase struct {
	Corpus []int // indices into allDocs (ascending = canonical)
	Perm   []int // indexing order: position p indexes Corpus[Perm[p]]
	Blocks []int // block sizes (transactions)
	Idx    int
	Fresh  bool // also search from a brand-new OS process
}

func allSingletons(bl []int) bool {
	for _, b := range bl {
		if b != 1 {
			return false
		}
	}
	return len(bl) >= 2
}

// tokenSig is the corpus' content as the index can see it: the multiset of per-document token multisets.
func tokenSig(docs []doc, corpus []int) string {
	var sig []string
	for _, di := range corpus {
		var ts []string
		for _, wi := range docs[di] {
			if t := wordToken(docWords[wi]); t != "" {
				ts = append(ts, t)
			}
		}
		sort.Strings(ts)
		sig = append(sig, strings.Join(ts, " "))
	}
	sort.Strings(sig)
	return strings.Join(sig, "/")
}

func allCorpora(nd int) [][]int {
	var corpora [][]int
	corpora = append(corpora, []int{})
	for a := 0; a < nd; a++ {
		corpora = append(corpora, []int{a})
	}
	for a := 0; a < nd; a++ {
		for b := a + 1; b < nd; b++ {
			corpora = append(corpora, []int{a, b})
		}
	}
	for a := 0; a < nd; a++ {
		for b := a + 1; b < nd; b++ {
			for c := b + 1; c < nd; c++ {
				corpora = append(corpora, []int{a, b, c})
			}
		}
	}
	return corpora
}

// partitionKey is the canonical form of an ordered partition: blocks in order, members sorted.
func partitionKey(p, bl []int) string {
	var key []string
	q := 0
	for _, sz := range bl {
		m := append([]int(nil), p[q:q+sz]...)
		sort.Ints(m)
		key = append(key, fmt.Sprint(m))
		q += sz
	}
	return strings.Join(key, "|")
}

// enumerate lists the index cases.
// A class representative is the LAST corpus (in enumeration order) of its token-content class, i.e. the
// member using the stop word most.
// quick:    class representatives x one document order (rotating) x every composition.
// thorough: class representatives x every ordered partition of the documents into 1..3 transactions (13
// for 3 documents); every other corpus x one document order x one composition (both rotating).
func enumerate(thorough bool) []tcase {
	docs := allDocs()
	corpora := allCorpora(len(docs))
	last := map[string]int{}
	for ci, c := range corpora {
		last[tokenSig(docs, c)] = ci
	}
	var out []tcase
	k := 0
	for ci, c := range corpora {
		rep := last[tokenSig(docs, c)] == ci
		if !rep && !thorough {
			continue
		}
		ps := permsOf(len(c))
		p0 := k % len(ps)
		k++
		seen := map[string]bool{}
		comps := compositions(len(c))
		if !rep {
			// thorough, not a representative: one composition (rotating) is enough to validate dedupe 1
			comps = comps[ci%len(comps) : ci%len(comps)+1]
		}
		for _, bl := range comps {
			seen[partitionKey(ps[p0], bl)] = true
			out = append(out, tcase{Corpus: c, Perm: ps[p0], Blocks: bl, Idx: len(out), Fresh: rep && allSingletons(bl)})
		}
		if !thorough || !rep {
			continue
		}
		for pi := range ps {
			p := ps[(p0+pi)%len(ps)]
			for _, bl := range compositions(len(c)) {
				ks := partitionKey(p, bl)
				if seen[ks] {
					continue
				}
				seen[ks] = true
				out = append(out, tcase{Corpus: c, Perm: p, Blocks: bl, Idx: len(out)})
			}
		}
	}
	return out
}

// allQueries: every sequence of <= 2 words from the first 6 query words (4 terms, stop word, unknown
// term), plus the upper-case variant alone and next to its lower-case form.
func allQueries() [][]int {
	var qs [][]int
	qs = append(qs, []int{})
	n := len(queryWords) - 1
	for a := 0; a < n; a++ {
		qs = append(qs, []int{a})
	}
	for a := 0; a < n; a++ {
		for b := 0; b < n; b++ {
			qs = append(qs, []int{a, b})
		}
	}
	qs = append(qs, []int{n}, []int{n, 0}, []int{1, n})
	return qs
}

func queryText(q []int, salt int) string {
	ws := make([]string, len(q))
	for i, w := range q {
		ws[i] = queryWords[w]
	}
	return strings.Join(ws, separators[salt%len(separators)])
}

// ---- reference BM25 ----

type refDoc struct {
	id   string
	tf   map[string]int
	dlen int
}

func reference(docs []refDoc, qTokens []string) map[string]float64 {
	const k1, b = 1.2, 0.75
	N := float64(len(docs))
	total := 0
	for _, d := range docs {
		total += d.dlen
	}
	scores := map[string]float64{}
	if len(docs) == 0 {
		return scores
	}
	avg := float64(total) / N
	for _, t := range qTokens {
		n := 0
		for _, d := range docs {
			if d.tf[t] > 0 {
				n++
			}
		}
		if n == 0 {
			continue
		}
		idf := math.Log((N-float64(n)+0.5)/(float64(n)+0.5) + 1)
		for _, d := range docs {
			f := float64(d.tf[t])
			if f == 0 {
				continue
			}
			scores[d.id] += idf * (f * (k1 + 1)) / (f + k1*(1-b+b*float64(d.dlen)/avg))
		}
	}
	return scores
}

func queryKind(q []int) string {
	toks := 0
	for _, w := range q {
		if wordToken(queryWords[w]) != "" {
			toks++
		}
	}
	switch {
	case len(q) == 0:
		return "empty"
	case toks == 0:
		return "stopword-only"
	case len(q) == 2 && wordToken(queryWords[q[0]]) == wordToken(queryWords[q[1]]):
		return "repeated-term"
	case len(q) == 2 && toks == 2:
		return "two-terms"
	}
	return "one-term"
}

// ---- one case on the implementation ----

type placed struct {
	ID   string `json:"id"`
	Text string `json:"text"`
	Tx   int    `json:"tx"`
}

type worker struct {
	run     *ev.Run
	base    string
	tk      search.SimpleTokenizer
	docs    []doc
	queries [][]int
}

func txOpts(dir string, mode sop.TransactionMode) sop.TransactionOptions {
	return sop.TransactionOptions{Mode: mode, StoresFolders: []string{dir}, CacheType: sop.InMemory}
}

func (w *worker) runCase(c tcase) {
	var plan []placed
	p := 0
	for tx, sz := range c.Blocks {
		for k := 0; k < sz; k++ {
			d := w.docs[c.Corpus[c.Perm[p]]]
			plan = append(plan, placed{ID: docIDs[p], Text: d.text(c.Idx + p), Tx: tx})
			p++
		}
	}
	w.runPlan(plan, len(c.Blocks), c.Idx, c.Fresh)
	if c.Idx%20011 == 7 {
		w.run.Sample(map[string]any{"docs": plan, "transactions": len(c.Blocks), "queries": len(w.queries), "fresh_process_pass": c.Fresh})
	}
}

type queryResult struct {
	R []search.TextSearchResult `json:"r"`
	E string                    `json:"e,omitempty"`
}

// searchAll opens the index in a new reading transaction and runs every query.
func searchAll(dir string, queries [][]int, salt int) ([]queryResult, string) {
	t, err := infs.NewTransaction(ctx, txOpts(dir, sop.ForReading))
	if err != nil {
		return nil, "NewTransaction(read): " + err.Error()
	}
	if err := t.Begin(ctx); err != nil {
		return nil, "Begin(read): " + err.Error()
	}
	idx, err := search.NewIndex(ctx, sop.DatabaseOptions{StoresFolders: []string{dir}}, t, "ix")
	if err != nil {
		return nil, "NewIndex in the reading transaction: " + err.Error()
	}
	out := make([]queryResult, len(queries))
	for qi, q := range queries {
		got, err := idx.Search(ctx, queryText(q, salt+qi))
		out[qi].R = got
		if err != nil {
			out[qi].E = "error: " + err.Error()
		}
		for _, r := range got {
			if math.IsNaN(r.Score) || math.IsInf(r.Score, 0) {
				out[qi].E = fmt.Sprintf("non-finite score for %q: %v", r.DocID, r.Score)
				out[qi].R = nil
			}
		}
	}
	if err := t.Commit(ctx); err != nil {
		return out, "Commit of the reading transaction: " + err.Error()
	}
	return out, ""
}

// searchAllFresh does the same in a brand-new OS process (no L1/L2 cache content from the writers).
func searchAllFresh(dir string, salt int) ([]queryResult, string) {
	cmd := exec.Command(os.Args[0], "C32")
	full := ""
	if len(docWords) == 5 {
		full = "1"
	}
	cmd.Env = append(os.Environ(), "VERIF_TIER=quick", "C32_CHILD_FULLVOCAB="+full, "C32_CHILD_DIR="+dir, fmt.Sprint("C32_CHILD_SALT=", salt), "VERIF_JOB=", "GOMAXPROCS=2")
	var stderr bytes.Buffer
	cmd.Stderr = &stderr
	b, err := cmd.Output()
	if err != nil {
		return nil, fmt.Sprintf("fresh search process failed: %v: %s", err, stderr.String())
	}
	var res struct {
		Q   []queryResult
		Err string
	}
	if err := json.Unmarshal(b, &res); err != nil {
		return nil, fmt.Sprintf("fresh search process produced unreadable output: %v: %.300s", err, b)
	}
	return res.Q, res.Err
}

func childSearch() {
	var salt int
	fmt.Sscan(os.Getenv("C32_CHILD_SALT"), &salt)
	q, e := searchAll(os.Getenv("C32_CHILD_DIR"), allQueries(), salt)
	b, _ := json.Marshal(map[string]any{"Q": q, "Err": e})
	os.Stdout.Write(b)
	os.Exit(0)
}

func (w *worker) runPlan(plan []placed, ntxDeclared int, salt int, fresh bool) {
	run := w.run
	dir := fmt.Sprintf("%s/c%d", w.base, salt)
	os.RemoveAll(dir)
	defer os.RemoveAll(dir)
	detuuid.Reset(uint64(salt) + 1)
	l2 := sop.GetL2Cache(txOpts(dir, sop.ForReading))
	defer l2.Clear(ctx) // keep the process-wide in-memory L2 cache small
	dbo := sop.DatabaseOptions{StoresFolders: []string{dir}}

	sigClass := fmt.Sprintf("ndocs=%d|ntx=%d", len(plan), ntxDeclared)
	fail := func(kind, detail string, extra map[string]any) {
		r := map[string]any{"docs": plan, "transactions": ntxDeclared, "salt": salt}
		for k, v := range extra {
			r[k] = v
		}
		run.Violate(ev.Violation{Sig: kind + "|" + sigClass, Detail: fmt.Sprintf("%s: docs=%+v: %s", kind, plan, detail), Replay: r})
	}

	// index
	ntx := ntxDeclared
	if ntx == 0 {
		ntx = 1 // empty corpus: create the index in one transaction with no document
	}
	p := 0
	for tx := 0; tx < ntx; tx++ {
		t, err := infs.NewTransaction(ctx, txOpts(dir, sop.ForWriting))
		if err != nil {
			fail("harness-error", "NewTransaction: "+err.Error(), nil)
			return
		}
		if err := t.Begin(ctx); err != nil {
			fail("harness-error", "Begin: "+err.Error(), nil)
			return
		}
		idx, err := search.NewIndex(ctx, dbo, t, "ix")
		if err != nil {
			fail("index-error", fmt.Sprintf("NewIndex in transaction %d: %v", tx, err), nil)
			return
		}
		for p < len(plan) && plan[p].Tx == tx {
			if err := idx.Add(ctx, plan[p].ID, plan[p].Text); err != nil {
				fail("index-error", fmt.Sprintf("Add(%q,%q): %v", plan[p].ID, plan[p].Text, err), nil)
				t.Rollback(ctx)
				return
			}
			p++
		}
		if err := t.Commit(ctx); err != nil {
			fail("index-error", fmt.Sprintf("Commit of transaction %d: %v", tx, err), nil)
			return
		}
	}
	run.Add("index_cases", 1)
	run.Add("commits", int64(ntx))

	// reference statistics, from the tokenizer output only
	var rdocs []refDoc
	for _, pl := range plan {
		toks := w.tk.Tokenize(pl.Text)
		tf := map[string]int{}
		for _, t := range toks {
			tf[t]++
		}
		rdocs = append(rdocs, refDoc{id: pl.ID, tf: tf, dlen: len(toks)})
	}

	passes := []string{"same-process"}
	if fresh {
		passes = append(passes, "fresh-process")
	}
	for _, pass := range passes {
		var results []queryResult
		var perr string
		if pass == "same-process" {
			results, perr = searchAll(dir, w.queries, salt)
		} else {
			results, perr = searchAllFresh(dir, salt)
			run.Add("fresh_process_passes", 1)
		}
		if perr != "" {
			fail("search-error", pass+": "+perr, map[string]any{"pass": pass})
			if results == nil {
				continue
			}
		}
		if len(results) != len(w.queries) {
			fail("harness-error", fmt.Sprintf("%s: %d results for %d queries", pass, len(results), len(w.queries)), nil)
			continue
		}
		for qi, q := range w.queries {
			qt := queryText(q, salt+qi)
			want := reference(rdocs, w.tk.Tokenize(qt))
			got := results[qi].R
			run.Add("evaluations", 1)
			if len(want) > 0 {
				run.Add("distinct_nontrivial", 1)
			}
			kind := queryKind(q)
			ex := map[string]any{"query": qt, "pass": pass}
			if results[qi].E != "" {
				fail("search-error|q="+kind, fmt.Sprintf("Search(%q) [%s] %s", qt, pass, results[qi].E), ex)
				continue
			}
			seen := map[string]int{}
			for _, r := range got {
				seen[r.DocID]++
			}
			bad := false
			for _, r := range got { // in result order: deterministic reporting
				if _, ok := want[r.DocID]; !ok {
					fail("extra-doc|q="+kind, fmt.Sprintf("Search(%q) [%s] returned %q which contains no query term; got=%v want=%v", qt, pass, r.DocID, got, want), ex)
					bad = true
				} else if seen[r.DocID] > 1 {
					fail("duplicate-doc|q="+kind, fmt.Sprintf("Search(%q) [%s] returned %q %d times; got=%v", qt, pass, r.DocID, seen[r.DocID], got), ex)
					bad = true
				}
			}
			for _, d := range rdocs {
				if _, ok := want[d.id]; ok && seen[d.id] == 0 {
					fail("missing-doc|q="+kind, fmt.Sprintf("Search(%q) [%s] did not return %q which contains a query term; got=%v want=%v", qt, pass, d.id, got, want), ex)
					bad = true
				}
			}
			if bad {
				continue
			}
			for i, r := range got {
				ref := want[r.DocID]
				if math.Abs(r.Score-ref) > 1e-9*math.Abs(ref) {
					fail("score|q="+kind, fmt.Sprintf("Search(%q) [%s]: score of %q = %.15g, reference BM25 = %.15g; got=%v want=%v", qt, pass, r.DocID, r.Score, ref, got, want), ex)
					break
				}
				if i > 0 && got[i-1].Score < r.Score {
					fail("order|q="+kind, fmt.Sprintf("Search(%q) [%s]: results not in non-increasing score order: %v", qt, pass, got), ex)
					break
				}
			}
		}
	}
}

// tokenizerChecks: the exported tokenizer over every word sequence of <= 3 (documents) / <= 2
// (queries) and every separator must equal the per-word reference (lower-casing, stop word removal,
// unicode letters kept). This is what justifies enumerating documents as multisets.
func tokenizerChecks(run *ev.Run) {
	var tk search.SimpleTokenizer
	words := append(append([]string{}, docWords...), "AB", "nope")
	var seqs [][]string
	seqs = append(seqs, nil)
	for _, a := range words {
		seqs = append(seqs, []string{a})
		for _, b := range words {
			seqs = append(seqs, []string{a, b})
			for _, c := range words {
				seqs = append(seqs, []string{a, b, c})
			}
		}
	}
	n := 0
	for _, s := range seqs {
		var want []string
		for _, w := range s {
			if t := wordToken(w); t != "" {
				want = append(want, t)
			}
		}
		for _, sep := range separators {
			n++
			txt := strings.Join(s, sep)
			got := tk.Tokenize(txt)
			if fmt.Sprint(got) != fmt.Sprint(want) || len(got) != len(want) {
				run.Violate(ev.Violation{Sig: "tokenizer", Detail: fmt.Sprintf("Tokenize(%q)=%q, expected %q", txt, got, want), Replay: map[string]any{"text": txt}})
			}
		}
	}
	run.Add("tokenizer_cases", int64(n))
}

const nJobs = 97

func main() {
	slog.SetDefault(slog.New(slog.NewTextHandler(io.Discard, &slog.HandlerOptions{Level: slog.LevelError + 4})))
	isReplay := false
	for _, a := range os.Args {
		if a == "--replay" {
			isReplay = true
		}
	}
	setVocabulary(ev.TierFromArgs() == "thorough" || isReplay || os.Getenv("C32_CHILD_FULLVOCAB") != "")
	if os.Getenv("C32_CHILD_DIR") != "" {
		childSearch()
	}
	run := ev.New("C32", "exploration")
	thorough := run.Thorough()

	// --replay <file>: re-run the single case stored in a replay artefact (both search passes)
	for i, a := range os.Args {
		if a == "--replay" && i+1 < len(os.Args) {
			raw, err := os.ReadFile(os.Args[i+1])
			var art struct {
				Replay struct {
					Docs         []placed `json:"docs"`
					Transactions int      `json:"transactions"`
					Salt         int      `json:"salt"`
				} `json:"replay"`
			}
			if err == nil {
				err = json.Unmarshal(raw, &art)
			}
			if err != nil {
				fmt.Fprintln(os.Stderr, "cannot use replay artefact:", err)
				os.Exit(2)
			}
			w := &worker{run: run, base: fmt.Sprintf("/dev/shm/c32_%d_replay", os.Getpid()), docs: allDocs(), queries: allQueries()}
			os.MkdirAll(w.base, 0o755)
			w.runPlan(art.Replay.Docs, art.Replay.Transactions, art.Replay.Salt, true)
			os.RemoveAll(w.base)
			run.Set("rule", "replay of one stored index case, all queries, both search passes")
			run.Finish()
		}
	}

	cases := enumerate(thorough)
	if os.Getenv("C32_COUNT") != "" {
		nf := 0
		for _, c := range cases {
			if c.Fresh {
				nf++
			}
		}
		fmt.Printf("%s: %d index cases (%d with a fresh-process pass) x %d queries\n", run.Tier, len(cases), nf, len(allQueries()))
		os.Exit(0)
	}
	if mc := os.Getenv("C32_MAXCASES"); mc != "" {
		// debugging / mutation-testing aid: only an evenly strided subset of the enumeration
		var n int
		fmt.Sscan(mc, &n)
		if n > 0 && n < len(cases) {
			var sub []tcase
			for i := 0; i < n; i++ {
				sub = append(sub, cases[i*len(cases)/n])
			}
			cases = sub
			if ev.Job() == "" {
				run.NotExhaustive("C32_MAXCASES set: only " + mc + " index cases run")
			}
		}
	}

	if job := ev.Job(); job != "" {
		var j int
		fmt.Sscan(job, &j)
		var deadline int64
		fmt.Sscan(os.Getenv("C32_DEADLINE"), &deadline)
		w := &worker{run: run, base: fmt.Sprintf("/dev/shm/c32_%d_%d", os.Getpid(), j), docs: allDocs(), queries: allQueries()}
		os.MkdirAll(w.base, 0o755)
		if j == 0 {
			tokenizerChecks(run)
		}
		for i := j; i < len(cases); i += nJobs {
			if deadline > 0 && time.Now().Unix() > deadline {
				run.Add("cases_skipped_by_time_budget", int64((len(cases)-i+nJobs-1)/nJobs))
				break
			}
			w.runCase(cases[i])
		}
		os.RemoveAll(w.base)
		run.EmitPartial()
	}

	var jobs []string
	for j := 0; j < nJobs; j++ {
		jobs = append(jobs, fmt.Sprint(j))
	}
	budget := 12 * time.Minute
	if thorough {
		budget = 50 * time.Minute
	}
	if b := os.Getenv("C32_BUDGET_MIN"); b != "" { // override of the global time budget, in minutes
		var m int
		if fmt.Sscan(b, &m); m > 0 {
			budget = time.Duration(m) * time.Minute
		}
	}
	os.Setenv("C32_DEADLINE", fmt.Sprint(time.Now().Add(budget).Unix()))
	run.Parallel(jobs, 0, budget+5*time.Minute, nil)
	if sk, _ := run.Coverage["cases_skipped_by_time_budget"].(int64); sk > 0 {
		run.NotExhaustive(fmt.Sprintf("global time budget of %v reached: %d of %d index cases not run (overloaded machine?)", budget, sk, len(cases)))
	}

	// measured description of the enumerated space
	corp := map[string]bool{}
	tokSig := map[string]bool{}
	docs := allDocs()
	for _, c := range cases {
		corp[fmt.Sprint(c.Corpus)] = true
		tokSig[tokenSig(docs, c.Corpus)] = true
	}
	run.Set("documents_in_domain", len(docs))
	run.Set("corpora_in_domain", len(allCorpora(len(docs))))
	run.Set("corpora_run", len(corp))
	run.Set("corpora_distinct_by_token_content", len(tokSig))
	run.Set("index_cases_enumerated", len(cases))
	run.Set("queries_per_case", len(allQueries()))
	nq := len(allQueries())
	dom := fmt.Sprintf("domain: corpus = set of <=3 distinct documents, document = multiset of <=3 words from {%s} ('the' is a stop word; %d documents, %d corpora); ", strings.Join(docWords, ","), len(docs), len(allCorpora(len(docs))))
	qry := fmt.Sprintf("; then, in a fresh reading transaction, every query of <=2 words from {%s} plus AB, 'AB ab', 'abc AB' (%d incl. the empty query)", strings.Join(queryWords[:len(queryWords)-1], ","), nq)
	tail := ". evaluations = (index case, search pass, query) triples, all distinct by construction; non-trivial = the reference result set is non-empty"
	if thorough {
		run.Set("rule", dom+"(a) for one corpus per token-content class (corpora whose documents tokenize to the same multiset of token multisets; representative = the member using the stop word most) EVERY ordered partition of its documents into 1..3 committed infs transactions (13 for 3 documents); (b) every other corpus in one document order and one composition (both rotating through all possibilities)"+qry+"; the one-document-per-transaction cases of the class representatives are searched a second time from a brand-new OS process (nothing cached)"+tail)
	} else {
		run.Set("rule", dom+"one corpus per token-content class (corpora whose documents tokenize to the same multiset of token multisets are merged; the representative is the member using the stop word most), one document order per corpus (rotating through all orders), x every composition of the documents into 1..3 committed infs transactions"+qry+"; the one-document-per-transaction cases are searched a second time from a brand-new OS process (nothing cached)"+tail)
		run.Assumption("quick-tier vocabulary has 3 terms (ab, abc = ab+c, abÉ) + the stop word; the thorough tier adds the plain term zed (56 documents, 29317 corpora). Reason: NewIndex hard-codes slot length 5000 and every B-tree operation copies such a node, so one index case costs ~40 ms CPU")
	}
	run.Assumption("reference BM25: k1=1.2, b=0.75, idf=ln((N-n+0.5)/(n+0.5)+1), score(d)=sum over query TOKENS (a repeated query term counts twice) of idf*f*(k1+1)/(f+k1*(1-b+b*len(d)/avglen)); N counts every indexed document including those with no tokens")
	run.Assumption("documents are enumerated as word multisets: Index.Add sees the text only through Tokenize(text) and reduces it to a Go map of frequencies (iteration order random by language definition), so word order cannot be observed; the tokenizer itself is checked over all word sequences and separators (tokenizer_cases)")
	d1 := "dedupe 1 (token content): Index.Add(docID,text) uses text only as Tokenize(text), so two corpora whose documents have pairwise equal token lists drive the index identically; tokenizer_cases verifies Tokenize on every text. Corpora with several documents of equal token content exist only thanks to the stop word and are kept as their own classes"
	d2 := "dedupe 2 (document order / which document goes to which transaction): the committed index content is a commutative function of the (docID, tokens) pairs — distinct-key B-tree inserts and integer sums — and with <= 9 postings every index B-tree is a single node (slot length 5000) whose slots are sorted by key whatever the insertion order"
	if !thorough {
		run.Assumption("quick-tier " + d1)
		run.Assumption("quick-tier " + d2 + ". The thorough tier validates dedupe 1 by running every corpus at least once and drops dedupe 2 by running every ordered partition for every token-content class")
	} else {
		run.Assumption("thorough tier: every corpus is run at least once (validates dedupe 1); all 13 ordered partitions are run per token-content class only (no dedupe 2) — " + d1)
	}
	_ = d2
	run.Assumption("index B-trees stay single-node (NewIndex hard-codes slot length 5000), so the postings prefix scan across node boundaries is not exercised here (cursor placement after a miss is covered on multi-node trees by C18)")
	run.Finish()
}
