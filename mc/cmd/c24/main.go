// c24: handle records round-trip (codec) and fit their disk block without overlap (registry block layout).
//
// Part A enumerates the full product of per-field edge values of sop.Handle against the real codec
// (encoding.HandleEncoder) and an independent 62-byte encoder/decoder written from the format.
// Part B drives the real on-disk registry (fs.NewRegistry on a /dev/shm folder, in-memory L2 cache), writes
// handles whose ids are built to land in every slot of chosen blocks and, after EVERY single write, reads
// the raw segment file and checks that only one 62-byte, 62-aligned slot range below the checksum area
// plus the trailing 4-byte checksum changed.
package main

import (
	"bytes"
	"context"
	"encoding/binary"
	"fmt"
	"hash/crc32"
	"math"
	"os"
	"path/filepath"
	"runtime"
	"sort"
	"sync"
	"sync/atomic"

	"github.com/sharedcode/sop"
	_ "github.com/sharedcode/sop/cache" // registers the in-memory L2 cache factory
	"github.com/sharedcode/sop/encoding"
	"github.com/sharedcode/sop/fs"
	"verif.local/mc/ev"
)

var ctx = context.Background()

// ---- the format, as read from the specification of the record (independent of the repo's codec) ----
//
//	[0,16)  LogicalID      [16,32) PhysicalIDA   [32,48) PhysicalIDB
//	[48]    IsActiveIDB (0/1)
//	[49,53) Version, little endian int32
//	[53,61) WorkInProgressTimestamp, little endian int64
//	[61]    IsDeleted (0/1)
const (
	recordSize   = 62
	slotsInBlock = 66
	diskBlock    = 4096
	crcSize      = 4
	crcOffset    = diskBlock - crcSize
)

func myEncode(h sop.Handle) [recordSize]byte {
	var b [recordSize]byte
	copy(b[0:16], h.LogicalID[:])
	copy(b[16:32], h.PhysicalIDA[:])
	copy(b[32:48], h.PhysicalIDB[:])
	if h.IsActiveIDB {
		b[48] = 1
	}
	binary.LittleEndian.PutUint32(b[49:53], uint32(h.Version))
	binary.LittleEndian.PutUint64(b[53:61], uint64(h.WorkInProgressTimestamp))
	if h.IsDeleted {
		b[61] = 1
	}
	return b
}

func myDecode(b []byte) (sop.Handle, bool) {
	var h sop.Handle
	if len(b) != recordSize {
		return h, false
	}
	copy(h.LogicalID[:], b[0:16])
	copy(h.PhysicalIDA[:], b[16:32])
	copy(h.PhysicalIDB[:], b[32:48])
	h.IsActiveIDB = b[48] == 1
	h.Version = int32(uint32(b[49]) | uint32(b[50])<<8 | uint32(b[51])<<16 | uint32(b[52])<<24)
	var ts uint64
	for i := 0; i < 8; i++ {
		ts |= uint64(b[53+i]) << (8 * i)
	}
	h.WorkInProgressTimestamp = int64(ts)
	h.IsDeleted = b[61] == 1
	return h, true
}

// diffField names the first field in which two handles differ ("" if identical).
func diffField(a, b sop.Handle) string {
	switch {
	case a.LogicalID != b.LogicalID:
		return "LogicalID"
	case a.PhysicalIDA != b.PhysicalIDA:
		return "PhysicalIDA"
	case a.PhysicalIDB != b.PhysicalIDB:
		return "PhysicalIDB"
	case a.IsActiveIDB != b.IsActiveIDB:
		return "IsActiveIDB"
	case a.Version != b.Version:
		return "Version"
	case a.WorkInProgressTimestamp != b.WorkInProgressTimestamp:
		return "WorkInProgressTimestamp"
	case a.IsDeleted != b.IsDeleted:
		return "IsDeleted"
	}
	return ""
}

type handleJSON struct {
	LogicalID, PhysicalIDA, PhysicalIDB string
	IsActiveIDB                         bool
	Version                             int32
	WorkInProgressTimestamp             int64
	IsDeleted                           bool
}

func hj(h sop.Handle) handleJSON {
	return handleJSON{h.LogicalID.String(), h.PhysicalIDA.String(), h.PhysicalIDB.String(), h.IsActiveIDB, h.Version, h.WorkInProgressTimestamp, h.IsDeleted}
}

// ---- Part A: codec ----

func singleBit(i int) sop.UUID {
	var u sop.UUID
	u[i/8] = 0x80 >> (i % 8)
	return u
}

func allFF() sop.UUID {
	var u sop.UUID
	for i := range u {
		u[i] = 0xFF
	}
	return u
}

func uuidFull() []sop.UUID {
	s := []sop.UUID{sop.NilUUID, allFF()}
	for i := 0; i < 128; i++ {
		s = append(s, singleBit(i))
	}
	return s
}

func uuidSmall() []sop.UUID {
	s := []sop.UUID{sop.NilUUID, allFF()}
	for _, i := range []int{0, 7, 63, 64, 120, 127} {
		s = append(s, singleBit(i))
	}
	return s
}

var versions = []int32{0, 1, -1, math.MinInt32, math.MaxInt32}
var stamps = []int64{0, 1, -1, math.MinInt64, math.MaxInt64}
var bools = []bool{false, true}

// checkOne runs every codec check on one handle; returns the number of codec calls made.
func checkOne(run *ev.Run, m *encoding.HandleEncoder, h sop.Handle, scratch []byte) int {
	viol := func(kind, detail string) {
		run.Violate(ev.Violation{Sig: "codec|" + kind, Detail: fmt.Sprintf("%s; handle=%+v", detail, hj(h)), Replay: map[string]any{"handle": hj(h), "check": kind}})
	}
	want := myEncode(h)
	b, err := m.Marshal(h, nil)
	if err != nil {
		viol("marshal-error", "Marshal returned error "+err.Error())
		return 1
	}
	if len(b) != recordSize {
		viol("length", fmt.Sprintf("Marshal produced %d bytes, fixed record size is %d (sop.HandleSizeInBytes=%d)", len(b), recordSize, sop.HandleSizeInBytes))
		return 1
	}
	if !bytes.Equal(b, want[:]) {
		i := 0
		for b[i] == want[i] {
			i++
		}
		viol("bytes-differ-from-format", fmt.Sprintf("Marshal output differs from the documented layout first at byte %d: got % x want % x", i, b, want[:]))
	}
	// the way the registry calls it: a reused zero-length buffer with capacity 62
	b2, err := m.Marshal(h, scratch[:0])
	if err != nil || !bytes.Equal(b2, b) {
		viol("marshal-into-buffer", fmt.Sprintf("Marshal(h, buf[:0]) = % x (err %v) differs from Marshal(h, nil) = % x", b2, err, b))
	}
	var got sop.Handle
	if err := m.Unmarshal(b, &got); err != nil {
		viol("unmarshal-error", "Unmarshal(Marshal(h)) returned error "+err.Error())
	} else if f := diffField(got, h); f != "" {
		viol("roundtrip|"+f, fmt.Sprintf("Unmarshal(Marshal(h)) differs in %s: got %+v", f, hj(got)))
	}
	if mine, ok := myDecode(b); !ok || diffField(mine, h) != "" {
		viol("independent-decoder|"+diffField(mine, h), fmt.Sprintf("independent decoder reads %+v from the repo's record % x", hj(mine), b))
	}
	var got2 sop.Handle
	if err := m.Unmarshal(want[:], &got2); err != nil || diffField(got2, h) != "" {
		viol("decode-of-independent-encoding|"+diffField(got2, h), fmt.Sprintf("repo Unmarshal of the independently encoded record gives %+v (err %v)", hj(got2), err))
	}
	lid, err := m.UnmarshalLogicalID(b)
	if err != nil || lid != h.LogicalID {
		viol("logical-id", fmt.Sprintf("UnmarshalLogicalID = %v (err %v), want %v", lid, err, h.LogicalID))
	}
	return 5
}

type codecStats struct{ handles, calls, nonEmpty int64 }

// product enumerates L x A x B x versions x stamps x bools x bools in parallel over L.
func product(run *ev.Run, L, A, B []sop.UUID, seen map[[recordSize]byte]struct{}, seenMu *sync.Mutex, track bool) codecStats {
	var st codecStats
	var wg sync.WaitGroup
	sem := make(chan struct{}, runtime.NumCPU())
	for _, l := range L {
		wg.Add(1)
		sem <- struct{}{}
		go func(l sop.UUID) {
			defer wg.Done()
			defer func() { <-sem }()
			m := encoding.NewHandleMarshaler()
			scratch := make([]byte, 0, recordSize)
			var handles, calls, nonEmpty int64
			var local [][recordSize]byte
			for _, a := range A {
				for _, b := range B {
					for _, v := range versions {
						for _, ts := range stamps {
							for _, ab := range bools {
								for _, del := range bools {
									h := sop.Handle{LogicalID: l, PhysicalIDA: a, PhysicalIDB: b, IsActiveIDB: ab, Version: v, WorkInProgressTimestamp: ts, IsDeleted: del}
									calls += int64(checkOne(run, m, h, scratch))
									handles++
									if h != (sop.Handle{}) {
										nonEmpty++
									}
									if track {
										local = append(local, myEncode(h))
									}
								}
							}
						}
					}
				}
			}
			atomic.AddInt64(&st.handles, handles)
			atomic.AddInt64(&st.calls, calls)
			atomic.AddInt64(&st.nonEmpty, nonEmpty)
			if track {
				seenMu.Lock()
				for _, e := range local {
					seen[e] = struct{}{}
				}
				seenMu.Unlock()
			}
		}(l)
	}
	wg.Wait()
	return st
}

// dirtyTarget: decoding into a target that already holds another handle must still yield the encoded handle.
func dirtyTarget(run *ev.Run) int64 {
	m := encoding.NewHandleMarshaler()
	var n int64
	small := []sop.UUID{sop.NilUUID, allFF(), singleBit(0), singleBit(127)}
	var hs []sop.Handle
	for _, l := range small {
		for _, v := range versions {
			for _, ts := range stamps {
				for _, ab := range bools {
					for _, del := range bools {
						hs = append(hs, sop.Handle{LogicalID: l, PhysicalIDA: small[(int(v)&3)], PhysicalIDB: small[(int(ts)&3)], IsActiveIDB: ab, Version: v, WorkInProgressTimestamp: ts, IsDeleted: del})
					}
				}
			}
		}
	}
	dirty := []sop.Handle{
		{LogicalID: allFF(), PhysicalIDA: allFF(), PhysicalIDB: allFF(), IsActiveIDB: true, Version: -1, WorkInProgressTimestamp: -1, IsDeleted: true},
		{LogicalID: singleBit(5), IsActiveIDB: true},
		{LogicalID: singleBit(5), IsDeleted: true},
		{Version: math.MinInt32, WorkInProgressTimestamp: math.MaxInt64, PhysicalIDB: singleBit(77)},
	}
	for _, h := range hs {
		b, _ := m.Marshal(h, nil)
		for di, d := range dirty {
			t := d
			n++
			if err := m.Unmarshal(b, &t); err != nil {
				continue
			}
			if f := diffField(t, h); f != "" {
				run.Violate(ev.Violation{Sig: "codec|decode-into-nonzero-target|" + f,
					Detail: fmt.Sprintf("Unmarshal(Marshal(h), &t) with t previously holding %+v leaves %s=%v in t although the record encodes %+v (decoder only ever sets the flag to true, never to false)", hj(d), f, map[string]bool{"IsActiveIDB": t.IsActiveIDB, "IsDeleted": t.IsDeleted}[f], hj(h)),
					Replay: map[string]any{"handle": hj(h), "target_before": hj(d), "dirty_index": di}})
			}
		}
	}
	return n
}

// ---- Part B: block layout through the real registry ----

type recordingDIO struct {
	inner  fs.DirectIO
	mu     sync.Mutex
	writes []ioRec
}
type ioRec struct {
	name string
	off  int64
	n    int
}

func (d *recordingDIO) Open(c context.Context, filename string, flag int, perm os.FileMode) (*os.File, error) {
	return d.inner.Open(c, filename, flag, perm)
}
func (d *recordingDIO) WriteAt(c context.Context, f *os.File, block []byte, off int64) (int, error) {
	d.mu.Lock()
	d.writes = append(d.writes, ioRec{f.Name(), off, len(block)})
	d.mu.Unlock()
	return d.inner.WriteAt(c, f, block, off)
}
func (d *recordingDIO) ReadAt(c context.Context, f *os.File, block []byte, off int64) (int, error) {
	return d.inner.ReadAt(c, f, block, off)
}
func (d *recordingDIO) Close(f *os.File) error { return d.inner.Close(f) }
func (d *recordingDIO) take() []ioRec {
	d.mu.Lock()
	defer d.mu.Unlock()
	w := d.writes
	d.writes = nil
	return w
}

// mkID builds an id with high%mod == block and low%66 == slot; hv/lv choose which representative.
func mkID(mod, block, slot int, hv, lv int) sop.UUID {
	var high, low uint64
	M := uint64(mod)
	switch hv % 3 {
	case 0:
		high = uint64(block)
	case 1:
		high = uint64(block) + M*3
	default:
		high = (math.MaxUint64/M-1)*M + uint64(block) // near the top of the 64-bit range
	}
	switch lv % 3 {
	case 0:
		low = uint64(slot)
	case 1:
		low = uint64(slot) + slotsInBlock*1000003
	default:
		low = (math.MaxUint64/slotsInBlock-1)*slotsInBlock + uint64(slot)
	}
	var u sop.UUID
	binary.BigEndian.PutUint64(u[:8], high)
	binary.BigEndian.PutUint64(u[8:], low)
	return u
}

func fill(b byte) sop.UUID {
	var u sop.UUID
	for i := range u {
		u[i] = b
	}
	return u
}

// handleFor gives a handle with no zero byte in the physical ids; variant flips every payload bit so that an
// update changes (nearly) every byte of the record, which makes any spill outside the slot visible.
func handleFor(id sop.UUID, i int, variant int) sop.Handle {
	h := sop.Handle{LogicalID: id}
	a, b := byte(0xA0+i%66), byte(0x11+i%66)
	if variant == 1 {
		a, b = ^a, ^b
	}
	h.PhysicalIDA, h.PhysicalIDB = fill(a), fill(b)
	h.Version = versions[(i+variant*2)%len(versions)]
	h.WorkInProgressTimestamp = stamps[(i+variant*3)%len(stamps)]
	h.IsActiveIDB = (i+variant)%2 == 0
	h.IsDeleted = (i/2+variant)%2 == 0
	return h
}

type layoutCase struct {
	Mod      int    `json:"mod"`
	Block    int    `json:"block"`
	Scenario string `json:"scenario"`
	HV       int    `json:"high_variant"`
	LV       int    `json:"low_variant"`
}

type layoutStats struct {
	writes       int64
	restScans    int64
	distinct     map[string]struct{}
	slotsReached map[int]map[int]bool // mod -> slot set
	offsets      map[int64]bool       // observed in-block slot offsets
}

type step struct {
	Op   string `json:"op"`
	Slot int    `json:"ideal_slot"`
	h    sop.Handle
}

func blockValid(b []byte) bool {
	if len(b) != diskBlock {
		return false
	}
	zero := true
	for _, x := range b {
		if x != 0 {
			zero = false
			break
		}
	}
	if zero {
		return true
	}
	return binary.LittleEndian.Uint32(b[crcOffset:]) == crc32.ChecksumIEEE(b[:crcOffset])
}

func runLayout(run *ev.Run, c layoutCase, baseRoot string, st *layoutStats) {
	base := filepath.Join(baseRoot, fmt.Sprintf("m%d_b%d_%s_%d%d", c.Mod, c.Block, c.Scenario, c.HV, c.LV))
	os.RemoveAll(base)
	const table = "t"
	if err := os.MkdirAll(filepath.Join(base, table), 0o755); err != nil {
		panic(err)
	}
	defer os.RemoveAll(base)
	l2 := sop.GetL2Cache(sop.TransactionOptions{CacheType: sop.InMemory})
	if l2 == nil {
		panic("no in-memory L2 cache registered")
	}
	l2.Clear(ctx)
	rec := &recordingDIO{inner: fs.NewDirectIO()}
	fs.DirectIOSim = rec
	rt, err := fs.NewReplicationTracker(ctx, []string{base}, false, l2)
	if err != nil {
		panic(err)
	}
	rt.SetTransactionID(sop.UUID{0xC2, 0x4})
	reg := fs.NewRegistry(true, c.Mod, rt, l2)
	defer reg.Close()
	seg1 := filepath.Join(base, table, table+"-1.reg")
	seg2 := filepath.Join(base, table, table+"-2.reg")

	viol := func(kind, detail string, steps []step) {
		run.Violate(ev.Violation{Sig: "layout|" + kind, Detail: fmt.Sprintf("%s; case=%+v after %d steps (last: %+v)", detail, c, len(steps), lastStep(steps)),
			Replay: map[string]any{"case": c, "steps": stepsJSON(steps)}})
	}

	// programme
	var prog []step
	order := make([]int, slotsInBlock)
	for i := range order {
		order[i] = i
	}
	switch c.Scenario {
	case "asc":
	case "desc":
		sort.Sort(sort.Reverse(sort.IntSlice(order)))
	case "stride": // 0,7,14,... (7 is coprime to 66): neighbours are written far apart in time
		for i := range order {
			order[i] = (i * 7) % slotsInBlock
		}
	}
	if c.Scenario == "collide" {
		// 67 different ids that all hash to the same ideal slot: the block must fill up slot by slot, the 67th goes to segment 2.
		ideal := []int{0, 33, 65}[c.LV%3]
		ids := make([]sop.UUID, 0, slotsInBlock+1)
		for i := 0; i <= slotsInBlock; i++ {
			var u sop.UUID
			binary.BigEndian.PutUint64(u[:8], uint64(c.Block)+uint64(c.Mod)*uint64(i%2))
			binary.BigEndian.PutUint64(u[8:], uint64(ideal)+slotsInBlock*uint64(i+1))
			ids = append(ids, u)
		}
		for i, id := range ids {
			prog = append(prog, step{"add", ideal, handleFor(id, i, 0)})
		}
		for i, id := range ids {
			prog = append(prog, step{"update", ideal, handleFor(id, i, 1)})
		}
		// Removal in reverse order of insertion: removing an EARLIER collider first frees a slot in front of the
		// later ones, and the registry's lookup-for-write then stops at that free slot and no longer finds the
		// later records (map semantics, property C21 - out of scope here and reported separately).
		for i := len(ids) - 1; i >= 0; i-- {
			prog = append(prog, step{"remove", ideal, handleFor(ids[i], i, 1)})
		}
	} else {
		ids := make([]sop.UUID, slotsInBlock)
		for s := 0; s < slotsInBlock; s++ {
			ids[s] = mkID(c.Mod, c.Block, s, c.HV, c.LV+s)
		}
		for _, s := range order {
			prog = append(prog, step{"add", s, handleFor(ids[s], s, 0)})
		}
		for _, s := range order {
			prog = append(prog, step{"update", s, handleFor(ids[s], s, 1)})
		}
		for _, s := range order {
			prog = append(prog, step{"updateLocked", s, handleFor(ids[s], s, 0)})
		}
		for _, s := range order {
			prog = append(prog, step{"remove", s, handleFor(ids[s], s, 0)})
		}
	}

	blockOff := int64(c.Block) * diskBlock
	segSize := int64(c.Mod) * diskBlock
	regionStart := blockOff - diskBlock
	if regionStart < 0 {
		regionStart = 0
	}
	regionEnd := blockOff + 2*diskBlock
	if regionEnd > segSize {
		regionEnd = segSize
	}
	// readRegion: the target block with its two neighbour blocks (every op). The rest of the segment is covered
	// by (a) the recorded physical writes of every op and (b) restIsZero at the end of every phase.
	readRegion := func(path string) []byte {
		f, err := os.Open(path)
		if err != nil {
			return nil
		}
		defer f.Close()
		buf := make([]byte, regionEnd-regionStart)
		if n, err := f.ReadAt(buf, regionStart); n != len(buf) {
			panic(fmt.Sprintf("short read of %s: %d %v", path, n, err))
		}
		return buf
	}
	// restIsZero walks the data extents of the (sparse, tmpfs) segment and returns the offset of the first non-zero
	// byte outside the target block, or -1.
	restIsZero := func(path string) int64 {
		f, err := os.Open(path)
		if err != nil {
			return -1
		}
		defer f.Close()
		const seekData, seekHole = 3, 4
		buf := make([]byte, 1<<16)
		pos := int64(0)
		for pos < segSize {
			d, err := f.Seek(pos, seekData)
			if err != nil { // ENXIO: no more data
				break
			}
			h, err := f.Seek(d, seekHole)
			if err != nil {
				h = segSize
			}
			for o := d; o < h; {
				n := int64(len(buf))
				if o+n > h {
					n = h - o
				}
				if _, err := f.ReadAt(buf[:n], o); err != nil {
					panic(err)
				}
				for i := int64(0); i < n; i++ {
					if buf[i] != 0 && (o+i < blockOff || o+i >= blockOff+diskBlock) {
						return o + i
					}
				}
				o += n
			}
			pos = h
		}
		return -1
	}

	model := map[string]map[int64]sop.Handle{seg1: {}, seg2: {}} // segment -> slot offset -> handle
	where := map[sop.UUID][2]any{}                               // id -> (segment, slot offset)
	prev := map[string][]byte{seg1: readRegion(seg1), seg2: readRegion(seg2)}
	var done []step
	for pi, s := range prog {
		done = append(done, s)
		payloadH := []sop.RegistryPayload[sop.Handle]{{RegistryTable: table, IDs: []sop.Handle{s.h}}}
		var err error
		func() {
			defer func() {
				if r := recover(); r != nil {
					err = fmt.Errorf("panic: %v", r)
				}
			}()
			switch s.Op {
			case "add":
				err = reg.Add(ctx, payloadH)
			case "update":
				err = reg.UpdateNoLocks(ctx, false, payloadH)
			case "updateLocked":
				err = reg.Update(ctx, payloadH)
			case "remove":
				err = reg.Remove(ctx, []sop.RegistryPayload[sop.UUID]{{RegistryTable: table, IDs: []sop.UUID{s.h.LogicalID}}})
			}
		}()
		if err != nil {
			viol("op-error|"+s.Op, "registry operation failed: "+err.Error(), done)
			return
		}
		st.writes++
		st.distinct[fmt.Sprintf("%d|%d|%s|%s|%d|%d%d", c.Mod, c.Block, c.Scenario, s.Op, len(done), c.HV, c.LV)] = struct{}{}
		// every physical write must be one whole, aligned disk block inside the segment
		for _, w := range rec.take() {
			if w.n != diskBlock || w.off%diskBlock != 0 || w.off < 0 || w.off+int64(w.n) > segSize {
				viol("write-not-one-aligned-block", fmt.Sprintf("physical write of %d bytes at offset %d of %s (segment size %d)", w.n, w.off, filepath.Base(w.name), segSize), done)
			} else if w.off != blockOff {
				viol("other-block-changed", fmt.Sprintf("physical write to block %d of %s while writing a handle whose id maps to block %d (high 64 bits mod %d)", w.off/diskBlock, filepath.Base(w.name), c.Block, c.Mod), done)
			}
		}
		changedSeg, changedSlot := "", int64(-1)
		for _, seg := range []string{seg1, seg2} {
			cur := readRegion(seg)
			old := prev[seg]
			prev[seg] = cur
			if cur == nil {
				continue
			}
			if old == nil {
				old = make([]byte, len(cur)) // a new segment starts as zeros
			}
			if fi, err := os.Stat(seg); err == nil && fi.Size() != int64(c.Mod)*diskBlock {
				viol("segment-size", fmt.Sprintf("segment %s has size %d, want hashMod*4096=%d", filepath.Base(seg), fi.Size(), int64(c.Mod)*diskBlock), done)
			}
			if len(old) != len(cur) {
				viol("segment-size", fmt.Sprintf("segment %s region changed length %d -> %d", filepath.Base(seg), len(old), len(cur)), done)
				return
			}
			for i := range cur {
				if cur[i] == old[i] {
					continue
				}
				abs := regionStart + int64(i)
				blk, in := abs/diskBlock, abs%diskBlock
				if blk != int64(c.Block) {
					viol("other-block-changed", fmt.Sprintf("byte %d of block %d changed while writing a handle that belongs to block %d", in, blk, c.Block), done)
					return
				}
				if in >= crcOffset {
					continue // checksum area: expected to change
				}
				k := in / recordSize
				if k >= slotsInBlock {
					viol("slot-beyond-block", fmt.Sprintf("changed byte %d lies in slot index %d (>= %d)", in, k, slotsInBlock), done)
					return
				}
				if changedSeg == "" {
					changedSeg, changedSlot = seg, k*recordSize
				} else if changedSeg != seg || changedSlot != k*recordSize {
					viol("more-than-one-slot-changed", fmt.Sprintf("one %s changed bytes in slot range [%d,%d) and also byte %d (slot range [%d,%d)) of %s", s.Op, changedSlot, changedSlot+recordSize, in, k*recordSize, k*recordSize+recordSize, filepath.Base(seg)), done)
					return
				}
			}
		}
		// model update: where did the record go?
		enc := myEncode(s.h)
		switch s.Op {
		case "add":
			// locate by content: the slot that now holds exactly this record
			seg, off := changedSeg, changedSlot
			if seg == "" {
				viol("add-changed-nothing", "Add returned success but no slot byte changed on disk", done)
				return
			}
			if _, taken := model[seg][off]; taken {
				viol("add-overwrote-occupied-slot", fmt.Sprintf("Add wrote into slot offset %d of %s which already held %v", off, filepath.Base(seg), model[seg][off].LogicalID), done)
				return
			}
			model[seg][off] = s.h
			where[s.h.LogicalID] = [2]any{seg, off}
			if seg == seg1 {
				if st.slotsReached[c.Mod] == nil {
					st.slotsReached[c.Mod] = map[int]bool{}
				}
				st.slotsReached[c.Mod][int(off/recordSize)] = true
				st.offsets[off] = true
			}
		case "update", "updateLocked":
			w := where[s.h.LogicalID]
			seg, off := w[0].(string), w[1].(int64)
			if changedSeg != "" && (changedSeg != seg || changedSlot != off) {
				viol("update-hit-other-slot", fmt.Sprintf("update of %v (stored at slot offset %d) changed slot offset %d", s.h.LogicalID, off, changedSlot), done)
				return
			}
			model[seg][off] = s.h
		case "remove":
			w := where[s.h.LogicalID]
			seg, off := w[0].(string), w[1].(int64)
			if changedSeg != "" && (changedSeg != seg || changedSlot != off) {
				viol("remove-hit-other-slot", fmt.Sprintf("remove of %v (stored at slot offset %d) changed slot offset %d", s.h.LogicalID, off, changedSlot), done)
				return
			}
			delete(model[seg], off)
			delete(where, s.h.LogicalID)
		}
		_ = enc
		// full decode of the block(s) with the independent decoder against the model + checksum validity
		for _, seg := range []string{seg1, seg2} {
			cur := prev[seg]
			if cur == nil {
				continue
			}
			o := blockOff - regionStart
			blk := cur[o : o+diskBlock]
			if !blockValid(blk) {
				viol("checksum-area", fmt.Sprintf("bytes [%d,%d) of the block (% x) are not the CRC32 of bytes [0,%d) (%08x)", crcOffset, diskBlock, blk[crcOffset:], crcOffset, crc32.ChecksumIEEE(blk[:crcOffset])), done)
			}
			for k := 0; k < slotsInBlock; k++ {
				off := int64(k * recordSize)
				got, _ := myDecode(blk[off : off+recordSize])
				want := model[seg][off] // zero handle when free
				if f := diffField(got, want); f != "" {
					viol("slot-content|"+f, fmt.Sprintf("slot %d of %s decodes to %+v, model says %+v", k, filepath.Base(seg), hj(got), hj(want)), done)
					return
				}
			}
		}
		// end of a phase: everything outside the target block of both segments must still be zero
		if pi == len(prog)-1 || prog[pi+1].Op != s.Op {
			for _, seg := range []string{seg1, seg2} {
				if o := restIsZero(seg); o >= 0 {
					viol("other-block-changed", fmt.Sprintf("non-zero byte at offset %d (block %d) of %s although only block %d was written", o, o/diskBlock, filepath.Base(seg), c.Block), done)
					return
				}
			}
			st.restScans++
		}
	}
}

func lastStep(s []step) any {
	if len(s) == 0 {
		return nil
	}
	l := s[len(s)-1]
	return map[string]any{"op": l.Op, "ideal_slot": l.Slot, "handle": hj(l.h)}
}

func stepsJSON(s []step) []any {
	var out []any
	for _, x := range s {
		out = append(out, map[string]any{"op": x.Op, "ideal_slot": x.Slot, "handle": hj(x.h)})
	}
	return out
}

// readBack: add handles for all slots, clear the L2 cache and fetch them through Registry.Get (repo decoder on the real file).
func readBack(run *ev.Run, mod, block int, baseRoot string) int64 {
	base := filepath.Join(baseRoot, fmt.Sprintf("rb_m%d_b%d", mod, block))
	os.RemoveAll(base)
	os.MkdirAll(filepath.Join(base, "t"), 0o755)
	defer os.RemoveAll(base)
	l2 := sop.GetL2Cache(sop.TransactionOptions{CacheType: sop.InMemory})
	l2.Clear(ctx)
	fs.DirectIOSim = nil
	rt, err := fs.NewReplicationTracker(ctx, []string{base}, false, l2)
	if err != nil {
		panic(err)
	}
	reg := fs.NewRegistry(true, mod, rt, l2)
	defer reg.Close()
	var n int64
	var hs []sop.Handle
	var ids []sop.UUID
	for s := 0; s < slotsInBlock; s++ {
		h := handleFor(mkID(mod, block, s, s, s/3), s, s%2)
		hs = append(hs, h)
		ids = append(ids, h.LogicalID)
	}
	if err := reg.Add(ctx, []sop.RegistryPayload[sop.Handle]{{RegistryTable: "t", IDs: hs}}); err != nil {
		run.Violate(ev.Violation{Sig: "layout|op-error|add-batch", Detail: err.Error(), Replay: map[string]any{"mod": mod, "block": block}})
		return 0
	}
	l2.Clear(ctx)
	reg2 := fs.NewRegistry(false, mod, rt, l2)
	defer reg2.Close()
	got, err := reg2.Get(ctx, []sop.RegistryPayload[sop.UUID]{{RegistryTable: "t", IDs: ids}})
	if err != nil || len(got) != 1 {
		run.Violate(ev.Violation{Sig: "layout|op-error|get", Detail: fmt.Sprint(err), Replay: map[string]any{"mod": mod, "block": block}})
		return 0
	}
	byID := map[sop.UUID]sop.Handle{}
	for _, h := range got[0].IDs {
		byID[h.LogicalID] = h
	}
	for _, h := range hs {
		n++
		g, ok := byID[h.LogicalID]
		if !ok || diffField(g, h) != "" {
			run.Violate(ev.Violation{Sig: "layout|readback|" + diffField(g, h), Detail: fmt.Sprintf("handle written to a full block reads back (fresh registry, empty cache) as %+v found=%v, want %+v", hj(g), ok, hj(h)),
				Replay: map[string]any{"mod": mod, "block": block, "handle": hj(h)}})
		}
	}
	l2.Clear(ctx)
	return n
}

func main() {
	run := ev.New("C24", "exploration")
	thorough := run.Thorough()

	// ---- Part A ----
	full, small := uuidFull(), uuidSmall()
	seen := map[[recordSize]byte]struct{}{}
	var seenMu sync.Mutex
	var total codecStats
	add := func(s codecStats) {
		total.handles += s.handles
		total.calls += s.calls
		total.nonEmpty += s.nonEmpty
	}
	var distinctCodec int64
	if thorough {
		// the full product 130^3 x 5 x 5 x 2 x 2; all tuples are distinct by construction (distinct field values per axis)
		s := product(run, full, full, full, nil, nil, false)
		add(s)
		distinctCodec = s.handles
		run.Set("codec_enumeration", "full product: 130 LogicalID x 130 PhysicalIDA x 130 PhysicalIDB x 5 Version x 5 Timestamp x 2 x 2")
	} else {
		// full 130-value set on one id field at a time, the 8-value subset on the two others; distinct encodings are counted
		add(product(run, full, small, small, seen, &seenMu, true))
		add(product(run, small, full, small, seen, &seenMu, true))
		add(product(run, small, small, full, seen, &seenMu, true))
		distinctCodec = int64(len(seen))
		run.Set("codec_enumeration", "union of 3 products: the 130-value id set on one id field x the 8-value id subset on the other two x 5 Version x 5 Timestamp x 2 x 2 (thorough tier: full 130^3 product)")
	}
	nd := dirtyTarget(run)
	run.Set("codec_handles_checked", total.handles)
	run.Set("codec_distinct_handles", distinctCodec)
	run.Set("codec_calls", total.calls+nd)
	run.Set("codec_decode_into_nonzero_target_cases", nd)
	run.Sample(map[string]any{"part": "codec", "handle": hj(sop.Handle{LogicalID: singleBit(64), PhysicalIDA: allFF(), Version: math.MinInt32, WorkInProgressTimestamp: math.MinInt64, IsDeleted: true}),
		"record_hex": fmt.Sprintf("% x", myEncode(sop.Handle{LogicalID: singleBit(64), PhysicalIDA: allFF(), Version: math.MinInt32, WorkInProgressTimestamp: math.MinInt64, IsDeleted: true}))})

	// static arithmetic facts of the layout as observed constants
	if sop.HandleSizeInBytes != recordSize {
		run.Violate(ev.Violation{Sig: "codec|length", Detail: fmt.Sprintf("sop.HandleSizeInBytes=%d but the record format is %d bytes", sop.HandleSizeInBytes, recordSize), Replay: map[string]any{}})
	}

	// ---- Part B ----
	baseRoot := fmt.Sprintf("/dev/shm/c24_%d", os.Getpid())
	os.RemoveAll(baseRoot)
	defer os.RemoveAll(baseRoot)
	st := &layoutStats{distinct: map[string]struct{}{}, slotsReached: map[int]map[int]bool{}, offsets: map[int64]bool{}}
	mods := []int{fs.MinimumModValue, 251, fs.MaximumModValue}
	var cases []layoutCase
	for _, mod := range mods {
		blocks := []int{0, 1, mod - 1}
		if thorough {
			blocks = []int{0, 1, 2, mod / 2, mod - 2, mod - 1}
		}
		for bi, b := range blocks {
			scen := []string{"asc", "desc", "stride", "collide"}
			for si, sc := range scen {
				if thorough {
					for hv := 0; hv < 3; hv++ {
						for lv := 0; lv < 3; lv++ {
							cases = append(cases, layoutCase{mod, b, sc, hv, lv})
						}
					}
				} else {
					cases = append(cases, layoutCase{mod, b, sc, bi + si, bi*2 + si})
				}
			}
		}
	}
	for i, c := range cases {
		runLayout(run, c, baseRoot, st)
		if i < 3 {
			run.Sample(map[string]any{"part": "layout", "case": c})
		}
	}
	var rb int64
	for _, mod := range mods {
		for _, b := range []int{0, mod - 1} {
			rb += readBack(run, mod, b, baseRoot)
		}
	}
	fs.DirectIOSim = nil
	os.RemoveAll(baseRoot)

	// slot ranges observed: pairwise disjoint, 62-aligned, below the checksum area, and all 66 reached
	var offs []int64
	for o := range st.offsets {
		offs = append(offs, o)
	}
	sort.Slice(offs, func(i, j int) bool { return offs[i] < offs[j] })
	for i, o := range offs {
		if o%recordSize != 0 || o < 0 || o+recordSize > crcOffset {
			run.Violate(ev.Violation{Sig: "layout|slot-range", Detail: fmt.Sprintf("observed slot range [%d,%d) is not 62-aligned or reaches into the checksum area [%d,%d)", o, o+recordSize, crcOffset, diskBlock), Replay: map[string]any{"offset": o}})
		}
		if i > 0 && offs[i-1]+recordSize > o {
			run.Violate(ev.Violation{Sig: "layout|slot-range", Detail: fmt.Sprintf("observed slot ranges [%d,%d) and [%d,%d) overlap", offs[i-1], offs[i-1]+recordSize, o, o+recordSize), Replay: map[string]any{"offsets": []int64{offs[i-1], o}}})
		}
	}
	for _, mod := range mods {
		if n := len(st.slotsReached[mod]); n != slotsInBlock {
			run.NotExhaustive(fmt.Sprintf("hash mod %d: only %d of %d slots were reached by the constructed ids", mod, n, slotsInBlock))
		}
	}
	if slotsInBlock*recordSize+crcSize > diskBlock {
		run.Violate(ev.Violation{Sig: "layout|slot-range", Detail: "66*62+4 > 4096", Replay: map[string]any{}})
	}
	run.Set("layout_cases", len(cases))
	run.Set("layout_single_slot_writes_checked", st.writes)
	run.Set("layout_distinct_slot_offsets_observed", len(offs))
	run.Set("layout_whole_segment_scans", st.restScans)
	run.Set("layout_hash_mods", mods)
	run.Set("layout_readback_handles", rb)
	run.Add("evaluations", total.calls+nd+st.writes+rb)
	run.Set("distinct_nontrivial", distinctCodec-1+int64(len(st.distinct)))
	run.Set("rule", "codec: every tuple of the per-field edge sets is one case (distinct tuples; the all-zero handle is the only trivial one and is subtracted); layout: one case = (hash mod, block, scenario, id representative, step) where a step is one Add/UpdateNoLocks/Update/Remove of a single handle through fs.NewRegistry followed by a raw diff of the segment file; scenarios: ascending, descending, stride-7 slot order and 67 ids colliding on one ideal slot")
	run.Assumption("block layout is observed from outside (raw .reg bytes after each exported Registry call, and the block writes seen by a recording fs.DirectIOSim); the unexported offset function is not called directly")
	run.Assumption("the checksum area is identified as the 4 bytes that hold the little-endian CRC32-IEEE of the preceding 4092 bytes (an all-zero block counts as valid, as the format defines)")
	run.Assumption("segment files live on tmpfs (/dev/shm, O_DIRECT accepted); after every op the target block and its two neighbour blocks are diffed and every physical block write is checked to address the target block; the rest of each (sparse) segment is scanned for non-zero bytes via SEEK_DATA at the end of each add/update/remove phase")
	run.Assumption("decode-into-nonzero-target cases treat Unmarshal(data,&t) as 'decode', i.e. t must equal the encoded handle whatever t held before")
	run.Finish()
}
