package main

import (
	"context"
	"fmt"
	"os"

	"github.com/sharedcode/sop"
	"github.com/sharedcode/sop/fs"
	"github.com/sharedcode/sop/infs"
)

func main() {
	ctx := context.Background()
	dir := "/dev/shm/zzrepro"
	os.RemoveAll(dir)
	os.MkdirAll(dir, 0o755)
	defer os.RemoveAll(dir)
	opts := func(m sop.TransactionMode) sop.TransactionOptions {
		return sop.TransactionOptions{Mode: m, StoresFolders: []string{dir}, CacheType: sop.InMemory, RegistryHashModValue: fs.MinimumModValue}
	}
	tx, _ := infs.NewTransaction(ctx, opts(sop.ForWriting))
	tx.Begin(ctx)
	b, err := infs.NewBtree[int, string](ctx, sop.StoreOptions{Name: "t", SlotLength: 2, IsUnique: true, IsValueDataInNodeSegment: true, LeafLoadBalancing: true}, tx, nil)
	if err != nil {
		panic(err)
	}
	for k := 0; k < 10; k++ {
		b.Add(ctx, k, fmt.Sprint("v", k))
	}
	fmt.Println("commit1:", tx.Commit(ctx))
	tx, _ = infs.NewTransaction(ctx, opts(sop.ForWriting))
	tx.Begin(ctx)
	b, _ = infs.OpenBtree[int, string](ctx, "t", tx, nil)
	for _, k := range []int{0, 1, 5, 7} {
		ok, err := b.Remove(ctx, k)
		fmt.Println("remove", k, ok, err)
	}
	ok, err := b.Add(ctx, 7, "new7")
	fmt.Println("add 0:", ok, err)
	fmt.Println("commit2:", tx.Commit(ctx))
	tx, _ = infs.NewTransaction(ctx, opts(sop.ForReading))
	tx.Begin(ctx)
	b, _ = infs.OpenBtree[int, string](ctx, "t", tx, nil)
	fmt.Println("count:", b.Count())
	ok, err = b.First(ctx)
	for ok && err == nil {
		k := b.GetCurrentKey().Key
		v, e := b.GetCurrentValue(ctx)
		fmt.Printf("  %d=%q err=%v\n", k, v, e)
		ok, err = b.Next(ctx)
	}
	fmt.Println("scan end:", ok, err)
	tx.Commit(ctx)
}
