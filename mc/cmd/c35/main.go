// c35: launcher for the C35 check (session tokens cannot be forged, outlive expiry, or survive logout).
//
// The code under test lives in `package main` of /repo/tools/httpserver, so the harness is an in-package test file
// (zz_verif_c35_test.go.src, embedded here) that is injected with `go test -c -overlay`; /repo is never edited.
// This launcher
//  1. generates a copy of the CURRENT /repo/tools/httpserver/auth.go in which `time.Now()` is replaced by
//     `vhook.Now()` (virtual clock) - exit 2 if `time.Now()` no longer occurs,
//  2. writes the merged overlay JSON (instrumentation overlay + auth.go copy + injected test file),
//  3. builds /verif/bin/c35.test with `go1.26.8 test -c`,
//  4. runs it (`-test.run ^TestVerifC35$`, tier via VERIF_TIER) and exits with its exit code.
//
// Usage: c35 [C35] [quick|thorough] [--replay <replays/C35_n.json>] [mut=<name>]
// mut=<name> (detection demo only): additionally applies a named textual mutation to the auth.go COPY, builds
// bin/c35_mut.test and makes the harness write its evidence/replays under /tmp/c35_mut_<name> instead of /verif.
package main

import (
	_ "embed"
	"encoding/json"
	"fmt"
	"os"
	"os/exec"
	"path/filepath"
	"sort"
	"strings"
)

//go:embed zz_verif_c35_test.go.src
var harnessSrc []byte

const (
	pkgDir  = "/repo/tools/httpserver"
	pkgPath = "github.com/sharedcode/sop/tools/httpserver"
)

type mutation struct {
	old, new, what string
	more           [][2]string // further (old, new) edits of the same mutation
}

// Named mutations of auth.go for the detection demonstration (each must apply exactly once).
var mutations = map[string]mutation{
	"alg-none": {
		old:  "\tif !hmac.Equal([]byte(signature), []byte(expected)) {",
		new:  "\tif hb, _ := base64urlDecode(header); !strings.Contains(string(hb), `\"alg\":\"none\"`) && !hmac.Equal([]byte(signature), []byte(expected)) {",
		what: "signature not checked when the header says alg none",
	},
	"skip-expiry": {
		old:  "\tif vhook.Now().UTC().Unix() >= claims.ExpiresAt {",
		new:  "\tif false && vhook.Now().UTC().Unix() >= claims.ExpiresAt {",
		what: "signed-token expiry compare dropped",
	},
	"skip-signature": {
		old:  "\tif !hmac.Equal([]byte(signature), []byte(expected)) {",
		new:  "\tif false && !hmac.Equal([]byte(signature), []byte(expected)) {",
		what: "signature compare dropped",
	},
	"sig-prefix": {
		old:  "\tif !hmac.Equal([]byte(signature), []byte(expected)) {",
		new:  "\tif len(signature) < 8 || !strings.HasPrefix(expected, signature) {",
		what: "signature compared as a prefix (truncated signatures accepted)",
	},
	"keep-old-refresh": {
		old:  "\tstore.Remove(ctx, r.Token)\n\tstore.Remove(ctx, r.RefreshToken)\n\n\tif err := tx.Commit(ctx); err != nil {\n\t\treturn \"\", \"\", fmt.Errorf(\"failed to commit refresh: %v\", err)",
		new:  "\tstore.Remove(ctx, r.Token)\n\n\tif err := tx.Commit(ctx); err != nil {\n\t\treturn \"\", \"\", fmt.Errorf(\"failed to commit refresh: %v\", err)",
		what: "Refresh no longer removes the old refresh token",
	},
	// Not a mutation: the patch proposed in the C35 report, to show that the check is clean on a tree that
	// satisfies the statement (no false positives) and that nothing else hides behind the reported findings.
	"proposed-fix": {
		old:  "\tif claims, err := parseAndVerifySignedAccessToken(token); err == nil {\n\t\treturn &UserRecord{Username: claims.Subject, Role: claims.Role}, nil\n\t}\n",
		new:  "\tif _, err := parseAndVerifySignedAccessToken(token); err != nil {\n\t\treturn nil, err\n\t}\n",
		what: "ValidateToken: signature+expiry necessary, session table decides; Refresh: new access token gets now+ttl",
		more: [][2]string{
			{"\taccessToken, err := signAccessToken(r.Username, r.Role, now, r.ExpiresAt, opaqueAccessToken)", "\taccessToken, err := signAccessToken(r.Username, r.Role, now, now.Add(s.ttl), opaqueAccessToken)"},
			{"\t\tExpiresAt:        r.ExpiresAt,\n\t\tRefreshExpiresAt: r.RefreshExpiresAt,", "\t\tExpiresAt:        now.Add(s.ttl),\n\t\tRefreshExpiresAt: r.RefreshExpiresAt,"},
		},
	},
	"store-expiry-off-by-ttl": {
		old:  "\tnow := vhook.Now().UTC()\n\tif now.After(r.ExpiresAt) {\n\t\tlog.Debug(\"ValidateToken: expired session\",",
		new:  "\tnow := vhook.Now().UTC()\n\tif now.After(r.ExpiresAt.Add(s.ttl)) {\n\t\tlog.Debug(\"ValidateToken: expired session\",",
		what: "store fallback path honours expired session records for one more ttl",
	},
}

func fail(format string, a ...any) {
	fmt.Fprintf(os.Stderr, "C35 HARNESS/BUILD FAILURE (not a property verdict): "+format+"\n", a...)
	os.Exit(2)
}

func main() {
	root := "/verif"
	if exe, err := os.Executable(); err == nil {
		if d := filepath.Dir(filepath.Dir(exe)); fileExists(filepath.Join(d, "go.work")) {
			root = d
		}
	}
	tier := os.Getenv("VERIF_TIER")
	mutName, replay := "", ""
	for i, a := range os.Args[1:] {
		switch {
		case a == "--replay" && i+2 < len(os.Args):
			replay = os.Args[i+2]
		case a == "quick" || a == "thorough":
			tier = a
		case strings.HasPrefix(a, "mut="):
			mutName = a[4:]
		}
	}
	if tier != "thorough" {
		tier = "quick"
	}
	work := filepath.Join(root, "bin", "c35.d")
	out := filepath.Join(root, "bin", "c35.test")
	if mutName != "" {
		work = filepath.Join(root, "bin", "c35_mut.d")
		out = filepath.Join(root, "bin", "c35_mut.test")
	}
	if err := os.MkdirAll(work, 0o755); err != nil {
		fail("%v", err)
	}

	// 1. auth.go copy with the virtual clock
	authPath := filepath.Join(pkgDir, "auth.go")
	srcB, err := os.ReadFile(authPath)
	if err != nil {
		fail("cannot read %s: %v", authPath, err)
	}
	src := string(srcB)
	n := strings.Count(src, "time.Now()")
	if n == 0 {
		fail("%s no longer contains `time.Now()`; the virtual-clock transformation has nothing to replace - adapt the launcher", authPath)
	}
	src = strings.ReplaceAll(src, "time.Now()", "vhook.Now()")
	const anchor = "import (\n"
	if strings.Count(src, anchor) != 1 {
		fail("%s: expected exactly one `import (` block", authPath)
	}
	src = strings.Replace(src, anchor, anchor+"\tvhook \"verif.local/mc/vhook\"\n", 1)
	if mutName != "" {
		m, ok := mutations[mutName]
		if !ok {
			var names []string
			for k := range mutations {
				names = append(names, k)
			}
			sort.Strings(names)
			fail("unknown mutation %q (known: %s)", mutName, strings.Join(names, ", "))
		}
		for _, e := range append([][2]string{{m.old, m.new}}, m.more...) {
			if strings.Count(src, e[0]) != 1 {
				fail("mutation %q does not apply exactly once to the current auth.go (edit %q)", mutName, e[0])
			}
			src = strings.Replace(src, e[0], e[1], 1)
		}
		fmt.Printf("c35: DETECTION DEMO - auth.go copy mutated (%s): %s\n", mutName, m.what)
	}
	authCopy := filepath.Join(work, "auth.go")
	testCopy := filepath.Join(work, "zz_verif_c35_test.go")
	if err := os.WriteFile(authCopy, []byte(src), 0o644); err != nil {
		fail("%v", err)
	}
	if err := os.WriteFile(testCopy, harnessSrc, 0o644); err != nil {
		fail("%v", err)
	}

	// 2. merged overlay
	baseOverlay := filepath.Join(root, "bin", "overlay", "overlay.json")
	b, err := os.ReadFile(baseOverlay)
	if err != nil {
		fail("cannot read %s (run `python3 tools/instr.py bin/overlay` in %s first): %v", baseOverlay, root, err)
	}
	var ov struct {
		Replace map[string]string `json:"Replace"`
	}
	if err := json.Unmarshal(b, &ov); err != nil {
		fail("%s: %v", baseOverlay, err)
	}
	merged := map[string]string{}
	for k, v := range ov.Replace {
		if v != "" && !filepath.IsAbs(v) {
			v = filepath.Join(root, v)
		}
		merged[k] = v
	}
	if _, dup := merged[authPath]; dup {
		fail("the instrumentation overlay already replaces %s", authPath)
	}
	merged[authPath] = authCopy
	merged[filepath.Join(pkgDir, "zz_verif_c35_test.go")] = testCopy
	mb, _ := json.MarshalIndent(map[string]any{"Replace": merged}, "", " ")
	overlayPath := filepath.Join(work, "overlay.json")
	if err := os.WriteFile(overlayPath, mb, 0o644); err != nil {
		fail("%v", err)
	}

	// 3. build the test binary
	env := append(os.Environ(), "GOTOOLCHAIN=local", "GOPROXY=off", "GOSUMDB=off", "GOFLAGS=", "GOWORK="+filepath.Join(root, "go.work"))
	build := exec.Command("go1.26.8", "test", "-c", "-vet=off", "-overlay", overlayPath, "-o", out, pkgPath)
	build.Dir = root
	build.Env = env
	if bo, err := build.CombinedOutput(); err != nil {
		os.WriteFile(filepath.Join(work, "buildlog"), bo, 0o644)
		tail := string(bo)
		if len(tail) > 6000 {
			tail = tail[len(tail)-6000:]
		}
		fail("go test -c failed: %v\n%s", err, tail)
	}

	if os.Getenv("C35_BUILD_ONLY") != "" { // setup.sh: warm the build cache only
		os.Exit(0)
	}
	// 4. run
	run := exec.Command(out, "-test.run", "^TestVerifC35$", "-test.timeout", "0")
	run.Dir = root
	run.Env = append(env, "VERIF_TIER="+tier)
	if replay != "" {
		if abs, err := filepath.Abs(replay); err == nil {
			replay = abs
		}
		run.Env = append(run.Env, "C35_REPLAY="+replay)
	}
	if mutName != "" {
		mroot := "/tmp/c35_mut_" + mutName
		os.RemoveAll(mroot)
		os.MkdirAll(mroot, 0o755)
		// the known-findings protocol still applies, so that only NEW violations make a mutant fail
		if kb, err := os.ReadFile(filepath.Join(root, "known_findings.json")); err == nil {
			os.WriteFile(filepath.Join(mroot, "known_findings.json"), kb, 0o644)
		}
		run.Env = append(run.Env, "VERIF_ROOT="+mroot)
	}
	run.Stdout = os.Stdout
	run.Stderr = os.Stderr
	err = run.Run()
	if err == nil {
		os.Exit(0)
	}
	if ee, ok := err.(*exec.ExitError); ok && ee.ExitCode() >= 0 {
		os.Exit(ee.ExitCode())
	}
	fail("cannot run %s: %v", out, err)
}

func fileExists(p string) bool { _, err := os.Stat(p); return err == nil }
