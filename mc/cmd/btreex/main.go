// btreex: explicit-state exploration of the real btree.Btree (C17) and cursor/search checks in
// every reached state (C18). Every transition executes on the implementation.
package main

import (
	"encoding/json"
	"context"
	"fmt"
	"os"
	"sort"
	"strings"
	"time"

	"github.com/sharedcode/sop"
	"github.com/sharedcode/sop/btree"
	"github.com/sharedcode/sop/inmemory"
	"verif.local/mc/detuuid"
	"verif.local/mc/ev"
)

var ctx = context.Background()

// Key: ordering is by K only (comparer below); M is key metadata that UpdateKey may change.
type Key struct{ K, M int }

func cmpKey(a, b Key) int {
	if a.K < b.K {
		return -1
	}
	if a.K > b.K {
		return 1
	}
	return 0
}

type repo struct{ m map[sop.UUID]*btree.Node[Key, int] }

func (r *repo) Add(n *btree.Node[Key, int])    { r.m[n.ID] = n }
func (r *repo) Update(n *btree.Node[Key, int]) { r.m[n.ID] = n }
func (r *repo) Get(_ context.Context, id sop.UUID) (*btree.Node[Key, int], error) {
	return r.m[id], nil
}
func (r *repo) Fetched(sop.UUID)   {}
func (r *repo) Remove(id sop.UUID) { delete(r.m, id) }

type iat struct{}

func (iat) Add(context.Context, *btree.Item[Key, int]) error    { return nil }
func (iat) Get(context.Context, *btree.Item[Key, int]) error    { return nil }
func (iat) Update(context.Context, *btree.Item[Key, int]) error { return nil }
func (iat) Remove(context.Context, *btree.Item[Key, int]) error { return nil }

type config struct {
	Slot   int
	Unique bool
	LLB    bool
	Keys   int
	MaxDup int // max items per key (duplicates config)
	Depth  int
	// Prefill: the exploration starts from the tree obtained by adding keys 0..Prefill-1 in ascending order
	// (a non-initial start state: tall trees are out of reach of a shallow search from the empty tree).
	Prefill int
	// Ops restricts the alphabet (nil = all operations).
	Ops []string
}

func (c config) String() string {
	return fmt.Sprintf("slot=%d unique=%v llb=%v keys=%d maxdup=%d depth=%d prefill=%d ops=%d", c.Slot, c.Unique, c.LLB, c.Keys, c.MaxDup, c.Depth, c.Prefill, len(c.Ops))
}

type inst struct {
	b *btree.Btree[Key, int]
	r *repo
}

func newInst(c config) *inst {
	detuuid.Reset(1)
	so := sop.StoreOptions{Name: "t", SlotLength: c.Slot, IsUnique: c.Unique, IsValueDataInNodeSegment: true, LeafLoadBalancing: c.LLB}
	si := sop.NewStoreInfo(so)
	r := &repo{m: map[sop.UUID]*btree.Node[Key, int]{}}
	b, err := btree.New[Key, int](si, &btree.StoreInterface[Key, int]{NodeRepository: r, ItemActionTracker: iat{}}, cmpKey)
	if err != nil {
		panic(err)
	}
	in := &inst{b: b, r: r}
	for k := 0; k < c.Prefill; k++ {
		in.apply(op{"Add", k})
	}
	return in
}

// ---- operations ----

type op struct {
	Name string
	K    int
}

func (o op) String() string { return fmt.Sprintf("%s(%d)", o.Name, o.K) }

var opNames = []string{"Add", "AddIfNotExist", "Remove", "Update", "Upsert", "UpdateKey", "FindRemoveCurrent", "FindUpdateCurrentKeySame", "FindUpdateCurrentKeyMove", "FindUpdateCurrentValue", "FindUpdateCurrentItemMove"}

type item struct{ K, M, V int }

// apply runs o on the implementation; returns (result, errored).
func (in *inst) apply(o op) (bool, bool) {
	b := in.b
	var ok bool
	var err error
	switch o.Name {
	case "Add":
		ok, err = b.Add(ctx, Key{o.K, 0}, 0)
	case "AddIfNotExist":
		ok, err = b.AddIfNotExist(ctx, Key{o.K, 0}, 0)
	case "Remove":
		ok, err = b.Remove(ctx, Key{o.K, 9})
	case "Update":
		ok, err = b.Update(ctx, Key{o.K, 1}, 1)
	case "Upsert":
		ok, err = b.Upsert(ctx, Key{o.K, 1}, 1)
	case "UpdateKey":
		ok, err = b.UpdateKey(ctx, Key{o.K, 1})
	case "FindRemoveCurrent":
		if ok, err = b.Find(ctx, Key{o.K, 0}, true); ok && err == nil {
			ok, err = b.RemoveCurrentItem(ctx)
		}
	case "FindUpdateCurrentKeySame":
		if ok, err = b.Find(ctx, Key{o.K, 0}, true); ok && err == nil {
			ok, err = b.UpdateCurrentKey(ctx, Key{o.K, 1})
		}
	case "FindUpdateCurrentKeyMove":
		if ok, err = b.Find(ctx, Key{o.K, 0}, false); ok && err == nil {
			ok, err = b.UpdateCurrentKey(ctx, Key{o.K + 1, 5})
		}
	case "FindUpdateCurrentValue":
		if ok, err = b.Find(ctx, Key{o.K, 0}, false); ok && err == nil {
			ok, err = b.UpdateCurrentValue(ctx, 1)
		}
	case "FindUpdateCurrentItemMove":
		if ok, err = b.Find(ctx, Key{o.K, 0}, false); ok && err == nil {
			ok, err = b.UpdateCurrentItem(ctx, Key{o.K - 1, 6}, 6)
		}
	default:
		panic(o.Name)
	}
	return ok, err != nil
}

// expect: given the model contents before (sorted multiset), return (expected result, errAllowed,
// predicate over the after-multiset).
func count(ms []item, k int) int {
	n := 0
	for _, it := range ms {
		if it.K == k {
			n++
		}
	}
	return n
}

func msKey(ms []item) string {
	s := append([]item(nil), ms...)
	sort.Slice(s, func(i, j int) bool {
		if s[i].K != s[j].K {
			return s[i].K < s[j].K
		}
		if s[i].M != s[j].M {
			return s[i].M < s[j].M
		}
		return s[i].V < s[j].V
	})
	return fmt.Sprint(s)
}

// possibleAfter enumerates the model's allowed after-states (as canonical multiset keys) and the expected result.
func possibleAfter(c config, before []item, o op) (res bool, mustErr bool, afters map[string]bool) {
	afters = map[string]bool{}
	same := func() { afters[msKey(before)] = true }
	n := count(before, o.K)
	replaceOne := func(f func(item) item) {
		for i, it := range before {
			if it.K == o.K {
				a := append([]item(nil), before...)
				a[i] = f(it)
				afters[msKey(a)] = true
			}
		}
	}
	removeOne := func() {
		for i, it := range before {
			if it.K == o.K {
				a := append(append([]item(nil), before[:i]...), before[i+1:]...)
				afters[msKey(a)] = true
			}
		}
	}
	switch o.Name {
	case "Add":
		if c.Unique && n > 0 {
			same()
			return false, false, afters
		}
		afters[msKey(append(append([]item(nil), before...), item{o.K, 0, 0}))] = true
		return true, false, afters
	case "AddIfNotExist":
		if n > 0 {
			same()
			return false, false, afters
		}
		afters[msKey(append(append([]item(nil), before...), item{o.K, 0, 0}))] = true
		return true, false, afters
	case "Remove", "FindRemoveCurrent":
		if n == 0 {
			same()
			return false, false, afters
		}
		removeOne()
		return true, false, afters
	case "Update":
		if n == 0 {
			same()
			return false, false, afters
		}
		replaceOne(func(it item) item { return item{it.K, 1, 1} })
		return true, false, afters
	case "Upsert":
		if n == 0 {
			afters[msKey(append(append([]item(nil), before...), item{o.K, 1, 1}))] = true
			return true, false, afters
		}
		replaceOne(func(it item) item { return item{it.K, 1, 1} })
		return true, false, afters
	case "UpdateKey":
		if n == 0 {
			same()
			return false, false, afters
		}
		replaceOne(func(it item) item { return item{it.K, 1, it.V} })
		return true, false, afters
	case "FindUpdateCurrentKeySame":
		if n == 0 {
			same()
			return false, false, afters
		}
		replaceOne(func(it item) item { return item{it.K, 1, it.V} })
		return true, false, afters
	case "FindUpdateCurrentValue":
		if n == 0 {
			same()
			return false, false, afters
		}
		replaceOne(func(it item) item { return item{it.K, it.M, 1} })
		return true, false, afters
	case "FindUpdateCurrentKeyMove", "FindUpdateCurrentItemMove":
		// order-changing key update: must be rejected (false; an error is the documented way) and harmless.
		same()
		return false, n > 0, afters
	}
	panic(o.Name)
}

// ---- observation of the implementation ----

type walk struct {
	items   []item
	ids     []sop.UUID
	shape   strings.Builder
	problem string
	seen    map[sop.UUID]bool
}

func (w *walk) node(in *inst, id, parent sop.UUID, depth int, c config) {
	n := in.r.m[id]
	if n == nil {
		w.problem = fmt.Sprintf("child id %v not in repository", id)
		return
	}
	if w.seen[id] {
		w.problem = fmt.Sprintf("node %v reachable twice", id)
		return
	}
	w.seen[id] = true
	if n.ParentID != parent {
		w.problem = fmt.Sprintf("node %v ParentID=%v want %v", id, n.ParentID, parent)
	}
	if n.Count > c.Slot || n.Count < 0 || n.Count > len(n.Slots) {
		w.problem = fmt.Sprintf("node %v Count=%d slotLength=%d", id, n.Count, c.Slot)
		return
	}
	if len(n.ChildrenIDs) > 0 && len(n.ChildrenIDs) < n.Count+1 {
		w.problem = fmt.Sprintf("node %v has %d children ids for %d items", id, len(n.ChildrenIDs), n.Count)
		return
	}
	w.shape.WriteString("(")
	for i := 0; i <= n.Count; i++ {
		if len(n.ChildrenIDs) > 0 {
			cid := n.ChildrenIDs[i]
			if cid.IsNil() {
				w.shape.WriteString("_")
			} else {
				w.node(in, cid, id, depth+1, c)
			}
		}
		if i < n.Count {
			it := n.Slots[i]
			v := -1
			if it.Value != nil {
				v = *it.Value
			}
			w.items = append(w.items, item{it.Key.K, it.Key.M, v})
			w.ids = append(w.ids, it.ID)
			fmt.Fprintf(&w.shape, "%d.%d.%d ", it.Key.K, it.Key.M, v)
		}
	}
	w.shape.WriteString(")")
}

func (in *inst) observe(c config) *walk {
	w := &walk{seen: map[sop.UUID]bool{}}
	root := in.b.StoreInfo.RootNodeID
	if root.IsNil() {
		return w
	}
	if in.r.m[root] == nil {
		if in.b.StoreInfo.Count != 0 {
			w.problem = "root id set but root node missing"
		}
		return w
	}
	w.node(in, root, sop.NilUUID, 0, c)
	if w.problem == "" && len(w.seen) != len(in.r.m) {
		// nodes in the repository that are not reachable: leaked nodes (reported separately, see main).
		w.shape.WriteString(fmt.Sprintf("|leaked=%d", len(in.r.m)-len(w.seen)))
	}
	return w
}

func (in *inst) cursorPos(w *walk) int {
	ck := in.b.GetCurrentKey()
	if ck.ID.IsNil() {
		return -1
	}
	for i, id := range w.ids {
		if id == ck.ID {
			return i
		}
	}
	return -2
}

func (in *inst) scan(forward bool) ([]item, string) {
	var out []item
	b := in.b
	var ok bool
	var err error
	if forward {
		ok, err = b.First(ctx)
	} else {
		ok, err = b.Last(ctx)
	}
	guard := 0
	for ok && err == nil {
		it, e := b.GetCurrentItem(ctx)
		if e != nil {
			return out, "GetCurrentItem error: " + e.Error()
		}
		v := -1
		if it.Value != nil {
			v = *it.Value
		}
		out = append(out, item{it.Key.K, it.Key.M, v})
		if forward {
			ok, err = b.Next(ctx)
		} else {
			ok, err = b.Previous(ctx)
		}
		guard++
		if guard > 1000 {
			return out, "scan does not terminate"
		}
	}
	if err != nil {
		return out, "scan error: " + err.Error()
	}
	return out, ""
}

type state struct {
	path []op
	ms   []item // in-order contents
}

type result struct {
	states, transitions, maxDepth int
	fixpoint                      bool
	c18probes, c18distinct        int
	leakedStates                  int
}

func explore(c config, run17, run18 *ev.Run, maxStates int) result {
	var alphabet []op
	names := opNames
	if len(c.Ops) > 0 {
		names = c.Ops
	}
	for _, n := range names {
		for k := 0; k < c.Keys; k++ {
			alphabet = append(alphabet, op{n, k})
		}
	}
	var res result
	seen := map[string]bool{}
	init := newInst(c)
	w0 := init.observe(c)
	seen[w0.shape.String()+fmt.Sprint("|c", init.cursorPos(w0))] = true
	frontier := []state{{ms: w0.items}}
	res.states = 1
	c18seen := map[string]bool{}
	for depth := 1; depth <= c.Depth && len(frontier) > 0; depth++ {
		var next []state
		for _, st := range frontier {
			for _, o := range alphabet {
				if !c.Unique && o.Name == "Add" && count(st.ms, o.K) >= c.MaxDup {
					continue // bound on duplicates keeps the multiset space finite
				}
				in := newInst(c)
				for _, p := range st.path {
					in.apply(p)
				}
				got, errd := in.apply(o)
				res.transitions++
				path := append(append([]op(nil), st.path...), o)
				viol := func(kind, detail string) {
					if run17 != nil {
						run17.Violate(ev.Violation{Sig: fmt.Sprintf("%s|%s|%s", kind, c, o.Name), Detail: fmt.Sprintf("%s: config{%s} path=%v: %s", kind, c, path, detail),
							Replay: map[string]any{"config": c, "path": path}})
					}
				}
				expRes, mustErr, afters := possibleAfter(c, st.ms, o)
				w := in.observe(c)
				if w.problem != "" {
					viol("structure", w.problem)
					continue
				}
				if got != expRes {
					viol("result", fmt.Sprintf("returned %v, model says %v (before=%v)", got, expRes, st.ms))
				}
				if errd && !mustErr {
					viol("error", "unexpected error")
				}
				if !afters[msKey(w.items)] {
					viol("contents", fmt.Sprintf("after=%v not allowed by model from before=%v", w.items, st.ms))
					continue
				}
				if int(in.b.Count()) != len(w.items) {
					viol("count", fmt.Sprintf("Count()=%d items=%d", in.b.Count(), len(w.items)))
				}
				for i := 1; i < len(w.items); i++ {
					if w.items[i-1].K > w.items[i].K || (c.Unique && w.items[i-1].K == w.items[i].K) {
						viol("order", fmt.Sprintf("in-order traversal not sorted: %v", w.items))
					}
				}
				cp := in.cursorPos(w)
				if cp == -2 {
					viol("cursor", "cursor refers to an item that is not in the tree")
				}
				key := w.shape.String() + fmt.Sprint("|c", cp)
				if strings.Contains(key, "|leaked=") {
					res.leakedStates++
				}
				isNew := !seen[key]
				if isNew {
					seen[key] = true
					res.states++
					res.maxDepth = depth
					next = append(next, state{path: path, ms: w.items})
					if run17 != nil && res.states%5000 == 3 {
						run17.Sample(map[string]any{"config": c.String(), "path": fmt.Sprint(path), "tree": key})
					}
				}
				// scans (consume the instance; it is discarded afterwards)
				if isNew {
					fw, p1 := in.scan(true)
					if p1 != "" || fmt.Sprint(fw) != fmt.Sprint(w.items) {
						viol("scan-forward", fmt.Sprintf("%s scan=%v tree=%v", p1, fw, w.items))
					}
					bw, p2 := in.scan(false)
					rev := make([]item, len(w.items))
					for i := range w.items {
						rev[len(w.items)-1-i] = w.items[i]
					}
					if p2 != "" || fmt.Sprint(bw) != fmt.Sprint(rev) {
						viol("scan-backward", fmt.Sprintf("%s scan=%v tree-reversed=%v", p2, bw, rev))
					}
					if run18 != nil {
						shapeOnly := w.shape.String()
						if !c18seen[shapeOnly] {
							c18seen[shapeOnly] = true
							res.c18distinct++
							res.c18probes += probeSearch(c, in, w, path, run18)
						}
					}
				}
				if res.states >= maxStates {
					if run17 != nil {
						run17.NotExhaustive(fmt.Sprintf("state cap %d reached in config{%s} at depth %d", maxStates, c, depth))
					}
					if run18 != nil {
						run18.NotExhaustive(fmt.Sprintf("state cap %d reached in config{%s} at depth %d", maxStates, c, depth))
					}
					return res
				}
			}
		}
		frontier = next
	}
	res.fixpoint = len(frontier) == 0
	return res
}

// probeSearch (C18): in tree state w, for every probe key and search flavour, check cursor placement
// and that the scan from there visits exactly the model's slice.
func probeSearch(c config, in *inst, w *walk, path []op, run *ev.Run) int {
	b := in.b
	probes := 0
	viol := func(kind string, k int, detail string) {
		run.Violate(ev.Violation{Sig: fmt.Sprintf("%s|%s", kind, c), Detail: fmt.Sprintf("%s: config{%s} path=%v probe=%d: %s", kind, c, path, k, detail),
			Replay: map[string]any{"config": c, "path": path, "probe": k, "kind": kind}})
	}
	n := len(w.items)
	lower := func(k int) int { return sort.Search(n, func(i int) bool { return w.items[i].K >= k }) }
	upper := func(k int) int { return sort.Search(n, func(i int) bool { return w.items[i].K > k }) }
	rest := func(forward bool) []sop.UUID {
		var ids []sop.UUID
		g := 0
		for {
			ck := b.GetCurrentKey()
			if ck.ID.IsNil() {
				break
			}
			ids = append(ids, ck.ID)
			var ok bool
			var err error
			if forward {
				ok, err = b.Next(ctx)
			} else {
				ok, err = b.Previous(ctx)
			}
			if !ok || err != nil {
				break
			}
			if g++; g > 1000 {
				break
			}
		}
		return ids
	}
	eq := func(a, b []sop.UUID) bool {
		if len(a) != len(b) {
			return false
		}
		for i := range a {
			if a[i] != b[i] {
				return false
			}
		}
		return true
	}
	revIDs := func(a []sop.UUID) []sop.UUID {
		r := make([]sop.UUID, len(a))
		for i := range a {
			r[len(a)-1-i] = a[i]
		}
		return r
	}
	for k := -1; k <= c.Keys; k++ {
		lo, up := lower(k), upper(k)
		present := up > lo
		// Find first
		probes++
		ok, err := b.Find(ctx, Key{k, 0}, true)
		if err != nil || ok != present {
			viol("find-first-result", k, fmt.Sprintf("ok=%v err=%v present=%v items=%v", ok, err, present, w.items))
		} else if present {
			if got := rest(true); !eq(got, w.ids[lo:]) {
				viol("find-first-position", k, fmt.Sprintf("scan from Find(first) visits %d items, want %d (from index %d) items=%v", len(got), n-lo, lo, w.items))
			}
		} else if n > 0 {
			// miss: cursor adjacent to the insertion point; ascending scan from there, skipping keys < k, must give exactly items >= k.
			pos := in.cursorPos(w)
			if pos < 0 || pos < lo-1 || pos > lo {
				if !(pos == n-1 && lo == n) {
					viol("find-miss-position", k, fmt.Sprintf("cursor at in-order index %d, insertion point %d, items=%v", pos, lo, w.items))
				}
			} else {
				got := rest(true)
				var f []sop.UUID
				for _, id := range got {
					idx := indexOf(w.ids, id)
					if w.items[idx].K >= k {
						f = append(f, id)
					}
				}
				if !eq(f, w.ids[lo:]) {
					viol("find-miss-range", k, fmt.Sprintf("ascending range scan from miss position visits %d items >= k, want %d; items=%v", len(f), n-lo, w.items))
				}
			}
		}
		// Find any
		probes++
		// clear cursor influence: Find(false) has a shortcut when the current item already matches.
		b.First(ctx)
		ok, err = b.Find(ctx, Key{k, 0}, false)
		if err != nil || ok != present {
			viol("find-any-result", k, fmt.Sprintf("ok=%v err=%v present=%v", ok, err, present))
		} else if present {
			pos := in.cursorPos(w)
			if pos < lo || pos >= up {
				viol("find-any-position", k, fmt.Sprintf("cursor index %d outside [%d,%d)", pos, lo, up))
			}
		}
		// shortcut path of Find(any): cursor already on an equal key
		if present {
			for i := lo; i < up; i++ {
				probes++
				if ok, _ := b.FindWithID(ctx, Key{k, 0}, w.ids[i]); !ok {
					viol("find-withid-result", k, fmt.Sprintf("duplicate #%d (id) of key not found; items=%v", i-lo, w.items))
					continue
				}
				if pos := in.cursorPos(w); pos != i {
					viol("find-withid-position", k, fmt.Sprintf("cursor index %d want %d", pos, i))
				}
				if ok, _ := b.Find(ctx, Key{k, 0}, false); !ok || in.cursorPos(w) < lo || in.cursorPos(w) >= up {
					viol("find-any-shortcut", k, "Find(any) from an equal current item left the equal range")
				}
			}
			// unknown id
			probes++
			if ok, _ := b.FindWithID(ctx, Key{k, 0}, sop.UUID{0xFF, 1}); ok {
				viol("find-withid-unknown", k, "FindWithID with an unknown id returned true")
			}
		}
		// Descending find
		probes++
		ok, err = b.FindInDescendingOrder(ctx, Key{k, 0})
		if err != nil || ok != present {
			viol("find-desc-result", k, fmt.Sprintf("ok=%v err=%v present=%v items=%v", ok, err, present, w.items))
		} else if present {
			if got := rest(false); !eq(got, revIDs(w.ids[:up])) {
				viol("find-desc-position", k, fmt.Sprintf("descending scan from FindInDescendingOrder visits %d items, want %d; items=%v", len(got), up, w.items))
			}
		} else if n > 0 {
			pos := in.cursorPos(w)
			if pos < 0 || pos < up-1 || pos > up {
				if !(pos == 0 && up == 0) && !(pos == n-1 && up == n) {
					viol("find-desc-miss-position", k, fmt.Sprintf("cursor at in-order index %d, insertion point %d, items=%v", pos, up, w.items))
				}
			} else {
				got := rest(false)
				var f []sop.UUID
				for _, id := range got {
					if w.items[indexOf(w.ids, id)].K <= k {
						f = append(f, id)
					}
				}
				if !eq(f, revIDs(w.ids[:up])) {
					viol("find-desc-miss-range", k, fmt.Sprintf("descending range scan from miss position visits %d items <= k, want %d; items=%v", len(f), up, w.items))
				}
			}
		}
	}
	return probes
}

func indexOf(ids []sop.UUID, id sop.UUID) int {
	for i, x := range ids {
		if x == id {
			return i
		}
	}
	return -1
}

// inmemory Range/RangeDesc style iteration (C18): checked on inmemory.BtreeInterface directly.
func rangeChecks(run *ev.Run) int {
	n := 0
	type bt = inmemory.BtreeInterface[int, int]
	for mask := 0; mask < 1<<6; mask++ {
		for _, unique := range []bool{true, false} {
			detuuid.Reset(2)
			b := inmemory.NewBtree[int, int](unique)
			var model []int
			for k := 0; k < 6; k++ {
				if mask&(1<<k) != 0 {
					b.Add(k*2, k)
					model = append(model, k*2)
					if !unique && k%2 == 0 {
						b.Add(k*2, k+100)
						model = append(model, k*2)
					}
				}
			}
			sort.Ints(model)
			for from := -1; from <= 12; from++ {
				for to := from; to <= 12; to++ {
					n++
					var want []int
					for _, k := range model {
						if k >= from && k <= to {
							want = append(want, k)
						}
					}
					var got []int
					// ascending range scan protocol documented for miss positions: Find then Next while key <= to
					b.Find(from, true)
					if b.Count() > 0 {
						g := 0
						for {
							it := b.Btree.GetCurrentKey()
							if it.ID.IsNil() {
								break
							}
							if it.Key >= from && it.Key <= to {
								got = append(got, it.Key)
							}
							if it.Key > to {
								break
							}
							if !b.Next() {
								break
							}
							if g++; g > 100 {
								break
							}
						}
					}
					if fmt.Sprint(got) != fmt.Sprint(want) {
						run.Violate(ev.Violation{Sig: "inmemory-range-asc", Detail: fmt.Sprintf("unique=%v model=%v range[%d,%d] got=%v want=%v", unique, model, from, to, got, want),
							Replay: map[string]any{"model": model, "from": from, "to": to, "unique": unique}})
					}
					var gotD, wantD []int
					for i := len(want) - 1; i >= 0; i-- {
						wantD = append(wantD, want[i])
					}
					b.FindInDescendingOrder(to)
					if b.Count() > 0 {
						g := 0
						for {
							it := b.Btree.GetCurrentKey()
							if it.ID.IsNil() {
								break
							}
							if it.Key >= from && it.Key <= to {
								gotD = append(gotD, it.Key)
							}
							if it.Key < from {
								break
							}
							if !b.Previous() {
								break
							}
							if g++; g > 100 {
								break
							}
						}
					}
					if fmt.Sprint(gotD) != fmt.Sprint(wantD) {
						run.Violate(ev.Violation{Sig: "inmemory-range-desc", Detail: fmt.Sprintf("unique=%v model=%v range[%d,%d] got=%v want=%v", unique, model, from, to, gotD, wantD),
							Replay: map[string]any{"model": model, "from": from, "to": to, "unique": unique}})
					}
				}
			}
		}
	}
	return n
}

func configsFor(thorough bool) []config {
	if !thorough {
		return []config{
			// closed (fixpoint) configurations
			{Slot: 2, Unique: true, LLB: false, Keys: 4, Depth: 30},
			{Slot: 2, Unique: true, LLB: true, Keys: 4, Depth: 30},
			{Slot: 2, Unique: false, LLB: false, Keys: 2, MaxDup: 2, Depth: 30},
			{Slot: 2, Unique: false, LLB: true, Keys: 2, MaxDup: 2, Depth: 30},
			// depth-bounded configurations
			{Slot: 2, Unique: true, LLB: true, Keys: 6, Depth: 6},
			{Slot: 2, Unique: false, LLB: true, Keys: 3, MaxDup: 3, Depth: 7},
			{Slot: 4, Unique: true, LLB: true, Keys: 7, Depth: 7},
			{Slot: 4, Unique: true, LLB: false, Keys: 7, Depth: 7},
			{Slot: 4, Unique: false, LLB: true, Keys: 3, MaxDup: 3, Depth: 9},
			{Slot: 4, Unique: false, LLB: false, Keys: 3, MaxDup: 3, Depth: 9},
			// non-initial start states: three-level trees
			{Slot: 2, Unique: true, LLB: false, Keys: 8, Prefill: 8, Depth: 3, Ops: []string{"Remove", "Add", "FindRemoveCurrent", "Upsert"}},
			{Slot: 2, Unique: true, LLB: true, Keys: 8, Prefill: 8, Depth: 3, Ops: []string{"Remove", "Add", "FindRemoveCurrent", "Upsert"}},
			{Slot: 2, Unique: false, LLB: false, Keys: 8, MaxDup: 2, Prefill: 8, Depth: 3, Ops: []string{"Remove", "Add", "FindRemoveCurrent"}},
			{Slot: 4, Unique: true, LLB: false, Keys: 22, Prefill: 22, Depth: 2, Ops: []string{"Remove", "Add"}},
			{Slot: 4, Unique: true, LLB: true, Keys: 22, Prefill: 22, Depth: 2, Ops: []string{"Remove", "Add"}},
			// unbalanced three-level trees under leaf load balancing (removals leave nil children, then adds distribute)
			{Slot: 2, Unique: true, LLB: true, Keys: 10, Prefill: 10, Depth: 5, Ops: []string{"Remove", "Add"}},
			{Slot: 2, Unique: false, LLB: true, Keys: 8, MaxDup: 2, Prefill: 8, Depth: 4, Ops: []string{"Remove", "Add"}},
		}
	}
	return []config{
		{Slot: 2, Unique: true, LLB: false, Keys: 5, Depth: 40},
		{Slot: 2, Unique: true, LLB: true, Keys: 5, Depth: 40},
		{Slot: 2, Unique: false, LLB: false, Keys: 2, MaxDup: 3, Depth: 40},
		{Slot: 2, Unique: false, LLB: true, Keys: 2, MaxDup: 3, Depth: 40},
		{Slot: 3, Unique: true, LLB: true, Keys: 5, Depth: 40},
		{Slot: 2, Unique: true, LLB: true, Keys: 7, Depth: 8},
		{Slot: 2, Unique: false, LLB: true, Keys: 3, MaxDup: 3, Depth: 10},
		{Slot: 4, Unique: true, LLB: true, Keys: 9, Depth: 10},
		{Slot: 4, Unique: true, LLB: false, Keys: 9, Depth: 10},
		{Slot: 4, Unique: false, LLB: true, Keys: 4, MaxDup: 3, Depth: 12},
		{Slot: 4, Unique: false, LLB: false, Keys: 4, MaxDup: 3, Depth: 12},
		{Slot: 6, Unique: false, LLB: true, Keys: 4, MaxDup: 4, Depth: 14},
		{Slot: 8, Unique: true, LLB: true, Keys: 12, Depth: 13},
		{Slot: 8, Unique: true, LLB: false, Keys: 12, Depth: 13},
		{Slot: 2, Unique: true, LLB: false, Keys: 10, Prefill: 10, Depth: 5, Ops: []string{"Remove", "Add", "FindRemoveCurrent", "Upsert"}},
		{Slot: 2, Unique: true, LLB: true, Keys: 10, Prefill: 10, Depth: 5, Ops: []string{"Remove", "Add", "FindRemoveCurrent", "Upsert"}},
		{Slot: 2, Unique: false, LLB: false, Keys: 8, MaxDup: 2, Prefill: 8, Depth: 5, Ops: []string{"Remove", "Add", "FindRemoveCurrent"}},
		{Slot: 4, Unique: true, LLB: false, Keys: 24, Prefill: 24, Depth: 4, Ops: []string{"Remove", "Add"}},
		{Slot: 4, Unique: true, LLB: true, Keys: 24, Prefill: 24, Depth: 4, Ops: []string{"Remove", "Add"}},
		{Slot: 8, Unique: true, LLB: false, Keys: 50, Prefill: 50, Depth: 9, Ops: []string{"Remove"}},
		{Slot: 2, Unique: true, LLB: true, Keys: 10, Prefill: 10, Depth: 7, Ops: []string{"Remove", "Add"}},
		{Slot: 2, Unique: false, LLB: true, Keys: 8, MaxDup: 2, Prefill: 8, Depth: 6, Ops: []string{"Remove", "Add", "FindRemoveCurrent"}},
		{Slot: 3, Unique: true, LLB: true, Keys: 14, Prefill: 14, Depth: 6, Ops: []string{"Remove", "Add"}},
		{Slot: 4, Unique: true, LLB: true, Keys: 24, Prefill: 24, Depth: 6, Ops: []string{"Remove", "Add"}},
	}
}

// replayFile prints, for the replay file of a violation, the tree shape after every step: (child item child ...),
// "_" = nil child, item = key.meta.value (value -1 = nil).
func replayFile(path string) {
	b, err := os.ReadFile(path)
	if err != nil {
		fmt.Fprintln(os.Stderr, err)
		os.Exit(2)
	}
	var f struct {
		Replay struct {
			Config config `json:"config"`
			Path   []op   `json:"path"`
		} `json:"replay"`
	}
	if err := json.Unmarshal(b, &f); err != nil {
		fmt.Fprintln(os.Stderr, err)
		os.Exit(2)
	}
	c := f.Replay.Config
	in := newInst(c)
	w := in.observe(c)
	fmt.Printf("start  count=%d %s %s\n", in.b.Count(), w.shape.String(), w.problem)
	for _, o := range f.Replay.Path {
		ok, errd := in.apply(o)
		w = in.observe(c)
		fmt.Printf("%-22s -> %v err=%v count=%d %s %s\n", o, ok, errd, in.b.Count(), w.shape.String(), w.problem)
	}
}

func main() {
	if len(os.Args) > 2 && os.Args[len(os.Args)-2] == "--replay" {
		replayFile(os.Args[len(os.Args)-1])
		return
	}
	prop := os.Args[1]
	level := "model_checking"
	run := ev.New(prop, level)
	thorough := run.Thorough()
	configs := configsFor(thorough)
	maxStates := 40000
	if thorough {
		maxStates = 1500000
	}
	if prop == "C18" {
		maxStates = 15000
		if thorough {
			maxStates = 300000
		}
	}
	if job := ev.Job(); job != "" {
		if job == "ranges" {
			rc := rangeChecks(run)
			run.Set("inmemory_range_cases", rc)
			run.EmitPartial()
		}
		var idx int
		fmt.Sscan(job, &idx)
		c := configs[idx]
		var run17, run18 *ev.Run
		if prop == "C17" {
			run17 = run
		} else {
			run18 = run
		}
		r := explore(c, run17, run18, maxStates)
		run.Set("states", r.states)
		run.Set("transitions", r.transitions)
		run.Set("trees_probed", r.c18distinct)
		run.Set("probes", r.c18probes)
		run.Set("states_with_unreachable_nodes_left_in_repository", r.leakedStates)
		run.Set("config", c.String())
		run.Set("max_depth", fmt.Sprint(r.maxDepth))
		run.Set("fixpoint_reached", fmt.Sprint(r.fixpoint))
		run.EmitPartial()
	}
	var jobs []string
	for i := range configs {
		jobs = append(jobs, fmt.Sprint(i))
	}
	if prop == "C18" {
		jobs = append(jobs, "ranges")
	}
	dl := 10 * time.Minute
	if thorough {
		dl = 3 * time.Hour
	}
	run.Parallel(jobs, 0, dl, nil)
	cov := run.Coverage
	cov["traces_validated_against_impl"] = cov["transitions"]
	run.Set("alphabet", opNames)
	run.Set("rule", "BFS over the real btree.Btree with a map NodeRepository; state = canonical tree shape with (key,meta,value) per slot + cursor position; successor = replay shortest path on a fresh instance + one op; every transition executes on the implementation and is compared with a sorted-multiset model; non-trivial = distinct canonical states")
	if prop == "C18" {
		p, _ := cov["probes"].(int64)
		rc, _ := cov["inmemory_range_cases"].(int64)
		run.Set("evaluations", p+rc)
		run.Set("distinct_nontrivial", cov["trees_probed"])
		run.Sample(map[string]any{"probe": "for each reached tree: Find(k,true), Find(k,false), FindWithID(k,id) for every duplicate, FindInDescendingOrder(k), k in -1..Keys; then the scan from the cursor is compared with the model slice"})
	}
	run.Assumption("keys limited to the stated small domain; duplicates per key bounded by MaxDup; depth bound per config (per_job.*.fixpoint_reached says whether the whole bounded space was closed)")
	run.Finish()
}
