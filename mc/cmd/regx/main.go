// regx (C22): one registry block update by a writer process, killed at every point (before every
// mutating file operation, and after every torn prefix of the .cow write and of the 4096-byte block write),
// with a second process reading the same block at every earlier position of the writer (the reader runs
// to completion while the writer is paused between two of its file operations). Afterwards, and at each
// reader position, the block must be entirely the old image or entirely the new one.
package main

import (
	"bytes"
	"context"
	"encoding/binary"
	"encoding/json"
	"fmt"
	"os"
	"os/exec"
	"path/filepath"
	"runtime"
	"sort"
	"strings"
	"sync"
	"time"

	"github.com/sharedcode/sop"
	"github.com/sharedcode/sop/cache"
	"github.com/sharedcode/sop/fs"
	"verif.local/mc/ev"
	"verif.local/mc/fsck"
	_ "verif.local/mc/sopenv"
	"verif.local/mc/vhook"
)

const (
	table = "t"
	mod   = 250
)

func makeID(block, slot, n int) sop.UUID {
	high := uint64(block) + uint64(mod)*uint64(1000+7919*n)
	low := uint64(slot) + 66*uint64(12345+104729*n)
	var id sop.UUID
	binary.BigEndian.PutUint64(id[:8], high)
	binary.BigEndian.PutUint64(id[8:], low)
	return id
}

func handleFor(id sop.UUID, v int) sop.Handle {
	h := sop.NewHandle(id)
	h.Version = int32(v)
	if v > 0 {
		var b sop.UUID
		copy(b[:], id[:])
		b[0] ^= 0xA5
		b[15] = byte(v)
		h.PhysicalIDB = b
		h.IsActiveIDB = v%2 == 1
		h.WorkInProgressTimestamp = int64(1000 + v)
	}
	return h
}

// ids: A (slot 3), B (slot 10), C (slot 65, next to the CRC), all in block 7; D (slot 5) in block 9, which no
// write has ever touched before the writer under test adds D (its pre-image, and so its backup, is all zeros)
var ids = []sop.UUID{makeID(7, 3, 1), makeID(7, 10, 2), makeID(7, 65, 3), makeID(9, 5, 4)}

func openReg(dir string, rw bool) (fs.Registry, sop.L2Cache) {
	l2 := cache.NewL2InMemoryCache()
	rt, err := fs.NewReplicationTracker(context.Background(), []string{dir}, false, l2)
	if err != nil {
		panic(err)
	}
	return fs.NewRegistry(rw, mod, rt, l2), l2
}

func hp(hs ...sop.Handle) []sop.RegistryPayload[sop.Handle] {
	return []sop.RegistryPayload[sop.Handle]{{RegistryTable: table, IDs: hs}}
}
func ip(u ...sop.UUID) []sop.RegistryPayload[sop.UUID] {
	return []sop.RegistryPayload[sop.UUID]{{RegistryTable: table, IDs: u}}
}

type plan struct {
	Mode     string // record | crash | torn | none
	K, T     int
	ReaderAt int // 0 = no concurrent reader; else: before the writer's ReaderAt-th mutating file operation
	Variant  string // which update the writer performs
}

type event struct {
	N   int
	Op  string
	Path string
	Len int
}

type readResult struct {
	Versions []int // version per id, -1 = not found
	Err      string
}

func read(dir string) readResult {
	reg, _ := openReg(dir, false)
	defer reg.Close()
	var rr readResult
	res, err := reg.Get(context.Background(), ip(ids...))
	if err != nil {
		rr.Err = err.Error()
		return rr
	}
	got := map[sop.UUID]sop.Handle{}
	for _, p := range res {
		for _, h := range p.IDs {
			got[h.LogicalID] = h
		}
	}
	for _, id := range ids {
		if h, ok := got[id]; ok {
			// a served handle must be exactly one of the images ever written for that id
			want := handleFor(id, int(h.Version))
			if h != want {
				rr.Err = fmt.Sprintf("served a handle that was never written for %v: %+v", id, h)
			}
			rr.Versions = append(rr.Versions, int(h.Version))
		} else {
			rr.Versions = append(rr.Versions, -1)
		}
	}
	return rr
}

func writer(dir string, pl plan) {
	sop.RetryStartDuration = time.Millisecond
	os.RemoveAll(dir)
	os.MkdirAll(filepath.Join(dir, table), 0o755)
	reg, _ := openReg(dir, true)
	ctx := context.Background()
	// pre-state: all three ids at version 1 (committed by completed writes)
	for _, id := range ids[:3] {
		if err := reg.Add(ctx, hp(handleFor(id, 1))); err != nil {
			fmt.Println("@@FATAL add:", err)
			os.Exit(3)
		}
	}
	reg.Close()
	reg, _ = openReg(dir, true)
	var events []event
	var readerOut *readResult
	n := 0
	vhook.Install(&vhook.Hooks{IO: func(op, path string, data []byte, off int64) error {
		if !vhook.Mutating(op) {
			return nil
		}
		n++
		if pl.ReaderAt == n {
			// the other process reads while this writer is paused right before its n-th mutating operation
			out, _ := exec.Command(os.Args[0], "reader", dir).CombinedOutput()
			var rr readResult
			if i := bytes.Index(out, []byte("@@READ ")); i >= 0 {
				json.Unmarshal(bytes.TrimSpace(out[i+7:]), &rr)
			} else {
				rr.Err = "reader process failed: " + string(out)
			}
			readerOut = &rr
			b, _ := json.Marshal(rr)
			fmt.Printf("\n@@CONCURRENT %s\n", b)
		}
		switch pl.Mode {
		case "record":
			events = append(events, event{N: n, Op: op, Path: filepath.Base(path), Len: len(data)})
		case "crash":
			if n == pl.K {
				os.Exit(137)
			}
		case "torn":
			if n == pl.K {
				t := pl.T
				if t > len(data) {
					t = len(data)
				}
				if op == "WriteFile" {
					os.WriteFile(path, data[:t], 0o644)
				} else if op == "pwrite" {
					if f, err := os.OpenFile(path, os.O_WRONLY, 0o644); err == nil {
						f.WriteAt(data[:t], off)
						f.Close()
					}
				}
				os.Exit(137)
			}
		}
		return nil
	}})
	_ = readerOut
	var err error
	switch pl.Variant {
	case "update-A":
		err = reg.UpdateNoLocks(ctx, true, hp(handleFor(ids[0], 2)))
	case "update-C-next-to-crc":
		err = reg.UpdateNoLocks(ctx, true, hp(handleFor(ids[2], 2)))
	case "update-with-locks-B":
		err = reg.Update(ctx, hp(handleFor(ids[1], 2)))
	case "remove-A":
		err = reg.Remove(ctx, ip(ids[0]))
	case "add-D-into-fresh-block":
		err = reg.Add(ctx, hp(handleFor(ids[3], 1)))
	}
	res := map[string]any{"err": fmt.Sprint(err), "events": events}
	b, _ := json.Marshal(res)
	fmt.Printf("\n@@RESULT %s\n", b)
}

func runSelf(timeout time.Duration, args ...string) (string, int) {
	cmd := exec.Command(os.Args[0], args...)
	cmd.Env = append(os.Environ(), "GOMAXPROCS=2")
	var out bytes.Buffer
	cmd.Stdout, cmd.Stderr = &out, &out
	if err := cmd.Start(); err != nil {
		return err.Error(), -1
	}
	done := make(chan error, 1)
	go func() { done <- cmd.Wait() }()
	select {
	case <-done:
	case <-time.After(timeout):
		cmd.Process.Kill()
		<-done
		return out.String(), -2
	}
	return out.String(), cmd.ProcessState.ExitCode()
}

func extract(out, tag string, v any) bool {
	for _, line := range strings.Split(out, "\n") {
		if strings.HasPrefix(line, tag+" ") {
			return json.Unmarshal([]byte(line[len(tag)+1:]), v) == nil
		}
	}
	return false
}

type caseT struct {
	variant string
	pl      plan
	site    string
}

func main() {
	if len(os.Args) > 2 && os.Args[1] == "writer" {
		var pl plan
		json.Unmarshal([]byte(os.Args[3]), &pl)
		writer(os.Args[2], pl)
		return
	}
	if len(os.Args) > 2 && os.Args[1] == "reader" {
		rr := read(os.Args[2])
		b, _ := json.Marshal(rr)
		fmt.Printf("\n@@READ %s\n", b)
		return
	}
	run := ev.New("C22", "fault_enumeration")
	thorough := run.Thorough()
	root := fmt.Sprintf("/dev/shm/verif_regx_%d", os.Getpid())
	os.MkdirAll(root, 0o755)
	defer os.RemoveAll(root)
	ev.OnExit(func() { os.RemoveAll(root) })
	variants := []string{"update-A", "update-C-next-to-crc", "update-with-locks-B", "remove-A", "add-D-into-fresh-block"}
	newVer := map[string][]int{"update-A": {2, 1, 1, -1}, "update-C-next-to-crc": {1, 1, 2, -1}, "update-with-locks-B": {1, 2, 1, -1}, "remove-A": {-1, 1, 1, -1}, "add-D-into-fresh-block": {1, 1, 1, 1}}
	var cases []caseT
	var info []map[string]any
	for _, v := range variants {
		d := filepath.Join(root, "ref_"+v)
		pj, _ := json.Marshal(plan{Mode: "record", Variant: v})
		o1, _ := runSelf(2*time.Minute, "writer", d, string(pj))
		o2, _ := runSelf(2*time.Minute, "writer", d, string(pj))
		var r1, r2 struct {
			Err    string  `json:"err"`
			Events []event `json:"events"`
		}
		if !extract(o1, "@@RESULT", &r1) || !extract(o2, "@@RESULT", &r2) || r1.Err != "<nil>" {
			fmt.Fprintf(os.Stderr, "HARNESS FAILURE: reference writer %s failed: %s\n", v, o1)
			os.Exit(2)
		}
		if fmt.Sprint(r1.Events) != fmt.Sprint(r2.Events) {
			fmt.Fprintln(os.Stderr, "DIVERGENCE: reference trace not reproducible for", v)
			os.Exit(2)
		}
		os.RemoveAll(d)
		M := len(r1.Events)
		site := func(k int) string {
			if k > M {
				return "after-last-op"
			}
			e := r1.Events[k-1]
			cls := "blob"
			switch {
			case strings.HasSuffix(e.Path, ".reg"):
				cls = "reg"
			case strings.HasSuffix(e.Path, ".cow"):
				cls = "cow"
			}
			return e.Op + ":" + cls
		}
		for k := 1; k <= M+1; k++ {
			// crash at k with no concurrent reader, and with the reader at every earlier-or-equal position
			for r := 0; r <= k && r <= M; r++ {
				cases = append(cases, caseT{v, plan{Mode: "crash", K: k, ReaderAt: r, Variant: v}, "before-" + site(k)})
			}
		}
		for _, e := range r1.Events {
			if e.Op != "WriteFile" && e.Op != "pwrite" {
				continue
			}
			var ts []int
			add := func(t int) {
				if t >= 0 && t < e.Len {
					ts = append(ts, t)
				}
			}
			for j := 0; j < e.Len; j += 62 {
				add(j)
			}
			for j := 512; j < e.Len; j += 512 {
				add(j)
			}
			// every byte position inside the slot this writer changes (a torn record)
			slot := map[string]int{"update-A": 3, "update-C-next-to-crc": 65, "update-with-locks-B": 10, "remove-A": 3, "add-D-into-fresh-block": 5}[v]
			for j := slot * 62; j <= slot*62+62; j++ {
				add(j)
			}
			add(1)
			add(e.Len - 5)
			add(e.Len - 4)
			add(e.Len - 3)
			add(e.Len - 1)
			sort.Ints(ts)
			last := -1
			for _, t := range ts {
				if t == last {
					continue
				}
				last = t
				readers := []int{0, e.N}
				if thorough {
					readers = nil
					for r := 0; r <= e.N; r++ {
						readers = append(readers, r)
					}
				}
				for _, r := range readers {
					cases = append(cases, caseT{v, plan{Mode: "torn", K: e.N, T: t, ReaderAt: r, Variant: v}, "in-" + site(e.N)})
				}
			}
		}
		info = append(info, map[string]any{"variant": v, "mutating_file_ops": M, "ops": r1.Events})
	}
	run.Set("writers", info)
	type outT struct {
		conc  *readResult
		after readResult
		raw   []int
		rawProblems []string
		infra string
	}
	outs := make([]outT, len(cases))
	var wg sync.WaitGroup
	sem := make(chan struct{}, runtime.NumCPU())
	for i := range cases {
		wg.Add(1)
		sem <- struct{}{}
		go func(i int) {
			defer wg.Done()
			defer func() { <-sem }()
			d := filepath.Join(root, fmt.Sprintf("c%d", i))
			defer os.RemoveAll(d)
			pj, _ := json.Marshal(cases[i].pl)
			o, code := runSelf(5*time.Minute, "writer", d, string(pj))
			if code != 137 && code != 0 {
				outs[i].infra = fmt.Sprintf("writer exit %d: %s", code, o)
				return
			}
			var cr readResult
			if extract(o, "@@CONCURRENT", &cr) {
				outs[i].conc = &cr
			}
			// raw block image straight from disk (independent reader), before any later reader can touch it
			ents, probs := fsck.ScanRegistry(filepath.Join(d, table), table)
			outs[i].rawProblems = probs
			for _, id := range ids {
				v := -1
				for _, e := range ents {
					if e.H.LogicalID == fsck.UUID(id) {
						v = int(e.H.Version)
					}
				}
				outs[i].raw = append(outs[i].raw, v)
			}
			ro, _ := runSelf(5*time.Minute, "reader", d)
			if !extract(ro, "@@READ", &outs[i].after) {
				outs[i].infra = "reader failed: " + ro
			}
		}(i)
	}
	wg.Wait()
	old := []int{1, 1, 1, -1}
	eq := func(a, b []int) bool { return fmt.Sprint(a) == fmt.Sprint(b) }
	fired := 0
	outcomes := map[string]int{}
	for i, c := range cases {
		o := outs[i]
		run.Add("evaluations", 1)
		if o.infra != "" {
			fmt.Fprintln(os.Stderr, "HARNESS FAILURE:", c, o.infra)
			os.Exit(2)
		}
		fired++
		nv := newVer[c.variant]
		viol := func(kind, detail string) {
			rd := "no-reader"
			if c.pl.ReaderAt > 0 {
				rd = "reader-before-op"
			}
			run.Violate(ev.Violation{Sig: fmt.Sprintf("%s|%s|%s|%s", kind, c.pl.Mode, c.site, rd), Detail: fmt.Sprintf("%s: writer %s plan %+v (%s): %s", kind, c.variant, c.pl, c.site, detail), Replay: map[string]any{"variant": c.variant, "plan": c.pl}})
		}
		if o.conc != nil {
			if o.conc.Err != "" {
				viol("concurrent-reader-error", o.conc.Err)
			} else if !eq(o.conc.Versions, old) && !eq(o.conc.Versions, nv) {
				viol("concurrent-reader-mixture", fmt.Sprintf("reader running while the writer was paused saw versions %v (old %v, new %v)", o.conc.Versions, old, nv))
			}
		}
		// The raw image may be transiently damaged as long as a valid backup lets the next reader restore it;
		// it is recorded, and judged through what the later reader is served.
		if len(o.rawProblems) > 0 {
			run.Add("plans_leaving_a_crc_mismatching_block_on_disk", 1)
		}
		if o.after.Err != "" {
			viol("later-reader-error", o.after.Err)
			outcomes["error"]++
		} else if eq(o.after.Versions, old) {
			outcomes["old"]++
		} else if eq(o.after.Versions, nv) {
			outcomes["new"]++
		} else {
			viol("later-reader-mixture", fmt.Sprintf("after the crash a reader sees versions %v (old %v, new %v); raw block: %v %v", o.after.Versions, old, nv, o.raw, o.rawProblems))
			outcomes["mixture"]++
		}
		if i%53 == 0 {
			run.Sample(map[string]any{"writer": c.variant, "plan": c.pl, "later_reader": o.after.Versions})
		}
	}
	run.Set("distinct_nontrivial", fired)
	run.Set("outcomes", outcomes)
	run.Set("rule", "writers {UpdateNoLocks of slot 3, UpdateNoLocks of slot 65 (next to the CRC), Update (with locks) of slot 10, Remove} on a block holding 3 handles; reference trace of mutating file operations recorded twice; for every k a crash before operation k, for the .cow WriteFile and the block pwrite every torn prefix at each 62-byte and 512-byte boundary, 1 byte and around the CRC; for every crash plan a second OS process reads the block while the writer is paused before each operation r <= k (torn plans: r in {none, k}; all r in thorough); oracle on the concurrent reader, on the raw block read by an independent parser right after the crash, and on a later cold reader")
	run.Assumption("a completed write is durable; the concurrent reader runs to completion between two file operations of the paused writer (bound: one reader, one position)")
	run.Finish()
}
