// c31: streamed values read back exactly as written (property C31).
//
// Bounded exhaustive enumeration of Add / Update / Upsert / Remove programs over two keys against the real
// streamingdata.StreamingDataStore, on three backends:
//   - "infs-big" / "infs-medium": a real infs streaming store on /dev/shm (sop.BigData configuration as in the
//     repository's own streaming tests = values actively persisted; sop.MediumData = values written at commit),
//     one transaction per step, commit, verification in a NEW transaction;
//   - "mem": the real btree.Btree over a map node repository (slot length 4, so 6 chunks span several nodes),
//     cheap enough for the deep / wide plans (see plans()).
//
// Reference model: key -> the value sequence written last. After every program (every prefix of a program is a
// program of its own, so this is "after every step") the real store must
//
//	(1) decode, per key, exactly that sequence and then report io.EOF (decode loop bounded by 4x the count),
//	(2) hold, per key, chunk items with indexes 0..m-1 whose concatenated bytes are exactly the JSON stream of
//	    that sequence, and no chunk of any other key (complete scan of the underlying B-tree).
//
// Sig = <oracle>|<class>: class is "chunk>512" / "chunk<=512" (largest chunk of the entry)
// for decode/operation oracles and "after=<last effective operation on that key>" (Remove, Update-fewer, ...) for
// the chunk-set oracles.
package main

import (
	"bytes"
	"context"
	"encoding/json"
	"fmt"
	"io"
	"os"
	"regexp"
	"runtime/debug"
	"runtime/pprof"
	"sort"
	"strings"
	"syscall"
	"time"

	"github.com/sharedcode/sop"
	"github.com/sharedcode/sop/btree"
	"github.com/sharedcode/sop/infs"
	sd "github.com/sharedcode/sop/streamingdata"
	"verif.local/mc/ev"
)

var ctx = context.Background()

var keyNames = []string{"k1", "k2"}

type sdKey = sd.StreamingDataKey[string]

// ---- values ----

// A value of nominal size s is a string whose JSON encoding plus the encoder's newline (= the chunk the
// encoder writes and the reader reads) is exactly s bytes (payload s-3 characters); nominal size 1 is a
// one-character payload (4-byte chunk). The payload is a window into a non-periodic pattern; the window
// offset (seed) depends on step, key and position, so values of equal size are distinguishable and a shifted,
// repeated or truncated chunk never equals the expected value.
const abc = "abcdefghijklmnopqrstuvwxyzABCDEFGHIJKLMNOPQRSTUVWXYZ0123456789"

var base string

func initBase(max int) {
	b := make([]byte, max+128)
	for j := range b {
		b[j] = abc[(j+(j>>6)*17+(j>>12)*5)%62]
	}
	base = string(b)
}

type valSpec struct {
	Size int
	Seed int
}

func (v valSpec) payload() string {
	l := v.Size - 3
	if l < 1 {
		l = 1
	}
	off := v.Seed % 97
	return base[off : off+l]
}

func (v valSpec) chunkLen() int { return len(v.payload()) + 3 }

// ---- programs ----

type step struct {
	Op    string `json:"op"`
	Key   int    `json:"key"`
	Sizes []int  `json:"sizes,omitempty"`
}

func (s step) String() string {
	if s.Op == "Remove" {
		return fmt.Sprintf("Remove(%s)", keyNames[s.Key])
	}
	return fmt.Sprintf("%s(%s,%v)", s.Op, keyNames[s.Key], s.Sizes)
}

func seqs(sizes []int, maxLen int) [][]int {
	out := [][]int{{}}
	prev := [][]int{{}}
	for l := 1; l <= maxLen; l++ {
		var cur [][]int
		for _, p := range prev {
			for _, s := range sizes {
				cur = append(cur, append(append([]int(nil), p...), s))
			}
		}
		out = append(out, cur...)
		prev = cur
	}
	return out
}

func alphabet(sizes []int) []step {
	var a []step
	sq := seqs(sizes, 3)
	for _, op := range []string{"Add", "Update", "Upsert"} {
		for k := range keyNames {
			for _, s := range sq {
				a = append(a, step{Op: op, Key: k, Sizes: s})
			}
		}
	}
	for k := range keyNames {
		a = append(a, step{Op: "Remove", Key: k})
	}
	return a
}

// ---- backends ----

type backend interface {
	// apply runs one step; returns (removeResult, updateWasNoop, error of the step).
	apply(i int, s step) (bool, bool, error)
	// view gives a store for verification (mem: the same; infs: a new read transaction) and a release func.
	view() (*sd.StreamingDataStore[string], func())
	close()
}

func specsFor(i int, s step) []valSpec {
	v := make([]valSpec, len(s.Sizes))
	for j, sz := range s.Sizes {
		v[j] = valSpec{Size: sz, Seed: i*8 + s.Key*4 + j + 1}
	}
	return v
}

// doStep is the caller's side of the API, as documented: obtain an encoder, Encode each value, Close.
func doStep(st *sd.StreamingDataStore[string], i int, s step) (removed bool, noop bool, err error) {
	key := keyNames[s.Key]
	var enc *sd.Encoder[string]
	switch s.Op {
	case "Remove":
		removed, err = st.Remove(ctx, key)
		return
	case "Add":
		enc, err = st.Add(ctx, key)
	case "Update":
		enc, err = st.Update(ctx, key)
	case "Upsert":
		enc, err = st.Upsert(ctx, key)
	}
	if err != nil {
		return
	}
	if enc == nil {
		return false, true, nil
	}
	for _, v := range specsFor(i, s) {
		if err = enc.Encode(v.payload()); err != nil {
			return
		}
	}
	err = enc.Close()
	return
}

// mem backend

type repo struct {
	m map[sop.UUID]*btree.Node[sdKey, []byte]
}

func (r *repo) Add(n *btree.Node[sdKey, []byte])    { r.m[n.ID] = n }
func (r *repo) Update(n *btree.Node[sdKey, []byte]) { r.m[n.ID] = n }
func (r *repo) Get(_ context.Context, id sop.UUID) (*btree.Node[sdKey, []byte], error) {
	return r.m[id], nil
}
func (r *repo) Fetched(sop.UUID)   {}
func (r *repo) Remove(id sop.UUID) { delete(r.m, id) }

type iat struct{}

func (iat) Add(context.Context, *btree.Item[sdKey, []byte]) error    { return nil }
func (iat) Get(context.Context, *btree.Item[sdKey, []byte]) error    { return nil }
func (iat) Update(context.Context, *btree.Item[sdKey, []byte]) error { return nil }
func (iat) Remove(context.Context, *btree.Item[sdKey, []byte]) error { return nil }

type memBackend struct {
	st *sd.StreamingDataStore[string]
}

func newMem() backend {
	so := sop.StoreOptions{Name: "m", SlotLength: 4, IsUnique: true, IsValueDataInNodeSegment: true}
	b, err := btree.New[sdKey, []byte](sop.NewStoreInfo(so), &btree.StoreInterface[sdKey, []byte]{NodeRepository: &repo{m: map[sop.UUID]*btree.Node[sdKey, []byte]{}}, ItemActionTracker: iat{}}, nil)
	must(err, "btree.New")
	return &memBackend{st: &sd.StreamingDataStore[string]{BtreeInterface: b}}
}

func (m *memBackend) apply(i int, s step) (bool, bool, error) { return doStep(m.st, i, s) }
func (m *memBackend) view() (*sd.StreamingDataStore[string], func()) {
	return m.st, func() {}
}
func (m *memBackend) close() {}

// infs backend

type infsBackend struct {
	dir  string
	name string
	to   sop.TransactionOptions
}

func isInfs(bk string) bool { return strings.HasPrefix(bk, "infs") }

var infsSeq int

func must(err error, what string) {
	if err != nil {
		fmt.Fprintf(os.Stderr, "HARNESS: %s: %v\n", what, err)
		os.Exit(2)
	}
}

var infsDir string

func newInfs(bk string) backend {
	if infsDir == "" {
		infsDir = fmt.Sprintf("/dev/shm/c31_%d", os.Getpid())
		os.RemoveAll(infsDir)
	}
	infsSeq++
	b := &infsBackend{dir: infsDir, name: fmt.Sprint("s", infsSeq), to: sop.TransactionOptions{StoresFolders: []string{infsDir}, CacheType: sop.InMemory}}
	t := b.begin(sop.ForWriting)
	vds := sop.ValueDataSize(sop.BigData)
	if bk == "infs-medium" {
		vds = sop.MediumData
	}
	_, err := infs.NewStreamingDataStore[string](ctx, sop.ConfigureStore(b.name, true, sd.MinimumStreamingStoreSlotLength, "", vds, ""), t, nil)
	must(err, "NewStreamingDataStore")
	must(t.Commit(ctx), "Commit(create)")
	return b
}

func (b *infsBackend) begin(mode sop.TransactionMode) sop.Transaction {
	to := b.to
	to.Mode = mode
	t, err := infs.NewTransaction(ctx, to)
	must(err, "NewTransaction")
	must(t.Begin(ctx), "Begin")
	return t
}

func (b *infsBackend) apply(i int, s step) (bool, bool, error) {
	t := b.begin(sop.ForWriting)
	st, err := infs.OpenStreamingDataStore[string](ctx, b.name, t, nil)
	must(err, "OpenStreamingDataStore")
	removed, noop, err := doStep(st, i, s)
	if err != nil {
		t.Rollback(ctx)
		return removed, noop, err
	}
	if cerr := t.Commit(ctx); cerr != nil {
		return removed, noop, fmt.Errorf("commit: %w", cerr)
	}
	return removed, noop, nil
}

func (b *infsBackend) view() (*sd.StreamingDataStore[string], func()) {
	t := b.begin(sop.ForReading)
	st, err := infs.OpenStreamingDataStore[string](ctx, b.name, t, nil)
	must(err, "OpenStreamingDataStore(read)")
	return st, func() { t.Rollback(ctx) }
}

func (b *infsBackend) close() {}

// ---- model + oracle ----

type model map[int][]valSpec // key index -> last written sequence (absent/empty = no entry)

func maxChunkClass(seqs ...[]valSpec) string {
	m := 0
	for _, s := range seqs {
		for _, v := range s {
			if v.chunkLen() > m {
				m = v.chunkLen()
			}
		}
	}
	if m > 512 {
		return "chunk>512"
	}
	return "chunk<=512"
}

// collector keeps, per Sig, the candidate with the smallest program (steps, then values); the parent then takes
// the smallest over all jobs (ties: lowest job index), so the reported example is minimal and deterministic.
type cand struct {
	V    ev.Violation `json:"v"`
	Cost int          `json:"cost"`
}

type collector struct {
	run   *ev.Run
	cands map[string]cand
}

func progCost(prog []step) int {
	c := 0
	for _, s := range prog {
		c += 1000 + 10*len(s.Sizes)
		if s.Op != "Remove" && len(s.Sizes) == 0 {
			c += 5 // prefer Remove(k) over Update(k, no values) as the example of a removal
		}
		for _, z := range s.Sizes {
			if z > 600 {
				c++
			}
		}
	}
	return c
}

func (c *collector) violate(sig, detail string, replay any, cost int) {
	if o, ok := c.cands[sig]; ok && o.Cost <= cost {
		return
	}
	c.cands[sig] = cand{V: ev.Violation{Sig: sig, Detail: detail, Replay: replay}, Cost: cost}
}

func (c *collector) list() []cand {
	var keys []string
	for k := range c.cands {
		keys = append(keys, k)
	}
	sort.Strings(keys)
	var l []cand
	for _, k := range keys {
		l = append(l, c.cands[k])
	}
	return l
}

func describe(seq []valSpec) string {
	var l []string
	for _, v := range seq {
		l = append(l, fmt.Sprintf("%dB", v.chunkLen()))
	}
	return "[" + strings.Join(l, " ") + "]"
}

func short(s string) string {
	if len(s) > 24 {
		return fmt.Sprintf("%q...(%d chars)", s[:24], len(s))
	}
	return fmt.Sprintf("%q", s)
}

// volatileRe matches what differs from run to run in error texts of the code under test (scratch path, UUIDs).
var volatileRe = regexp.MustCompile(`/dev/shm/c31_[0-9]+[^ :]*|[0-9a-f]{8}-[0-9a-f]{4}-[0-9a-f]{4}-[0-9a-f]{4}-[0-9a-f]{12}`)

// runProgram executes prog on a new store and checks the final state (every proper prefix is a program of
// its own). Returns the number of failed oracle checks.
func runProgram(c *collector, bk string, prog []step, stats map[string]int64) {
	var b backend
	if bk == "mem" {
		b = newMem()
	} else {
		b = newInfs(bk)
	}
	defer b.close()
	mdl := model{}
	// after[key]: how the key's entry was last changed: <op>-<new|fewer|equal|more|empty> (chunk count of the
	// written sequence relative to the entry it replaced), "Remove", or "untouched".
	after := map[int]string{0: "untouched", 1: "untouched"}
	replay := map[string]any{"backend": bk, "program": prog}
	cost := progCost(prog)
	viol := func(ki int, kind, class, detail string) { // ki: the key the violation is about, -1: the whole store
		stats["failed_checks"]++
		stats["failed_"+kind]++
		c.violate(kind+"|"+class, fmt.Sprintf("%s backend, program %v: %s", bk, prog, volatileRe.ReplaceAllString(detail, "<...>")), replay, cost)
	}
	for i, s := range prog {
		old := mdl[s.Key]
		nw := specsFor(i, s)
		removed, noop, err := b.apply(i, s)
		last := i == len(prog)-1
		assigned := false // the model's entry of s.Key is (re)written or deleted by this step
		switch s.Op {
		case "Remove":
			if err != nil {
				if last {
					viol(s.Key, "op-error", maxChunkClass(old), fmt.Sprintf("Remove(%s) returned error %v", keyNames[s.Key], err))
				}
			} else {
				if removed != (len(old) > 0) && last {
					viol(s.Key, "op-result", maxChunkClass(old), fmt.Sprintf("Remove(%s) returned %v but the entry %s", keyNames[s.Key], removed, map[bool]string{true: "existed", false: "did not exist"}[len(old) > 0]))
				}
				delete(mdl, s.Key)
				assigned = len(old) > 0
			}
		case "Add":
			switch {
			case err != nil && len(old) == 0:
				if last {
					viol(s.Key, "op-error", maxChunkClass(nw), fmt.Sprintf("Add of a new entry %s failed: %v", describe(nw), err))
				}
			case err != nil:
				// Add over an existing entry may be refused; the existing entry must then stay intact.
			case len(old) > 0 && len(nw) == 0:
				// nothing was written
			default:
				mdl[s.Key], assigned = nw, true
			}
		case "Update":
			switch {
			case len(old) == 0:
				if err == nil && !noop && len(nw) > 0 && last {
					viol(s.Key, "op-result", maxChunkClass(nw), "Update of a missing entry returned an encoder")
				}
				if err == nil && !noop {
					mdl[s.Key], assigned = nw, true
				}
			case err != nil || noop:
				if last {
					viol(s.Key, "op-error", maxChunkClass(old, nw), fmt.Sprintf("Update of existing entry %s with %s failed: noop=%v err=%v", describe(old), describe(nw), noop, err))
				}
			default:
				mdl[s.Key], assigned = nw, true
			}
		case "Upsert":
			if err != nil || noop {
				if last {
					viol(s.Key, "op-error", maxChunkClass(old, nw), fmt.Sprintf("Upsert over %s with %s failed: noop=%v err=%v", describe(old), describe(nw), noop, err))
				}
			} else {
				mdl[s.Key], assigned = nw, true
			}
		}
		if len(mdl[s.Key]) == 0 {
			delete(mdl, s.Key)
		}
		if assigned {
			switch {
			case s.Op == "Remove":
				after[s.Key] = "Remove"
			case len(old) == 0 && len(nw) == 0:
				// an empty entry written where there was none: nothing changed
			case len(old) == 0:
				after[s.Key] = s.Op + "-new"
			case len(nw) == 0:
				after[s.Key] = s.Op + "-empty"
			case len(nw) < len(old):
				after[s.Key] = s.Op + "-fewer"
			case len(nw) == len(old):
				after[s.Key] = s.Op + "-equal"
			default:
				after[s.Key] = s.Op + "-more"
			}
		}
	}
	stats["programs"]++
	// ---- final state ----
	st, release := b.view()
	defer release()
	// (2) raw chunk items.
	type chunk struct {
		idx int
		b   []byte
	}
	got := map[string][]chunk{}
	n := 0
	ok, err := st.BtreeInterface.First(ctx)
	for ok && err == nil {
		k := st.BtreeInterface.GetCurrentKey().Key
		var v []byte
		v, err = st.BtreeInterface.GetCurrentValue(ctx)
		if err != nil {
			break
		}
		got[k.Key] = append(got[k.Key], chunk{k.ChunkIndex, v})
		if n++; n > 64 {
			err = fmt.Errorf("scan does not end")
			break
		}
		ok, err = st.BtreeInterface.Next(ctx)
	}
	if err != nil {
		// (on the infs backends an error ends the transaction: nothing more can be observed in this view)
		viol(-1, "chunks-scan", maxChunkClass(mdl[0], mdl[1]), "scanning the B-tree failed: "+err.Error())
		return
	}
	if int(st.BtreeInterface.Count()) != n && err == nil {
		viol(-1, "chunks-count", maxChunkClass(mdl[0], mdl[1]), fmt.Sprintf("Count()=%d but the scan returns %d chunk items", st.BtreeInterface.Count(), n))
	}
	for name := range got {
		if name != keyNames[0] && name != keyNames[1] {
			viol(-1, "chunks-foreign", "any", "chunk items of unknown key "+name)
		}
	}
	for ki, name := range keyNames {
		exp := mdl[ki]
		var want, have bytes.Buffer
		tot := 0
		for _, v := range exp {
			tot += v.chunkLen()
		}
		want.Grow(tot)
		for _, ch := range got[name] {
			tot -= len(ch.b)
		}
		have.Grow(want.Cap() - tot)
		for _, v := range exp {
			// payload characters are [a-zA-Z0-9]: the JSON encoding is the payload in quotes; Encode appends '\n'.
			want.WriteByte('"')
			want.WriteString(v.payload())
			want.WriteString("\"\n")
		}
		var idxs []int
		contiguous := true
		for j, ch := range got[name] {
			idxs = append(idxs, ch.idx)
			if ch.idx != j {
				contiguous = false
			}
			have.Write(ch.b)
		}
		stats["chunk_checks"]++
		switch {
		case len(exp) == 0 && len(got[name]) > 0:
			viol(ki, "chunks-leftover", "after="+after[ki], fmt.Sprintf("%s has no entry in the model but chunk items %v (%d bytes) are present", name, idxs, have.Len()))
		case !contiguous:
			viol(ki, "chunks-index", "after="+after[ki], fmt.Sprintf("%s: chunk indexes %v are not 0..m-1", name, idxs))
		case !bytes.Equal(have.Bytes(), want.Bytes()):
			kind := "chunks-content"
			if have.Len() > want.Len() && bytes.HasPrefix(have.Bytes(), want.Bytes()) {
				kind = "chunks-leftover"
			} else if have.Len() < want.Len() && bytes.HasPrefix(want.Bytes(), have.Bytes()) {
				kind = "chunks-missing"
			}
			viol(ki, kind, "after="+after[ki], fmt.Sprintf("%s: stored chunk items %v hold %d bytes, the last written sequence %s encodes to %d bytes", name, idxs, have.Len(), describe(exp), want.Len()))
		}
	}
	// (1) decode through the API.
	for ki, name := range keyNames {
		exp := mdl[ki]
		stats["decode_checks"]++
		found, err := st.FindOne(ctx, name)
		if err != nil {
			viol(ki, "find-error", maxChunkClass(exp), fmt.Sprintf("FindOne(%s): %v", name, err))
			continue
		}
		if found != (len(exp) > 0) {
			viol(ki, "find", "after="+after[ki], fmt.Sprintf("FindOne(%s)=%v, model has %d values", name, found, len(exp)))
			continue
		}
		if !found {
			continue
		}
		dec, err := st.GetCurrentValue(ctx)
		if err != nil || dec == nil {
			viol(ki, "decode-error", maxChunkClass(exp), fmt.Sprintf("GetCurrentValue(%s): %v", name, err))
			continue
		}
		limit := 4*len(exp) + 4
		var vals []string
		var derr error
		// bounded loop: a reader that repeats a chunk never reports EOF. The verdict is fixed as soon as a value
		// differs or one value more than written has been produced, so the loop stops there (limit is the hard bound).
		for len(vals) < limit {
			var s string
			if derr = dec.Decode(&s); derr != nil {
				break
			}
			vals = append(vals, s)
			if len(vals) > len(exp) || s != exp[len(vals)-1].payload() {
				break
			}
		}
		class := maxChunkClass(exp)
		bad := -1
		for j := 0; j < len(vals) && j < len(exp); j++ {
			if vals[j] != exp[j].payload() {
				bad = j
				break
			}
		}
		switch {
		case bad >= 0:
			viol(ki, "decode-value", class, fmt.Sprintf("%s written as %s: value #%d decodes as %s, want %s", name, describe(exp), bad, short(vals[bad]), short(exp[bad].payload())))
		case derr == nil || len(vals) > len(exp):
			rep := ""
			if len(vals) > len(exp) && len(exp) > 0 {
				for j := range exp {
					if vals[len(exp)] == exp[j].payload() {
						rep = fmt.Sprintf(" (value #%d is value #%d again)", len(exp), j)
						break
					}
				}
			}
			viol(ki, "decode-extra", class, fmt.Sprintf("%s written as %d values %s: after them the decoder yields a further value instead of end of stream%s", name, len(exp), describe(exp), rep))
		case derr != io.EOF:
			viol(ki, "decode-error", class, fmt.Sprintf("%s written as %s: after %d values the decoder fails with %v (want io.EOF after %d)", name, describe(exp), len(vals), derr, len(exp)))
		case len(vals) < len(exp):
			viol(ki, "decode-short", class, fmt.Sprintf("%s written as %d values %s: end of stream after %d values", name, len(exp), describe(exp), len(vals)))
		}
	}
}

// ---- enumeration plans ----

type plan struct {
	Name    string
	Backend string
	// Levels[i] = alphabet (list of sizes) for step i; programs of every length 1..len(Levels).
	Levels [][]int
	// Exact: only programs of exactly len(Levels) steps (shorter ones are covered by another plan).
	Exact bool
}

var sizesSmall = []int{100, 513}
var sizesFull = []int{1, 100, 511, 512, 513, 4096, 70000}
var sizesFullThorough = []int{1, 100, 511, 512, 513, 4096, 70000, 1 << 20}

var only513 = []int{513}

var only100 = []int{100}
var sizesNoHuge = []int{1, 100, 511, 512, 513, 4096}

// plans: the full product (2402 steps)^3 is out of reach (1.4e10 programs), so the space is factored into
//
//	(a) every value-size sequence (0-3 values) of the FULL size alphabet in a one-step program (what the reader
//	    has to cope with), on every backend;
//	(b) every program STRUCTURE of depth <= 3 (thorough 4) over a reduced size alphabet: {100,513} = one chunk the
//	    JSON decoder reads in one piece and one it cannot (its read buffer starts at 512 bytes); {100} / {513}
//	    alone where only the chunk COUNTS (0-3: fewer / equal / more) matter;
//	(c) two-step programs with a wide size alphabet (all sizes up to 4096; thorough also the full one) at one step
//	    position and {513} / {100,513} at the other (replacement of entries of every size sequence, and by every
//	    size sequence).
//
// "Exact" plans run only programs of exactly their depth; every shorter prefix is a program of another plan.
func plans(thorough bool) []plan {
	full := sizesFull
	if thorough {
		full = sizesFullThorough
	}
	p := []plan{
		{Name: "mem-depth3-sizes{100,513}", Backend: "mem", Levels: [][]int{sizesSmall, sizesSmall, sizesSmall}},
		{Name: "mem-depth1-full", Backend: "mem", Levels: [][]int{full}},
	}
	if thorough {
		p = append(p,
			plan{Name: "mem-full-then-{513}", Backend: "mem", Levels: [][]int{full, only513}, Exact: true},
			plan{Name: "mem-{513}-then-full", Backend: "mem", Levels: [][]int{only513, full}, Exact: true},
			plan{Name: "mem-{1..4096}-then-{100,513}", Backend: "mem", Levels: [][]int{sizesNoHuge, sizesSmall}, Exact: true},
			plan{Name: "mem-{100,513}-then-{1..4096}", Backend: "mem", Levels: [][]int{sizesSmall, sizesNoHuge}, Exact: true},
			plan{Name: "mem-depth4-sizes{100}", Backend: "mem", Levels: [][]int{only100, only100, only100, only100}, Exact: true},
			plan{Name: "mem-depth4-sizes{513}", Backend: "mem", Levels: [][]int{only513, only513, only513, only513}, Exact: true})
	} else {
		p = append(p,
			plan{Name: "mem-{1..4096}-then-{513}", Backend: "mem", Levels: [][]int{sizesNoHuge, only513}, Exact: true},
			plan{Name: "mem-{513}-then-{1..4096}", Backend: "mem", Levels: [][]int{only513, sizesNoHuge}, Exact: true})
	}
	for _, bk := range []string{"infs-big", "infs-medium"} {
		p = append(p, plan{Name: bk + "-depth1-full", Backend: bk, Levels: [][]int{full}})
		switch {
		case thorough:
			p = append(p,
				plan{Name: bk + "-depth2-sizes{100,513}", Backend: bk, Levels: [][]int{sizesSmall, sizesSmall}, Exact: true},
				plan{Name: bk + "-depth3-sizes{100}", Backend: bk, Levels: [][]int{only100, only100, only100}, Exact: true},
				plan{Name: bk + "-depth3-sizes{513}", Backend: bk, Levels: [][]int{only513, only513, only513}, Exact: true})
		case bk == "infs-big":
			p = append(p,
				plan{Name: bk + "-depth3-sizes{100}", Backend: bk, Levels: [][]int{only100, only100, only100}},
				plan{Name: bk + "-depth2-sizes{513}", Backend: bk, Levels: [][]int{only513, only513}, Exact: true})
		default:
			p = append(p,
				plan{Name: bk + "-depth2-sizes{100}", Backend: bk, Levels: [][]int{only100, only100}, Exact: true},
				plan{Name: bk + "-depth2-sizes{513}", Backend: bk, Levels: [][]int{only513, only513}, Exact: true})
		}
	}
	if thorough {
		p = append(p,
			plan{Name: "infs-big-depth4-sizes{100}", Backend: "infs-big", Levels: [][]int{only100, only100, only100, only100}, Exact: true},
			plan{Name: "infs-big-{1..4096}-then-{513}", Backend: "infs-big", Levels: [][]int{sizesNoHuge, only513}, Exact: true},
			plan{Name: "infs-big-{513}-then-{1..4096}", Backend: "infs-big", Levels: [][]int{only513, sizesNoHuge}, Exact: true})
	}
	return p
}

// runPlan enumerates the programs of p whose first step index is congruent to chunk modulo nchunks (strided, so
// that the expensive large-value steps, which are adjacent in the alphabet, spread over the shards).
func runPlan(c *collector, run *ev.Run, p plan, chunk, nchunks int, stats map[string]int64) {
	alph := make([][]step, len(p.Levels))
	for i, l := range p.Levels {
		alph[i] = alphabet(l)
	}
	sampled := false
	var rec func(prog []step)
	rec = func(prog []step) {
		d := len(prog)
		if d > 0 && (!p.Exact || d == len(p.Levels)) {
			runProgram(c, p.Backend, prog, stats)
			if d == len(p.Levels) && (!sampled || len(prog[d-1].Sizes) == 2) && len(prog[0].Sizes) > 0 {
				sampled = true
				var l []string
				for _, s := range prog {
					l = append(l, s.String())
				}
				run.Set("sample", map[string]any{"plan": p.Name, "program": strings.Join(l, "; ")})
			}
		}
		if d == len(p.Levels) {
			return
		}
		lo, stride := 0, 1
		if d == 0 {
			lo, stride = chunk, nchunks
		}
		for i := lo; i < len(alph[d]); i += stride {
			rec(append(prog[:d:d], alph[d][i]))
		}
	}
	rec(nil)
}

// replayFile re-runs the program(s) of a replay artefact ({"replay":{"backend":..,"program":[..]}}); with
// backend "" both backends are run.
func replayFile(run *ev.Run, path string) {
	b, err := os.ReadFile(path)
	must(err, "read replay")
	var f struct {
		Replay struct {
			Backend string `json:"backend"`
			Program []step `json:"program"`
		} `json:"replay"`
	}
	must(json.Unmarshal(b, &f), "parse replay")
	bks := []string{f.Replay.Backend}
	if f.Replay.Backend == "" {
		bks = []string{"mem", "infs-big", "infs-medium"}
	}
	c := &collector{run: run, cands: map[string]cand{}}
	stats := map[string]int64{}
	for _, bk := range bks {
		runProgram(c, bk, f.Replay.Program, stats)
	}
	if infsDir != "" {
		os.RemoveAll(infsDir)
	}
	for _, cd := range c.list() {
		run.Violate(cd.V)
	}
	run.Set("evaluations", stats["decode_checks"]+stats["chunk_checks"])
	run.Set("distinct_nontrivial", stats["programs"])
	run.Set("rule", "replay of one program from "+path)
	run.Finish()
}

func main() {
	prop := "C31"
	if len(os.Args) > 1 && strings.HasPrefix(os.Args[1], "C") {
		prop = os.Args[1]
	}
	run := ev.New(prop, "exploration")
	thorough := run.Thorough()
	initBase(1 << 20)
	pl := plans(thorough)
	for i, a := range os.Args {
		if a == "--replay" && i+1 < len(os.Args) {
			replayFile(run, os.Args[i+1])
		}
	}
	if job := ev.Job(); job != "" {
		debug.SetGCPercent(400)
		if pf := os.Getenv("C31_PROF"); pf != "" {
			f, _ := os.Create(pf)
			pprof.StartCPUProfile(f)
			defer pprof.StopCPUProfile()
			defer func() { pprof.StopCPUProfile(); f.Close() }()
		}
		var idx, pi, chunk, nchunks int
		fmt.Sscanf(job, "%d:%d:%d:%d", &idx, &pi, &chunk, &nchunks)
		p := pl[pi]
		c := &collector{run: run, cands: map[string]cand{}}
		stats := map[string]int64{}
		runPlan(c, run, p, chunk, nchunks, stats)
		if infsDir != "" {
			os.RemoveAll(infsDir)
		}
		for k, v := range stats {
			run.Add(k, v)
		}
		run.Add("programs_"+p.Backend, stats["programs"])
		run.Add("programs_plan_"+p.Name, stats["programs"])
		var ru syscall.Rusage
		if syscall.Getrusage(syscall.RUSAGE_SELF, &ru) == nil {
			run.Add("cpu_ms_plan_"+p.Name, (ru.Utime.Sec+ru.Stime.Sec)*1000+int64(ru.Utime.Usec+ru.Stime.Usec)/1000)
		}
		if l := c.list(); len(l) > 0 {
			run.Set("candidates", l)
		}
		pprof.StopCPUProfile()
		run.EmitPartial()
	}
	// Shards per plan from a rough cost estimate (programs x per-program weight); the most expensive shards are
	// started first. The job name's leading index is the position in plan order (stable tie-break for examples).
	type jobEst struct {
		name string
		cost float64
	}
	var est []jobEst
	for pi, p := range pl {
		progs, w, extra := 1.0, 0.1, 2.4 // measured ms per program: base, and per step drawn from the full size alphabet
		if isInfs(p.Backend) {
			w, extra = 6, 30
		}
		if thorough {
			extra *= 4 // 1 MB values
		}
		for _, l := range p.Levels {
			progs *= float64(len(alphabet(l)))
			if len(l) > 6 { // the full alphabet (70000-byte and, thorough, 1 MB values)
				w += extra
			} else if len(l) > 2 {
				w += extra / 8
			}
		}
		target := 4000.0 // ms of work per shard
		if thorough {
			target = 30000
		}
		n := int(progs*w/target) + 1
		if a := len(alphabet(p.Levels[0])); a < n {
			n = a
		}
		for i := 0; i < n; i++ {
			est = append(est, jobEst{fmt.Sprintf("%04d:%d:%d:%d", len(est), pi, i, n), progs * w / float64(n)})
		}
	}
	sort.SliceStable(est, func(i, j int) bool { return est[i].cost > est[j].cost })
	var jobs []string
	for _, e := range est {
		jobs = append(jobs, e.name)
	}
	dl := 15 * time.Minute
	if thorough {
		dl = 60 * time.Minute
	}
	run.Parallel(jobs, 0, dl, nil)
	pj, _ := run.Coverage["per_job"].(map[string]any)
	names := make([]string, 0, len(pj))
	for k := range pj {
		names = append(names, k)
	}
	sort.Strings(names)
	seenPlan := map[string]bool{}
	best := map[string]cand{}
	for _, jn := range names {
		ex, _ := pj[jn].(map[string]any)
		if ex == nil {
			continue
		}
		if cl, ok := ex["candidates"]; ok {
			b, _ := json.Marshal(cl)
			var l []cand
			json.Unmarshal(b, &l)
			for _, v := range l {
				if o, ok := best[v.V.Sig]; !ok || v.Cost < o.Cost {
					best[v.V.Sig] = v
				}
			}
		}
		if s, ok := ex["sample"].(map[string]any); ok && !seenPlan[fmt.Sprint(s["plan"])] {
			seenPlan[fmt.Sprint(s["plan"])] = true
			run.Sample(s)
		}
	}
	for _, v := range best {
		run.Violate(v.V)
	}
	delete(run.Coverage, "per_job")
	cov := run.Coverage
	progs, _ := cov["programs"].(int64)
	dc, _ := cov["decode_checks"].(int64)
	cc, _ := cov["chunk_checks"].(int64)
	run.Set("evaluations", dc+cc)
	run.Set("distinct_nontrivial", progs)
	var pn []string
	for _, p := range pl {
		pn = append(pn, p.Name)
	}
	run.Set("plans", pn)
	run.Set("rule", "step alphabet over sizes S = {Add,Update,Upsert} x {k1,k2} x every sequence of 0-3 values with sizes from S, plus Remove x {k1,k2}; "+
		"a plan lists S per step position and enumerates EVERY program of 1..depth steps (Exact plans: exactly depth steps) on a new store; "+
		"sizes are chunk lengths in bytes as the reader sees them (1 = 1-character payload); after the last step of each program both keys are decoded through FindOne/GetCurrentValue "+
		"and all (key,chunkIndex) items of the underlying B-tree are scanned and compared with the model; every prefix is a program of its own. "+
		"distinct_nontrivial = number of distinct programs executed (measured); evaluations = decode checks + chunk-set checks")
	run.Assumption("the full product of 2402 steps ^ 3 (1.4e10 programs) is factored: all size sequences in one-step programs on every backend; all program structures of depth <= 3 (thorough 4) over reduced size alphabets; two-step programs with a wide alphabet at one position (see plans); a defect needing two different large sizes in two different steps AND a third step is not enumerated")
	run.Assumption("values are JSON strings (one Encode = one chunk written by json.Encoder); other JSON value types are not enumerated")
	run.Assumption("the caller follows the documented protocol: Encode each value, then Close; it stops at the first Encode error (infs backend: the transaction is then rolled back)")
	run.Assumption("Add over an existing entry is outside the statement: the check only requires that a refused Add leaves the existing entry intact and that an accepted Add reads back as written")
	run.Assumption("an entry written with zero values has no chunk items and is treated as absent")
	run.Finish()
}
