// racex (C36): schedule-enumerated data-race detection. Built with -race; concurrent transaction programs run
// under the rsched scheduler, which adds no happens-before edges of its own, and every explored schedule
// (deviation bound 1) is checked by the Go race detector. Any race report with a frame in
// github.com/sharedcode/sop whose two racing accesses are not in harness code is a violation.
package main

import (
	"context"
	"fmt"
	"os"
	"regexp"
	"sort"
	"strings"
	"time"

	"github.com/sharedcode/sop"
	"verif.local/mc/detuuid"
	"verif.local/mc/ev"
	"verif.local/mc/l2x"
	"verif.local/mc/rsched"
	"verif.local/mc/sopenv"
	"verif.local/mc/txn"
)

type scenario struct {
	Name string
	// Repl: active/passive replication + erasure-coded blobs; Tasks: TaskRunner tasks are scheduler threads.
	Repl, Tasks bool
	// Bound0: deviation bound 0 in quick (only the zero-cost alternatives: who runs next whenever the running thread
	// ended, sleeps or waits for its tasks), 1 in thorough; default is 1 in quick and 2 in thorough.
	Bound0 bool
	Stores []txn.StoreSpec
	Progs  []txn.Prog
}

func kv(pairs ...any) []txn.KV {
	var r []txn.KV
	for i := 0; i < len(pairs); i += 2 {
		r = append(r, txn.KV{K: pairs[i].(int), V: pairs[i+1].(string)})
	}
	return r
}
func st(name string, slot int, place string, initial ...any) txn.StoreSpec {
	return txn.StoreSpec{Name: name, Slot: slot, Unique: true, Place: place, Initial: kv(initial...)}
}
func op(kind, store string, k int, v ...string) txn.Op {
	o := txn.Op{Kind: kind, Store: store, K: k}
	if len(v) > 0 {
		o.V = v[0]
	}
	return o
}
func W(name string, ops ...txn.Op) txn.Prog {
	return txn.Prog{Name: name, Mode: sop.ForWriting, Ops: ops, End: "commit"}
}
func R(name string, ops ...txn.Op) txn.Prog {
	return txn.Prog{Name: name, Mode: sop.ForReading, Ops: ops, End: "commit"}
}

func scenarios(thorough bool) []*scenario {
	s := []*scenario{
		{Name: "two-writers-same-key", Stores: []txn.StoreSpec{st("a", 4, "node", 1, "x", 2, "y")},
			Progs: []txn.Prog{W("T1", op("rmw", "a", 1, "+1")), W("T2", op("rmw", "a", 1, "+2"))}},
		{Name: "disjoint-adders-split", Stores: []txn.StoreSpec{st("a", 2, "node", 1, "x", 2, "y")},
			Progs: []txn.Prog{W("T1", op("add", "a", 3, "t1")), W("T2", op("add", "a", 4, "t2"))}},
		{Name: "writer-vs-reader-segment-values", Stores: []txn.StoreSpec{st("a", 4, "segment", 1, "x", 2, "y")},
			Progs: []txn.Prog{W("T1", op("update", "a", 1, "n"), op("remove", "a", 2)), R("R", op("get", "a", 1), op("scan", "a", 0))}},
		{Name: "two-cold-readers-and-writer-same-node", Stores: []txn.StoreSpec{st("a", 4, "node", 1, "x", 2, "y")},
			Progs: []txn.Prog{R("R1", op("get", "a", 1), op("get", "a", 2)), R("R2", op("get", "a", 2), op("get", "a", 1)), W("T1", op("update", "a", 1, "n"))}},
		{Name: "two-stores-opposite-order", Stores: []txn.StoreSpec{st("a", 4, "node", 1, "x"), st("b", 4, "active", 1, "y")},
			Progs: []txn.Prog{W("T1", op("update", "a", 1, "t1"), op("update", "b", 1, "t1")), W("T2", op("update", "b", 1, "t2"), op("update", "a", 1, "t2"))}},
	}
	// replication + erasure coding: phase 2 fans out into concurrent tasks (registry / store-info replication,
	// priority-log removal, commit-change log) and the blob store into one task per shard
	s = append(s,
		&scenario{Name: "repl-free-two-writers-split", Repl: true, Tasks: true, Stores: []txn.StoreSpec{st("a", 2, "segment", 1, "x", 2, "y")},
			Progs: []txn.Prog{W("T1", op("add", "a", 3, "t1"), op("update", "a", 1, "u1")), W("T2", op("add", "a", 4, "t2"))}},
		&scenario{Name: "repl-free-writer-vs-reader", Repl: true, Tasks: true, Stores: []txn.StoreSpec{st("a", 4, "node", 1, "x", 2, "y"), st("b", 4, "active", 1, "y")},
			Progs: []txn.Prog{W("T1", op("update", "a", 1, "n"), op("update", "b", 1, "m")), R("R", op("get", "a", 1), op("get", "b", 1))}},
	)
	if thorough {
		s = append(s, &scenario{Name: "three-writers", Stores: []txn.StoreSpec{st("a", 2, "node", 1, "x", 2, "y", 3, "z")},
			Progs: []txn.Prog{W("T1", op("rmw", "a", 1, "+1")), W("T2", op("add", "a", 4, "t2")), W("T3", op("remove", "a", 3))}})
	}
	return s
}

var epoch = time.Date(2026, 1, 2, 3, 4, 5, 0, time.UTC)

type env struct{ recs []*txn.Record }

var reFrame = regexp.MustCompile(`^\s+(\S+)\(`)

// parseReports splits race detector output into reports and gives each a signature made of the top frames of
// the two racing accesses.
func parseReports(text string) (sigs []string, bodies []string) {
	for _, blk := range strings.Split(text, "WARNING: DATA RACE") {
		if !strings.Contains(blk, "by goroutine") {
			continue
		}
		var tops []string
		var inHarness []bool
		lines := strings.Split(blk, "\n")
		for i, l := range lines {
			if (strings.Contains(l, "by goroutine") || strings.Contains(l, "by main goroutine")) && (strings.HasPrefix(strings.TrimSpace(l), "Read") || strings.HasPrefix(strings.TrimSpace(l), "Write") || strings.HasPrefix(strings.TrimSpace(l), "Previous")) {
				// first frame below that is not runtime/sync internals
				for j := i + 1; j < len(lines) && strings.TrimSpace(lines[j]) != ""; j += 2 {
					m := reFrame.FindStringSubmatch(lines[j])
					if m == nil {
						break
					}
					fn := m[1]
					if strings.HasPrefix(fn, "runtime.") || strings.HasPrefix(fn, "sync.") || strings.HasPrefix(fn, "sync/atomic.") {
						continue
					}
					tops = append(tops, fn)
					inHarness = append(inHarness, strings.HasPrefix(fn, "verif.local/") || strings.HasPrefix(fn, "main."))
					break
				}
			}
		}
		if len(tops) < 2 || !strings.Contains(blk, "github.com/sharedcode/sop") {
			continue
		}
		if inHarness[0] || inHarness[1] {
			continue // an access made by harness code itself
		}
		two := tops[:2]
		sort.Strings(two)
		sigs = append(sigs, strings.Join(two, " <-> "))
		bodies = append(bodies, strings.TrimSpace(blk))
	}
	return
}

func main() {
	run := ev.New("C36", "exploration")
	thorough := run.Thorough()
	scs := scenarios(thorough)
	if job := ev.Job(); job != "" {
		var si int
		fmt.Sscan(job, &si)
		sc := scs[si]
		l2x.NoSync = true
		detuuid.NoSync = true
		sopenv.Replicated = sc.Repl
		defer sopenv.Cleanup()
		sopenv.FreshDir(1)
		if err := txn.Build(sopenv.Bg, sc.Stores); err != nil {
			fmt.Fprintln(os.Stderr, "build:", err)
			os.Exit(2)
		}
		sopenv.SaveTemplate()
		logPath := os.Getenv("RACEX_LOG") + "." + fmt.Sprint(os.Getpid())
		var names []string
		for _, s := range sc.Stores {
			names = append(names, s.Name)
		}
		classes := []string{"l2", "dio", "file", "l1"}
		if sc.Tasks {
			classes = classes[:3] // the task-thread scenarios are already large; L1 release points are explored in the others
		}
		rs := &rsched.Scenario{Classes: classes, Epoch: epoch, TaskThreads: sc.Tasks,
			Setup: func(x *rsched.X) []func(ctx context.Context) {
				sopenv.Restore(2)
				e := &env{recs: make([]*txn.Record, len(sc.Progs))}
				curEnv = e
				var bodies []func(ctx context.Context)
				for i, p := range sc.Progs {
					i, p := i, p
					bodies = append(bodies, func(ctx context.Context) { e.recs[i] = txn.Run(ctx, p, nil) })
				}
				return bodies
			},
			Teardown: func(x *rsched.X) { txn.ReadAll(sopenv.Bg, names) },
		}
		seenLen := 0
		bound := 1
		if thorough {
			bound = 2
		}
		if sc.Bound0 {
			bound--
		}
		deadline := time.Now().Add(10 * time.Minute)
		if thorough {
			deadline = time.Now().Add(60 * time.Minute)
		}
		outcomes := map[string]bool{}
		var switched int64
		execs, trunc := rsched.Explore(rs, bound, deadline, func(x *rsched.X) {
			if x.Switches > 0 {
				switched++
			}
			var o []string
			for _, r := range curEnv.recs {
				if r != nil {
					o = append(o, fmt.Sprintf("%s=%v", r.Prog.Name, r.Committed))
				}
			}
			outcomes[strings.Join(o, ",")] = true
			b, _ := os.ReadFile(logPath)
			if len(b) > seenLen {
				sigs, bodies := parseReports(string(b[seenLen:]))
				seenLen = len(b)
				for i, s := range sigs {
					body := bodies[i]
					if len(body) > 3000 {
						body = body[:3000]
					}
					run.Violate(ev.Violation{Sig: "data-race|" + s, Detail: fmt.Sprintf("scenario %s schedule=%v: the race detector reported:\n%s", sc.Name, x.Choices, body), Replay: map[string]any{"scenario": sc.Name, "schedule": x.Choices}})
				}
			}
			if x.Deadlock {
				run.Violate(ev.Violation{Sig: "deadlock|" + sc.Name, Detail: fmt.Sprint(x.Choices), Replay: map[string]any{"scenario": sc.Name, "schedule": x.Choices}})
			}
		})
		if trunc {
			run.NotExhaustive("budget reached in " + sc.Name)
		}
		run.Set("executions", int64(execs))
		run.Set("schedules_with_context_switch", switched)
		run.Set("distinct_outcomes", len(outcomes))
		run.Set("scenario", sc.Name)
		run.EmitPartial()
	}
	if os.Getenv("GORACE") == "" {
		// re-exec with the race detector logging to a file and not aborting
		os.MkdirAll("/dev/shm/verif_racex", 0o755)
		os.Setenv("RACEX_LOG", "/dev/shm/verif_racex/race")
		os.Setenv("GORACE", "log_path=/dev/shm/verif_racex/race halt_on_error=0 history_size=5")
	}
	defer os.RemoveAll("/dev/shm/verif_racex")
	var jobs []string
	for i := range scs {
		jobs = append(jobs, fmt.Sprint(i))
	}
	run.Parallel(jobs, 0, 70*time.Minute, nil)
	os.RemoveAll("/dev/shm/verif_racex")
	run.Set("evaluations", run.Coverage["executions"])
	run.Set("distinct_nontrivial", run.Coverage["schedules_with_context_switch"])
	run.Set("rule", "scheduling points: every L2 cache call, registry block and file operation, and (except in the two task-thread scenarios) the moment right after every non-deferred release of an L1 cache mutex; binary built with -race; every schedule with at most 1 deviation (2 in thorough) of 2-3 concurrent transactions through the public infs API under a scheduler that hands control over with raw pipe syscalls and keeps its state in //go:norace code (no happens-before edges of its own; decorators and UUID stream lock-free in this mode); after every execution the race detector's log is read; a report counts when it involves github.com/sharedcode/sop and neither racing access is in harness code")
	run.Assumption("the race detector is happens-before based: it reports unsynchronised conflicting accesses of the explored executions only; file I/O inside the Go runtime (syscall.Read/Write) orders the goroutines that perform it, as in production")
	run.Assumption("background maintenance started by Begin (onIdle) does not run on this tree (it returns before doing anything, see C09) and is therefore not exercised")
	run.Finish()
}

var curEnv *env
