// c16: fault enumeration for "external two-phase participants follow SOP's commit outcome" (C16).
//
// A REAL SOP transaction (infs, filesystem backend on /dev/shm, in-memory L2 cache) with one pending
// write is committed through the real sop.SinglePhaseTransaction with 0..3 scripted participants
// attached. Failures are injected
//   - in every participant method (Begin / Phase1Commit / Phase2Commit / Rollback),
//   - in SOP itself, genuinely: a fault-injecting sop.L2Cache decorator (registered for sop.InMemory)
//     makes the N-th L2 call issued during Commit return an error, N over ALL L2 calls,
//   - in SOP itself, synthetically: a recorder around the SOP two-phase transaction (installed through
//     the exported field SinglePhaseTransaction.SopPhaseCommitTransaction) that returns an error
//     instead of running Begin / Phase1Commit / Phase2Commit, or after running Rollback.
//
// Every combination of at most two injected failures is run. The oracle works on the recorded call
// log (participants and the SOP recorder share one log) and on the store read back afterwards.
package main

import (
	"context"
	"encoding/json"
	"errors"
	"fmt"
	"hash/fnv"
	"io"
	"log/slog"
	"os"
	"os/exec"
	"sort"
	"strings"
	"sync"
	"time"

	"github.com/sharedcode/sop"
	"github.com/sharedcode/sop/cache"
	"github.com/sharedcode/sop/infs"
	"verif.local/mc/detuuid"
	"verif.local/mc/ev"
)

// ---------- call log ----------

type event struct {
	Who    string `json:"who"` // "sop" or "p0".."p2"
	Method string `json:"method"`
	Failed bool   `json:"failed"`
}

func (e event) String() string {
	s := e.Who + "." + e.Method
	if e.Failed {
		s += "=ERR"
	}
	return s
}

type callLog struct {
	mu     sync.Mutex
	events []event
}

func (l *callLog) add(who, method string, err error) {
	l.mu.Lock()
	l.events = append(l.events, event{who, method, err != nil})
	l.mu.Unlock()
}

func (l *callLog) String() string {
	var s []string
	for _, e := range l.events {
		s = append(s, e.String())
	}
	return strings.Join(s, " ")
}

// ---------- scripted participant ----------

type participant struct {
	name  string
	log   *callLog
	fail  map[string]bool
	fired *[]string
	begun bool
}

func (p *participant) do(method string) error {
	var err error
	if p.fail[method] {
		err = fmt.Errorf("injected failure in %s.%s", p.name, method)
		*p.fired = append(*p.fired, p.name+"."+method)
	}
	p.log.add(p.name, method, err)
	return err
}

func (p *participant) Begin(ctx context.Context) error {
	err := p.do("Begin")
	if err == nil {
		p.begun = true
	}
	return err
}
func (p *participant) Phase1Commit(ctx context.Context) error      { return p.do("Phase1Commit") }
func (p *participant) Phase2Commit(ctx context.Context) error      { return p.do("Phase2Commit") }
func (p *participant) Rollback(ctx context.Context, _ error) error { return p.do("Rollback") }
func (p *participant) HasBegun() bool                              { return p.begun }
func (p *participant) GetMode() sop.TransactionMode                { return sop.ForWriting }
func (p *participant) GetStores(context.Context) ([]string, error) { return nil, nil }
func (p *participant) Close() error                                { return nil }
func (p *participant) GetID() sop.UUID                             { return sop.NilUUID }
func (p *participant) CommitMaxDuration() time.Duration            { return time.Minute }
func (p *participant) OnCommit(func(ctx context.Context) error)    {}

// ---------- recorder around SOP's own two-phase transaction ----------

type sopRecorder struct {
	inner sop.TwoPhaseCommitTransaction
	log   *callLog
	fail  map[string]bool // Begin/Phase1Commit/Phase2Commit: error INSTEAD of the inner call; Rollback: error AFTER the inner call
	fired *[]string
}

func (r *sopRecorder) Begin(ctx context.Context) error {
	var err error
	if r.fail["Begin"] {
		err = errors.New("injected failure instead of sop.Begin")
		*r.fired = append(*r.fired, "sop.Begin")
	} else {
		err = r.inner.Begin(ctx)
	}
	r.log.add("sop", "Begin", err)
	return err
}
func (r *sopRecorder) Phase1Commit(ctx context.Context) error {
	var err error
	if r.fail["Phase1Commit"] {
		err = errors.New("injected failure instead of sop.Phase1Commit")
		*r.fired = append(*r.fired, "sop.Phase1Commit")
	} else {
		err = r.inner.Phase1Commit(ctx)
	}
	r.log.add("sop", "Phase1Commit", err)
	return err
}
func (r *sopRecorder) Phase2Commit(ctx context.Context) error {
	var err error
	if r.fail["Phase2Commit"] {
		err = errors.New("injected failure instead of sop.Phase2Commit")
		*r.fired = append(*r.fired, "sop.Phase2Commit")
	} else {
		err = r.inner.Phase2Commit(ctx)
	}
	r.log.add("sop", "Phase2Commit", err)
	return err
}
func (r *sopRecorder) Rollback(ctx context.Context, cause error) error {
	err := r.inner.Rollback(ctx, cause)
	if err == nil && r.fail["Rollback"] {
		err = errors.New("injected failure after sop.Rollback")
		*r.fired = append(*r.fired, "sop.Rollback")
	}
	r.log.add("sop", "Rollback", err)
	return err
}
func (r *sopRecorder) HasBegun() bool               { return r.inner.HasBegun() }
func (r *sopRecorder) GetMode() sop.TransactionMode { return r.inner.GetMode() }
func (r *sopRecorder) GetStores(ctx context.Context) ([]string, error) {
	return r.inner.GetStores(ctx)
}
func (r *sopRecorder) Close() error                                { return r.inner.Close() }
func (r *sopRecorder) GetID() sop.UUID                             { return r.inner.GetID() }
func (r *sopRecorder) CommitMaxDuration() time.Duration            { return r.inner.CommitMaxDuration() }
func (r *sopRecorder) OnCommit(cb func(ctx context.Context) error) { r.inner.OnCommit(cb) }

// ---------- fault-injecting L2 cache ----------

type faultyL2 struct {
	inner sop.L2Cache
	mu    sync.Mutex
	armed bool
	n     int
	// failAt[i]: the i-th (1-based) error-returning L2 call since arming fails.
	failAt map[int]bool
	// after: perform the inner call, then report the error (ambiguous failure) instead of skipping it.
	after    bool
	calls    []string
	injected []string
}

func (f *faultyL2) arm(failAt map[int]bool, after bool) {
	f.mu.Lock()
	f.armed, f.n, f.failAt, f.after, f.calls, f.injected = true, 0, failAt, after, nil, nil
	f.mu.Unlock()
}

func (f *faultyL2) disarm() (int, []string, []string) {
	f.mu.Lock()
	defer f.mu.Unlock()
	f.armed = false
	return f.n, f.calls, f.injected
}

// hit counts one L2 call; returns (error to inject, whether the inner call must still run).
func (f *faultyL2) hit(name string) (error, bool) {
	f.mu.Lock()
	defer f.mu.Unlock()
	if !f.armed {
		return nil, true
	}
	f.n++
	f.calls = append(f.calls, name)
	if f.failAt[f.n] {
		f.injected = append(f.injected, fmt.Sprintf("#%d:%s", f.n, name))
		return fmt.Errorf("injected L2 failure at call #%d (%s)", f.n, name), f.after
	}
	return nil, true
}

func (f *faultyL2) GetType() sop.L2CacheType                 { return f.inner.GetType() }
func (f *faultyL2) FormatLockKey(k string) string            { return f.inner.FormatLockKey(k) }
func (f *faultyL2) CreateLockKeys(k []string) []*sop.LockKey { return f.inner.CreateLockKeys(k) }
func (f *faultyL2) CreateLockKeysForIDs(k []sop.Tuple[string, sop.UUID]) []*sop.LockKey {
	return f.inner.CreateLockKeysForIDs(k)
}
func (f *faultyL2) IsRestarted(ctx context.Context) bool { return f.inner.IsRestarted(ctx) }

func (f *faultyL2) IsLockedTTL(ctx context.Context, d time.Duration, lk []*sop.LockKey) (bool, error) {
	e, run := f.hit("IsLockedTTL")
	if e != nil {
		if run {
			f.inner.IsLockedTTL(ctx, d, lk)
		}
		return false, e
	}
	return f.inner.IsLockedTTL(ctx, d, lk)
}
func (f *faultyL2) Lock(ctx context.Context, d time.Duration, lk []*sop.LockKey) (bool, sop.UUID, error) {
	e, run := f.hit("Lock")
	if e != nil {
		if run {
			f.inner.Lock(ctx, d, lk)
		}
		return false, sop.NilUUID, e
	}
	return f.inner.Lock(ctx, d, lk)
}
func (f *faultyL2) DualLock(ctx context.Context, d time.Duration, lk []*sop.LockKey) (bool, sop.UUID, error) {
	e, run := f.hit("DualLock")
	if e != nil {
		if run {
			f.inner.DualLock(ctx, d, lk)
		}
		return false, sop.NilUUID, e
	}
	return f.inner.DualLock(ctx, d, lk)
}
func (f *faultyL2) IsLocked(ctx context.Context, lk []*sop.LockKey) (bool, error) {
	e, run := f.hit("IsLocked")
	if e != nil {
		if run {
			f.inner.IsLocked(ctx, lk)
		}
		return false, e
	}
	return f.inner.IsLocked(ctx, lk)
}
func (f *faultyL2) IsLockedByOthers(ctx context.Context, names []string) (bool, error) {
	e, run := f.hit("IsLockedByOthers")
	if e != nil {
		if run {
			f.inner.IsLockedByOthers(ctx, names)
		}
		return false, e
	}
	return f.inner.IsLockedByOthers(ctx, names)
}
func (f *faultyL2) IsLockedByOthersTTL(ctx context.Context, names []string, d time.Duration) (bool, error) {
	e, run := f.hit("IsLockedByOthersTTL")
	if e != nil {
		if run {
			f.inner.IsLockedByOthersTTL(ctx, names, d)
		}
		return false, e
	}
	return f.inner.IsLockedByOthersTTL(ctx, names, d)
}
func (f *faultyL2) Unlock(ctx context.Context, lk []*sop.LockKey) error {
	e, run := f.hit("Unlock")
	if e != nil {
		if run {
			f.inner.Unlock(ctx, lk)
		}
		return e
	}
	return f.inner.Unlock(ctx, lk)
}
func (f *faultyL2) Set(ctx context.Context, k, v string, d time.Duration) error {
	e, run := f.hit("Set")
	if e != nil {
		if run {
			f.inner.Set(ctx, k, v, d)
		}
		return e
	}
	return f.inner.Set(ctx, k, v, d)
}
func (f *faultyL2) Get(ctx context.Context, k string) (bool, string, error) {
	e, run := f.hit("Get")
	if e != nil {
		if run {
			f.inner.Get(ctx, k)
		}
		return false, "", e
	}
	return f.inner.Get(ctx, k)
}
func (f *faultyL2) GetEx(ctx context.Context, k string, d time.Duration) (bool, string, error) {
	e, run := f.hit("GetEx")
	if e != nil {
		if run {
			f.inner.GetEx(ctx, k, d)
		}
		return false, "", e
	}
	return f.inner.GetEx(ctx, k, d)
}
func (f *faultyL2) SetStruct(ctx context.Context, k string, v interface{}, d time.Duration) error {
	e, run := f.hit("SetStruct")
	if e != nil {
		if run {
			f.inner.SetStruct(ctx, k, v, d)
		}
		return e
	}
	return f.inner.SetStruct(ctx, k, v, d)
}
func (f *faultyL2) SetStructs(ctx context.Context, k []string, v []interface{}, d time.Duration) error {
	e, run := f.hit("SetStructs")
	if e != nil {
		if run {
			f.inner.SetStructs(ctx, k, v, d)
		}
		return e
	}
	return f.inner.SetStructs(ctx, k, v, d)
}
func (f *faultyL2) GetStruct(ctx context.Context, k string, t interface{}) (bool, error) {
	e, _ := f.hit("GetStruct")
	if e != nil {
		return false, e // a failed read never fills the target
	}
	return f.inner.GetStruct(ctx, k, t)
}
func (f *faultyL2) GetStructEx(ctx context.Context, k string, t interface{}, d time.Duration) (bool, error) {
	e, _ := f.hit("GetStructEx")
	if e != nil {
		return false, e
	}
	return f.inner.GetStructEx(ctx, k, t, d)
}
func (f *faultyL2) GetStructs(ctx context.Context, k []string, t []interface{}, d time.Duration) ([]bool, error) {
	e, _ := f.hit("GetStructs")
	if e != nil {
		return nil, e // same shape as the Redis adapter's error return
	}
	return f.inner.GetStructs(ctx, k, t, d)
}
func (f *faultyL2) Delete(ctx context.Context, k []string) (bool, error) {
	e, run := f.hit("Delete")
	if e != nil {
		if run {
			f.inner.Delete(ctx, k)
		}
		return false, e
	}
	return f.inner.Delete(ctx, k)
}
func (f *faultyL2) Ping(ctx context.Context) error {
	e, _ := f.hit("Ping")
	if e != nil {
		return e
	}
	return f.inner.Ping(ctx)
}
func (f *faultyL2) Clear(ctx context.Context) error {
	e, run := f.hit("Clear")
	if e != nil {
		if run {
			f.inner.Clear(ctx)
		}
		return e
	}
	return f.inner.Clear(ctx)
}

var l2 = &faultyL2{inner: cache.NewL2InMemoryCache()}

// ---------- fault plans ----------

// A site is one place where a failure can be injected.
//
//	Kind "p":   participant P, method M
//	Kind "sop": SOP recorder, method M (synthetic)
//	Kind "l2":  N-th L2 call after Commit (or the user's Rollback on the begin-failure path) started
type site struct {
	Kind string `json:"kind"`
	P    int    `json:"participant,omitempty"`
	M    string `json:"method,omitempty"`
	N    int    `json:"l2_call,omitempty"`
}

func (s site) String() string {
	switch s.Kind {
	case "p":
		return fmt.Sprintf("p%d.%s", s.P, s.M)
	case "sop":
		return "sop." + s.M + "(synthetic)"
	}
	return fmt.Sprintf("l2#%d", s.N)
}

var methods = []string{"Begin", "Phase1Commit", "Phase2Commit", "Rollback"}

// scenario = how the store looks before and which single pending write is made.
type scenario struct {
	Name        string
	ValueInNode bool
	Before      []kv
	Write       string // add | update | remove
	Key         int
	Val         string
}

type kv struct {
	K int
	V string
}

func scenarios(thorough bool) []scenario {
	three := []kv{{1, "a"}, {2, "b"}, {3, "c"}}
	four := []kv{{1, "a"}, {2, "b"}, {3, "c"}, {4, "d"}}
	sc := []scenario{{Name: "add", Before: three, Write: "add", Key: 9, Val: "z"}}
	if thorough {
		sc = append(sc,
			scenario{Name: "update", Before: three, Write: "update", Key: 2, Val: "B"},
			scenario{Name: "remove", Before: three, Write: "remove", Key: 2},
			scenario{Name: "add-split", Before: four, Write: "add", Key: 9, Val: "z"}, // slot length 4: the add splits the root
			scenario{Name: "add-valueinnode", ValueInNode: true, Before: three, Write: "add", Key: 9, Val: "z"},
		)
	}
	return sc
}

func (s scenario) after() []kv {
	var out []kv
	switch s.Write {
	case "add":
		out = append(append(out, s.Before...), kv{s.Key, s.Val})
	case "update":
		for _, x := range s.Before {
			if x.K == s.Key {
				x.V = s.Val
			}
			out = append(out, x)
		}
	case "remove":
		for _, x := range s.Before {
			if x.K != s.Key {
				out = append(out, x)
			}
		}
	}
	sort.Slice(out, func(i, j int) bool { return out[i].K < out[j].K })
	return out
}

type plan struct {
	Scenario     string `json:"scenario"`
	Participants int    `json:"participants"`
	Faults       []site `json:"faults"`
	L2After      bool   `json:"l2_fault_after_performing_call,omitempty"`
}

func (p plan) String() string {
	var f []string
	for _, s := range p.Faults {
		f = append(f, s.String())
	}
	return fmt.Sprintf("scenario=%s participants=%d faults=[%s] l2after=%v", p.Scenario, p.Participants, strings.Join(f, ","), p.L2After)
}

// ---------- running one case ----------

type outcome struct {
	log        *callLog
	dir        string
	beginErr   error
	commitErr  error // Commit's error (or, on the begin-failure path, the caller's Rollback error)
	committed  bool  // Commit was reached
	l2Calls    int
	l2Names    []string
	l2Injected []string
	fired      []string // scripted participant / synthetic SOP failures that actually triggered
	warm       readBack // fresh read-only transaction in this process (shared L1/L2 caches)
	parts      []*participant
	// participants that had been asked to roll back when Begin returned its error
	autoRollback map[string]bool
}

type readBack struct {
	Items []kv   `json:"items"`
	Count int64  `json:"count"`
	Err   string `json:"err,omitempty"`
}

var ctx = context.Background()
var caseSeq uint64

func must(err error, what string) {
	if err != nil {
		fmt.Fprintf(os.Stderr, "HARNESS FAILURE in %s: %v\n", what, err)
		os.Exit(3)
	}
}

func txOpts(dir string, mode sop.TransactionMode) sop.TransactionOptions {
	return sop.TransactionOptions{Mode: mode, StoresFolders: []string{dir}, CacheType: sop.InMemory, MaxTime: 0}
}

func readStore(dir string) (rb readBack) {
	fail := func(where string, err error) readBack {
		rb.Err = where + ": " + err.Error()
		return rb
	}
	t, err := infs.NewTransaction(ctx, txOpts(dir, sop.ForReading))
	if err != nil {
		return fail("NewTransaction", err)
	}
	if err := t.Begin(ctx); err != nil {
		return fail("Begin", err)
	}
	b, err := infs.OpenBtree[int, string](ctx, "s1", t, nil)
	if err != nil {
		return fail("OpenBtree", err)
	}
	ok, err := b.First(ctx)
	for ok && err == nil {
		var v string
		v, err = b.GetCurrentValue(ctx)
		if err != nil {
			break
		}
		rb.Items = append(rb.Items, kv{b.GetCurrentKey().Key, v})
		ok, err = b.Next(ctx)
		if len(rb.Items) > 100 {
			err = errors.New("scan does not terminate")
		}
	}
	if err != nil {
		t.Rollback(ctx)
		return fail("scan", err)
	}
	rb.Count = b.Count()
	if err := t.Commit(ctx); err != nil {
		return fail("reader Commit", err)
	}
	return rb
}

// runCase executes one plan. The case folder is left in place (o.dir) for the cold read-back.
func runCase(sc scenario, p plan) *outcome {
	caseSeq++
	dir := fmt.Sprintf("/dev/shm/c16_%d_%d", os.Getpid(), caseSeq)
	os.RemoveAll(dir)
	// distinct deterministic UUID stream per case: the process-wide L1 cache is keyed by UUID
	detuuid.Reset(caseSeq<<20 | uint64(os.Getpid()&0xFFFFF))
	l2.disarm()
	l2.inner.Clear(ctx)

	// pre-committed store: "model-before"
	t0, err := infs.NewTransaction(ctx, txOpts(dir, sop.ForWriting))
	must(err, "setup NewTransaction")
	must(t0.Begin(ctx), "setup Begin")
	b0, err := infs.NewBtree[int, string](ctx, sop.StoreOptions{Name: "s1", SlotLength: 4, IsUnique: true, IsValueDataInNodeSegment: sc.ValueInNode}, t0, nil)
	must(err, "setup NewBtree")
	for _, x := range sc.Before {
		ok, err := b0.Add(ctx, x.K, x.V)
		if !ok && err == nil {
			err = errors.New("Add returned false")
		}
		must(err, "setup Add")
	}
	must(t0.Commit(ctx), "setup Commit")

	// the transaction under test
	o := &outcome{log: &callLog{}, dir: dir, autoRollback: map[string]bool{}}
	t, err := infs.NewTransaction(ctx, txOpts(dir, sop.ForWriting))
	must(err, "NewTransaction")
	spt, ok := t.(*sop.SinglePhaseTransaction)
	if !ok {
		must(fmt.Errorf("infs.NewTransaction returned %T", t), "type of user transaction")
	}
	rec := &sopRecorder{inner: spt.SopPhaseCommitTransaction, log: o.log, fail: map[string]bool{}, fired: &o.fired}
	for i := 0; i < p.Participants; i++ {
		o.parts = append(o.parts, &participant{name: fmt.Sprintf("p%d", i), log: o.log, fail: map[string]bool{}, fired: &o.fired})
	}
	l2Fail := map[int]bool{}
	for _, f := range p.Faults {
		switch f.Kind {
		case "p":
			if f.P >= len(o.parts) {
				must(fmt.Errorf("fault %v names a participant that is not attached", f), "plan")
			}
			o.parts[f.P].fail[f.M] = true
		case "sop":
			rec.fail[f.M] = true
		case "l2":
			l2Fail[f.N] = true
		}
	}
	for _, pp := range o.parts {
		t.AddPhasedTransaction(pp)
	}
	spt.SopPhaseCommitTransaction = rec

	if err := t.Begin(ctx); err != nil {
		o.beginErr = err
		for _, e := range o.log.events {
			if e.Method == "Rollback" {
				o.autoRollback[e.Who] = true
			}
		}
		// A caller that sees Begin fail aborts through the documented API.
		l2.arm(l2Fail, p.L2After)
		o.commitErr = t.Rollback(ctx)
		o.l2Calls, o.l2Names, o.l2Injected = l2.disarm()
		o.warm = readStore(dir)
		return o
	}

	// infs.OpenBtree needs the concrete SOP transaction behind GetPhasedTransaction.
	spt.SopPhaseCommitTransaction = rec.inner
	b, err := infs.OpenBtree[int, string](ctx, "s1", t, nil)
	must(err, "OpenBtree")
	var done bool
	switch sc.Write {
	case "add":
		done, err = b.Add(ctx, sc.Key, sc.Val)
	case "update":
		done, err = b.Update(ctx, sc.Key, sc.Val)
	case "remove":
		done, err = b.Remove(ctx, sc.Key)
	}
	if !done && err == nil {
		err = errors.New("pending write returned false")
	}
	must(err, "pending write")
	spt.SopPhaseCommitTransaction = rec

	o.committed = true
	l2.arm(l2Fail, p.L2After)
	o.commitErr = t.Commit(ctx)
	o.l2Calls, o.l2Names, o.l2Injected = l2.disarm()
	o.warm = readStore(dir)
	return o
}

// ---------- oracle ----------

func sameKV(a, b []kv) bool {
	if len(a) != len(b) {
		return false
	}
	for i := range a {
		if a[i] != b[i] {
			return false
		}
	}
	return true
}

// firedClass abstracts the failures that actually happened to a stable signature: participant numbers
// are dropped, L2 faults are named by the L2 method that failed (not by call index).
func firedClass(o *outcome) string {
	var f []string
	for _, s := range o.fired {
		if strings.HasPrefix(s, "sop.") {
			f = append(f, s)
		} else {
			f = append(f, "p"+s[strings.Index(s, "."):])
		}
	}
	for _, s := range o.l2Injected {
		f = append(f, "l2."+s[strings.Index(s, ":")+1:])
	}
	sort.Strings(f)
	return strings.Join(f, "+")
}

// symptom classifies a read-back against the expected contents; "" = equal.
func symptom(rb readBack, want []kv) string {
	if rb.Err != "" {
		return "unreadable"
	}
	if !sameKV(rb.Items, want) {
		return "items-differ"
	}
	if d := rb.Count - int64(len(want)); d != 0 {
		return fmt.Sprintf("count-only%+d", d)
	}
	return ""
}

type candidate struct {
	V     ev.Violation `json:"v"`
	Parts int          `json:"parts"`
	NF    int          `json:"nf"`
	Key   string       `json:"key"`
}

type checker struct {
	cands    map[string]candidate // by sig: the smallest plan seen
	sideN    int64
	sideObs  []string
	sideSeen map[string]bool
}

func (c *checker) viol(sc scenario, p plan, o *outcome, kind, detail string) {
	sig := fmt.Sprintf("%s|%s|%s", kind, sc.Name, firedClass(o))
	cand := candidate{Parts: p.Participants, NF: len(p.Faults), Key: p.String(), V: ev.Violation{
		Sig:    sig,
		Detail: fmt.Sprintf("%s; plan{%s}; failures that fired=%v L2 faults hit=%v; Begin error=%v; Commit error=%v; call log: %s", detail, p, o.fired, o.l2Injected, o.beginErr, o.commitErr, o.log),
		Replay: p,
	}}
	if old, ok := c.cands[sig]; !ok || smaller(cand, old) {
		c.cands[sig] = cand
	}
}

func smaller(a, b candidate) bool {
	if a.NF != b.NF {
		return a.NF < b.NF
	}
	if a.Parts != b.Parts {
		return a.Parts < b.Parts
	}
	return a.Key < b.Key
}

// side records something noteworthy that the C16 statement does not speak about (not a violation).
func (c *checker) side(class, detail string) {
	c.sideN++
	if !c.sideSeen[class] && len(c.sideObs) < 4 {
		c.sideSeen[class] = true
		c.sideObs = append(c.sideObs, class+": "+detail)
	}
}

// judge applies the C16 oracle to the call log and the warm read-back.
func (c *checker) judge(sc scenario, p plan, o *outcome) {
	ev0 := o.log.events
	// (A) ordering: a participant's Phase2Commit only after SOP's and every participant's Phase1Commit
	// returned nil and SOP's Phase2Commit returned nil.
	for i, e := range ev0 {
		if e.Who == "sop" || e.Method != "Phase2Commit" {
			continue
		}
		p1ok := map[string]bool{}
		sopP2ok, anyFail := false, false
		for _, b := range ev0[:i] {
			if b.Method == "Phase1Commit" {
				if b.Failed {
					anyFail = true
				} else {
					p1ok[b.Who] = true
				}
			}
			if b.Who == "sop" && b.Method == "Phase2Commit" {
				if b.Failed {
					anyFail = true
				} else {
					sopP2ok = true
				}
			}
			if b.Method == "Begin" && b.Failed {
				anyFail = true
			}
		}
		missing := !p1ok["sop"]
		for _, pp := range o.parts {
			if !p1ok[pp.name] {
				missing = true
			}
		}
		if anyFail || missing || !sopP2ok {
			c.viol(sc, p, o, "participant-phase2-too-early", fmt.Sprintf("%s.Phase2Commit ran although not (every Phase1Commit returned nil and SOP's Phase2Commit returned nil): allPhase1ok=%v sopPhase2ok=%v earlierFailure=%v", e.Who, !missing, sopP2ok, anyFail))
		}
	}
	rolledBack := map[string]bool{}
	for _, e := range ev0 {
		if e.Method == "Rollback" {
			rolledBack[e.Who] = true
		}
	}
	if !o.committed {
		// Begin failed; the caller then called Rollback.
		if s := symptom(o.warm, sc.Before); s != "" {
			c.viol(sc, p, o, "begin-failed-store-changed|"+s, fmt.Sprintf("Begin failed, caller rolled back, but a fresh read-only transaction sees %+v, model-before = %v", o.warm, sc.Before))
		}
		for _, pp := range o.parts {
			if pp.begun && !rolledBack[pp.name] {
				c.viol(sc, p, o, "begin-failed-then-rollback-skips-participant", fmt.Sprintf("%s was begun, a later Begin failed, and even the caller's Rollback did not reach %s", pp.name, pp.name))
			}
			// Statement: "If anything fails before that, SOP's changes are rolled back and every participant
			// is asked to roll back"; quantifier: "every failure position ... in Begin, ...".
			if pp.begun && !o.autoRollback[pp.name] {
				c.viol(sc, p, o, "begin-failed-begun-participant-not-rolled-back", fmt.Sprintf("%s.Begin succeeded, a later participant's Begin failed, and SinglePhaseTransaction.Begin returned the error without asking %s (or SOP) to roll back; only the caller's own Rollback call did", pp.name, pp.name))
			}
		}
		return
	}
	if o.commitErr != nil {
		// (B) failure before the participants' second phase: SOP rolled back, every begun participant asked to roll back.
		if s := symptom(o.warm, sc.Before); s != "" {
			c.viol(sc, p, o, "commit-failed-store-not-rolled-back|"+s, fmt.Sprintf("Commit returned an error but a fresh read-only transaction sees %+v, model-before = %v Count=%d", o.warm, sc.Before, len(sc.Before)))
		}
		for _, pp := range o.parts {
			if pp.begun && !rolledBack[pp.name] {
				c.viol(sc, p, o, "commit-failed-participant-not-rolled-back", fmt.Sprintf("Commit returned an error but %s (begun) never got Rollback", pp.name))
			}
		}
		for _, e := range ev0 {
			if e.Who != "sop" && e.Method == "Phase2Commit" {
				c.viol(sc, p, o, "commit-failed-but-participant-phase2-ran", fmt.Sprintf("Commit returned an error but %s.Phase2Commit ran", e.Who))
			}
		}
		return
	}
	// (C) Commit reported success: SOP's outcome is "committed" and the participants follow it.
	// What the store looks like after a SUCCESSFUL commit that suffered L2 faults is not part of the
	// C16 statement (it belongs to the commit/caching properties): recorded as a side observation only.
	if s := symptom(o.warm, sc.after()); s != "" {
		c.side("commit-ok-store-"+s+"|"+sc.Name+"|"+firedClass(o), fmt.Sprintf("Commit returned nil, fresh read-only transaction sees %+v, model-after = %v Count=%d; plan{%s}; L2 faults hit=%v", o.warm, sc.after(), len(sc.after()), p, o.l2Injected))
	}
	n2 := map[string]int{}
	for _, e := range ev0 {
		if e.Method == "Phase2Commit" {
			n2[e.Who]++
		}
	}
	for _, pp := range o.parts {
		if n2[pp.name] != 1 {
			c.viol(sc, p, o, "commit-ok-participant-phase2-count", fmt.Sprintf("Commit returned nil but %s.Phase2Commit ran %d times", pp.name, n2[pp.name]))
		}
		if rolledBack[pp.name] {
			c.viol(sc, p, o, "commit-ok-participant-rolled-back", fmt.Sprintf("Commit returned nil but %s got Rollback", pp.name))
		}
	}
}

// judgeCold applies the store part of the oracle to the read-back made by a separate process
// (nothing cached: what is on disk).
func (c *checker) judgeCold(sc scenario, p plan, o *outcome, cold readBack) {
	switch {
	case !o.committed:
		if s := symptom(cold, sc.Before); s != "" && symptom(o.warm, sc.Before) == "" {
			c.viol(sc, p, o, "begin-failed-store-changed|on-disk-"+s, fmt.Sprintf("Begin failed, caller rolled back; same-process reader saw model-before, but a new process reads %+v", cold))
		}
	case o.commitErr != nil:
		if s := symptom(cold, sc.Before); s != "" && symptom(o.warm, sc.Before) == "" {
			c.viol(sc, p, o, "commit-failed-store-not-rolled-back|on-disk-"+s, fmt.Sprintf("Commit returned an error; a same-process reader saw model-before, but a new process (no caches) reads %+v, model-before = %v Count=%d", cold, sc.Before, len(sc.Before)))
		}
	default:
		if s := symptom(cold, sc.after()); s != "" && symptom(o.warm, sc.after()) == "" {
			c.side("commit-ok-store-on-disk-"+s+"|"+sc.Name+"|"+firedClass(o), fmt.Sprintf("Commit returned nil; a new process reads %+v, model-after = %v; plan{%s}; L2 faults hit=%v", cold, sc.after(), p, o.l2Injected))
		}
	}
}

// ---------- enumeration ----------

func staticSites(k int) []site {
	var s []site
	for p := 0; p < k; p++ {
		for _, m := range methods {
			s = append(s, site{Kind: "p", P: p, M: m})
		}
	}
	for _, m := range methods {
		s = append(s, site{Kind: "sop", M: m})
	}
	return s
}

type pendingCold struct {
	sc scenario
	p  plan
	o  *outcome
}

type jobState struct {
	run                                         *ev.Run
	c                                           *checker
	combos, commitFailed, beginFailed, commitOK int64
	l2FaultsHit, unreachable                    int64
	outcomes                                    map[string]bool
	cold                                        []pendingCold
}

// execute runs one plan, judges it, and returns the outcome.
func (st *jobState) execute(sc scenario, p plan) *outcome {
	o := runCase(sc, p)
	st.c.judge(sc, p, o)
	st.cold = append(st.cold, pendingCold{sc, p, o})
	st.combos++
	switch {
	case !o.committed:
		st.beginFailed++
	case o.commitErr != nil:
		st.commitFailed++
	default:
		st.commitOK++
	}
	st.l2FaultsHit += int64(len(o.l2Injected))
	key := fmt.Sprintf("%s|%d|%v|%v|%s", sc.Name, p.Participants, o.beginErr != nil, o.commitErr != nil, o.log)
	if !st.outcomes[key] {
		st.outcomes[key] = true
		if len(st.outcomes)%40 == 7 {
			st.run.Sample(map[string]any{"plan": p.String(), "l2_faults_hit": o.l2Injected, "commit_error": fmt.Sprint(o.commitErr), "begin_error": fmt.Sprint(o.beginErr), "call_log": o.log.String(), "store_after": fmt.Sprint(o.warm.Items)})
		}
	}
	if len(st.cold) >= 400 {
		st.flushCold()
	}
	return o
}

// flushCold has a separate process (no L1/L2 cache content) read every kept case folder, judges the
// result and removes the folders.
func (st *jobState) flushCold() {
	if len(st.cold) == 0 {
		return
	}
	var dirs []string
	for _, pc := range st.cold {
		dirs = append(dirs, pc.o.dir)
	}
	res := coldRead(dirs)
	for i, pc := range st.cold {
		st.c.judgeCold(pc.sc, pc.p, pc.o, res[i])
		os.RemoveAll(pc.o.dir)
	}
	st.run.Add("cold_read_backs", int64(len(st.cold)))
	st.cold = nil
}

func coldRead(dirs []string) []readBack {
	b, _ := json.Marshal(dirs)
	cmd := exec.Command(os.Args[0])
	cmd.Env = append(os.Environ(), "C16_COLD_READ="+string(b))
	cmd.Stderr = os.Stderr
	out, err := cmd.Output()
	must(err, "cold read child process")
	var res []readBack
	i := strings.LastIndex(string(out), "@@COLD ")
	if i < 0 {
		must(errors.New("no result: "+string(out)), "cold read child process")
	}
	must(json.Unmarshal(out[i+len("@@COLD "):], &res), "cold read result")
	if len(res) != len(dirs) {
		must(errors.New("length mismatch"), "cold read result")
	}
	return res
}

func coldReadChild(arg string) {
	var dirs []string
	must(json.Unmarshal([]byte(arg), &dirs), "cold read argument")
	res := make([]readBack, len(dirs))
	for i, d := range dirs {
		l2.inner.Clear(ctx)
		res[i] = readStore(d)
	}
	b, _ := json.Marshal(res)
	fmt.Printf("@@COLD %s\n", b)
	os.Exit(0)
}

const l2Chunks = 8

func findScenario(name string) scenario {
	for _, s := range scenarios(true) {
		if s.Name == name {
			return s
		}
	}
	must(fmt.Errorf("unknown scenario %q", name), "scenario lookup")
	return scenario{}
}

// job formats: "<scenario>/<k>/<after>/s<i>"  first fault = static site i
//
//	"<scenario>/<k>/<after>/l<c>"  first fault = L2 call N with N % l2Chunks == c (chunk 0 also runs the fault-free case)
func runJob(run *ev.Run, job string) {
	var k, after, idx int
	parts := strings.Split(job, "/")
	sc := findScenario(parts[0])
	fmt.Sscan(parts[1], &k)
	fmt.Sscan(parts[2], &after)
	kind := parts[3]
	fmt.Sscan(kind[1:], &idx)
	st := &jobState{run: run, c: &checker{cands: map[string]candidate{}, sideSeen: map[string]bool{}}, outcomes: map[string]bool{}}
	sites := staticSites(k)
	base := plan{Scenario: sc.Name, Participants: k, L2After: after == 1}
	with := func(f ...site) plan {
		p := base
		p.Faults = append([]site{}, f...)
		return p
	}
	learn := func(p plan) *outcome { // run without judging, only to learn the number of L2 calls
		o := runCase(sc, p)
		os.RemoveAll(o.dir)
		return o
	}
	if kind[0] == 's' {
		// the "after" L2 variant only differs when an L2 fault is part of the combination
		s1 := sites[idx]
		var o1 *outcome
		if after == 0 {
			o1 = st.execute(sc, with(s1))
			for _, s2 := range sites[idx+1:] {
				st.execute(sc, with(s1, s2))
			}
		} else {
			o1 = learn(with(s1))
		}
		for n := 1; n <= o1.l2Calls; n++ {
			o := st.execute(sc, with(s1, site{Kind: "l2", N: n}))
			if len(o.l2Injected) == 0 {
				st.unreachable++
			}
		}
	} else {
		var o0 *outcome
		if idx == 0 && after == 0 {
			o0 = st.execute(sc, with())
			// determinism of the L2 call sequence of a fault-free commit
			o0b := learn(with())
			run.Set("l2_call_sequence_fault_free", strings.Join(o0.l2Names, " "))
			run.Set("l2_call_sequence_deterministic", fmt.Sprint(strings.Join(o0.l2Names, " ") == strings.Join(o0b.l2Names, " ")))
			run.Set("l2_calls_fault_free_commit", fmt.Sprint(o0.l2Calls))
		} else {
			o0 = learn(with())
		}
		for n1 := 1; n1 <= o0.l2Calls; n1++ {
			if n1%l2Chunks != idx {
				continue
			}
			s1 := site{Kind: "l2", N: n1}
			o1 := st.execute(sc, with(s1))
			for n2 := n1 + 1; n2 <= o1.l2Calls; n2++ {
				o := st.execute(sc, with(s1, site{Kind: "l2", N: n2}))
				if len(o.l2Injected) < 2 {
					st.unreachable++
				}
			}
		}
	}
	st.flushCold()
	run.Add("evaluations", st.combos)
	run.Add("fault_combinations_run", st.combos)
	run.Add("combinations_commit_failed", st.commitFailed)
	run.Add("combinations_begin_failed", st.beginFailed)
	run.Add("combinations_commit_succeeded", st.commitOK)
	run.Add("l2_faults_actually_hit", st.l2FaultsHit)
	run.Add("combinations_with_unreached_l2_index", st.unreachable)
	run.Add("side_observations_commit_ok_store_anomaly", st.c.sideN)
	var hs []string
	for k := range st.outcomes {
		h := fnv.New64a()
		io.WriteString(h, k)
		hs = append(hs, fmt.Sprintf("%x", h.Sum64()))
	}
	sort.Strings(hs)
	run.Set("outcome_hashes", hs)
	if len(st.c.sideObs) > 0 {
		run.Set("side_observation_examples", st.c.sideObs)
	}
	if len(st.c.cands) > 0 {
		var cs []candidate
		for _, c := range st.c.cands {
			cs = append(cs, c)
		}
		sort.Slice(cs, func(i, j int) bool { return cs[i].V.Sig < cs[j].V.Sig })
		run.Set("violation_candidates", cs)
	}
	run.EmitPartial()
}

// replayOne runs the plan stored in a replay file (as written by ev) and prints what happened.
func replayOne(run *ev.Run, file string) {
	b, err := os.ReadFile(file)
	must(err, "read replay file")
	var r struct {
		Replay plan `json:"replay"`
	}
	must(json.Unmarshal(b, &r), "parse replay file")
	sc := findScenario(r.Replay.Scenario)
	c := &checker{cands: map[string]candidate{}, sideSeen: map[string]bool{}}
	o := runCase(sc, r.Replay)
	c.judge(sc, r.Replay, o)
	cold := coldRead([]string{o.dir})
	c.judgeCold(sc, r.Replay, o, cold[0])
	os.RemoveAll(o.dir)
	fmt.Printf("plan: %s\ncall log: %s\nBegin error: %v\nCommit error: %v\nL2 calls: %s\nL2 faults hit: %v\nread-back (same process): %+v\nread-back (new process): %+v\n", r.Replay, o.log, o.beginErr, o.commitErr, strings.Join(o.l2Names, " "), o.l2Injected, o.warm, cold[0])
	for _, cd := range c.cands {
		run.Violate(cd.V)
	}
	run.Add("evaluations", 1)
	run.Set("distinct_nontrivial", 1)
	run.Set("rule", "replay of one stored plan")
	run.NotExhaustive("replay mode")
	run.Finish()
}

func main() {
	// our decorator replaces the in-memory L2 factory registered by package cache's init
	sop.RegisterL2CacheFactory(sop.InMemory, func(sop.TransactionOptions) sop.L2Cache { return l2 })
	// timing only: the store repository retries a failed lock with a Fibonacci backoff starting at 1 s
	sop.RetryStartDuration = time.Millisecond
	slog.SetDefault(slog.New(slog.NewTextHandler(io.Discard, &slog.HandlerOptions{Level: slog.LevelError + 4})))

	if arg := os.Getenv("C16_COLD_READ"); arg != "" {
		coldReadChild(arg)
	}
	prop := "C16"
	if len(os.Args) > 1 && strings.HasPrefix(os.Args[1], "C") {
		prop = os.Args[1]
	}
	run := ev.New(prop, "fault_enumeration")
	thorough := run.Thorough()
	for i, a := range os.Args {
		if a == "--replay" && i+1 < len(os.Args) {
			replayOne(run, os.Args[i+1])
		}
	}
	if job := ev.Job(); job != "" {
		runJob(run, job)
	}
	var jobs []string
	for _, sc := range scenarios(thorough) {
		afters := []int{0}
		if thorough {
			afters = []int{0, 1}
		}
		for _, a := range afters {
			for k := 0; k <= 3; k++ {
				for i := range staticSites(k) {
					jobs = append(jobs, fmt.Sprintf("%s/%d/%d/s%d", sc.Name, k, a, i))
				}
				for c := 0; c < l2Chunks; c++ {
					jobs = append(jobs, fmt.Sprintf("%s/%d/%d/l%d", sc.Name, k, a, c))
				}
			}
		}
	}
	dl := 5 * time.Minute
	if thorough {
		dl = 30 * time.Minute
	}
	run.Parallel(jobs, 0, dl, nil)

	// Fold the per-job extras: distinct outcomes, side observations, violation candidates (the smallest
	// plan per signature is reported, independent of job scheduling).
	distinct := map[string]bool{}
	var sideEx []string
	best := map[string]candidate{}
	seqs := map[string]bool{}
	l2n := map[string]string{}
	deterministic := true
	if pj, ok := run.Coverage["per_job"].(map[string]any); ok {
		names := make([]string, 0, len(pj))
		for j := range pj {
			names = append(names, j)
		}
		sort.Strings(names)
		for _, j := range names {
			ex, _ := pj[j].(map[string]any)
			if hs, ok := ex["outcome_hashes"].([]any); ok {
				for _, h := range hs {
					distinct[fmt.Sprint(h)] = true
				}
			}
			if so, ok := ex["side_observation_examples"].([]any); ok {
				for _, x := range so {
					if len(sideEx) < 8 {
						sideEx = append(sideEx, fmt.Sprint(x))
					}
				}
			}
			if vc, ok := ex["violation_candidates"]; ok {
				b, _ := json.Marshal(vc)
				var cs []candidate
				must(json.Unmarshal(b, &cs), "violation candidates of job "+j)
				for _, c := range cs {
					if old, ok := best[c.V.Sig]; !ok || smaller(c, old) {
						best[c.V.Sig] = c
					}
				}
			}
			if s, ok := ex["l2_call_sequence_fault_free"].(string); ok {
				seqs[s] = true
				l2n[strings.SplitN(j, "/", 2)[0]] = fmt.Sprint(ex["l2_calls_fault_free_commit"])
				if ex["l2_call_sequence_deterministic"] != "true" {
					deterministic = false
				}
			}
		}
		delete(run.Coverage, "per_job")
	}
	sigs := make([]string, 0, len(best))
	for s := range best {
		sigs = append(sigs, s)
	}
	sort.Strings(sigs)
	for _, s := range sigs {
		run.Violate(best[s].V)
	}
	var seqList []string
	for s := range seqs {
		seqList = append(seqList, s)
	}
	sort.Strings(seqList)
	run.Set("l2_call_sequences_of_fault_free_commit", seqList)
	run.Set("l2_calls_of_fault_free_commit_by_scenario", l2n)
	run.Set("l2_call_sequence_deterministic", deterministic)
	run.Set("distinct_nontrivial", len(distinct))
	run.Set("side_observation_examples", sideEx)
	run.Set("side_observations_note", "cases where Commit returned nil (participants correctly ran Phase2Commit) but, because of the injected L2 faults, a fresh reader sees a wrong Count or cannot read the store; outside the C16 statement, reported to the lead, not judged here")
	run.Set("rule", "for each scenario (pending write) and k=0..3 participants: the fault-free run, every single fault site and every unordered pair of distinct fault sites, where sites = {p_i.Begin, p_i.Phase1Commit, p_i.Phase2Commit, p_i.Rollback : i<k} + {synthetic sop.Begin/Phase1Commit/Phase2Commit (error instead of the call), sop.Rollback (error after the call)} + {N-th L2 call since Commit started, N = 1..number of L2 calls of the run that has only the other fault}; fault_combinations_run counts them, combinations_commit_failed those where Commit returned an error; distinct_nontrivial = number of distinct (scenario, k, begin failed, commit failed, full call log) outcomes observed")
	run.Assumption("an injected L2 fault makes the call return an error without performing it (quick); the thorough tier also runs the variant that performs the call and then reports an error")
	run.Assumption("L2 faults are injected from the start of Commit (or of the caller's Rollback after a failed Begin); the read-back transactions run without faults: one in the same process (shared L1/L2 caches, as an application would), one in a new process (nothing cached)")
	run.Assumption("participants are attached before Begin; on a failed Begin the caller calls Rollback")
	run.Assumption("SOP's own Begin/Phase1Commit/Phase2Commit/Rollback results are observed through a recorder installed in the exported field SinglePhaseTransaction.SopPhaseCommitTransaction (temporarily removed while infs.OpenBtree type-asserts the concrete transaction)")
	run.Assumption("sop.RetryStartDuration (exported variable, backoff of the store-repository lock retry) is set to 1 ms instead of 1 s: timing only")
	run.Assumption("single process, no concurrent transactions; the filesystem itself does not fail (disk faults belong to other properties)")
	run.Finish()
}
