package main

// Child side: one process executes one script (a list of actions) against the real infs API in the
// active/passive (replicated) layout and prints the per-action results as JSON.

import (
	"context"
	"encoding/json"
	"fmt"
	"os"
	"path/filepath"
	"sort"
	"strings"
	"sync"
	"syscall"

	"github.com/sharedcode/sop"
	"github.com/sharedcode/sop/fs"
	"github.com/sharedcode/sop/infs"
	"verif.local/mc/detuuid"
	_ "verif.local/mc/sopenv" // side effects: sop.InMemory L2 decorator, fs.DirectIOSim decorator (registry I/O reaches vhook.IO)
	"verif.local/mc/vhook"
)

var ctx = context.Background()

// Step is one step of a history.
type Step struct {
	Kind   string `json:"kind"` // create | add | updrem | remove
	Store  string `json:"store"`
	Slot   int    `json:"slot,omitempty"`   // create only
	InNode bool   `json:"inNode,omitempty"` // create only: value stored in the node (true) or in a separate segment (false)
	// Tag makes the values written by this step unique (position of the step in the whole case).
	Tag int `json:"tag"`
}

func (s Step) String() string {
	if s.Kind == "create" {
		p := "seg"
		if s.InNode {
			p = "node"
		}
		return fmt.Sprintf("create(%s,slot%d,%s)", s.Store, s.Slot, p)
	}
	return fmt.Sprintf("%s(%s)", s.Kind, s.Store)
}

// Action is one instruction for a child process.
type Action struct {
	A    string `json:"a"` // step | trace | arm | disarm | reinstate | failover | dump | status | wipepassive
	Step *Step  `json:"step,omitempty"`
	Plan *Plan  `json:"plan,omitempty"` // step add/updrem: the keys to add / update / remove (computed by the supervisor's model)
	K    int    `json:"k,omitempty"`    // arm: index (0-based) of the passive-folder operation from which every passive-folder operation fails
}

// Script is what one child process executes.
type Script struct {
	Base    string   `json:"base"` // scratch root: a (active), p (passive), e1, e2 (erasure-coded blob folders)
	UUIDNS  uint64   `json:"uuidns"`
	Actions []Action `json:"actions"`
}

// Status is the replication status as the process and the disk report it.
type Status struct {
	HaveGlobal        bool   `json:"haveGlobal"`
	FailedToReplicate bool   `json:"failedToReplicate"`
	ActiveFirst       bool   `json:"activeFirst"` // ActiveFolderToggler
	LogCommitChanges  bool   `json:"logCommitChanges"`
	FileA             string `json:"fileA"` // raw replstat.txt in folder a ("" = absent)
	FileP             string `json:"fileP"`
}

// Result of one action.
type Result struct {
	Err    string   `json:"err,omitempty"`
	Ops    []string `json:"ops,omitempty"`    // disarm: passive-folder operations seen since trace/arm ("!" prefix = failed by injection)
	Dump   string   `json:"dump,omitempty"`   // dump
	Active string   `json:"active,omitempty"` // dump: which folder served as active ("a" | "p")
	Reads  [2]int   `json:"reads,omitempty"`  // dump: number of file operations under a / under p
	Status *Status  `json:"status,omitempty"`
}

func folders(base string) (a, p string, ec map[string]sop.ErasureCodingConfig) {
	a, p = filepath.Join(base, "a"), filepath.Join(base, "p")
	ec = map[string]sop.ErasureCodingConfig{"": {DataShardsCount: 1, ParityShardsCount: 1,
		BaseFolderPathsAcrossDrives: []string{filepath.Join(base, "e1"), filepath.Join(base, "e2")}, RepairCorruptedShards: false}}
	return
}

func opts(base string, mode sop.TransactionMode) sop.TransactionOptions {
	a, p, ec := folders(base)
	return sop.TransactionOptions{Mode: mode, StoresFolders: []string{a, p}, ErasureConfig: ec, CacheType: sop.InMemory,
		RegistryHashModValue: fs.MinimumModValue}
}

// ---- fault / trace hook ----

type hookState struct {
	mu       sync.Mutex
	a, p     string
	tracing  bool
	armed    bool
	k        int
	n        int // passive ops since trace/arm
	sticky   bool
	ops      []string
	na, np   int
	counting bool
}

var hs hookState

func under(path, dir string) bool { return path == dir || strings.HasPrefix(path, dir+"/") }

func (h *hookState) io(op, path string, _ []byte, off int64) error {
	h.mu.Lock()
	defer h.mu.Unlock()
	if h.counting {
		if under(path, h.a) {
			h.na++
		} else if under(path, h.p) {
			h.np++
		}
	}
	if !under(path, h.p) || !(h.tracing || h.armed) {
		return nil
	}
	idx := h.n
	h.n++
	rel := strings.TrimPrefix(path, h.p)
	desc := fmt.Sprintf("%s %s", op, rel)
	if op == "pwrite" || op == "pread" {
		desc = fmt.Sprintf("%s %s@%d", op, rel, off)
	}
	if h.armed && idx >= h.k {
		h.sticky = true
	}
	if h.armed && h.sticky {
		h.ops = append(h.ops, "!"+desc)
		return &os.PathError{Op: op, Path: path, Err: syscall.EIO}
	}
	h.ops = append(h.ops, desc)
	return nil
}

// ---- steps on the implementation ----

func valueFor(k, tag int, upd bool) string {
	if upd {
		return fmt.Sprintf("u%d.%d", k, tag)
	}
	return fmt.Sprintf("v%d.%d", k, tag)
}

func runStep(base string, s Step, plan Plan) error {
	a, p, ec := folders(base)
	if s.Kind == "remove" {
		return infs.RemoveBtree(ctx, s.Store, []string{a, p}, ec, sop.InMemory)
	}
	tx, err := infs.NewTransactionWithReplication(ctx, opts(base, sop.ForWriting))
	if err != nil {
		return fmt.Errorf("NewTransactionWithReplication: %w", err)
	}
	if err := tx.Begin(ctx); err != nil {
		return fmt.Errorf("Begin: %w", err)
	}
	fail := func(what string, err error) error {
		if tx.HasBegun() {
			tx.Rollback(ctx)
		}
		return fmt.Errorf("%s: %w", what, err)
	}
	switch s.Kind {
	case "create":
		_, err := infs.NewBtreeWithReplication[int, string](ctx, sop.StoreOptions{Name: s.Store, SlotLength: s.Slot, IsUnique: true, IsValueDataInNodeSegment: s.InNode}, tx, nil)
		if err != nil {
			return fail("NewBtreeWithReplication", err)
		}
	case "add", "updrem":
		b, err := infs.OpenBtreeWithReplication[int, string](ctx, s.Store, tx, nil)
		if err != nil {
			return fail("OpenBtreeWithReplication", err)
		}
		for _, k := range plan.Add {
			if ok, err := b.Add(ctx, k, valueFor(k, s.Tag, false)); err != nil || !ok {
				return fail(fmt.Sprintf("Add(%d) ok=%v", k, ok), orNil(err))
			}
		}
		for _, k := range plan.Update {
			if ok, err := b.Update(ctx, k, valueFor(k, s.Tag, true)); err != nil || !ok {
				return fail(fmt.Sprintf("Update(%d) ok=%v", k, ok), orNil(err))
			}
		}
		for _, k := range plan.Remove {
			if ok, err := b.Remove(ctx, k); err != nil || !ok {
				return fail(fmt.Sprintf("Remove(%d) ok=%v", k, ok), orNil(err))
			}
		}
	default:
		panic("unknown step " + s.Kind)
	}
	if err := tx.Commit(ctx); err != nil {
		return fmt.Errorf("Commit: %w", err)
	}
	return nil
}

func orNil(err error) error {
	if err == nil {
		return fmt.Errorf("returned false")
	}
	return err
}

// dumpAll lists all stores with options, ordered contents and counts through a fresh reading transaction.
func dumpAll(base string) (string, string) {
	tx, err := infs.NewTransactionWithReplication(ctx, opts(base, sop.ForReading))
	if err != nil {
		return "ERR(NewTransactionWithReplication: " + err.Error() + ")", "?"
	}
	active := "?"
	if g := fs.GlobalReplicationDetails; g != nil {
		active = "p"
		if g.ActiveFolderToggler {
			active = "a"
		}
	}
	if err := tx.Begin(ctx); err != nil {
		return "ERR(Begin: " + err.Error() + ")", active
	}
	names, err := tx.GetStores(ctx)
	if err != nil {
		tx.Rollback(ctx)
		return "ERR(GetStores: " + err.Error() + ")", active
	}
	sort.Strings(names)
	var sb strings.Builder
	for _, n := range names {
		// a failed open or scan rolls the transaction back; start another one for the remaining stores
		if !tx.HasBegun() {
			tx, err = infs.NewTransactionWithReplication(ctx, opts(base, sop.ForReading))
			if err == nil {
				err = tx.Begin(ctx)
			}
			if err != nil {
				fmt.Fprintf(&sb, "ERR(re-begin: %v)", err)
				return strings.TrimSpace(sb.String()), active
			}
		}
		b, err := infs.OpenBtreeWithReplication[int, string](ctx, n, tx, nil)
		if err != nil {
			fmt.Fprintf(&sb, "%s:ERR(open: %v) ", n, err)
			continue
		}
		si := b.GetStoreInfo()
		fmt.Fprintf(&sb, "%s{slot=%d,unique=%v,inNode=%v}[", n, si.SlotLength, si.IsUnique, si.IsValueDataInNodeSegment)
		ok, err := b.First(ctx)
		cnt := 0
		for ok && err == nil {
			var v string
			k := b.GetCurrentKey().Key
			v, err = b.GetCurrentValue(ctx)
			if err != nil {
				break
			}
			if cnt > 0 {
				sb.WriteString(" ")
			}
			fmt.Fprintf(&sb, "%d=%s", k, v)
			cnt++
			if cnt > 10000 {
				err = fmt.Errorf("scan does not terminate")
				break
			}
			ok, err = b.Next(ctx)
		}
		if err != nil {
			fmt.Fprintf(&sb, " ERR(scan: %v)", err)
		}
		fmt.Fprintf(&sb, "]#%d ", b.Count())
	}
	if tx.HasBegun() {
		if err := tx.Commit(ctx); err != nil {
			fmt.Fprintf(&sb, "ERR(commit of reading transaction: %v)", err)
		}
	}
	return strings.TrimSpace(sb.String()), active
}

func status(base string) *Status {
	a, p, _ := folders(base)
	st := &Status{}
	if g := fs.GlobalReplicationDetails; g != nil {
		st.HaveGlobal = true
		st.FailedToReplicate = g.FailedToReplicate
		st.ActiveFirst = g.ActiveFolderToggler
		st.LogCommitChanges = g.LogCommitChanges
	}
	if b, err := os.ReadFile(filepath.Join(a, "replstat.txt")); err == nil {
		st.FileA = string(b)
	}
	if b, err := os.ReadFile(filepath.Join(p, "replstat.txt")); err == nil {
		st.FileP = string(b)
	}
	return st
}

// Plan carries the keys computed by the supervisor's model for add/updrem steps.
type Plan struct {
	Add    []int `json:"add,omitempty"`
	Update []int `json:"update,omitempty"`
	Remove []int `json:"remove,omitempty"`
}

func childMain(specJSON string) {
	var sc Script
	if err := json.Unmarshal([]byte(specJSON), &sc); err != nil {
		fmt.Fprintln(os.Stderr, "bad child spec:", err)
		os.Exit(3)
	}
	a, p, ec := folders(sc.Base)
	for _, d := range append([]string{a, p}, ec[""].BaseFolderPathsAcrossDrives...) {
		os.MkdirAll(d, 0o755)
	}
	detuuid.Reset(sc.UUIDNS)
	hs.a, hs.p = a, p
	// Inline: tasks given to sop.TaskRunner run on the caller's goroutine in launch order, so the sequence of
	// file operations (and therefore the fault index) is deterministic.
	vhook.Install(&vhook.Hooks{Inline: true, IO: hs.io})
	var out []Result
	for _, ac := range sc.Actions {
		var r Result
		switch ac.A {
		case "step":
			var plan Plan
			if ac.Plan != nil {
				plan = *ac.Plan
			}
			if err := runStep(sc.Base, *ac.Step, plan); err != nil {
				r.Err = err.Error()
			}
		case "trace":
			hs.mu.Lock()
			hs.tracing, hs.armed, hs.n, hs.sticky, hs.ops = true, false, 0, false, nil
			hs.mu.Unlock()
		case "arm":
			hs.mu.Lock()
			hs.tracing, hs.armed, hs.k, hs.n, hs.sticky, hs.ops = false, true, ac.K, 0, false, nil
			hs.mu.Unlock()
		case "disarm":
			hs.mu.Lock()
			r.Ops = hs.ops
			hs.tracing, hs.armed, hs.sticky, hs.ops = false, false, false, nil
			hs.mu.Unlock()
		case "reinstate":
			if err := infs.ReinstateFailedDrives(ctx, []string{a, p}, sop.InMemory); err != nil {
				r.Err = err.Error()
			}
		case "failover":
			cache := sop.GetL2Cache(sop.TransactionOptions{CacheType: sop.InMemory})
			if err := fs.TriggerFailover(ctx, []string{a, p}, true, cache); err != nil {
				r.Err = err.Error()
			}
		case "dump":
			hs.mu.Lock()
			hs.counting, hs.na, hs.np = true, 0, 0
			hs.mu.Unlock()
			r.Dump, r.Active = dumpAll(sc.Base)
			hs.mu.Lock()
			hs.counting = false
			r.Reads = [2]int{hs.na, hs.np}
			hs.mu.Unlock()
			if r.Dump == "" {
				r.Dump = "(no stores)"
			}
		case "status":
			r.Status = status(sc.Base)
		case "wipepassive":
			// the failed drive is replaced by an empty one
			os.RemoveAll(p)
			os.MkdirAll(p, 0o755)
		default:
			fmt.Fprintln(os.Stderr, "unknown action", ac.A)
			os.Exit(3)
		}
		out = append(out, r)
	}
	b, _ := json.Marshal(out)
	fmt.Printf("\n@@C27RESULT %s\n", b)
	os.Exit(0)
}
