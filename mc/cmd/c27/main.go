// c27: the passive copy stays a faithful replica and can be reinstated (property C27).
//
// Bounded exhaustive enumeration of histories over {create store, commit adds, commit updates+removes,
// remove store} executed through the public replicated infs API (NewTransactionWithReplication,
// NewBtreeWithReplication, OpenBtreeWithReplication, RemoveBtree with two folders + erasure config).
//
//	Part A (no faults): after every history a fresh process fails over (fs.TriggerFailover) and dumps all
//	        stores from the passive folder; another fresh process dumps again (status read from disk).
//	        All dumps must equal the sorted-map reference model and the active-side dump.
//	Part B: for every history and every file operation k under the passive folder during the last step,
//	        a sticky EIO is injected on passive-folder paths from operation k on. The step must succeed,
//	        the active dump must equal the model and replication must be reported off.
//	Part C: the fault is cleared, ReinstateFailedDrives is called (in the same process or in a fresh one),
//	        0 or 2 more commits run, then a fresh process fails over: the dump must equal the model again.
//
// Every process of a case is a separate OS process because fs.GlobalReplicationDetails is process-global.
package main

import (
	"bytes"
	"encoding/json"
	"fmt"
	"os"
	"os/exec"
	"path/filepath"
	"regexp"
	"strings"
	"time"

	"verif.local/mc/ev"
)

// ---------- running child processes ----------

var caseSeq int

// newBase returns a never-used scratch root; the name starts with the top-level process id so that the
// parent can sweep what killed workers leave behind.
func newBase(tag string) string {
	caseSeq++
	top := os.Getenv("C27_TOP")
	if top == "" {
		top = fmt.Sprint(os.Getpid())
	}
	return fmt.Sprintf("/dev/shm/c27_%s_%d_%s_%d", top, os.Getpid(), tag, caseSeq)
}

func sweepScratch() {
	ms, _ := filepath.Glob(fmt.Sprintf("/dev/shm/c27_%d_*", os.Getpid()))
	for _, d := range ms {
		os.RemoveAll(d)
	}
}

type proc struct {
	base string
	ns   uint64
}

// run executes one child process with the given actions; returns one Result per action.
func (p *proc) run(actions []Action) ([]Result, error) {
	p.ns++
	sc := Script{Base: p.base, UUIDNS: p.ns, Actions: actions}
	b, _ := json.Marshal(sc)
	cmd := exec.Command(os.Args[0])
	cmd.Env = append(os.Environ(), "C27_CHILD="+string(b), "GOMAXPROCS=2")
	var out, errb bytes.Buffer
	cmd.Stdout = &out
	cmd.Stderr = &errb
	if err := cmd.Start(); err != nil {
		return nil, err
	}
	done := make(chan error, 1)
	go func() { done <- cmd.Wait() }()
	select {
	case <-done:
	case <-time.After(60 * time.Second):
		cmd.Process.Kill()
		<-done
		return nil, fmt.Errorf("child timed out after 60s; stderr tail: %s", tail(errb.String(), 1500))
	}
	for _, line := range strings.Split(out.String(), "\n") {
		if strings.HasPrefix(line, "@@C27RESULT ") {
			var rs []Result
			if err := json.Unmarshal([]byte(line[len("@@C27RESULT "):]), &rs); err != nil {
				return nil, err
			}
			if len(rs) != len(actions) {
				return nil, fmt.Errorf("child returned %d results for %d actions", len(rs), len(actions))
			}
			return rs, nil
		}
	}
	return nil, fmt.Errorf("child died without result: %s | %s", tail(out.String(), 1500), tail(errb.String(), 2500))
}

func tail(s string, n int) string {
	if len(s) > n {
		return s[len(s)-n:]
	}
	return s
}

// ---------- scripts ----------

func stepActions(m Model, steps []Step) ([]Action, Model) {
	m = m.clone()
	var as []Action
	for i := range steps {
		s := steps[i]
		pl := m.plan(s)
		as = append(as, Action{A: "step", Step: &s, Plan: pl})
		m.apply(s, pl)
	}
	return as, m
}

func act(a string) Action { return Action{A: a} }

// ---------- violations ----------

type checker struct {
	run      *ev.Run
	dbg      bool
	thorough bool
	nvio     int
}

func (c *checker) violate(sig, detail string, replay any) {
	c.nvio++
	if c.dbg {
		fmt.Printf("VIOL sig=%s\n     %s\n", sig, detail)
	}
	c.run.Violate(ev.Violation{Sig: sig, Detail: detail, Replay: replay})
}

func lastKind(h []Step) string { return h[len(h)-1].Kind }

// opClass maps a traced passive operation ("WriteFile /S1/storeinfo.txt") to a stable class.
func opClass(desc string) string {
	desc = strings.TrimPrefix(desc, "!")
	f := strings.SplitN(desc, " ", 2)
	op, path := f[0], ""
	if len(f) > 1 {
		path = f[1]
	}
	if i := strings.Index(path, "@"); i >= 0 {
		path = path[:i]
	}
	base := filepath.Base(path)
	kind := "dir"
	switch {
	case path == "" || path == "/":
		kind = "basefolder"
	case strings.HasSuffix(base, ".reg"):
		kind = "registry-segment"
	case strings.HasSuffix(base, ".cow"):
		kind = "registry-cow-file"
	case strings.HasSuffix(base, ".txt"):
		kind = base
	case strings.HasSuffix(base, "_r"):
		kind = "registry-dir"
	default:
		kind = "store-dir"
	}
	return op + ":" + kind
}

func isMutating(desc string) bool {
	op := strings.SplitN(strings.TrimPrefix(desc, "!"), " ", 2)[0]
	switch op {
	case "WriteFile", "Remove", "MkdirAll", "RemoveAll", "truncate", "create", "append", "remove", "pwrite":
		return true
	}
	return false
}

// ---------- Part A ----------

// partA runs history h without faults and checks the failover dumps; returns the passive-folder
// operations of the last step (the fault positions of Part B) and whether the run was clean.
func (c *checker) partA(h []Step) ([]string, bool) {
	run := c.run
	p := &proc{base: newBase("A")}
	defer os.RemoveAll(p.base)
	n := len(h)
	pre, mPre := stepActions(Model{}, h[:n-1])
	last, m := stepActions(mPre, h[n-1:])
	want := m.dump()
	replay := map[string]any{"part": "A", "history": h, "history_text": histString(h)}
	hs := histString(h)

	var as []Action
	as = append(as, pre...)
	as = append(as, act("trace"))
	as = append(as, last...)
	as = append(as, act("disarm"), act("status"), act("dump"))
	rs, err := p.run(as)
	run.Add("processes", 1)
	if err != nil {
		c.violate("A|writer-process-died|last="+lastKind(h), fmt.Sprintf("history [%s]: %v", hs, err), replay)
		return nil, false
	}
	for i := 0; i < n; i++ {
		ri := i
		if i == n-1 {
			ri = n // after the trace action
		}
		if rs[ri].Err != "" {
			c.violate("A|step-error-without-faults|"+h[i].Kind, fmt.Sprintf("history [%s]: step %d %s failed without any injected fault: %s", hs, i+1, h[i], rs[ri].Err), replay)
			return nil, false
		}
	}
	ops := rs[n+1].Ops
	st := rs[n+2].Status
	clean := true
	if st.FailedToReplicate {
		c.violate("A|replication-off-without-faults|last="+lastKind(h), fmt.Sprintf("history [%s]: FailedToReplicate is set although no I/O failed (replstat a=%q p=%q)", hs, st.FileA, st.FileP), replay)
		clean = false
	}
	if d := rs[n+3]; d.Dump != want {
		c.violate("A|active-dump-differs-in-writer|last="+lastKind(h), fmt.Sprintf("history [%s]: dump in the writing process = %s ; model = %s", hs, d.Dump, want), replay)
		clean = false
	}
	// informational only (no verdict): are the registry segment files of both sides byte-identical?
	same, total := compareSegments(p.base)
	run.Add("partA_registry_segment_files_compared", int64(total))
	run.Add("partA_registry_segment_files_identical", int64(same))
	// fresh process, active side
	rs, err = p.run([]Action{act("dump")})
	run.Add("processes", 1)
	if err != nil {
		c.violate("A|active-dump-process-died|last="+lastKind(h), fmt.Sprintf("history [%s]: %v", hs, err), replay)
		return ops, false
	}
	activeDump := rs[0].Dump
	if rs[0].Active != "a" {
		c.violate("A|active-folder-changed-without-failover|last="+lastKind(h), fmt.Sprintf("history [%s]: a fresh process uses folder %q as active", hs, rs[0].Active), replay)
		clean = false
	}
	if activeDump != want {
		c.violate("A|active-dump-differs|last="+lastKind(h), fmt.Sprintf("history [%s]: fresh-process dump of the active side = %s ; model = %s", hs, activeDump, want), replay)
		clean = false
	}
	// fresh process: fail over, dump from the passive folder
	rs, err = p.run([]Action{act("failover"), act("dump"), act("status")})
	run.Add("processes", 1)
	if err != nil {
		c.violate("A|failover-process-died|last="+lastKind(h), fmt.Sprintf("history [%s]: %v", hs, err), replay)
		return ops, false
	}
	if rs[0].Err != "" {
		c.violate("A|failover-error|last="+lastKind(h), fmt.Sprintf("history [%s]: fs.TriggerFailover: %s", hs, rs[0].Err), replay)
		return ops, false
	}
	c.checkPassiveDump("A", "failover-process", h, rs[1], want, activeDump, replay, &clean)
	// another fresh process: the status is read from disk
	rs, err = p.run([]Action{act("dump"), act("status")})
	run.Add("processes", 1)
	if err != nil {
		c.violate("A|post-failover-process-died|last="+lastKind(h), fmt.Sprintf("history [%s]: %v", hs, err), replay)
		return ops, false
	}
	c.checkPassiveDump("A", "fresh-process-after-failover", h, rs[0], want, activeDump, replay, &clean)
	return ops, clean
}

// compareSegments compares every *.reg file under <base>/a with its counterpart under <base>/p.
func compareSegments(base string) (same, total int) {
	a, p := filepath.Join(base, "a"), filepath.Join(base, "p")
	filepath.Walk(a, func(path string, info os.FileInfo, err error) error {
		if err != nil || info.IsDir() || !strings.HasSuffix(path, ".reg") {
			return nil
		}
		total++
		rel, _ := filepath.Rel(a, path)
		x, e1 := os.ReadFile(path)
		y, e2 := os.ReadFile(filepath.Join(p, rel))
		if e1 == nil && e2 == nil && bytes.Equal(x, y) {
			same++
		}
		return nil
	})
	return
}

func (c *checker) checkPassiveDump(part, where string, h []Step, d Result, want, activeDump string, replay any, clean *bool) {
	hs := histString(h)
	if d.Active != "p" {
		c.violate(part+"|failover-not-effective|"+where+"|last="+lastKind(h), fmt.Sprintf("history [%s]: after fs.TriggerFailover the %s uses folder %q as active (dump=%s)", hs, where, d.Active, d.Dump), replay)
		*clean = false
		return
	}
	if d.Dump != want {
		extra := ""
		if activeDump != "" && activeDump != want {
			extra = " ; active-side dump = " + activeDump
		}
		c.violate(part+"|passive-dump-differs|"+diffClass(d.Dump, want)+"|last="+lastKind(h), fmt.Sprintf("history [%s]: dump after failover to the passive folder (%s) = %s ; model = %s%s", hs, where, d.Dump, want, extra), replay)
		*clean = false
	}
}

// diffClass gives a coarse mechanism for a wrong dump.
func diffClass(got, want string) string {
	switch {
	case strings.Contains(got, "ERR("):
		i := strings.Index(got, "ERR(")
		e := got[i+4:]
		if j := strings.IndexAny(e, ":)"); j >= 0 {
			e = e[:j]
		}
		return "error-" + strings.ReplaceAll(strings.TrimSpace(e), " ", "-")
	case storeNames(got) != storeNames(want):
		return "store-list"
	case stripCounts(got) == stripCounts(want):
		return "count-only"
	default:
		return "items"
	}
}

var countRe = regexp.MustCompile(`\]#\d+`)

// stripCounts removes the "#n" count suffix of every store of a dump.
func stripCounts(d string) string { return countRe.ReplaceAllString(d, "]") }

func storeNames(d string) string {
	var ns []string
	for _, f := range strings.Fields(d) {
		if i := strings.Index(f, "{"); i > 0 {
			ns = append(ns, f[:i])
		}
	}
	return strings.Join(ns, ",")
}

// ---------- Part B + C ----------

// variant of Part C: where ReinstateFailedDrives runs, how many commits follow, whether the passive folder
// is emptied first (the failed drive was replaced by a blank one).
type variant struct {
	Mode   string `json:"reinstate_in"` // "fresh": a new process; "same": the process that saw the failure
	Follow int    `json:"follow_up_commits"`
	Wipe   bool   `json:"wipe_passive_before_reinstate"`
}

func (v variant) String() string {
	return fmt.Sprintf("reinstate in %s process, wipe=%v, %d follow-up commits", v.Mode, v.Wipe, v.Follow)
}

type faultCase struct {
	h      []Step
	k      int
	refOps []string
	hs, lk string
	cls    string
	at     string
	n      int
	pre    []Action
	last   []Action
	mPre   Model
	m      Model
}

func (c *checker) newFaultCase(h []Step, k int, refOps []string) *faultCase {
	fc := &faultCase{h: h, k: k, refOps: refOps, hs: histString(h), lk: lastKind(h), cls: opClass(refOps[k]), n: len(h)}
	fc.pre, fc.mPre = stepActions(Model{}, h[:fc.n-1])
	fc.last, fc.m = stepActions(fc.mPre, h[fc.n-1:])
	fc.at = fmt.Sprintf("history [%s], sticky EIO on passive-folder paths from passive operation #%d (%s) of the last step", fc.hs, k, refOps[k])
	return fc
}

func (fc *faultCase) replay(v *variant) map[string]any {
	r := map[string]any{"part": "B", "history": fc.h, "history_text": fc.hs, "fault_from_passive_op": fc.k, "passive_ops_of_last_step_reference": fc.refOps}
	if v != nil {
		r["part"] = "C"
		r["reinstate_in"], r["follow_up_commits"], r["wipe_passive_before_reinstate"] = v.Mode, v.Follow, v.Wipe
	}
	return r
}

// faultActions: prefix without faults, then the last step with the fault armed, then the in-process status.
func (fc *faultCase) faultActions() []Action {
	var as []Action
	as = append(as, fc.pre...)
	as = append(as, Action{A: "arm", K: fc.k})
	as = append(as, fc.last...)
	as = append(as, act("disarm"), act("status"))
	return as
}

// reinstateActions: (wipe,) reinstate, follow-up commits, status, in-process dump. Returns the follow-up steps and the final model.
func reinstateActions(v variant, from Model, tag int) ([]Action, []Step, Model) {
	var as []Action
	if v.Wipe {
		as = append(as, act("wipepassive"))
	}
	as = append(as, act("reinstate"))
	fsteps := followUps(from, v.Follow, tag)
	fa, mf := stepActions(from, fsteps)
	as = append(as, fa...)
	as = append(as, act("status"), act("dump"))
	return as, fsteps, mf
}

// partBC injects the sticky passive failure from passive operation k of the last step on (Part B), then
// runs every Part C variant.
func (c *checker) partBC(h []Step, k int, refOps []string, variants []variant) {
	run := c.run
	fc := c.newFaultCase(h, k, refOps)
	p := &proc{base: newBase("B")}
	defer os.RemoveAll(p.base)
	n, lk, cls, at := fc.n, fc.lk, fc.cls, fc.at
	replay := fc.replay(nil)
	as := fc.faultActions()
	rs, err := p.run(as)
	run.Add("processes", 1)
	if err != nil {
		c.violate("B|process-died-under-passive-failure|last="+lk+"|"+cls, at+": "+err.Error(), replay)
		return
	}
	for i := 0; i < n-1; i++ {
		if rs[i].Err != "" {
			c.violate("B|prefix-step-error|"+h[i].Kind, fmt.Sprintf("%s: prefix step %d %s failed before the fault was armed: %s", at, i+1, h[i], rs[i].Err), replay)
			return
		}
	}
	stepErr := rs[n].Err
	ops := rs[n+1].Ops
	st := rs[n+2].Status
	failedMut, failedAny := false, false
	for _, o := range ops {
		if strings.HasPrefix(o, "!") {
			failedAny = true
			if isMutating(o) {
				failedMut = true
			}
		}
	}
	if !failedAny {
		// the operation sequence differed from the reference run: the fault never fired
		run.Add("fault_not_fired", 1)
		return
	}
	run.Add("fault_cases_fired", 1)
	if failedMut {
		run.Add("fault_cases_with_failed_passive_write", 1)
	}
	cur := fc.m // model the active side must show
	if stepErr != "" {
		c.violate("B|passive-failure-fails-operation|last="+lk+"|"+cls, fmt.Sprintf("%s: the step returned an error: %s (passive ops: %v)", at, stepErr, ops), replay)
	}
	// Fresh process: active side dump + the replication status a fresh process derives from disk. When the
	// step succeeded the first "fresh" variant continues in this very process (reinstate after a read).
	a2 := []Action{act("dump"), act("status")}
	merged := -1
	var mergedSteps []Step
	var mergedFinal Model
	if stepErr == "" {
		for i, v := range variants {
			if v.Mode == "fresh" {
				ra, fs, mf := reinstateActions(v, cur, n+1)
				a2 = append(a2, ra...)
				merged, mergedSteps, mergedFinal = i, fs, mf
				break
			}
		}
	}
	rs2, err := p.run(a2)
	run.Add("processes", 1)
	if err != nil {
		c.violate("B|active-dump-process-died|last="+lk+"|"+cls, at+": "+err.Error(), replay)
		return
	}
	ad := rs2[0]
	if ad.Active != "a" {
		c.violate("B|active-folder-changed|last="+lk+"|"+cls, fmt.Sprintf("%s: afterwards a fresh process uses folder %q as active", at, ad.Active), replay)
		return
	}
	if ad.Dump != fc.m.dump() {
		if stepErr != "" && ad.Dump == fc.mPre.dump() {
			cur = fc.mPre // the failed step left the active side unchanged
		} else {
			c.violate("B|active-side-affected|"+diffClass(ad.Dump, fc.m.dump())+"|last="+lk+"|"+cls, fmt.Sprintf("%s: step error=%q; active dump = %s ; model = %s", at, stepErr, ad.Dump, fc.m.dump()), replay)
			return
		}
	}
	off := st.HaveGlobal && st.FailedToReplicate
	offFresh := rs2[1].Status.HaveGlobal && rs2[1].Status.FailedToReplicate
	if failedMut && (!off || !offFresh) {
		// what would an operator see on failover now? (own scratch copy of the case: the merged continuation may have run)
		pd := c.failoverViewAfterFault(fc)
		c.violate("B|replication-not-turned-off|last="+lk+"|"+cls, fmt.Sprintf("%s: a passive write failed (ops: %v) but replication is not reported off: in-process FailedToReplicate=%v, fresh process FailedToReplicate=%v, replstat.txt(active)=%q; step error=%q; active dump = %s; a failover now shows: %s ; model = %s",
			at, ops, off, offFresh, st.FileA, stepErr, ad.Dump, pd, cur.dump()), replay)
		return
	}
	if !failedMut && !off {
		// only reads failed: either replication is off or the passive copy must still be faithful
		run.Add("read_only_fault_cases", 1)
		pd := c.failoverViewAfterFault(fc)
		if pd != "active=p dump="+cur.dump() {
			c.violate("B|passive-read-failure-leaves-stale-passive-with-replication-on|last="+lk+"|"+cls, fmt.Sprintf("%s: only passive reads failed (ops: %v), replication stays on, but failover shows %s ; model = %s", at, ops, pd, cur.dump()), replay)
		}
		return
	}
	// ---- Part C ----
	for i, v := range variants {
		run.Add("reinstate_cases", 1)
		switch {
		case i == merged:
			c.afterReinstate(fc, v, p, rs2[2:], mergedSteps, mergedFinal)
		case v.Mode == "fresh":
			// replay the fault in a new scratch tree, then reinstate in a fresh process
			p3 := &proc{base: newBase("C")}
			if _, err := p3.run(as); err != nil {
				c.violate("C|process-died-under-passive-failure|last="+lk+"|"+cls, at+": "+err.Error(), fc.replay(&v))
				os.RemoveAll(p3.base)
				continue
			}
			ra, fs, mf := reinstateActions(v, cur, n+1)
			r, err := p3.run(ra)
			run.Add("processes", 2)
			if err != nil {
				c.violate("C|process-died-in-reinstate|mode=fresh|last="+lk+"|"+cls, at+": "+err.Error(), fc.replay(&v))
			} else {
				c.afterReinstate(fc, v, p3, r, fs, mf)
			}
			os.RemoveAll(p3.base)
		default: // same process: failure, reinstate and follow-up commits in one process
			p3 := &proc{base: newBase("C")}
			ra, fs, mf := reinstateActions(v, cur, n+1)
			r, err := p3.run(append(append([]Action(nil), as...), ra...))
			run.Add("processes", 1)
			if err != nil {
				c.violate("C|process-died-in-reinstate|mode=same|last="+lk+"|"+cls, at+": "+err.Error(), fc.replay(&v))
			} else {
				if r[n].Err != stepErr {
					run.Add("nondeterministic_step_result", 1)
				}
				c.afterReinstate(fc, v, p3, r[len(as):], fs, mf)
			}
			os.RemoveAll(p3.base)
		}
	}
}

// failoverViewAfterFault replays the fault case in a new scratch tree and reports what a failover shows.
func (c *checker) failoverViewAfterFault(fc *faultCase) string {
	p := &proc{base: newBase("V")}
	defer os.RemoveAll(p.base)
	c.run.Add("processes", 2)
	if _, err := p.run(fc.faultActions()); err != nil {
		return "(process died)"
	}
	rs, err := p.run([]Action{act("failover"), act("dump")})
	if err != nil {
		return "(failover process died)"
	}
	if rs[0].Err != "" {
		return "(TriggerFailover error: " + rs[0].Err + ")"
	}
	return fmt.Sprintf("active=%s dump=%s", rs[1].Active, rs[1].Dump)
}

// afterReinstate checks the results rc = [(wipe,) reinstate, follow-ups..., status] and then the failover dumps.
func (c *checker) afterReinstate(fc *faultCase, v variant, p *proc, rc []Result, fsteps []Step, mFinal Model) {
	run := c.run
	mode, lk, cls, at := v.Mode, fc.lk, fc.cls, fc.at
	_ = cls
	replay := fc.replay(&v)
	i := 0
	if v.Wipe {
		i++
	}
	vs := fmt.Sprintf("mode=%s|wipe=%v|follow=%d", mode, v.Wipe, v.Follow)
	if rc[i].Err != "" {
		c.violate("C|reinstate-error|"+vs+"|last="+lk+"|"+cls, fmt.Sprintf("%s; then ReinstateFailedDrives (%s, faults cleared) returned: %s", at, v, rc[i].Err), replay)
		return
	}
	i++
	for j, s := range fsteps {
		if rc[i+j].Err != "" {
			c.violate("C|commit-error-after-reinstate|"+vs+"|"+s.Kind, fmt.Sprintf("%s; reinstated (%s); follow-up commit %d %s failed: %s", at, v, j+1, s, rc[i+j].Err), replay)
			return
		}
	}
	stc := rc[i+len(fsteps)].Status
	if !stc.HaveGlobal || stc.FailedToReplicate || stc.LogCommitChanges {
		c.violate("C|replication-not-back-on|"+vs+"|last="+lk, fmt.Sprintf("%s; after ReinstateFailedDrives (%s) the status is FailedToReplicate=%v LogCommitChanges=%v (replstat a=%q)", at, v, stc.FailedToReplicate, stc.LogCommitChanges, stc.FileA), replay)
	}
	want := mFinal.dump()
	ctxs := fmt.Sprintf("%s; %s [%s]", at, v, histString(fsteps))
	if ad := rc[i+len(fsteps)+1]; ad.Active != "a" || ad.Dump != want {
		c.violate("C|active-dump-differs-after-reinstate|"+vs+"|last="+lk, fmt.Sprintf("%s: active(%s) dump in the reinstating process = %s ; model = %s", ctxs, ad.Active, ad.Dump, want), replay)
		return
	}
	// fresh process with cold caches: fail over, dump the passive folder
	rs5, err := p.run([]Action{act("failover"), act("dump")})
	run.Add("processes", 1)
	if err != nil {
		c.violate("C|failover-process-died|"+vs+"|last="+lk, ctxs+": "+err.Error(), replay)
		return
	}
	if rs5[0].Err != "" {
		c.violate("C|failover-error|"+vs+"|last="+lk, ctxs+": fs.TriggerFailover: "+rs5[0].Err, replay)
		return
	}
	clean := true
	c.checkPassiveDumpC(vs, "failover-process", lk, rs5[1], want, ctxs+" (failover process)", replay, &clean)
	if mode == "same" && !c.thorough {
		// quick tier: the second fresh process after failover is only run for the "fresh" variants
		if clean {
			run.Add("reinstate_cases_passed", 1)
		}
		return
	}
	rs6, err := p.run([]Action{act("dump")})
	run.Add("processes", 1)
	if err != nil {
		c.violate("C|post-failover-process-died|"+vs+"|last="+lk, ctxs+": "+err.Error(), replay)
		return
	}
	c.checkPassiveDumpC(vs, "fresh-process-after-failover", lk, rs6[0], want, ctxs+" (fresh process after failover)", replay, &clean)
	if clean {
		run.Add("reinstate_cases_passed", 1)
	}
}

func (c *checker) checkPassiveDumpC(vs, where string, lk string, d Result, want, ctxs string, replay any, clean *bool) {
	if d.Active != "p" {
		c.violate("C|failover-not-effective|"+where+"|"+vs+"|last="+lk, fmt.Sprintf("%s: folder %q is used as active after fs.TriggerFailover (dump=%s)", ctxs, d.Active, d.Dump), replay)
		*clean = false
		return
	}
	if d.Dump != want {
		c.violate("C|passive-dump-differs-after-reinstate|"+diffClass(d.Dump, want)+"|"+where+"|"+vs+"|last="+lk, fmt.Sprintf("%s: dump from the reinstated passive folder = %s ; model = %s", ctxs, d.Dump, want), replay)
		*clean = false
	}
}

// ---------- domain ----------

type domain struct {
	hist     [][]Step
	variants []variant
	desc     string
}

func buildDomain(thorough bool) domain {
	cfgs := []cfg{{2, true}, {2, false}, {4, true}, {4, false}}
	al := alphabet([]string{"S1", "S2"}, cfgs)
	if !thorough {
		return domain{hist: histories(al, 3, true, true, []cfg{{2, true}, {4, false}}), variants: []variant{{"fresh", 0, false}, {"same", 2, false}},
			desc: "all histories of 1..3 enabled steps over the alphabet {create(S,slot in {2,4},value in node|separate segment), add(S): commit 5 fresh keys, updrem(S): commit updating every 3rd+1 and removing every 3rd item, remove(S): RemoveBtree} for S in {S1,S2}; the first step is create(S1,slot2,node) or create(S1,slot4,segment) (S1 first: name symmetry), S2 is created only with the configuration complementary to the first step's (other slot length and other value placement), a removed S1 is re-created with any of the 4 configurations"}
	}
	vs := []variant{{"fresh", 0, false}, {"same", 2, false}, {"fresh", 2, false}, {"same", 0, false}, {"fresh", 1, false}, {"fresh", 0, true}, {"same", 2, true}}
	hist := histories(al, 3, true, false, nil)
	seen := map[string]bool{}
	for _, h := range hist {
		seen[histString(h)] = true
	}
	for _, h := range histories(al, 4, true, true, nil) {
		if !seen[histString(h)] {
			hist = append(hist, h)
		}
	}
	return domain{hist: hist, variants: vs,
		desc: "all histories of 1..3 enabled steps over the alphabet {create(S,slot in {2,4},value in node|separate segment), add(S): commit 5 fresh keys, updrem(S): commit updating every 3rd+1 and removing every 3rd item, remove(S): RemoveBtree} for S in {S1,S2} with the first created store fixed to S1 (name symmetry), plus all histories of 4 steps in which S2 is created only with the configuration complementary to the first step's"}
}

func main() {
	if spec := os.Getenv("C27_CHILD"); spec != "" {
		childMain(spec)
		return
	}
	run := ev.New("C27", "fault_enumeration")
	dom := buildDomain(run.Thorough())
	for i, a := range os.Args {
		if a == "--replay" && i+1 < len(os.Args) && ev.Job() == "" {
			replayFile(run, dom, os.Args[i+1])
		}
	}
	if len(os.Args) > 2 && os.Args[1] == "debug" {
		debugMain(run, dom)
		return
	}
	opsFile := fmt.Sprintf("/dev/shm/c27_%d_ops.json", os.Getpid())
	if f := os.Getenv("C27_OPSFILE"); f != "" {
		opsFile = f
	}
	const batchA, chunkK = 2, 3
	if job := ev.Job(); job != "" {
		c := &checker{run: run, thorough: run.Thorough()}
		var lo, hiK, hIdx int
		switch {
		case strings.HasPrefix(job, "A:"):
			// phase 1: Part A for a batch of histories; the passive-operation lists go back to the parent
			fmt.Sscanf(job, "A:%d", &lo)
			for hi := lo; hi < lo+batchA && hi < len(dom.hist); hi++ {
				if ops := c.historyA(dom.hist[hi]); len(ops) > 0 {
					run.Set(fmt.Sprintf("ops_%d", hi), ops)
				}
			}
		case strings.HasPrefix(job, "B:"):
			// phase 2: Part B/C for fault positions lo..hiK-1 of one history
			fmt.Sscanf(job, "B:%d:%d:%d", &hIdx, &lo, &hiK)
			all := map[string][]string{}
			b, err := os.ReadFile(opsFile)
			if err == nil {
				err = json.Unmarshal(b, &all)
			}
			ops := all[fmt.Sprint(hIdx)]
			if err != nil || len(ops) < hiK {
				fmt.Fprintln(os.Stderr, "cannot read the reference operations:", err)
				os.Exit(3)
			}
			c.historyBC(dom, dom.hist[hIdx], ops, lo, hiK)
		}
		run.EmitPartial()
	}
	dl := 10 * time.Minute
	soft := 6 * time.Minute
	if run.Thorough() {
		dl = 30 * time.Minute
		soft = 13 * time.Minute
	}
	if os.Getenv("C27_DEADLINE") == "" {
		os.Setenv("C27_DEADLINE", fmt.Sprint(time.Now().Add(soft).Unix()))
	}
	os.Setenv("C27_OPSFILE", opsFile)
	os.Setenv("C27_TOP", fmt.Sprint(os.Getpid()))
	defer os.Remove(opsFile)
	nproc := 0
	fmt.Sscan(os.Getenv("C27_NPROC"), &nproc)
	var jobs []string
	for i := 0; i < len(dom.hist); i += batchA {
		jobs = append(jobs, fmt.Sprintf("A:%d", i))
	}
	run.Parallel(jobs, nproc, dl, nil)
	// collect the reference operation lists, drop the per-job extras from the evidence
	all := map[string][]string{}
	if pj, ok := run.Coverage["per_job"].(map[string]any); ok {
		for _, ex := range pj {
			m, _ := ex.(map[string]any)
			for k, v := range m {
				if !strings.HasPrefix(k, "ops_") {
					continue
				}
				var ops []string
				if l, ok := v.([]any); ok {
					for _, o := range l {
						ops = append(ops, fmt.Sprint(o))
					}
				}
				all[strings.TrimPrefix(k, "ops_")] = ops
			}
		}
	}
	delete(run.Coverage, "per_job")
	b, _ := json.Marshal(all)
	if err := os.WriteFile(opsFile, b, 0o644); err != nil {
		fmt.Fprintln(os.Stderr, "cannot write", opsFile, err)
		os.Exit(2)
	}
	// chunk-major order: if the soft deadline stops the run, every history has had its first chunks
	jobs = nil
	for lo, more := 0, true; more; lo += chunkK {
		more = false
		for hi := range dom.hist {
			ops := all[fmt.Sprint(hi)]
			if lo >= len(ops) {
				continue
			}
			more = true
			hiK := lo + chunkK
			if hiK > len(ops) {
				hiK = len(ops)
			}
			jobs = append(jobs, fmt.Sprintf("B:%d:%d:%d", hi, lo, hiK))
		}
	}
	run.Parallel(jobs, nproc, dl, nil)
	os.Remove(opsFile)
	sweepScratch()
	finishEvidence(run, dom)
}

// pastDeadline: the parent passes an absolute soft deadline to its workers (C27_DEADLINE, unix seconds).
func pastDeadline() bool {
	var dl int64
	fmt.Sscan(os.Getenv("C27_DEADLINE"), &dl)
	return dl > 0 && time.Now().Unix() > dl
}

// historyA: Part A of one history; returns the passive-folder operations of its last step.
func (c *checker) historyA(h []Step) []string {
	run := c.run
	if pastDeadline() {
		run.NotExhaustive("soft deadline reached: see histories_skipped_by_deadline / fault_positions_skipped_by_deadline")
		run.Add("histories_skipped_by_deadline", 1)
		return nil
	}
	run.Add("histories", 1)
	ops, clean := c.partA(h)
	run.Add("partA_failover_dumps", 2)
	if len(h) <= 2 {
		run.Sample(map[string]any{"history": histString(h), "passive_ops_in_last_step": ops})
	}
	if !clean && ops == nil {
		return nil
	}
	run.Add("passive_ops_enumerated", int64(len(ops)))
	return ops
}

// historyBC: Part B and C for fault positions lo..hi-1 of history h.
func (c *checker) historyBC(dom domain, h []Step, ops []string, lo, hi int) {
	run := c.run
	for k := lo; k < hi; k++ {
		if pastDeadline() {
			run.NotExhaustive("soft deadline reached: see histories_skipped_by_deadline / fault_positions_skipped_by_deadline")
			run.Add("fault_positions_skipped_by_deadline", int64(hi-k))
			return
		}
		run.Add("fault_cases", 1)
		c.partBC(h, k, ops, dom.variants)
	}
}

// history: everything for one history in this process (debug aid).
func (c *checker) history(dom domain, h []Step) {
	if ops := c.historyA(h); len(ops) > 0 {
		c.historyBC(dom, h, ops, 0, len(ops))
	}
}

func variantList(vs []variant) string {
	var s []string
	for _, v := range vs {
		s = append(s, v.String())
	}
	return strings.Join(s, " | ")
}

func finishEvidence(run *ev.Run, dom domain) {
	cov := run.Coverage
	if caps, ok := cov["caps_hit"].([]string); ok { // one line per distinct reason
		seen := map[string]bool{}
		var u []string
		for _, s := range caps {
			if !seen[s] {
				seen[s] = true
				u = append(u, s)
			}
		}
		cov["caps_hit"] = u
	}
	get := func(k string) int64 { v, _ := cov[k].(int64); return v }
	run.Set("evaluations", get("histories")+get("fault_cases"))
	run.Set("distinct_nontrivial", get("histories")+get("fault_cases_fired"))
	run.Set("rule", "Part A: "+dom.desc+"; the set is prefix-closed, so every prefix of every history is checked; each history runs in its own OS process, then fresh processes dump the active side, fail over with fs.TriggerFailover and dump the passive side, and dump it again from one more fresh process. "+
		"Part B: for every history, every k in [0, number of file operations with a path under the passive folder during the last step of the fault-free reference run): EIO on every passive-folder file operation from the k-th on (sticky) during the last step. "+
		fmt.Sprintf("Part C: for every such case in which replication was reported off, each variant of {%s}: ReinstateFailedDrives with faults cleared, follow-up commits (add / updrem on the first store) and an active-side dump in that process, then a fresh process (cold caches) fails over and dumps the passive side, and (quick: only for reinstate_in=fresh; thorough: always) one more fresh process dumps again. ", variantList(dom.variants))+
		"distinct_nontrivial = histories + fault cases in which the injected fault actually fired (all tuples are distinct by construction).")
	run.Assumption("sop.TaskRunner tasks run inline in launch order (vhook Inline) so that the file-operation sequence, and with it the fault index k, is deterministic; concurrency between replication tasks is not explored")
	run.Assumption("L2 cache is the in-memory cache of each process (no Redis): every fresh process starts with a cold cache and reads the replication status from replstat.txt")
	run.Assumption("blobs of stores with values in a separate segment go to an erasure-coded blob store (1 data + 1 parity shard) on two folders outside the active/passive pair; those folders never fail")
	run.Assumption("failover = fs.TriggerFailover(ctx, [active, passive], true, cache) in a fresh process, as named by the property's observe_at")
	run.Finish()
}
