package main

import (
	"encoding/json"
	"fmt"
	"os"
	"strings"

	"verif.local/mc/ev"
)

// replayFile re-runs the case stored in a replay file (written by ev for a violation): Part A of the history
// and, for Part B/C replays, the fault case with the recorded Part C variant. Prints the violations it sees;
// exit status 1 if there is one, 0 otherwise. Does not write evidence.
func replayFile(run *ev.Run, dom domain, file string) {
	c := &checker{run: run, dbg: true, thorough: true}
	b, err := os.ReadFile(file)
	if err != nil {
		fmt.Fprintln(os.Stderr, err)
		os.Exit(2)
	}
	var f struct {
		Replay struct {
			Part    string `json:"part"`
			History []Step `json:"history"`
			K       int    `json:"fault_from_passive_op"`
			Mode    string `json:"reinstate_in"`
			Follow  int    `json:"follow_up_commits"`
			Wipe    bool   `json:"wipe_passive_before_reinstate"`
		} `json:"replay"`
	}
	if err := json.Unmarshal(b, &f); err != nil || len(f.Replay.History) == 0 {
		fmt.Fprintln(os.Stderr, "not a C27 replay file:", err)
		os.Exit(2)
	}
	r := f.Replay
	ops, clean := c.partA(r.History)
	fmt.Printf("history: %s\npart A clean=%v, passive ops of last step:\n  %s\n", histString(r.History), clean, strings.Join(ops, "\n  "))
	if r.Part != "A" && r.K < len(ops) {
		vs := dom.variants
		if r.Mode != "" {
			vs = []variant{{r.Mode, r.Follow, r.Wipe}}
		}
		c.partBC(r.History, r.K, ops, vs)
	}
	if c.nvio == 0 {
		fmt.Println("no violation")
		os.Exit(0)
	}
	fmt.Printf("violations: %d\n", c.nvio)
	os.Exit(1)
}

// debugMain: `c27 debug list` | `c27 debug <history index> [A]` | `c27 debug replay <file>` — developer aid,
// prints every violation of one history verbosely (does not write evidence).
func debugMain(run *ev.Run, dom domain) {
	c := &checker{run: run, dbg: true, thorough: run.Thorough()}
	switch os.Args[2] {
	case "list":
		for i, h := range dom.hist {
			fmt.Printf("%4d  %s\n", i, histString(h))
		}
		return
	case "replay":
		replayFile(run, dom, os.Args[3])
		return
	}
	var idx int
	fmt.Sscan(os.Args[2], &idx)
	h := dom.hist[idx]
	fmt.Println("history:", histString(h))
	if len(os.Args) > 3 && os.Args[3] == "A" {
		ops, clean := c.partA(h)
		fmt.Printf("part A clean=%v, passive ops of last step:\n  %s\n", clean, strings.Join(ops, "\n  "))
		return
	}
	c.history(dom, h)
	fmt.Printf("violations: %d; counters: %v\n", c.nvio, run.Coverage)
}
