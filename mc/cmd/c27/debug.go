package main

import (
	"encoding/json"
	"fmt"
	"os"
	"strings"

	"verif.local/mc/ev"
)

// debugMain: `c27 debug list` | `c27 debug <history index> [A]` | `c27 debug replay <file>` — developer aid,
// prints every violation of one history verbosely (does not write evidence).
func debugMain(run *ev.Run, dom domain) {
	c := &checker{run: run, dbg: true, thorough: run.Thorough()}
	switch os.Args[2] {
	case "list":
		for i, h := range dom.hist {
			fmt.Printf("%4d  %s\n", i, histString(h))
		}
		return
	case "replay":
		b, err := os.ReadFile(os.Args[3])
		if err != nil {
			panic(err)
		}
		var f struct {
			Replay struct {
				Part    string `json:"part"`
				History []Step `json:"history"`
				K       int    `json:"fault_from_passive_op"`
				Mode    string `json:"reinstate_in"`
				Follow  int    `json:"follow_up_commits"`
				Wipe    bool   `json:"wipe_passive_before_reinstate"`
			} `json:"replay"`
		}
		if err := json.Unmarshal(b, &f); err != nil {
			panic(err)
		}
		r := f.Replay
		ops, clean := c.partA(r.History)
		fmt.Printf("history: %s\npart A clean=%v, passive ops of last step:\n  %s\n", histString(r.History), clean, strings.Join(ops, "\n  "))
		if r.Part != "A" && r.K < len(ops) {
			vs := dom.variants
			if r.Mode != "" {
				vs = []variant{{r.Mode, r.Follow, r.Wipe}}
			}
			c.partBC(r.History, r.K, ops, vs)
		}
		fmt.Printf("violations: %d\n", c.nvio)
		return
	}
	var idx int
	fmt.Sscan(os.Args[2], &idx)
	h := dom.hist[idx]
	fmt.Println("history:", histString(h))
	if len(os.Args) > 3 && os.Args[3] == "A" {
		ops, clean := c.partA(h)
		fmt.Printf("part A clean=%v, passive ops of last step:\n  %s\n", clean, strings.Join(ops, "\n  "))
		return
	}
	c.history(dom, h)
	fmt.Printf("violations: %d; counters: %v\n", c.nvio, run.Coverage)
}
