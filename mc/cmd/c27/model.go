package main

// Reference model: per store its options and a sorted map key -> value.

import (
	"fmt"
	"sort"
	"strings"
)

type mstore struct {
	Slot   int
	InNode bool
	Items  map[int]string
	Next   int // next fresh key for add steps
}

type Model map[string]*mstore

func (m Model) clone() Model {
	c := Model{}
	for n, s := range m {
		cs := &mstore{Slot: s.Slot, InNode: s.InNode, Next: s.Next, Items: map[int]string{}}
		for k, v := range s.Items {
			cs.Items[k] = v
		}
		c[n] = cs
	}
	return c
}

func (m Model) names() []string {
	var ns []string
	for n := range m {
		ns = append(ns, n)
	}
	sort.Strings(ns)
	return ns
}

func (s *mstore) keys() []int {
	var ks []int
	for k := range s.Items {
		ks = append(ks, k)
	}
	sort.Ints(ks)
	return ks
}

// enabled tells whether the step is meaningful in this state.
func (m Model) enabled(s Step) bool {
	st := m[s.Store]
	switch s.Kind {
	case "create":
		return st == nil
	case "add", "remove":
		return st != nil
	case "updrem":
		return st != nil && len(st.Items) > 0
	}
	return false
}

// plan derives the concrete keys of an add / updrem step from the model state.
func (m Model) plan(s Step) *Plan {
	st := m[s.Store]
	switch s.Kind {
	case "add":
		n := st.Next
		// five fresh keys, inserted in a non-monotonic order
		return &Plan{Add: []int{n + 2, n, n + 4, n + 1, n + 3}}
	case "updrem":
		p := &Plan{}
		for i, k := range st.keys() {
			switch i % 3 {
			case 0:
				p.Remove = append(p.Remove, k)
			case 1:
				p.Update = append(p.Update, k)
			}
		}
		return p
	}
	return nil
}

func (m Model) apply(s Step, p *Plan) {
	switch s.Kind {
	case "create":
		m[s.Store] = &mstore{Slot: s.Slot, InNode: s.InNode, Items: map[int]string{}, Next: 1}
	case "remove":
		delete(m, s.Store)
	case "add", "updrem":
		st := m[s.Store]
		for _, k := range p.Add {
			st.Items[k] = valueFor(k, s.Tag, false)
			if k >= st.Next {
				st.Next = k + 1
			}
		}
		for _, k := range p.Update {
			st.Items[k] = valueFor(k, s.Tag, true)
		}
		for _, k := range p.Remove {
			delete(st.Items, k)
		}
	}
}

// dump renders the model in the format of dumpAll.
func (m Model) dump() string {
	var sb strings.Builder
	for _, n := range m.names() {
		st := m[n]
		fmt.Fprintf(&sb, "%s{slot=%d,unique=true,inNode=%v}[", n, st.Slot, st.InNode)
		for i, k := range st.keys() {
			if i > 0 {
				sb.WriteString(" ")
			}
			fmt.Fprintf(&sb, "%d=%s", k, st.Items[k])
		}
		fmt.Fprintf(&sb, "]#%d ", len(st.Items))
	}
	s := strings.TrimSpace(sb.String())
	if s == "" {
		return "(no stores)"
	}
	return s
}

type cfg struct {
	Slot   int
	InNode bool
}

// alphabet of steps over the given store names and create configurations.
func alphabet(stores []string, cfgs []cfg) []Step {
	var al []Step
	for _, s := range stores {
		for _, c := range cfgs {
			al = append(al, Step{Kind: "create", Store: s, Slot: c.Slot, InNode: c.InNode})
		}
		al = append(al, Step{Kind: "add", Store: s}, Step{Kind: "updrem", Store: s}, Step{Kind: "remove", Store: s})
	}
	return al
}

// histories enumerates every sequence of 1..maxLen enabled steps (prefix-closed set). With firstS1 the
// first created store is always S1 (store names are symmetric). With pairS2, S2 is only created with the
// configuration complementary to the one of the first step (other slot length, other value placement).
// firstCfgs (optional) restricts the configuration of the first step.
func histories(al []Step, maxLen int, firstS1, pairS2 bool, firstCfgs []cfg) [][]Step {
	var out [][]Step
	var rec func(m Model, h []Step)
	rec = func(m Model, h []Step) {
		if len(h) > 0 {
			out = append(out, append([]Step(nil), h...))
		}
		if len(h) == maxLen {
			return
		}
		for _, s := range al {
			if !m.enabled(s) {
				continue
			}
			if firstS1 && len(h) == 0 && s.Store != "S1" {
				continue
			}
			if len(h) == 0 && firstCfgs != nil {
				ok := false
				for _, c := range firstCfgs {
					ok = ok || (c.Slot == s.Slot && c.InNode == s.InNode)
				}
				if !ok {
					continue
				}
			}
			if pairS2 && len(h) > 0 && s.Kind == "create" && s.Store == "S2" && (s.Slot == h[0].Slot || s.InNode == h[0].InNode) {
				continue
			}
			s.Tag = len(h) + 1
			m2 := m.clone()
			m2.apply(s, m2.plan(s))
			rec(m2, append(h, s))
		}
	}
	rec(Model{}, nil)
	return out
}

// followUps chooses n deterministic further commits for the state m (used after reinstate).
func followUps(m Model, n int, tag int) []Step {
	var out []Step
	m = m.clone()
	for i := 0; i < n; i++ {
		var s Step
		names := m.names()
		switch {
		case len(names) == 0:
			s = Step{Kind: "create", Store: "S1", Slot: 4, InNode: true}
		case i%2 == 1 && len(m[names[0]].Items) > 0:
			s = Step{Kind: "updrem", Store: names[0]}
		default:
			s = Step{Kind: "add", Store: names[0]}
		}
		s.Tag = tag + i
		m.apply(s, m.plan(s))
		out = append(out, s)
	}
	return out
}

func histString(h []Step) string {
	var p []string
	for _, s := range h {
		p = append(p, s.String())
	}
	return strings.Join(p, " ; ")
}
