package main

import (
	"bytes"
	"context"
	"encoding/json"
	"fmt"
	"io/fs"
	"math/bits"
	"os"
	"path/filepath"
	"runtime"
	"runtime/debug"
	"strings"
	"time"

	"github.com/sharedcode/sop"
	sopfs "github.com/sharedcode/sop/fs"
)

var ctx = context.Background()

const tableName = "ecxtbl"

// replay is the json-able minimal input of one case.
type replay struct {
	Prop       string   `json:"prop"`
	Mode       string   `json:"mode"`
	D          int      `json:"d"`
	P          int      `json:"p"`
	Size       int      `json:"size"`
	KeyByTable bool     `json:"config_keyed_by_table"`
	Pattern    []string `json:"shard_damage,omitempty"`
	FailWrites []int    `json:"failing_shard_writes,omitempty"`
	Phase2     []string `json:"second_damage_after_repair,omitempty"`
	How        string   `json:"how"`
}

// vmsg is one violation reported by a case-running child to its supervisor.
type vmsg struct {
	Class   string `json:"class"`
	Trigger string `json:"trigger"`
	Kinds   string `json:"kinds"`
	Detail  string `json:"detail"`
	Replay  replay `json:"replay"`
}

// env is one stored blob: n shard folders ("drives"), the real EC blob store on top of them.
type env struct {
	prop       string
	c          cfg
	size       int
	keyByTable bool
	root       string
	dirs       []string
	refDirs    []string
	id         sop.UUID
	data       []byte
	store      sop.BlobStore // the store under test (repair flag per property)
	plain      sop.BlobStore // same folders, repair off, default FileIO
	paths      []string      // shard file of shard i
	intact     [][]byte      // its intact content
	ref        [][]byte      // C26: shard files of a fresh encode into the sibling folder set
	canon      [][]int       // canon[i][k]: smallest kind with the same effect on shard i
	thorough   bool
	memo2      map[int]string // C26 phase 2 verdicts on the "all shard files equal the fresh encode" state
}

func cfgMap(c cfg, dirs []string, repair, keyByTable bool) map[string]sop.ErasureCodingConfig {
	key := ""
	if keyByTable {
		key = tableName
	}
	return map[string]sop.ErasureCodingConfig{key: {DataShardsCount: c.D, ParityShardsCount: c.P,
		BaseFolderPathsAcrossDrives: append([]string(nil), dirs...), RepairCorruptedShards: repair}}
}

func mkDirs(root, sub string, n int) []string {
	var d []string
	for i := 0; i < n; i++ {
		p := filepath.Join(root, sub, fmt.Sprintf("d%d", i))
		if err := os.MkdirAll(p, 0o755); err != nil {
			harnessFail("mkdir: " + err.Error())
		}
		d = append(d, p)
	}
	return d
}

func harnessFail(msg string) {
	fmt.Fprintln(os.Stderr, "ECX-HARNESS-FAILURE:", msg)
	os.Exit(3)
}

func payload(id sop.UUID, data []byte) []sop.BlobsPayload[sop.KeyValuePair[sop.UUID, []byte]] {
	// The store must not depend on the caller's slice afterwards; hand it a private copy.
	return []sop.BlobsPayload[sop.KeyValuePair[sop.UUID, []byte]]{{BlobTable: tableName,
		Blobs: []sop.KeyValuePair[sop.UUID, []byte]{{Key: id, Value: append(make([]byte, 0, len(data)), data...)}}}}
}

// soleFile returns the single regular file below dir ("" if none).
func soleFile(dir string) string {
	var found []string
	filepath.WalkDir(dir, func(p string, d fs.DirEntry, err error) error {
		if err == nil && d.Type().IsRegular() {
			found = append(found, p)
		}
		return nil
	})
	if len(found) > 1 {
		harnessFail(fmt.Sprintf("more than one file below %s: %v", dir, found))
	}
	if len(found) == 0 {
		return ""
	}
	return found[0]
}

// newEnv creates the folders and stores the blob with the real store (no faults). storeErr != nil means
// the store refused the blob (nothing to read back).
func newEnv(prop string, cfgIdx, szIdx int, root string, thorough, doStore bool) (e *env, storeErr error) {
	c := cfgs[cfgIdx]
	e = &env{prop: prop, c: c, size: sizesFor(c.D)[szIdx], keyByTable: szIdx%2 == 1, root: root, thorough: thorough}
	e.data = content(e.size)
	e.id = sop.UUID{0xEC, byte(0x10 + cfgIdx), byte(szIdx), 0x25, 0x26, 0, 0, 0, 0, 0, 0, 0, 0, 0, 0, 1}
	os.RemoveAll(root)
	e.dirs = mkDirs(root, "a", c.N())
	var err error
	// nil FileIO = the package's default file IO.
	if e.plain, err = sopfs.NewBlobStoreWithEC(sopfs.DefaultToFilePath, nil, cfgMap(c, e.dirs, false, e.keyByTable)); err != nil {
		harnessFail("NewBlobStoreWithEC: " + err.Error())
	}
	e.store = e.plain
	if prop == "C26" {
		if e.store, err = sopfs.NewBlobStoreWithEC(sopfs.DefaultToFilePath, nil, cfgMap(c, e.dirs, true, e.keyByTable)); err != nil {
			harnessFail("NewBlobStoreWithEC: " + err.Error())
		}
	}
	if !doStore {
		return e, nil
	}
	if err := e.plain.Add(ctx, payload(e.id, e.data)); err != nil {
		return e, err
	}
	e.paths, e.intact = readShardFiles(e.dirs)
	if prop == "C26" {
		e.refDirs = mkDirs(root, "b", c.N())
		rs, err := sopfs.NewBlobStoreWithEC(sopfs.DefaultToFilePath, nil, cfgMap(c, e.refDirs, false, e.keyByTable))
		if err != nil {
			harnessFail("NewBlobStoreWithEC(ref): " + err.Error())
		}
		if err := rs.Add(ctx, payload(e.id, e.data)); err != nil {
			harnessFail("reference encode failed: " + err.Error())
		}
		_, e.ref = readShardFiles(e.refDirs)
	}
	e.canon = make([][]int, c.N())
	for i := range e.canon {
		e.canon[i] = make([]int, nKinds)
		var outs [nKinds][]byte
		var rem [nKinds]bool
		for k := 0; k < nKinds; k++ {
			outs[k], rem[k] = damage(k, e.intact[i])
			e.canon[i][k] = k
			for j := 0; j < k; j++ {
				if rem[j] == rem[k] && bytes.Equal(outs[j], outs[k]) {
					e.canon[i][k] = j
					break
				}
			}
		}
	}
	return e, nil
}

func readShardFiles(dirs []string) (paths []string, contents [][]byte) {
	for i, d := range dirs {
		p := soleFile(d)
		if p == "" {
			harnessFail(fmt.Sprintf("fault-free Add left no shard file in folder %d (%s)", i, d))
		}
		b, err := os.ReadFile(p)
		if err != nil {
			harnessFail(err.Error())
		}
		paths = append(paths, p)
		contents = append(contents, b)
	}
	return
}

func putFile(path string, b []byte, removed bool) {
	if removed {
		if err := os.Remove(path); err != nil && !os.IsNotExist(err) {
			harnessFail(err.Error())
		}
		return
	}
	if err := os.WriteFile(path, b, 0o644); err != nil {
		harnessFail(err.Error())
	}
}

// effective maps a nominal pattern to the canonical (effective) kinds; dup says that some shard's
// nominal kind has the same effect as an earlier kind, i.e. the case repeats an earlier pattern.
func (e *env) effective(pat []int) (eff []int, damaged int, dup bool) {
	eff = make([]int, len(pat))
	for i, k := range pat {
		eff[i] = e.canon[i][k]
		if eff[i] != k {
			dup = true
		}
		if eff[i] != kIntact {
			damaged++
		}
	}
	return
}

func (e *env) applyTo(base [][]byte, pat []int) {
	for i, k := range pat {
		if k == kIntact {
			continue
		}
		b, rm := damage(k, base[i])
		putFile(e.paths[i], b, rm)
	}
}

func (e *env) restore(base [][]byte) {
	for i := range base {
		if base[i] == nil {
			putFile(e.paths[i], nil, true)
		} else {
			putFile(e.paths[i], base[i], false)
		}
	}
}

// snapshot reads the current shard files (nil = missing).
func (e *env) snapshot() [][]byte {
	out := make([][]byte, len(e.paths))
	for i, p := range e.paths {
		b, err := os.ReadFile(p)
		if err != nil {
			if os.IsNotExist(err) {
				continue
			}
			harnessFail(err.Error())
		}
		if b == nil {
			b = []byte{}
		}
		out[i] = b
	}
	return out
}

type callResult struct {
	data     []byte
	err      error
	panicked bool
	panicMsg string
	panicAt  string
}

// shortFunc turns "github.com/sharedcode/sop/fs/erasure.(*Erasure).Decode at /repo/..." into
// "erasure.(*Erasure).Decode" (stable part of a panic site, used in signatures).
func shortFunc(at string) string {
	fn, _, _ := strings.Cut(at, " at ")
	if i := strings.LastIndex(fn, "/"); i >= 0 {
		fn = fn[i+1:]
	}
	return fn
}

func firstSopFrame(stack string) string {
	lines := strings.Split(stack, "\n")
	for i, l := range lines {
		if strings.HasPrefix(l, "github.com/sharedcode/sop") || strings.HasPrefix(l, "github.com/klauspost/reedsolomon") {
			fn := l
			if j := strings.LastIndex(fn, "("); j > 0 {
				fn = fn[:j]
			}
			loc := ""
			if i+1 < len(lines) {
				loc = strings.TrimSpace(lines[i+1])
				if j := strings.Index(loc, " +0x"); j > 0 {
					loc = loc[:j]
				}
			}
			return fn + " at " + loc
		}
	}
	return "?"
}

// quiesce waits until the goroutines started by the call are gone. A goroutine of the store that is
// panicking first runs its deferred calls (which lets errgroup.Wait return and the caller continue) and
// only then kills the process; without this wait the death could hit while the NEXT case is announced.
// While we wait here the process dies inside the right case.
func quiesce(baseline int) {
	for i := 0; runtime.NumGoroutine() > baseline; i++ {
		if i > 40000 { // ~2 s: a leaked (not panicking) goroutine; carry on
			fmt.Fprintln(os.Stdout, "O goroutines-still-running-after-call")
			return
		}
		if i < 100 {
			runtime.Gosched()
		} else {
			time.Sleep(50 * time.Microsecond)
		}
	}
}

func safeGet(st sop.BlobStore, id sop.UUID) (r callResult) {
	defer quiesce(runtime.NumGoroutine())
	defer func() {
		if x := recover(); x != nil {
			r.panicked = true
			r.panicMsg = fmt.Sprint(x)
			r.panicAt = firstSopFrame(string(debug.Stack()))
		}
	}()
	r.data, r.err = st.GetOne(ctx, tableName, id)
	return
}

func safeWrite(st sop.BlobStore, id sop.UUID, data []byte, update bool) (r callResult) {
	defer quiesce(runtime.NumGoroutine())
	defer func() {
		if x := recover(); x != nil {
			r.panicked = true
			r.panicMsg = fmt.Sprint(x)
			r.panicAt = firstSopFrame(string(debug.Stack()))
		}
	}()
	if update {
		r.err = st.Update(ctx, payload(id, data))
	} else {
		r.err = st.Add(ctx, payload(id, data))
	}
	return
}

func describeBytes(got, want []byte) string {
	if len(got) != len(want) {
		return fmt.Sprintf("returned %d bytes, stored %d bytes", len(got), len(want))
	}
	for i := range got {
		if got[i] != want[i] {
			return fmt.Sprintf("returned %d bytes that differ from the stored ones first at offset %d (got 0x%02x want 0x%02x)", len(got), i, got[i], want[i])
		}
	}
	return "equal"
}

type emitter struct {
	out *os.File
}

func (em emitter) line(format string, a ...any) {
	fmt.Fprintf(em.out, format+"\n", a...)
}

func (em emitter) violation(v vmsg) {
	b, _ := json.Marshal(v)
	em.line("V %s", b)
}

func (e *env) replayOf(mode string, pat []int) replay {
	r := replay{Prop: e.prop, Mode: mode, D: e.c.D, P: e.c.P, Size: e.size, KeyByTable: e.keyByTable,
		How: "bin/ecx " + e.prop + " single '<this replay object as JSON>'"}
	if pat != nil {
		r.Pattern = patNames(pat)
	}
	return r
}

// ---- C25 read case ----

func (e *env) runRead(em emitter, idx int, pat []int) {
	eff, dmg, dup := e.effective(pat)
	set, trig := kindSet(eff)
	em.line("C %d %d %d %s", idx, b2i(dup), dmg, set)
	e.applyTo(e.intact, pat)
	r := safeGet(e.store, e.id)
	for i, k := range pat { // repair is off: only the damaged files can have changed
		if k != kIntact {
			putFile(e.paths[i], e.intact[i], false)
		}
	}
	where := fmt.Sprintf("d=%d p=%d blob of %d bytes, shard files %v (%d damaged, parity %d)", e.c.D, e.c.P, e.size, patNames(pat), dmg, e.c.P)
	v := vmsg{Trigger: trig, Kinds: set, Replay: e.replayOf("read", pat)}
	code := "ok"
	switch {
	case r.panicked:
		v.Class = "read-panic@" + shortFunc(r.panicAt)
		v.Detail = fmt.Sprintf("GetOne panicked (%s in %s): %s", r.panicMsg, r.panicAt, where)
	case dmg <= e.c.P && r.err != nil:
		v.Class = "read-error-within-parity"
		v.Detail = fmt.Sprintf("GetOne returned error %q although only %d <= p shard files are damaged: %s", r.err, dmg, where)
	case dmg <= e.c.P && !bytes.Equal(r.data, e.data):
		v.Class = "read-wrong-bytes-within-parity"
		v.Detail = fmt.Sprintf("GetOne returned no error but wrong bytes (%s): %s", describeBytes(r.data, e.data), where)
	case dmg > e.c.P && r.err == nil && !bytes.Equal(r.data, e.data):
		v.Class = "read-wrong-bytes-beyond-parity"
		v.Detail = fmt.Sprintf("GetOne returned no error but wrong bytes (%s) with %d > p damaged shard files; an error is required: %s", describeBytes(r.data, e.data), dmg, where)
	case dmg > e.c.P && r.err != nil:
		code = "err-beyond"
	case dmg > e.c.P:
		code = "ok-beyond"
	}
	if v.Class != "" {
		em.violation(v)
		code = "viol"
	}
	em.line("R %s", code)
}

func b2i(b bool) int {
	if b {
		return 1
	}
	return 0
}

// ---- C26 repair case ----

func diffShards(cur, ref [][]byte) string {
	var bad []string
	for i := range ref {
		switch {
		case cur[i] == nil:
			bad = append(bad, fmt.Sprintf("shard %d still missing", i))
		case !bytes.Equal(cur[i], ref[i]):
			d := fmt.Sprintf("file has %d bytes, fresh encode %d", len(cur[i]), len(ref[i]))
			if len(cur[i]) == len(ref[i]) {
				for j := range ref[i] {
					if cur[i][j] != ref[i][j] {
						d = fmt.Sprintf("file differs from the fresh encode first at offset %d (0x%02x, fresh 0x%02x)", j, cur[i][j], ref[i][j])
						break
					}
				}
			}
			bad = append(bad, fmt.Sprintf("shard %d: %s", i, d))
		}
	}
	return strings.Join(bad, "; ")
}

func (e *env) runRepair(em emitter, idx int, pat []int) {
	eff, dmg, dup := e.effective(pat)
	set, trig := kindSet(eff)
	em.line("C %d %d %d %s", idx, b2i(dup), dmg, set)
	defer e.restore(e.intact)
	e.applyTo(e.intact, pat)
	r := safeGet(e.store, e.id)
	where := fmt.Sprintf("d=%d p=%d RepairCorruptedShards=true blob of %d bytes, shard files %v", e.c.D, e.c.P, e.size, patNames(pat))
	if r.panicked || r.err != nil {
		// No successful read: C26 says nothing (C25 covers it).
		em.line("R precondition-read-failed")
		return
	}
	after := e.snapshot()
	viol := false
	if d := diffShards(after, e.ref); d != "" {
		viol = true
		em.violation(vmsg{Class: "repair-incomplete", Trigger: trig, Kinds: set, Replay: e.replayOf("repair", pat),
			Detail: fmt.Sprintf("after a successful GetOne (returned bytes %s) not every shard file equals the fresh encode: %s; case %s", describeBytes(r.data, e.data), d, where)})
	}
	identical := !viol
	// Phase 2: every further pattern of exactly p failures on the post-repair files. When the post-repair
	// files are byte-identical to the fresh encode, the on-disk state is the same for every such case
	// of this (config,size) and the store keeps no state, so each second-failure pattern is executed
	// once per process and its verdict reused (state-equivalence pruning; counted separately).
	em.line("P2")
	ks := phase2Kinds(e.thorough)
	n2, n2memo := 0, 0
	reported := false
	pi := -1
	for _, pos := range combosOf(e.c.N(), e.c.P) {
		for a := 0; a < pow(len(ks), e.c.P); a++ {
			pi++
			p2 := make([]int, e.c.N())
			x := a
			for j := e.c.P - 1; j >= 0; j-- {
				p2[pos[j]] = ks[x%len(ks)]
				x /= len(ks)
			}
			// skip a second damage that is impossible on the current file (e.g. file still missing)
			ok := true
			for i, k := range p2 {
				if k != kIntact && after[i] == nil {
					ok = false
				}
			}
			if !ok {
				continue
			}
			bad, known := "", false
			if identical {
				bad, known = e.memo2[pi]
			}
			if known {
				n2memo++
			} else {
				e.applyToBase(after, p2)
				r2 := safeGet(e.store, e.id)
				e.restore(after)
				n2++
				switch {
				case r2.panicked:
					bad = fmt.Sprintf("GetOne panicked (%s in %s)", r2.panicMsg, r2.panicAt)
				case r2.err != nil:
					bad = fmt.Sprintf("GetOne returned error %q", r2.err)
				case !bytes.Equal(r2.data, e.data):
					bad = "GetOne returned wrong bytes: " + describeBytes(r2.data, e.data)
				}
				if identical {
					if e.memo2 == nil {
						e.memo2 = map[int]string{}
					}
					e.memo2[pi] = bad
				}
			}
			if bad != "" && !reported {
				reported = true
				viol = true
				rp := e.replayOf("repair", pat)
				rp.Phase2 = patNames(p2)
				set2, _ := kindSet(p2)
				cls, tr := "post-repair-intolerant", trig
				if identical {
					// independent of the first damage: classify by the second one
					cls, tr = "post-repair-intolerant-although-shards-equal-fresh-encode", "then="+set2
				}
				em.violation(vmsg{Class: cls, Trigger: tr, Kinds: set + " then " + set2, Replay: rp,
					Detail: fmt.Sprintf("after the repairing read, %d = p new failures %v: %s; case %s", e.c.P, patNames(p2), bad, where)})
			}
		}
	}
	em.line("M2 %d", n2memo)
	em.line("N2 %d", n2)
	if viol {
		em.line("R viol")
	} else {
		em.line("R ok")
	}
}

// applyToBase damages relative to an arbitrary base state (nil entries = missing files are left alone).
func (e *env) applyToBase(base [][]byte, pat []int) {
	for i, k := range pat {
		if k == kIntact || base[i] == nil {
			continue
		}
		b, rm := damage(k, base[i])
		putFile(e.paths[i], b, rm)
	}
}

// ---- C25 write case ----

type failIO struct {
	sopfs.FileIO
	failPrefix []string
	attempts   *int
}

func (f failIO) WriteFile(c context.Context, name string, data []byte, perm os.FileMode) error {
	*f.attempts++
	for _, p := range f.failPrefix {
		if strings.HasPrefix(name, p) {
			return fmt.Errorf("ecx: injected write failure for %s", name)
		}
	}
	return f.FileIO.WriteFile(c, name, data, perm)
}

func (e *env) failingStore(mask int) sop.BlobStore {
	var pre []string
	for i := 0; i < e.c.N(); i++ {
		if mask&(1<<i) != 0 {
			pre = append(pre, e.dirs[i]+string(os.PathSeparator))
		}
	}
	st, err := sopfs.NewBlobStoreWithEC(sopfs.DefaultToFilePath, failIO{FileIO: sopfs.NewFileIO(), failPrefix: pre, attempts: new(int)}, cfgMap(e.c, e.dirs, false, e.keyByTable))
	if err != nil {
		harnessFail(err.Error())
	}
	return st
}

func maskList(mask, n int) []int {
	out := []int{}
	for i := 0; i < n; i++ {
		if mask&(1<<i) != 0 {
			out = append(out, i)
		}
	}
	return out
}

func (e *env) runWrite(em emitter, mask int) {
	f := bits.OnesCount(uint(mask))
	em.line("C %d 0 %d failed-writes=%d", mask, f, f)
	id := sop.UUID{0xEC, 0x57, byte(mask), 0, 0, 0, 0, 0, 0, 0, 0, 0, 0, 0, 0, 2}
	st := e.failingStore(mask)
	r := safeWrite(st, id, e.data, false)
	where := fmt.Sprintf("d=%d p=%d blob of %d bytes, WriteFile fails for shards %v (%d failing, parity %d)", e.c.D, e.c.P, e.size, maskList(mask, e.c.N()), f, e.c.P)
	rp := e.replayOf("write", nil)
	rp.FailWrites = maskList(mask, e.c.N())
	trig := "nonempty-blob"
	if e.size == 0 {
		trig = "empty-blob"
	}
	v := vmsg{Trigger: trig, Kinds: fmt.Sprintf("failed-writes=%d", f), Replay: rp}
	code := "ok"
	switch {
	case r.panicked:
		v.Class = "add-panic@" + shortFunc(r.panicAt)
		v.Detail = fmt.Sprintf("Add panicked (%s in %s): %s", r.panicMsg, r.panicAt, where)
	case f <= e.c.P && r.err != nil:
		v.Class = "add-failed-within-parity"
		v.Detail = fmt.Sprintf("Add returned error %q although only %d <= p shard writes fail: %s", r.err, f, where)
	case f > e.c.P && r.err == nil:
		v.Class = "add-succeeded-beyond-parity"
		v.Detail = fmt.Sprintf("Add returned no error although %d > p shard writes failed: %s", f, where)
	case f > e.c.P:
		code = "err-beyond"
	default:
		// successful tolerated write: the blob must be readable.
		g := safeGet(e.plain, id)
		switch {
		case g.panicked:
			v.Class = "read-after-tolerated-write-failures-panic"
			v.Detail = fmt.Sprintf("GetOne after a successful Add panicked (%s in %s): %s", g.panicMsg, g.panicAt, where)
		case g.err != nil:
			v.Class = "read-after-tolerated-write-failures-error"
			v.Detail = fmt.Sprintf("GetOne after a successful Add returned error %q: %s", g.err, where)
		case !bytes.Equal(g.data, e.data):
			v.Class = "read-after-tolerated-write-failures-wrong-bytes"
			v.Detail = fmt.Sprintf("GetOne after a successful Add: %s: %s", describeBytes(g.data, e.data), where)
		}
	}
	if v.Class != "" {
		em.violation(v)
		code = "viol"
	}
	// Observation only (not judged): an Update (same API as Add) of an existing blob whose tolerated
	// failed shard writes leave shard files of the OLD version behind.
	if f >= 1 && f <= e.c.P && e.size > 0 {
		id2 := id
		id2[15] = 3
		old := content(e.size)
		for i := range old {
			old[i] ^= 0x5A
		}
		if w := safeWrite(e.plain, id2, old, false); w.err == nil && !w.panicked {
			u := safeWrite(st, id2, e.data, true)
			obs := "update-rejected"
			if u.panicked {
				obs = "update-panic"
			} else if u.err == nil {
				g := safeGet(e.plain, id2)
				switch {
				case g.panicked:
					obs = "read-panic"
				case g.err != nil:
					obs = "read-error"
				case bytes.Equal(g.data, e.data):
					obs = "read-new-version"
				case bytes.Equal(g.data, old):
					obs = "read-old-version"
				default:
					obs = "read-other-bytes"
				}
			}
			em.line("O stale-shards-after-tolerated-update:%s", obs)
		}
	}
	// clean the table folders of these ids
	for _, d := range e.dirs {
		os.RemoveAll(filepath.Join(d, tableName))
	}
	em.line("R %s", code)
}
