package main

import (
	"fmt"
	"sort"
	"strings"
)

// ---- configurations, blob sizes ----

type cfg struct{ D, P int }

func (c cfg) N() int { return c.D + c.P }

var cfgs = []cfg{{1, 1}, {2, 1}, {2, 2}, {3, 2}, {4, 2}}

// sizesFor: {0,1,2,3,d-1,d,d+1,17,31,4096} de-duplicated, ascending.
func sizesFor(d int) []int {
	m := map[int]bool{}
	for _, s := range []int{0, 1, 2, 3, d - 1, d, d + 1, 17, 31, 4096} {
		if s >= 0 {
			m[s] = true
		}
	}
	var out []int
	for s := range m {
		out = append(out, s)
	}
	sort.Ints(out)
	return out
}

// content is the deterministic blob of the given size: non-periodic-looking bytes, containing
// zero bytes, and (for size >= 2) ending with a zero byte so that any "trim trailing zeroes"
// logic shows up as wrong bytes.
func content(size int) []byte {
	b := make([]byte, size)
	for i := range b {
		b[i] = byte(i*131+17) ^ byte(i>>8)
		if i%7 == 3 {
			b[i] = 0
		}
	}
	if size >= 2 {
		b[size-1] = 0
	}
	return b
}

// ---- damage kinds ----

const (
	kIntact = iota
	kMissing
	kTrunc0
	kTrunc5
	kTrunc16
	kTrunc17
	kTruncLen1
	kBodyFlip
	kPadFlip
	kSumFlip
	nKinds
)

var kindNames = [nKinds]string{"intact", "missing", "truncated-0", "truncated-5", "truncated-16", "truncated-17", "truncated-len-1", "body-byte-flipped", "meta-padcount-byte-flipped", "meta-checksum-byte-flipped"}

func kindByName(s string) (int, bool) {
	for i, n := range kindNames {
		if n == s {
			return i, true
		}
	}
	return 0, false
}

const metaSize = 17 // on-disk shard file = 1 pad-count byte + 16 md5 bytes + shard body

// damage returns the file content after applying kind to an intact shard file (nil,true = file removed).
func damage(kind int, intact []byte) (out []byte, removed bool) {
	cp := func() []byte { return append([]byte(nil), intact...) }
	trunc := func(n int) []byte {
		if n < len(intact) {
			return cp()[:n]
		}
		return cp()
	}
	switch kind {
	case kIntact:
		return cp(), false
	case kMissing:
		return nil, true
	case kTrunc0:
		return trunc(0), false
	case kTrunc5:
		return trunc(5), false
	case kTrunc16:
		return trunc(16), false
	case kTrunc17:
		return trunc(17), false
	case kTruncLen1:
		if len(intact) == 0 {
			return cp(), false
		}
		return trunc(len(intact) - 1), false
	case kBodyFlip:
		b := cp()
		if len(b) > metaSize {
			b[metaSize+(len(b)-metaSize)/2] ^= 0x01
		}
		return b, false
	case kPadFlip:
		b := cp()
		if len(b) > 0 {
			b[0] ^= 0x80
		}
		return b, false
	case kSumFlip:
		b := cp()
		if len(b) >= metaSize {
			b[8] ^= 0x01
		}
		return b, false
	}
	panic("bad kind")
}

// ---- pattern enumeration ----
//
// A pattern assigns one kind to each of the n shards. Index order: by number k of non-intact shards
// ascending; then the set of damaged positions in lexicographic order; then the damage kinds of those
// positions as a base-len(alpha) number. (Smallest cases first, O(n) unranking so that a restarted
// worker can resume anywhere.) When maxK < n, len(alpha) extra patterns follow: every shard damaged with
// the same kind. With needShort only the patterns containing at least one "short file" kind belong to
// the enumeration (the others belong to the safe-alphabet enumeration); unrank reports that.

var safeKinds = []int{kMissing, kTrunc17, kTruncLen1, kBodyFlip, kPadFlip, kSumFlip}
var shortKinds = []int{kTrunc0, kTrunc5, kTrunc16} // file shorter than the 17 metadata bytes
var allDamage = []int{kMissing, kTrunc0, kTrunc5, kTrunc16, kTrunc17, kTruncLen1, kBodyFlip, kPadFlip, kSumFlip}

func isShort(k int) bool { return k == kTrunc0 || k == kTrunc5 || k == kTrunc16 }

type enum struct {
	n, maxK   int
	alpha     []int
	needShort bool
	combos    [][][]int // combos[k] = list of position sets
	offs      []int     // offs[k] = first index of patterns with k damaged
	base      int       // index count without extras
	extras    int
}

func pow(b, e int) int {
	r := 1
	for ; e > 0; e-- {
		r *= b
	}
	return r
}

func combosOf(n, k int) [][]int {
	var out [][]int
	var rec func(start int, cur []int)
	rec = func(start int, cur []int) {
		if len(cur) == k {
			out = append(out, append([]int(nil), cur...))
			return
		}
		for i := start; i < n; i++ {
			rec(i+1, append(cur, i))
		}
	}
	rec(0, nil)
	return out
}

func newEnum(n, maxK int, alpha []int, needShort, uniformExtras bool) *enum {
	if maxK > n {
		maxK = n
	}
	e := &enum{n: n, maxK: maxK, alpha: alpha, needShort: needShort}
	for k := 0; k <= maxK; k++ {
		e.combos = append(e.combos, combosOf(n, k))
		e.offs = append(e.offs, e.base)
		e.base += len(e.combos[k]) * pow(len(alpha), k)
	}
	if uniformExtras && maxK < n {
		e.extras = len(alpha)
	}
	return e
}

// total is the size of the index space (members and, with needShort, non-members).
func (e *enum) total() int { return e.base + e.extras }

// members is the number of patterns that belong to the enumeration.
func (e *enum) members() int {
	if !e.needShort {
		return e.total()
	}
	safe := newEnum(e.n, e.maxK, safeKinds, false, e.extras > 0)
	return e.total() - safe.total()
}

func (e *enum) unrank(idx int) (pat []int, member bool) {
	pat = make([]int, e.n)
	na := len(e.alpha)
	if idx >= e.base {
		for i := range pat {
			pat[i] = e.alpha[idx-e.base]
		}
	} else {
		k := e.maxK
		for k > 0 && e.offs[k] > idx {
			k--
		}
		r := idx - e.offs[k]
		w := pow(na, k)
		pos := e.combos[k][r/w]
		a := r % w
		for j := k - 1; j >= 0; j-- {
			pat[pos[j]] = e.alpha[a%na]
			a /= na
		}
	}
	if !e.needShort {
		return pat, true
	}
	for _, k := range pat {
		if isShort(k) {
			return pat, true
		}
	}
	return pat, false
}

func patNames(p []int) []string {
	out := make([]string, len(p))
	for i, k := range p {
		out[i] = kindNames[k]
	}
	return out
}

// kindSet: sorted distinct damage kinds (effective ones) of a pattern, "+"-joined; trigger is the single
// kind, or "mixed" when several kinds occur, "none" when nothing is damaged.
func kindSet(kinds []int) (set string, trigger string) {
	seen := map[int]bool{}
	for _, k := range kinds {
		if k != kIntact {
			seen[k] = true
		}
	}
	var ks []int
	for k := range seen {
		ks = append(ks, k)
	}
	sort.Ints(ks)
	var names []string
	for _, k := range ks {
		names = append(names, kindNames[k])
	}
	switch len(names) {
	case 0:
		return "none", "none"
	case 1:
		return names[0], names[0]
	}
	return strings.Join(names, "+"), "mixed"
}

// ---- job specs ----

type spec struct {
	Mode     string // read | write | repair
	Cfg, Sz  int    // indices into cfgs / sizesFor
	Lo, Hi   int
	Thorough bool
}

func (s spec) String() string { return fmt.Sprintf("%s:%d:%d:%d:%d", s.Mode, s.Cfg, s.Sz, s.Lo, s.Hi) }

func parseSpec(str string, thorough bool) spec {
	var s spec
	parts := strings.Split(str, ":")
	if len(parts) != 5 {
		panic("bad spec " + str)
	}
	s.Mode = parts[0]
	fmt.Sscan(parts[1], &s.Cfg)
	fmt.Sscan(parts[2], &s.Sz)
	fmt.Sscan(parts[3], &s.Lo)
	fmt.Sscan(parts[4], &s.Hi)
	s.Thorough = thorough
	return s
}

// readMaxK: how many simultaneously damaged shards the read enumeration covers completely.
// Thorough: always the full product. Quick: patterns over the safe alphabet (intact + the 6 kinds that
// delete the file or keep >= 17 bytes): full product for d+p<=5, else <= p+1 damaged (+ uniform
// all-damaged); patterns with >=1 short file: full product for d+p<=4, else <= p+1 damaged (+ uniform).
func readMaxK(c cfg, thorough, short bool) int {
	n := c.N()
	if thorough || n <= 4 || (!short && n <= 5) {
		return n
	}
	return c.P + 1
}

// Modes: write | read (safe alphabet) | readx (patterns with >=1 short file) | repair | repairx.
func enumFor(mode string, c cfg, thorough bool) *enum {
	switch mode {
	case "read":
		return newEnum(c.N(), readMaxK(c, thorough, false), safeKinds, false, true)
	case "readx":
		return newEnum(c.N(), readMaxK(c, thorough, true), allDamage, true, true)
	case "repair":
		return newEnum(c.N(), c.P, safeKinds, false, false)
	case "repairx":
		return newEnum(c.N(), c.P, allDamage, true, false)
	}
	panic(mode)
}

// caseCount returns (size of the index space, number of cases in it).
func caseCount(mode string, c cfg, thorough bool) (int, int) {
	if mode == "write" {
		return 1 << c.N(), 1 << c.N()
	}
	e := enumFor(mode, c, thorough)
	return e.total(), e.members()
}

func baseMode(mode string) string { return strings.TrimSuffix(mode, "x") }

// phase2Kinds: the "new failures" applied after a repairing read (C26).
func phase2Kinds(thorough bool) []int {
	if thorough {
		return []int{kMissing, kBodyFlip, kTrunc17, kSumFlip}
	}
	return []int{kMissing, kBodyFlip}
}
