// ecx: exhaustive shard-fault enumeration against the real erasure-coded blob store
// (fs.NewBlobStoreWithEC) on real files under /dev/shm.
//
//	C25: every damage pattern of the shard files -> GetOne oracle; every subset of failing shard
//	     writes -> Add oracle; a process crash during a case is a violation.
//	C26: RepairCorruptedShards=true, every damage pattern within parity -> after one successful read
//	     all shard files equal a fresh encode and every further pattern of p failures is survived.
//
// Process structure: parent --run.Parallel--> one supervisor per job (a slice of the case list) -->
// case-running child processes. A child announces each case before running it; when it dies, the
// supervisor attributes the crash to the announced case and restarts a child at the next case, so the
// enumeration stays complete even when the implementation kills the process.
package main

import (
	"bufio"
	"bytes"
	"encoding/json"
	"fmt"
	"io"
	"log/slog"
	"os"
	"os/exec"
	"path/filepath"
	"regexp"
	"sort"
	"strconv"
	"strings"
	"time"

	sopfs "github.com/sharedcode/sop/fs"
	"verif.local/mc/ev"
)

func deadline() time.Time {
	if s := os.Getenv("ECX_DEADLINE"); s != "" {
		n, _ := strconv.ParseInt(s, 10, 64)
		return time.Unix(0, n)
	}
	return time.Now().Add(24 * time.Hour)
}

func main() {
	// The store logs a warning per unreadable shard; keep stderr for panics only.
	slog.SetDefault(slog.New(slog.NewTextHandler(io.Discard, nil)))
	if len(os.Args) < 2 || (os.Args[1] != "C25" && os.Args[1] != "C26") {
		fmt.Fprintln(os.Stderr, "usage: ecx C25|C26 [quick|thorough] | ecx C25|C26 single '<replay json>'")
		os.Exit(2)
	}
	prop := os.Args[1]
	// Process-global EC configuration must not leak into the stores built here (they always get an
	// explicit config map; the global is only consulted for a nil map).
	if sopfs.GetGlobalErasureConfig() != nil {
		harnessFail("global erasure config unexpectedly set")
	}
	if len(os.Args) >= 4 && os.Args[2] == "single" {
		single(prop, os.Args[3])
		return
	}
	if os.Getenv("ECX_CHILD") != "" {
		childMain(prop)
		return
	}
	run := ev.New(prop, "fault_enumeration")
	if job := ev.Job(); job != "" {
		supervise(run, prop, parseSpec(job, run.Thorough()))
		run.EmitPartial()
	}
	parent(run, prop)
}

// ---------------- child: runs cases [Lo,Hi) of one (mode,cfg,size) ----------------

func childMain(prop string) {
	thorough := ev.TierFromArgs() == "thorough"
	sp := parseSpec(os.Getenv("ECX_CHILD"), thorough)
	root := os.Getenv("ECX_DIR")
	em := emitter{out: os.Stdout}
	dl := deadline()
	e, storeErr := newEnv(prop, sp.Cfg, sp.Sz, root, thorough, sp.Mode != "write")
	if storeErr != nil {
		em.line("X %s", strings.ReplaceAll(storeErr.Error(), "\n", " "))
		em.line("E")
		return
	}
	var en *enum
	if sp.Mode != "write" {
		en = enumFor(sp.Mode, e.c, thorough)
	}
	for idx := sp.Lo; idx < sp.Hi; idx++ {
		if idx%64 == 0 && time.Now().After(dl) {
			em.line("T %d", idx)
			break
		}
		if sp.Mode == "write" {
			e.runWrite(em, idx)
			continue
		}
		pat, member := en.unrank(idx)
		if !member {
			continue
		}
		if baseMode(sp.Mode) == "read" {
			e.runRead(em, idx, pat)
		} else {
			e.runRepair(em, idx, pat)
		}
	}
	em.line("E")
}

// ---------------- supervisor ----------------

type vrec struct {
	Sig    string `json:"sig"`
	Rank   string `json:"rank"`
	Detail string `json:"detail"`
	Replay replay `json:"replay"`
	Count  int64  `json:"count"`
}

type agg struct {
	viol      map[string]*vrec
	breakdown map[string]int64
	notes     map[string]int64
}

func newAgg() *agg {
	return &agg{viol: map[string]*vrec{}, breakdown: map[string]int64{}, notes: map[string]int64{}}
}

func (a *agg) add(v vrec, kinds, class string) {
	if o := a.viol[v.Sig]; o == nil {
		c := v
		if c.Count == 0 {
			c.Count = 1
		}
		a.viol[v.Sig] = &c
	} else {
		n := v.Count
		if n == 0 {
			n = 1
		}
		o.Count += n
		if v.Rank < o.Rank {
			o.Rank, o.Detail, o.Replay = v.Rank, v.Detail, v.Replay
		}
	}
	if kinds != "" {
		a.breakdown[class+" <- "+kinds]++
	}
}

var modeOrder = map[string]int{"write": 0, "read": 1, "readx": 2, "repair": 3, "repairx": 4}

func rankOf(sp spec, idx int) string {
	return fmt.Sprintf("%02d|%02d|%d|%010d", sp.Cfg, sp.Sz, modeOrder[sp.Mode], idx)
}

func deathCap(thorough bool) int {
	if s := os.Getenv("ECX_DEATH_CAP"); s != "" {
		n, _ := strconv.Atoi(s)
		return n
	}
	if thorough {
		return 30
	}
	return 6
}

var reVolatile = regexp.MustCompile(`(capacity|length|len) \d+`)

// crashInfo extracts the panic line and the first sop frame from a dead child's stderr.
func crashInfo(stderr string) (msg, at string) {
	msg = "(no panic message; stderr tail: " + tailStr(stderr, 300) + ")"
	for _, l := range strings.Split(stderr, "\n") {
		if strings.HasPrefix(l, "panic: ") || strings.HasPrefix(l, "fatal error: ") {
			msg = l
			break
		}
	}
	return msg, firstSopFrame(stderr)
}

func tailStr(s string, n int) string {
	if len(s) > n {
		return s[len(s)-n:]
	}
	return s
}

func supervise(run *ev.Run, prop string, sp spec) {
	c := cfgs[sp.Cfg]
	size := sizesFor(c.D)[sp.Sz]
	root := fmt.Sprintf("%s_%s", os.Getenv("ECX_ROOT"), strings.ReplaceAll(sp.String(), ":", "_"))
	defer os.RemoveAll(root)
	a := newAgg()
	dl := deadline()
	var en *enum
	if sp.Mode != "write" {
		en = enumFor(sp.Mode, c, sp.Thorough)
	}
	nominal := func(idx int) []int {
		if en != nil {
			p, _ := en.unrank(idx)
			return p
		}
		return nil
	}
	membersIn := func(lo, hi int) int64 {
		if en == nil || !en.needShort {
			return int64(hi - lo)
		}
		var n int64
		for i := lo; i < hi; i++ {
			if _, ok := en.unrank(i); ok {
				n++
			}
		}
		return n
	}
	bm := baseMode(sp.Mode)
	deaths := 0
	start := sp.Lo
	for start < sp.Hi {
		if deaths >= deathCap(sp.Thorough) {
			left := membersIn(start, sp.Hi)
			run.NotExhaustive(fmt.Sprintf("process-death cap: %d cases of job %s killed their process (each costs a process start); the remaining %d cases of the job were not run", deaths, sp, left))
			run.Add("cases_skipped_after_process_death_cap", left)
			break
		}
		if time.Now().After(dl) {
			run.NotExhaustive(fmt.Sprintf("time budget reached: job %s stopped at case %d of [%d,%d)", sp, start, sp.Lo, sp.Hi))
			run.Add("cases_skipped_after_time_budget", membersIn(start, sp.Hi))
			break
		}
		csp := sp
		csp.Lo = start
		cmd := exec.Command(os.Args[0], os.Args[1:]...)
		cmd.Env = append(os.Environ(), "ECX_CHILD="+csp.String(), "ECX_DIR="+root)
		var stderr bytes.Buffer
		cmd.Stderr = &stderr
		pipe, err := cmd.StdoutPipe()
		if err != nil {
			harnessFail(err.Error())
		}
		if err := cmd.Start(); err != nil {
			harnessFail("cannot start child: " + err.Error())
		}
		// watchdog: a case that makes no progress for 2 minutes is a hang.
		progress := make(chan struct{}, 1)
		stopWD := make(chan struct{})
		hung := make(chan bool, 1)
		go func() {
			t := time.NewTimer(2 * time.Minute)
			defer t.Stop()
			for {
				select {
				case <-progress:
					if !t.Stop() {
						select {
						case <-t.C:
						default:
						}
					}
					t.Reset(2 * time.Minute)
				case <-t.C:
					cmd.Process.Kill()
					hung <- true
					return
				case <-stopWD:
					hung <- false
					return
				}
			}
		}()
		cur, curDone := -1, true
		curDup, curDmg, curKinds := false, 0, ""
		phase2 := false
		ended, timedOut := false, false
		sc := bufio.NewScanner(pipe)
		sc.Buffer(make([]byte, 1<<16), 1<<24)
		for sc.Scan() {
			line := sc.Text()
			select {
			case progress <- struct{}{}:
			default:
			}
			if line == "" {
				continue
			}
			tag, rest, _ := strings.Cut(line, " ")
			switch tag {
			case "C":
				var d int
				fmt.Sscan(rest, &cur, &d, &curDmg, &curKinds)
				curDup, curDone, phase2 = d == 1, false, false
			case "P2":
				phase2 = true
			case "N2":
				n, _ := strconv.ParseInt(rest, 10, 64)
				run.Add("second_failure_reads", n)
			case "M2":
				n, _ := strconv.ParseInt(rest, 10, 64)
				run.Add("second_failure_checks_reused_on_identical_disk_state", n)
			case "V":
				var v vmsg
				if err := json.Unmarshal([]byte(rest), &v); err != nil {
					harnessFail("bad V line: " + line)
				}
				a.add(vrec{Sig: v.Class + "|" + v.Trigger, Rank: rankOf(sp, cur), Detail: v.Detail, Replay: v.Replay}, v.Kinds, v.Class)
			case "O":
				a.notes["observation "+rest]++
			case "R":
				curDone = true
				run.Add("evaluations", 1)
				run.Add("outcome_"+bm+"_"+rest, 1)
				if !curDup && (curDmg > 0 || sp.Mode == "write") {
					run.Add("distinct_nontrivial", 1)
				}
				if bm == "repair" && rest != "precondition-read-failed" && curDmg > 0 {
					run.Add("repair_oracle_applied", 1)
				}
			case "X":
				// the store refused to store this blob at all: nothing to damage.
				a.notes[fmt.Sprintf("%s cases skipped: fault-free Add of a %d-byte blob failed (%s)", bm, size, rest)] += membersIn(start, sp.Hi)
				run.Add("cases_skipped_blob_not_storable", membersIn(start, sp.Hi))
				start = sp.Hi
			case "T":
				timedOut = true
				n, _ := strconv.Atoi(rest)
				run.NotExhaustive(fmt.Sprintf("time budget reached: job %s stopped at case %d of [%d,%d)", sp, n, sp.Lo, sp.Hi))
				run.Add("cases_skipped_after_time_budget", membersIn(n, sp.Hi))
				start = sp.Hi
			case "E":
				ended = true
			}
		}
		cmd.Wait()
		close(stopWD)
		wasHung := <-hung
		if ended {
			if !timedOut && start < sp.Hi {
				start = sp.Hi
			}
			continue
		}
		// The child died.
		if strings.Contains(stderr.String(), "ECX-HARNESS-FAILURE") || cur < 0 || curDone {
			fmt.Fprintf(os.Stderr, "child of job %s died outside a case (last case %d):\n%s\n", sp, cur, tailStr(stderr.String(), 3000))
			os.Exit(3)
		}
		deaths++
		run.Add("evaluations", 1)
		run.Add("child_process_deaths_attributed_to_a_case", 1)
		if !curDup && curDmg > 0 {
			run.Add("distinct_nontrivial", 1)
		}
		trig := "mixed"
		if !strings.Contains(curKinds, "+") {
			trig = curKinds
		}
		msg, at := crashInfo(stderr.String())
		what := "crashed the process"
		suffix := "crash"
		if wasHung {
			what, suffix = "made no progress for 2 minutes (killed)", "hang"
			msg = "hang"
		}
		msg = reVolatile.ReplaceAllString(msg, "$1 N")
		suffix += "@" + shortFunc(at)
		rp := replay{Prop: prop, Mode: bm, D: c.D, P: c.P, Size: size, KeyByTable: sp.Sz%2 == 1,
			How: "bin/ecx " + prop + " single '<this replay object as JSON>'"}
		if pat := nominal(cur); pat != nil {
			rp.Pattern = patNames(pat)
		} else {
			rp.FailWrites = maskList(cur, c.N())
		}
		switch {
		case bm == "repair" && !phase2:
			// the damaged read itself killed the process: no successful read, C26 is silent (C25 reports it).
			run.Add("outcome_repair_precondition-read-crashed", 1)
		case bm == "repair":
			a.add(vrec{Sig: "post-repair-" + suffix + "|" + trig, Rank: rankOf(sp, cur), Replay: rp,
				Detail: fmt.Sprintf("a read after the repairing read %s (%s in %s): d=%d p=%d blob of %d bytes, first damage %v, then some pattern of p new failures", what, msg, at, c.D, c.P, size, rp.Pattern)},
				curKinds, "post-repair-"+suffix)
		case sp.Mode == "write":
			a.add(vrec{Sig: "add-" + suffix + "|" + curKinds, Rank: rankOf(sp, cur), Replay: rp,
				Detail: fmt.Sprintf("Add %s (%s in %s): d=%d p=%d blob of %d bytes, failing shard writes %v", what, msg, at, c.D, c.P, size, rp.FailWrites)},
				curKinds, "add-"+suffix)
		default:
			a.add(vrec{Sig: "read-" + suffix + "|" + trig, Rank: rankOf(sp, cur), Replay: rp,
				Detail: fmt.Sprintf("GetOne %s (%s in %s): d=%d p=%d blob of %d bytes, shard files %v (%d damaged, parity %d)", what, msg, at, c.D, c.P, size, rp.Pattern, curDmg, c.P)},
				curKinds, "read-"+suffix)
		}
		start = cur + 1
	}
	var vs []vrec
	for _, v := range a.viol {
		vs = append(vs, *v)
	}
	sort.Slice(vs, func(i, j int) bool { return vs[i].Sig < vs[j].Sig })
	run.Set("viol", vs)
	run.Set("breakdown", a.breakdown)
	run.Set("notes", a.notes)
}

// ---------------- parent ----------------

func parent(run *ev.Run, prop string) {
	thorough := run.Thorough()
	rootBase := fmt.Sprintf("/dev/shm/ecx_%d", os.Getpid())
	os.Setenv("ECX_ROOT", rootBase)
	cleanup := func() {
		m, _ := filepath.Glob(rootBase + "_*")
		for _, p := range m {
			os.RemoveAll(p)
		}
	}
	cleanup()
	budget := 95 * time.Second
	if thorough {
		budget = 13 * time.Minute
	}
	if s := os.Getenv("ECX_BUDGET_S"); s != "" {
		n, _ := strconv.Atoi(s)
		budget = time.Duration(n) * time.Second
	}
	os.Setenv("ECX_DEADLINE", fmt.Sprint(time.Now().Add(budget).UnixNano()))

	// Chunk sizes per mode (index-space slices; one supervisor process per slice).
	chunkOf := map[string]int{"write": 64, "read": 20000, "readx": 20000, "repair": 300, "repairx": 2000}
	if thorough {
		chunkOf["readx"] = 50000
	}
	var modes []string
	if prop == "C25" {
		// readx last: on a tree where short shard files kill the process those jobs are bound by process starts.
		modes = []string{"write", "read", "readx"}
	} else {
		modes = []string{"repair", "repairx"}
	}
	var jobs []string
	planned := map[string]int64{}
	for _, mode := range modes {
		// Big configurations first so that the long jobs do not start last.
		for ci := len(cfgs) - 1; ci >= 0; ci-- {
			c := cfgs[ci]
			total, members := caseCount(mode, c, thorough)
			for si := range sizesFor(c.D) {
				planned[mode] += int64(members)
				for lo := 0; lo < total; lo += chunkOf[mode] {
					hi := lo + chunkOf[mode]
					if hi > total {
						hi = total
					}
					jobs = append(jobs, spec{Mode: mode, Cfg: ci, Sz: si, Lo: lo, Hi: hi}.String())
				}
			}
		}
	}
	run.Parallel(jobs, 0, budget+5*time.Minute, func(job, output string) *ev.Violation {
		// Supervisors do not run cases themselves (their children do, and crashes of those are attributed
		// there). A supervisor that dies while a case marker is the last thing it printed would still be
		// attributed here.
		if i := strings.LastIndex(output, "@@CASE "); i >= 0 {
			id := strings.SplitN(output[i+7:], "\n", 2)[0]
			return &ev.Violation{Sig: "worker-crash|" + strings.SplitN(job, ":", 2)[0], Detail: "worker process died while running case " + id + " of job " + job + ": " + tailStr(output, 600), Replay: map[string]any{"job": job, "case": id}}
		}
		return nil
	})
	cleanup()

	// Fold the supervisors' per-job extras: per signature keep the smallest case (deterministic), sum counts.
	a := newAgg()
	if pj, ok := run.Coverage["per_job"].(map[string]any); ok {
		names := make([]string, 0, len(pj))
		for k := range pj {
			names = append(names, k)
		}
		sort.Strings(names)
		for _, k := range names {
			b, _ := json.Marshal(pj[k])
			var x struct {
				Viol      []vrec           `json:"viol"`
				Breakdown map[string]int64 `json:"breakdown"`
				Notes     map[string]int64 `json:"notes"`
			}
			if err := json.Unmarshal(b, &x); err != nil {
				harnessFail("bad partial of " + k + ": " + err.Error())
			}
			for _, v := range x.Viol {
				a.add(v, "", "")
			}
			for s, n := range x.Breakdown {
				a.breakdown[s] += n
			}
			for s, n := range x.Notes {
				a.notes[s] += n
			}
		}
	}
	delete(run.Coverage, "per_job")
	var sigs []string
	for s := range a.viol {
		sigs = append(sigs, s)
	}
	sort.Strings(sigs)
	perSig := map[string]int64{}
	for _, s := range sigs {
		v := a.viol[s]
		perSig[s] = v.Count
		run.Violate(ev.Violation{Sig: v.Sig, Detail: fmt.Sprintf("%s [%d cases of this class in this run; this is the smallest]", v.Detail, v.Count), Replay: v.Replay})
	}
	run.Set("violating_cases_by_signature", perSig)
	run.Set("violating_cases_by_class_and_damage_kinds", a.breakdown)
	run.Set("notes", a.notes)
	run.Set("planned_cases", planned)
	var cfgDesc []string
	for _, c := range cfgs {
		cfgDesc = append(cfgDesc, fmt.Sprintf("(d=%d,p=%d) sizes %v; C25 reads: patterns over {intact + 6 kinds that keep >=17 bytes or delete the file}: all with <=%d damaged of %d shards; patterns with >=1 file shorter than 17 bytes: all with <=%d damaged", c.D, c.P, sizesFor(c.D), readMaxK(c, thorough, false), c.N(), readMaxK(c, thorough, true)))
	}
	run.Set("configs", cfgDesc)
	run.Set("damage_kinds", kindNames[:])
	capTxt := fmt.Sprintf("Every case runs in a case-running child process that announces the case before running it; a child death is attributed to the announced case (violation for reads/writes) and a new child resumes at the next case. Because each death costs a process start, a job (slice of <= 20000/50000 indices of one (config,size)) stops after %d deaths and reports the rest as not run (exhaustive=false, caps_hit, cases_skipped_after_process_death_cap); patterns containing a file shorter than 17 bytes are enumerated in separate jobs so that this cap cannot cut the other patterns. ", deathCap(thorough))
	if prop == "C25" {
		run.Set("rule", "real fs.NewBlobStoreWithEC on d+p folders under /dev/shm, default FileIO (nil), RepairCorruptedShards=false; the blob is stored fault-free, then per case the shard FILES are damaged on disk and GetOne is called once. "+
			"Cases = every (d,p) in {(1,1),(2,1),(2,2),(3,2),(4,2)} x every size in {0,1,2,3,d-1,d,d+1,17,31,4096} x assignments of one of 10 kinds to each shard file: intact, missing, truncated to 0/5/16/17/len-1 bytes, middle body byte ^0x01, pad-count byte (offset 0) ^0x80, checksum byte (offset 8) ^0x01. "+
			"Thorough tier: the FULL product 10^(d+p) for every config. Quick tier: full product for d+p<=4; for (3,2): full product 7^5 over the 7 kinds {intact, missing, truncated-17, truncated-len-1, the three flips} and, for patterns containing a file truncated to 0/5/16 bytes, all with <= p+1 non-intact shards plus the uniform all-damaged patterns; for (4,2): all assignments with <= p+1 non-intact shards plus the 9 patterns that damage every shard with the same kind (see 'configs', 'planned_cases'). "+
			"A shard counts as damaged iff its file is missing or its bytes differ from the intact file. Oracle: damaged<=p => exactly the stored bytes and no error; damaged>p => an error, or (verified) exactly the stored bytes, never other bytes; a panic on the calling goroutine (recovered by the harness) or the death of the process is a violation. "+
			"Writes: every subset of the d+p shards whose FileIO.WriteFile fails (FileIO wrapper around fs.NewFileIO()) x every size: Add succeeds iff |subset|<=p; after a successful Add, GetOne must return the bytes. Sizes the store refuses to store fault-free (0 bytes) are reported by the write oracle and have no read cases (cases_skipped_blob_not_storable). "+
			capTxt+
			"distinct_nontrivial = measured number of executed cases with >=1 damaged shard (reads) or any write case, not counting patterns in which some shard's kind has the same effect as an earlier kind (e.g. truncated-17 == truncated-len-1 on an 18-byte file). The erasure config map is keyed \"\" (default) for even size index and by the blob table name for odd ones; the process-global erasure config is asserted nil and never set.")
	} else {
		run.Set("rule", "real fs.NewBlobStoreWithEC with RepairCorruptedShards=true on d+p folders under /dev/shm; reference = the same blob (same id/table/config) encoded fault-free into a sibling folder set. "+
			"Cases = every (d,p) in {(1,1),(2,1),(2,2),(3,2),(4,2)} x every size in {0,1,2,3,d-1,d,d+1,17,31,4096} x EVERY assignment of the 10 kinds (as C25) with <= p non-intact shards (both tiers). Per case: damage the files, GetOne once; if it returns without error: (1) every shard file must be byte-identical to the reference; "+
			"(2) starting from the post-read files, for EVERY subset of exactly p shards x every assignment of "+fmt.Sprint(patNames(phase2Kinds(thorough)))+" to them, GetOne must return exactly the stored bytes without error/panic (files restored to the post-read state after each). second_failure_reads = reads executed; when the post-read files are byte-identical to the reference, the verdict of a second-failure pattern is computed once per process on that identical on-disk state and reused (second_failure_checks_reused_on_identical_disk_state). "+
			"Cases whose first read fails or kills the process are counted (outcome_repair_precondition-*) and left to C25. "+capTxt+
			"distinct_nontrivial = measured executed cases with >=1 effectively damaged shard and no duplicate-effect kind; repair_oracle_applied = those where the read succeeded and the oracle was evaluated.")
	}
	run.Assumption("damage is applied to whole shard files between operations (no concurrent damage during a read); one blob per store; shard files on tmpfs")
	run.Assumption("a failing shard write is modelled as FileIO.WriteFile returning an error without creating the file")
	if prop == "C26" {
		run.Assumption("second failures are limited to the listed kinds; process-killing kinds (files shorter than 17 bytes, see C25) are not repeated in phase 2")
	}
	run.Sample(map[string]any{"example_case": "d=2 p=1 size=3 shard_damage=[missing,intact,body-byte-flipped]", "meaning": "shard 0 file deleted, shard 2 (parity) middle body byte flipped, then GetOne"})
	run.Finish()
}

// ---------------- single case (replay) ----------------

func single(prop, js string) {
	var r replay
	if err := json.Unmarshal([]byte(js), &r); err != nil {
		if b, e2 := os.ReadFile(js); e2 == nil {
			var w struct {
				Replay replay `json:"replay"`
			}
			if json.Unmarshal(b, &w) == nil {
				r = w.Replay
				err = nil
			}
		}
		if err != nil {
			fmt.Fprintln(os.Stderr, "bad replay:", err)
			os.Exit(2)
		}
	}
	ci, si := -1, -1
	for i, c := range cfgs {
		if c.D == r.D && c.P == r.P {
			ci = i
		}
	}
	if ci < 0 {
		fmt.Fprintln(os.Stderr, "unknown config")
		os.Exit(2)
	}
	for i, s := range sizesFor(r.D) {
		if s == r.Size {
			si = i
		}
	}
	if si < 0 {
		fmt.Fprintln(os.Stderr, "unknown size")
		os.Exit(2)
	}
	root := fmt.Sprintf("/dev/shm/ecx_single_%d", os.Getpid())
	defer os.RemoveAll(root)
	thorough := ev.TierFromArgs() == "thorough"
	e, storeErr := newEnv(prop, ci, si, root, thorough, r.Mode != "write")
	if storeErr != nil {
		fmt.Println("fault-free Add failed:", storeErr)
		return
	}
	em := emitter{out: os.Stdout}
	pat := make([]int, len(r.Pattern))
	for i, n := range r.Pattern {
		k, ok := kindByName(n)
		if !ok {
			fmt.Fprintln(os.Stderr, "unknown kind", n)
			os.Exit(2)
		}
		pat[i] = k
	}
	switch r.Mode {
	case "read":
		e.runRead(em, 0, pat)
	case "repair":
		e.runRepair(em, 0, pat)
	case "write":
		m := 0
		for _, i := range r.FailWrites {
			m |= 1 << i
		}
		e.runWrite(em, m)
	}
	os.RemoveAll(root)
}
