// c21: explicit-state exploration of the real on-disk registry (fs.NewRegistry) as a map id -> handle.
//
// Every transition executes on the implementation: the shortest path to a state is replayed on a
// fresh /dev/shm folder, one more operation is applied, and then
//   - a warm lookup (same registry object, L2 cache as left by the operations),
//   - a cold lookup (new L2 cache + new registry object = disk truth) and
//   - an independent raw reader of the *.reg segment files (rawreader.go; shares nothing with
//     fs/ or encoding/)
//
// are compared with a trivial map model. Ids are constructed so that they collide in block and slot.
package main

import (
	"context"
	"crypto/sha256"
	"encoding/binary"
	"fmt"
	"os"
	"path/filepath"
	"strings"
	"syscall"
	"time"

	"github.com/sharedcode/sop"
	"github.com/sharedcode/sop/cache"
	"github.com/sharedcode/sop/fs"
	"verif.local/mc/detuuid"
	"verif.local/mc/ev"
)

const table = "c21reg"

// ---- configuration ----

type idSpec struct {
	Name  string
	Block int // high64 % mod
	Slot  int // low64 % 66 (the "ideal" slot)
	N     int // disambiguator (distinct ids with equal block/slot)
}

type config struct {
	Name    string
	Mod     int // hash modulus handed to fs.NewRegistry (0 = the registry's default)
	IDs     []idSpec
	Fillers int  // number of filler sets (each: 66 ids in block FillBlock, ideal slots 0..65)
	Pairs   bool // batch operations on (IDs[0], IDs[1])
	NoLocks bool // include UpdateNoLocks beside Update
	Depth   int
	MaxVer  int // Update is enabled while version < MaxVer (keeps the space finite)
	// Snapshot: the successor is computed by restoring the parent's segment files (from the raw
	// reader's block images) and applying ONE operation, instead of replaying the whole path. Used
	// for the block-filling configurations where a replay costs 66+ Adds. All registry state lives in
	// the files (every replay uses a fresh registry object and a fresh L2 cache anyway). Cross-checked:
	// every reported violation and a systematic subset of states are re-derived by a full replay.
	Snapshot bool
}

func (c config) mod() int {
	if c.Mod <= 0 {
		return fs.MinimumModValue
	}
	return c.Mod
}

const fillBlock = 7

func (c config) String() string {
	var ids []string
	for _, s := range c.IDs {
		ids = append(ids, fmt.Sprintf("%s@b%d/s%d", s.Name, s.Block, s.Slot))
	}
	return fmt.Sprintf("%s mod=%d ids=[%s] fillers=%d pairs=%v nolocks=%v depth=%d maxver=%d snapshot=%v", c.Name, c.Mod, strings.Join(ids, " "), c.Fillers, c.Pairs, c.NoLocks, c.Depth, c.MaxVer, c.Snapshot)
}

func makeID(mod int, s idSpec) sop.UUID {
	high := uint64(s.Block) + uint64(mod)*uint64(1000+7919*s.N)
	low := uint64(s.Slot) + 66*uint64(12345+104729*s.N)
	var id sop.UUID
	binary.BigEndian.PutUint64(id[:8], high)
	binary.BigEndian.PutUint64(id[8:], low)
	if int(high%uint64(mod)) != s.Block || int(low%66) != s.Slot {
		panic("makeID")
	}
	return id
}

// handleFor is the handle written for id at version v (every field differs between versions).
func handleFor(id sop.UUID, v int) sop.Handle {
	h := sop.NewHandle(id)
	h.Version = int32(v)
	if v > 0 {
		var b sop.UUID
		copy(b[:], id[:])
		b[0] ^= 0xA5
		b[15] = byte(v)
		h.PhysicalIDB = b
		h.IsActiveIDB = v%2 == 1
		h.WorkInProgressTimestamp = int64(1000 + v)
	}
	return h
}

// ---- operations ----

type op struct {
	Kind string // Add Update UpdateNoLocks Remove RemoveAbsent Fill Unfill UpdatePair RemovePair
	I    int    // id index or filler set index
}

func (o op) String() string { return fmt.Sprintf("%s(%d)", o.Kind, o.I) }

type world struct {
	c       config
	ids     []sop.UUID   // named ids
	fillers [][]sop.UUID // filler sets
	names   map[sop.UUID]string
}

func newWorld(c config) *world {
	w := &world{c: c, names: map[sop.UUID]string{}}
	for _, s := range c.IDs {
		id := makeID(c.mod(), s)
		if _, dup := w.names[id]; dup {
			panic("duplicate id")
		}
		w.ids = append(w.ids, id)
		w.names[id] = s.Name
	}
	for k := 0; k < c.Fillers; k++ {
		var set []sop.UUID
		for i := 0; i < recsPerBlock; i++ {
			id := makeID(c.mod(), idSpec{Block: fillBlock, Slot: i, N: 100 + k*100 + i})
			w.names[id] = fmt.Sprintf("f%d.%d", k, i)
			set = append(set, id)
		}
		w.fillers = append(w.fillers, set)
	}
	return w
}

// model: id -> version for present ids.
type model map[sop.UUID]int

func (m model) clone() model {
	n := make(model, len(m))
	for k, v := range m {
		n[k] = v
	}
	return n
}

func (w *world) fillerPresent(m model, k int) (all, none bool) {
	all, none = true, true
	for _, id := range w.fillers[k] {
		if _, ok := m[id]; ok {
			none = false
		} else {
			all = false
		}
	}
	return
}

// enabled lists the operations the model allows in m (legal API usage only; see assumptions).
func (w *world) enabled(m model) []op {
	var out []op
	for i, id := range w.ids {
		v, present := m[id]
		if !present {
			out = append(out, op{"Add", i}, op{"RemoveAbsent", i})
			continue
		}
		if v < w.c.MaxVer {
			out = append(out, op{"Update", i})
			if w.c.NoLocks {
				out = append(out, op{"UpdateNoLocks", i})
			}
		}
		out = append(out, op{"Remove", i})
	}
	if w.c.Pairs && len(w.ids) >= 2 {
		v0, p0 := m[w.ids[0]]
		v1, p1 := m[w.ids[1]]
		if p0 && p1 {
			if v0 < w.c.MaxVer && v1 < w.c.MaxVer {
				out = append(out, op{"UpdatePair", 0})
			}
			out = append(out, op{"RemovePair", 0})
		}
	}
	for k := range w.fillers {
		all, none := w.fillerPresent(m, k)
		if none {
			out = append(out, op{"Fill", k})
		}
		if all {
			out = append(out, op{"Unfill", k})
		}
	}
	return out
}

// ---- the implementation under test ----

type impl struct {
	dir string
	l2  sop.L2Cache
	reg fs.Registry
}

func openRegistry(dir string, mod int) *impl {
	l2 := cache.NewL2InMemoryCache()
	rt, err := fs.NewReplicationTracker(context.Background(), []string{dir}, false, l2)
	if err != nil {
		panic(err)
	}
	return &impl{dir: dir, l2: l2, reg: fs.NewRegistry(true, mod, rt, l2)}
}

// freshDir empties <dir>/<table> (creating it if needed). The worker's top folder itself is kept so that
// parallel workers do not serialise on the /dev/shm root directory.
func freshDir(dir string) {
	td := filepath.Join(dir, table)
	ents, err := os.ReadDir(td)
	if err != nil {
		if err := os.MkdirAll(td, 0o755); err != nil {
			panic(err)
		}
		return
	}
	for _, e := range ents {
		if err := os.RemoveAll(filepath.Join(td, e.Name())); err != nil {
			panic(err)
		}
	}
}

const opTimeout = 20 * time.Second // hang guard only (a blocked call is reported, never used as an oracle for timing)

func opCtx() (context.Context, context.CancelFunc) {
	return context.WithTimeout(context.Background(), opTimeout)
}

func hp(hs ...sop.Handle) []sop.RegistryPayload[sop.Handle] {
	return []sop.RegistryPayload[sop.Handle]{{RegistryTable: table, IDs: hs}}
}
func ip(ids ...sop.UUID) []sop.RegistryPayload[sop.UUID] {
	return []sop.RegistryPayload[sop.UUID]{{RegistryTable: table, IDs: ids}}
}

// apply runs o on the implementation and advances the model. It returns the call's error.
func (w *world) apply(in *impl, m model, o op) error {
	ctx, cancel := opCtx()
	defer cancel()
	switch o.Kind {
	case "Add":
		id := w.ids[o.I]
		m[id] = 0
		return in.reg.Add(ctx, hp(handleFor(id, 0)))
	case "Update", "UpdateNoLocks":
		id := w.ids[o.I]
		m[id]++
		if o.Kind == "Update" {
			return in.reg.Update(ctx, hp(handleFor(id, m[id])))
		}
		return in.reg.UpdateNoLocks(ctx, true, hp(handleFor(id, m[id])))
	case "Remove", "RemoveAbsent":
		id := w.ids[o.I]
		delete(m, id)
		return in.reg.Remove(ctx, ip(id))
	case "UpdatePair":
		a, b := w.ids[0], w.ids[1]
		m[a]++
		m[b]++
		return in.reg.UpdateNoLocks(ctx, true, hp(handleFor(a, m[a]), handleFor(b, m[b])))
	case "RemovePair":
		a, b := w.ids[0], w.ids[1]
		delete(m, a)
		delete(m, b)
		return in.reg.Remove(ctx, ip(a, b))
	case "Fill":
		var hs []sop.Handle
		for _, id := range w.fillers[o.I] {
			m[id] = 0
			hs = append(hs, handleFor(id, 0))
		}
		return in.reg.Add(ctx, hp(hs...))
	case "Unfill":
		for _, id := range w.fillers[o.I] {
			delete(m, id)
		}
		return in.reg.Remove(ctx, ip(w.fillers[o.I]...))
	}
	panic(o.Kind)
}

// lookupAll calls Registry.Get once per NAMED id (single-id payloads), once with all named ids in one
// payload and once per filler set (one payload with its 66 ids).
func (w *world) lookupAll(in *impl, withFillers bool) (single map[sop.UUID][]sop.Handle, batch map[sop.UUID][]sop.Handle, calls int, err error) {
	single = map[sop.UUID][]sop.Handle{}
	batch = map[sop.UUID][]sop.Handle{}
	for _, id := range w.ids {
		ctx, cancel := opCtx()
		r, e := in.reg.Get(ctx, ip(id))
		cancel()
		calls++
		if e != nil {
			return nil, nil, calls, fmt.Errorf("Get(%s): %w", w.names[id], e)
		}
		for _, p := range r {
			single[id] = append(single[id], p.IDs...)
		}
	}
	sets := [][]sop.UUID{w.ids}
	if withFillers {
		sets = append(sets, w.fillers...)
	}
	for _, set := range sets {
		ctx, cancel := opCtx()
		r, e := in.reg.Get(ctx, ip(set...))
		cancel()
		calls++
		if e != nil {
			return nil, nil, calls, fmt.Errorf("Get(batch of %d): %w", len(set), e)
		}
		for _, p := range r {
			for _, h := range p.IDs {
				batch[h.LogicalID] = append(batch[h.LogicalID], h)
			}
		}
	}
	return single, batch, calls, nil
}

// ---- exploration ----

type state struct {
	path    []op
	m       model
	removed map[sop.UUID]int // ids removed somewhere on the path -> last version they had
	raw     []rawEntry
	segs    []int64 // sizes of the segment files 1..n
}

type stats struct {
	crossChecked                  int
	states, transitions, maxDepth int
	dupStates, divergent          int
	opCalls, lookups              int64
	fixpoint                      bool
	maxSegment                    int
	collisionTransitions          int // see "rule"
}

func (w *world) allIDs() []sop.UUID {
	all := append([]sop.UUID(nil), w.ids...)
	for _, f := range w.fillers {
		all = append(all, f...)
	}
	return all
}

// severity order of location classes (see where)
var whereRank = map[string]int{"absent": 0, "ideal-slot": 1, "displaced-in-block": 2, "overflow-segment-ideal-slot": 3, "overflow-segment-displaced": 4, "duplicated": 5}

// where classifies the location of id in the raw pre-state relative to its ideal position.
func (w *world) where(raw []rawEntry, id sop.UUID) string {
	var locs []rawEntry
	for _, e := range raw {
		if e.H.LogicalID == [16]byte(id) {
			locs = append(locs, e)
		}
	}
	if len(locs) == 0 {
		return "absent"
	}
	if len(locs) > 1 {
		return "duplicated"
	}
	e := locs[0]
	_, low := id.Split()
	ideal := int(low % recsPerBlock)
	switch {
	case e.Seg > 1 && e.Slot == ideal:
		return "overflow-segment-ideal-slot"
	case e.Seg > 1:
		return "overflow-segment-displaced"
	case e.Slot == ideal:
		return "ideal-slot"
	}
	return "displaced-in-block"
}

func (w *world) anyDisplaced(raw []rawEntry) bool {
	for _, id := range w.ids {
		if whereRank[w.where(raw, id)] >= 2 {
			return true
		}
	}
	return false
}

// whereWorst: the most "interesting" location class among the targets of a batch operation.
func (w *world) whereWorst(raw []rawEntry, ids []sop.UUID) string {
	best := "absent"
	for _, id := range ids {
		if x := w.where(raw, id); whereRank[x] > whereRank[best] {
			best = x
		}
	}
	return best
}

var opClass = map[string]string{"Add": "add", "Fill": "add-batch", "Update": "update", "UpdateNoLocks": "update", "UpdatePair": "update-batch",
	"Remove": "remove", "RemovePair": "remove-batch", "Unfill": "remove-batch", "RemoveAbsent": "remove-absent"}

func rawKey(raw []rawEntry) [32]byte {
	var sb strings.Builder
	for _, e := range raw {
		fmt.Fprintf(&sb, "%d/%d/%d:%x;", e.Seg, e.Block, e.Slot, e.Rec)
	}
	return sha256.Sum256([]byte(sb.String()))
}

func describe(w *world, raw []rawEntry) string {
	var parts []string
	nf := map[int]int{}
	for _, e := range raw {
		n := w.names[sop.UUID(e.H.LogicalID)]
		if strings.HasPrefix(n, "f") && strings.Contains(n, ".") {
			nf[e.Seg]++
			continue
		}
		if n == "" {
			n = fmt.Sprintf("?%x", e.H.LogicalID[:4])
		}
		parts = append(parts, fmt.Sprintf("seg%d/blk%d/slot%d=%s.v%d", e.Seg, e.Block, e.Slot, n, e.H.Version))
	}
	for seg := 1; seg <= 9; seg++ {
		if nf[seg] > 0 {
			parts = append(parts, fmt.Sprintf("seg%d:+%d filler entries", seg, nf[seg]))
		}
	}
	if len(parts) == 0 {
		return "(empty)"
	}
	return strings.Join(parts, " ")
}

func sameHandle(h sop.Handle, r rawHandle) bool {
	return [16]byte(h.LogicalID) == r.LogicalID && [16]byte(h.PhysicalIDA) == r.PhysicalIDA && [16]byte(h.PhysicalIDB) == r.PhysicalIDB &&
		h.IsActiveIDB == r.IsActiveIDB && h.Version == r.Version && h.WorkInProgressTimestamp == r.WorkInProgressTimestamp && h.IsDeleted == r.IsDeleted
}

func dupCounts(raw []rawEntry) map[sop.UUID]int {
	c := map[sop.UUID]int{}
	for _, e := range raw {
		c[sop.UUID(e.H.LogicalID)]++
	}
	return c
}

// rawMatchesModel: every present id is held by exactly one slot with exactly the last written content, nothing else on disk.
func (w *world) rawMatchesModel(raw []rawEntry, m model) bool {
	if len(raw) != len(m) {
		return false
	}
	got := make(map[sop.UUID]bool, len(raw))
	for _, e := range raw {
		id := sop.UUID(e.H.LogicalID)
		v, ok := m[id]
		if !ok || got[id] || !sameHandle(handleFor(id, v), e.H) {
			return false
		}
		got[id] = true
	}
	return true
}

type finding struct{ kind, detail string }

// judgeLookups compares one round of lookups with the model.
func (w *world) judgeLookups(temp string, withFillers bool, m model, removed map[sop.UUID]int, single, batch map[sop.UUID][]sop.Handle, disk func() string) []finding {
	var out []finding
	judge := func(how string, id sop.UUID, got []sop.Handle) {
		v, present := m[id]
		name := w.names[id]
		switch {
		case len(got) > 1:
			out = append(out, finding{temp + "-lookup-duplicate-result", fmt.Sprintf("%s for %s returned %d handles", how, name, len(got))})
		case present && len(got) == 0:
			out = append(out, finding{temp + "-lookup-missing", fmt.Sprintf("%s for present id %s (model version %d) returned nothing; disk: %s", how, name, v, disk())})
		case present && got[0] != handleFor(id, v):
			kind := temp + "-lookup-wrong-handle"
			if int(got[0].Version) < v {
				kind = temp + "-lookup-stale-version"
			}
			out = append(out, finding{kind, fmt.Sprintf("%s for %s returned %+v, last written %+v; disk: %s", how, name, got[0], handleFor(id, v), disk())})
		case !present && len(got) == 1:
			kind := temp + "-lookup-phantom-never-added"
			if lv, was := removed[id]; was {
				kind = temp + "-lookup-removed-id-reappears"
				if int(got[0].Version) < lv {
					kind = temp + "-lookup-stale-duplicate-after-remove"
				}
			}
			out = append(out, finding{kind, fmt.Sprintf("%s for absent id %s returned %+v (last version before its removal: %d); disk: %s", how, name, got[0], removed[id], disk())})
		}
	}
	for _, id := range w.ids {
		judge("Get([id])", id, single[id])
	}
	for id, hs := range batch {
		if _, known := w.names[id]; !known {
			out = append(out, finding{temp + "-lookup-unknown-id", fmt.Sprintf("a batched Get returned a handle for an id that was not asked for: %+v", hs[0])})
		}
	}
	ids := w.ids
	if withFillers {
		ids = w.allIDs()
	}
	for _, id := range ids {
		judge("Get([ids...])", id, batch[id])
	}
	return out
}

func explore(c config, run *ev.Run, dir string, maxStates int) stats {
	w := newWorld(c)
	all := w.allIDs()
	var st stats
	seen := map[[32]byte]bool{}
	seen[rawKey(nil)] = true
	st.states = 1
	frontier := []state{{m: model{}, removed: map[sop.UUID]int{}}}
	sampled := 0
	reported := map[string]bool{}
	defer os.RemoveAll(dir + "_x")
	newAtLastLevel := 0
	for depth := 1; depth <= c.Depth && len(frontier) > 0; depth++ {
		var next []state
		newAtLastLevel = 0
		for _, s := range frontier {
			for _, o := range w.enabled(s.m) {
				// --- replay the shortest path on a fresh folder (or restore its files), then one more operation ---
				detuuid.Reset(21)
				freshDir(dir)
				var in *impl
				var m model
				if c.Snapshot {
					restoreSegments(filepath.Join(dir, table), table, s.raw, s.segs)
					in = openRegistry(dir, c.Mod)
					m = s.m.clone()
				} else {
					in = openRegistry(dir, c.Mod)
					m = model{}
					for _, p := range s.path {
						w.apply(in, m, p)
						st.opCalls++
					}
				}
				before := s.m
				err := w.apply(in, m, o)
				st.opCalls++
				st.transitions++
				path := append(append([]op(nil), s.path...), o)
				removed := s.removed
				// target ids of this operation (for classification)
				var targets []sop.UUID
				switch o.Kind {
				case "Fill", "Unfill":
					targets = w.fillers[o.I]
				case "UpdatePair", "RemovePair":
					targets = w.ids[:2]
				default:
					targets = []sop.UUID{w.ids[o.I]}
				}
				victimWhere := w.whereWorst(s.raw, targets)
				switch {
				case len(targets) > 1, whereRank[victimWhere] >= 2:
					st.collisionTransitions++
				case victimWhere == "absent":
					// an Add/Remove of an absent id whose ideal slot (segment 1) is occupied by another id
					high, low := targets[0].Split()
					for _, e := range s.raw {
						if e.Seg == 1 && e.Block == int(high%uint64(c.mod())) && e.Slot == int(low%recsPerBlock) {
							st.collisionTransitions++
							break
						}
					}
				}
				var postKey [32]byte
				var postErr bool
				viol := func(kind, detail string) {
					sig := fmt.Sprintf("%s|%s|target=%s", kind, opClass[o.Kind], victimWhere)
					if c.Snapshot && !reported[sig] {
						// re-derive the after-state by replaying the whole path from an empty folder
						w.crossCheck(dir+"_x", path, postKey, postErr)
						st.crossChecked++
					}
					reported[sig] = true
					run.Violate(ev.Violation{
						Sig:    sig,
						Detail: fmt.Sprintf("%s: config{%s} path=%v (target of the last operation was located: %s): %s", kind, c, path, victimWhere, detail),
						Replay: map[string]any{"config": c, "path": path, "kind": kind},
					})
				}
				// Always run the three observations; judge them in the order
				//   call result -> cold lookup -> warm lookup -> raw content
				// and report only the first level that disagrees with the model (later levels would only echo it).
				wSingle, wBatch, n1, wErr := w.lookupAll(in, o.Kind == "Fill" || o.Kind == "Unfill")
				in.reg.Close()
				raw, segs, problems := scanRegistry(filepath.Join(dir, table), table)
				disk := func() string { return describe(w, raw) }
				// Cold lookups of the NAMED ids are made after every transition. The cold lookup of the filler ids
				// (66 per set) is skipped only if this exact disk content was already reached (and fully looked up)
				// before AND the raw content agrees 1:1 with the model: a cold Get is a function of the files.
				coldFillers := !(seen[rawKey(raw)] && w.rawMatchesModel(raw, m))
				cold := openRegistry(dir, c.Mod)
				cSingle, cBatch, n2, cErr := w.lookupAll(cold, coldFillers)
				cold.reg.Close()
				st.lookups += int64(n1 + n2)
				for _, e := range raw {
					if e.Seg > st.maxSegment {
						st.maxSegment = e.Seg
					}
				}
				postKey, postErr = rawKey(raw), err != nil

				divergent := false
				// (1) result of the call
				switch o.Kind {
				case "RemoveAbsent":
					// removing an absent id: result unspecified by the property; the state must not change (checked below).
				case "Remove", "RemovePair", "Unfill":
					if err != nil {
						viol("remove-present-failed", fmt.Sprintf("Remove of present id(s) returned error %q; disk before: %s", err, describe(w, s.raw)))
						divergent = true
					}
				default:
					if err != nil {
						viol("write-failed", fmt.Sprintf("%s legal in the model returned error %q; disk before: %s", o.Kind, err, describe(w, s.raw)))
						divergent = true
					}
				}
				if o.Kind == "Remove" || o.Kind == "RemovePair" || o.Kind == "Unfill" {
					removed = make(map[sop.UUID]int, len(s.removed)+len(targets))
					for k, v := range s.removed {
						removed[k] = v
					}
					for _, id := range targets {
						removed[id] = before[id]
					}
				}
				// (2) cold lookups (disk truth), (3) warm lookups
				if !divergent {
					if cErr != nil {
						viol("cold-lookup-error", cErr.Error())
						divergent = true
					} else if fs := w.judgeLookups("cold", coldFillers, m, removed, cSingle, cBatch, disk); len(fs) > 0 {
						for _, f := range fs {
							viol(f.kind, f.detail)
						}
						divergent = true
					}
				}
				if !divergent {
					if wErr != nil {
						viol("warm-lookup-error", wErr.Error())
						divergent = true
					} else if fs := w.judgeLookups("warm", o.Kind == "Fill" || o.Kind == "Unfill", m, removed, wSingle, wBatch, disk); len(fs) > 0 {
						for _, f := range fs {
							viol(f.kind, f.detail)
						}
						divergent = true
					}
				}
				// (4) raw reader
				hasDup := false
				count := dupCounts(raw)
				prevCount := dupCounts(s.raw)
				for _, id := range all {
					if count[id] > 1 {
						hasDup = true
						if count[id] > prevCount[id] && err == nil {
							// reported on the transition that CREATES the extra copy (expansion continues: lookups still agree)
							viol("raw-id-in-several-slots", fmt.Sprintf("id %s is held by %d slots after the operation; disk before: %s; disk after: %s", w.names[id], count[id], describe(w, s.raw), disk()))
						}
					}
				}
				if !divergent {
					for _, p := range problems {
						viol("raw-"+p.Kind, p.Detail)
						divergent = true
					}
					for _, e := range raw {
						id := sop.UUID(e.H.LogicalID)
						high, _ := id.Split()
						if e.Block != int(high%uint64(c.mod())) {
							viol("raw-entry-in-wrong-block", fmt.Sprintf("%s stored in block %d; disk: %s", w.names[id], e.Block, disk()))
							divergent = true
						}
						if _, known := w.names[id]; !known {
							viol("raw-unknown-id-on-disk", fmt.Sprintf("a slot holds id %v that was never written; disk: %s", id, disk()))
							divergent = true
						}
					}
					for _, id := range all {
						v, present := m[id]
						n := count[id]
						switch {
						case present && n == 0:
							viol("raw-present-id-not-on-disk", fmt.Sprintf("id %s (version %d) has no slot; disk: %s", w.names[id], v, disk()))
							divergent = true
						case !present && n >= 1:
							kind := "raw-absent-id-on-disk"
							if _, was := removed[id]; was {
								kind = "raw-removed-id-still-on-disk"
							}
							viol(kind, fmt.Sprintf("id %s is absent in the model (and for lookups) but a slot holds it; disk: %s", w.names[id], disk()))
							divergent = true
						case present && n == 1:
							for _, e := range raw {
								if sop.UUID(e.H.LogicalID) == id && !sameHandle(handleFor(id, v), e.H) {
									viol("raw-slot-content-differs", fmt.Sprintf("slot of %s holds %+v, last written %+v", w.names[id], e.H, handleFor(id, v)))
									divergent = true
								}
							}
						}
					}
					if o.Kind == "RemoveAbsent" && rawKey(raw) != rawKey(s.raw) {
						viol("remove-absent-changed-disk", fmt.Sprintf("before: %s after: %s", describe(w, s.raw), disk()))
						divergent = true
					}
				}
				if divergent {
					// model and implementation disagree from here on: reported, not expanded further
					st.divergent++
					continue
				}
				key := rawKey(raw)
				if seen[key] {
					continue
				}
				seen[key] = true
				st.states++
				st.maxDepth = depth
				newAtLastLevel++
				if hasDup {
					st.dupStates++
				}
				if c.Snapshot && (depth <= 3 || st.states%25 == 0) {
					w.crossCheck(dir+"_x", path, key, err != nil)
					st.crossChecked++
				}
				if depth < c.Depth {
					next = append(next, state{path: path, m: m, removed: removed, raw: raw, segs: segs})
				}
				if sampled < 2 && depth >= 4 && (hasDup || st.maxSegment > 1 || w.anyDisplaced(raw)) {
					sampled++
					run.Sample(map[string]any{"config": c.Name, "path": fmt.Sprint(path), "disk": disk()})
				}
				if st.states >= maxStates {
					run.NotExhaustive(fmt.Sprintf("state cap %d reached in config{%s} at depth %d", maxStates, c.Name, depth))
					return st
				}
			}
		}
		frontier = next
	}
	st.fixpoint = newAtLastLevel == 0 // the last explored level produced no new state: the bounded space is closed
	return st
}

// crossCheck (snapshot mode): replay path from an empty folder through the real registry and require the same
// final disk content and the same success/failure of the last call as the restore-based successor computation.
func (w *world) crossCheck(dir string, path []op, wantKey [32]byte, wantErr bool) {
	detuuid.Reset(21)
	freshDir(dir)
	in := openRegistry(dir, w.c.Mod)
	m := model{}
	var err error
	for _, p := range path {
		err = w.apply(in, m, p)
	}
	in.reg.Close()
	raw, _, _ := scanRegistry(filepath.Join(dir, table), table)
	if rawKey(raw) != wantKey || (err != nil) != wantErr {
		fmt.Fprintf(os.Stderr, "HARNESS INCONSISTENCY: restore-based successor differs from full replay for path %v\n replay: %s err=%v\n", path, describe(w, raw), err)
		os.Exit(3)
	}
}

// restoreSegments recreates the segment files of a state: files of the recorded sizes, holding exactly the
// recorded records (blocks rebuilt with their CRC by this harness; the reader verified the CRC when recording).
func restoreSegments(td, table string, raw []rawEntry, segs []int64) {
	type bk struct{ seg, block int }
	blocks := map[bk][]byte{}
	for _, e := range raw {
		k := bk{e.Seg, e.Block}
		b := blocks[k]
		if b == nil {
			b = make([]byte, blockSz)
			blocks[k] = b
		}
		copy(b[e.Slot*recSz:], e.Rec[:])
	}
	files := map[int]*os.File{}
	for i, size := range segs {
		f, err := os.OpenFile(filepath.Join(td, fmt.Sprintf("%s-%d.reg", table, i+1)), os.O_CREATE|os.O_RDWR|os.O_TRUNC, 0o644)
		if err != nil {
			panic(err)
		}
		if err := f.Truncate(size); err != nil {
			panic(err)
		}
		files[i+1] = f
	}
	for k, b := range blocks {
		sealBlock(b)
		if _, err := files[k.seg].WriteAt(b, int64(k.block)*blockSz); err != nil {
			panic(err)
		}
	}
	for _, f := range files {
		f.Close()
	}
}

// ---- configurations ----

func configsFor(thorough bool) []config {
	same3 := func(slot int) []idSpec {
		return []idSpec{{"A", fillBlock, slot, 1}, {"B", fillBlock, slot, 2}, {"C", fillBlock, slot, 3}}
	}
	d := func(q, t int) int {
		if thorough {
			return t
		}
		return q
	}
	cs := []config{
		// three ids with the same block and ideal slot + the id whose ideal slot is where displaced entries land (slot 0)
		{Name: "same-slot-3+landing-0", IDs: append(same3(3), idSpec{"D", fillBlock, 0, 4}), NoLocks: true, Pairs: true, Depth: d(6, 8), MaxVer: 2},
		{Name: "same-slot-3+landing-0/updates", IDs: append(same3(3)[:2], idSpec{"D", fillBlock, 0, 4}), NoLocks: true, Pairs: true, Depth: d(7, 9), MaxVer: 4},
		// ideal slot 0 (displaced entries land right after it), neighbours 1 and 65
		{Name: "same-slot-0+nbrs", IDs: append(same3(0), idSpec{"D", fillBlock, 1, 4}, idSpec{"E", fillBlock, 65, 5}), Depth: d(6, 8), MaxVer: 1},
		// last slot of the block (the record next to the CRC)
		{Name: "same-slot-65+nbrs", IDs: append(same3(65), idSpec{"D", fillBlock, 64, 4}, idSpec{"E", fillBlock, 0, 5}), Depth: d(6, 8), MaxVer: 1},
		// same block, different slots (no slot collision) + one collider
		{Name: "same-block-diff-slots", IDs: []idSpec{{"A", fillBlock, 3, 1}, {"B", fillBlock, 4, 2}, {"C", fillBlock, 5, 3}, {"D", fillBlock, 3, 4}}, Pairs: true, Depth: d(6, 8), MaxVer: 2},
		// two blocks, the same slot in each, ids that differ only by a multiple of the modulus
		{Name: "two-blocks", IDs: []idSpec{{"A", fillBlock, 3, 1}, {"B", fillBlock, 3, 2}, {"C", 8, 3, 1}, {"D", 8, 3, 2}, {"E", 0, 0, 1}}, Depth: d(6, 8), MaxVer: 1},
		// a full block: 66 fillers force named ids into segment file 2
		{Name: "full-block-overflow", IDs: []idSpec{{"A", fillBlock, 3, 1}, {"B", fillBlock, 3, 2}, {"C", fillBlock, 9, 3}}, Fillers: 1, NoLocks: true, Snapshot: true, Depth: d(6, 7), MaxVer: 2},
		{Name: "full-block-overflow/5ids", IDs: append(same3(3), idSpec{"D", fillBlock, 0, 4}, idSpec{"E", fillBlock, 65, 5}), Fillers: 1, Snapshot: true, Depth: d(5, 6), MaxVer: 1},
		// two filler sets: segment files 2 and 3
		{Name: "two-full-blocks-overflow", IDs: []idSpec{{"A", fillBlock, 3, 1}, {"B", fillBlock, 3, 2}}, Fillers: 2, Pairs: true, Snapshot: true, Depth: d(5, 8), MaxVer: 2},
		// other hash moduli
		{Name: "mod251", Mod: 251, IDs: append(same3(3), idSpec{"D", fillBlock, 0, 4}), Fillers: 1, Snapshot: true, Depth: d(5, 6), MaxVer: 1},
		{Name: "mod1000", Mod: 1000, IDs: append(same3(3), idSpec{"D", 999, 3, 4}), Depth: d(6, 7), MaxVer: 2},
		{Name: "mod-explicit-250-block0-block249", Mod: 250, IDs: []idSpec{{"A", 0, 3, 1}, {"B", 0, 3, 2}, {"C", 249, 65, 1}, {"D", 249, 65, 2}}, Depth: d(6, 8), MaxVer: 2},
	}
	if thorough {
		cs = append(cs,
			config{Name: "mod-max-750000", Mod: fs.MaximumModValue, IDs: append(same3(3), idSpec{"D", 749999, 65, 4}), Depth: 6, MaxVer: 2},
			config{Name: "three-full-blocks-overflow", IDs: []idSpec{{"A", fillBlock, 3, 1}, {"B", fillBlock, 3, 2}}, Fillers: 3, Snapshot: true, Depth: 7, MaxVer: 1},
			config{Name: "six-colliders", IDs: []idSpec{{"A", fillBlock, 3, 1}, {"B", fillBlock, 3, 2}, {"C", fillBlock, 3, 3}, {"D", fillBlock, 3, 4}, {"E", fillBlock, 0, 5}, {"F", fillBlock, 1, 6}}, Depth: 8, MaxVer: 1},
		)
	}
	return cs
}

func main() {
	run := ev.New("C21", "model_checking")
	thorough := run.Thorough()
	configs := configsFor(thorough)
	maxStates := 30000
	if thorough {
		maxStates = 400000
	}
	if job := ev.Job(); job != "" {
		var idx int
		fmt.Sscan(job, &idx)
		c := configs[idx]
		dir := fmt.Sprintf("/dev/shm/c21_%d_%d", os.Getpid(), idx)
		defer os.RemoveAll(dir)
		t0 := time.Now()
		r := explore(c, run, dir, maxStates)
		run.Set("wall_s", fmt.Sprintf("%.1f", time.Since(t0).Seconds()))
		var ru syscall.Rusage
		syscall.Getrusage(syscall.RUSAGE_SELF, &ru)
		run.Set("cpu_s", fmt.Sprintf("%.1f", float64(ru.Utime.Sec+ru.Stime.Sec)+float64(ru.Utime.Usec+ru.Stime.Usec)/1e6))
		run.Set("states_transitions", fmt.Sprintf("%d/%d", r.states, r.transitions))
		os.RemoveAll(dir)
		run.Set("states", r.states)
		run.Set("transitions", r.transitions)
		run.Set("registry_write_calls", r.opCalls)
		run.Set("lookups", r.lookups)
		run.Set("states_with_duplicate_slots", r.dupStates)
		run.Set("snapshot_successors_cross_checked_by_full_replay", r.crossChecked)
		run.Set("divergent_transitions_not_expanded", r.divergent)
		run.Set("collision_transitions", r.collisionTransitions)
		run.Set("config", c.String())
		run.Set("max_depth", fmt.Sprint(r.maxDepth))
		run.Set("max_segment_file_reached", fmt.Sprint(r.maxSegment))
		run.Set("fixpoint_reached", fmt.Sprint(r.fixpoint))
		run.EmitPartial()
	}
	var jobs []string
	for i := range configs {
		jobs = append(jobs, fmt.Sprint(i))
	}
	dl := 10 * time.Minute
	if thorough {
		dl = 40 * time.Minute
	}
	run.Parallel(jobs, 0, dl, nil)
	cov := run.Coverage
	cov["traces_validated_against_impl"] = cov["transitions"]
	cov["evaluations"] = cov["transitions"]
	cov["distinct_nontrivial"] = cov["collision_transitions"]
	run.Set("alphabet", []string{"Add(id)", "Update(id: version+1, new physical id B, flipped active flag, new timestamp)", "UpdateNoLocks(id)", "Remove(id)", "Remove(absent id)", "UpdateNoLocks([A,B]) in one payload", "Remove([A,B]) in one payload", "Fill(k): Add 66 filler ids of block 7 (ideal slots 0..65) in one payload", "Unfill(k): Remove those 66 ids in one payload"})
	run.Set("rule", "per configuration (a set of ids constructed to collide: equal high64%mod and equal low64%66, same block/other slot, block-filling sets of 66) a BFS over the real fs.NewRegistry on /dev/shm; state = sorted set of (segment file, block, slot, 62-byte record) parsed by an independent reader of the .reg files; successor = replay of the shortest path on a fresh folder + one operation (block-filling configurations: the parent's segment files are restored from the recorded block content and ONE operation is applied; a systematic subset of these successors and every reported violation are re-derived by a full replay and must give the identical disk content); after EVERY transition: warm Get, cold Get (new L2 cache + new registry object) for every id singly and batched, raw scan (CRC of every written block, at most one slot per id, slot content = last written handle, nothing for absent ids). distinct_nontrivial counts the transitions whose target id was displaced from its ideal slot / lived in an overflow segment / was duplicated, whose ideal slot was occupied by another id (Add), or that fill/empty a whole block")
	run.Assumption("only legal API usage is enumerated: Add of an absent id, Update/UpdateNoLocks/Remove of a present id, plus Remove of an absent id (result unspecified, disk must not change); Add of a present id and Update of an absent id are outside the statement")
	run.Assumption("single process, no concurrency, no crashes (C20/C22 cover those); versions per id bounded by MaxVer and sequences by Depth (per_job.*.fixpoint_reached tells whether the bounded space was closed)")
	run.Assumption("a transition after which model and implementation disagree (wrong lookup, failed legal call) is reported and NOT expanded further; states that only violate the raw one-slot-per-id invariant are reported and expanded")
	run.Assumption("cold lookup = new in-memory L2 cache and new registry object on the same folder (Registry.Get consults only L2 before the file; L1 is written but never read by Get)")
	run.Finish()
}
