// c12: "Creating and removing stores is transactional and complete" — sequential and fault parts.
//
// Part create : NewBtree(name, options) -> add 0..2 items -> {Commit, Rollback, Commit with ONE injected
//               failure at every L2-cache call index and at every file-operation index of the fault-free
//               run (window: from NewBtree to the return of Commit)}; with and without another store in
//               the folder. Then, cold caches and fresh transactions: GetStores, IsStoreExists, OpenBtree,
//               Count, scan, store folder on disk; after an unsuccessful creation the same creation is
//               repeated fault-free and must succeed.
// Part two    : two stores created in one transaction; same endings and fault positions, plus a second
//               NewBtree that fails on its own (existing store with incompatible options).
// Part recreate: create A, commit, RemoveBtree, NewBtree with DIFFERENT options B (all ordered pairs of the
//               option domain), warm and cold caches.
// Part history: create/commit/remove and create/rollback rounds, up to 3 rounds.
package main

import (
	"context"
	"encoding/json"
	"errors"
	"fmt"
	"io"
	"log/slog"
	"os"
	"path/filepath"
	"runtime/debug"
	"sort"
	"strings"
	"sync"
	"time"

	"github.com/sharedcode/sop"
	"github.com/sharedcode/sop/infs"
	"verif.local/mc/ev"
	"verif.local/mc/l2x"
	"verif.local/mc/sopenv"
	"verif.local/mc/txn"
	"verif.local/mc/vhook"
)

var ctx = context.Background()

// ---------------- option domain ----------------

type opt struct {
	Slot   int    `json:"slot"`
	Unique bool   `json:"unique"`
	Place  string `json:"place"` // node | segment | active | global
}

func (o opt) String() string { return fmt.Sprintf("slot%d-unique%v-%s", o.Slot, o.Unique, o.Place) }

func (o opt) options(name string) sop.StoreOptions {
	return txn.StoreSpec{Name: name, Slot: o.Slot, Unique: o.Unique, Place: o.Place}.Options()
}

var places = []string{"node", "segment", "active", "global"}

func allOpts() []opt {
	var r []opt
	for _, p := range places {
		for _, s := range []int{2, 4} {
			for _, u := range []bool{true, false} {
				r = append(r, opt{s, u, p})
			}
		}
	}
	return r
}

// quickOpts: one slot/uniqueness combination per placement plus the opposite combination for "node".
func quickOpts() []opt {
	return []opt{{4, true, "node"}, {2, false, "node"}, {2, true, "segment"}, {4, false, "active"}, {2, true, "global"}}
}

func itemsN(n int, tag string) []txn.KV {
	var r []txn.KV
	for i := 1; i <= n; i++ {
		r = append(r, txn.KV{K: i, V: fmt.Sprintf("%s%d", tag, i)})
	}
	return r
}

// ---------------- environment: clock, fault plan ----------------

var (
	clockMu sync.Mutex
	vnow    = time.Date(2026, 1, 1, 0, 0, 0, 0, time.UTC)
)

type faultPlan struct {
	Kind string `json:"kind"` // "" | "l2" | "io"
	N    int    `json:"n"`    // 1-based index of the failing call inside the window
}

var errIO = errors.New("verif: injected file operation failure")

// window state (single threaded apart from sop's task runner, hence the mutex)
var (
	fmu       sync.Mutex
	armed     bool
	plan      faultPlan
	l2n, ion  int
	hitAt     string
	traceL2   []string
	traceIO   []string
	wantTrace bool
)

func fileClass(p string) string {
	b := filepath.Base(p)
	switch {
	case b == "storelist.txt" || b == "storeinfo.txt" || b == "reghashmod.txt":
		return b
	case strings.HasSuffix(b, ".reg"):
		return "registry-segment"
	case strings.Contains(p, "/translogs"):
		return "translog"
	case len(b) == 36 && strings.Count(b, "-") == 4:
		return "blob"
	}
	return "folder"
}

func install() {
	slog.SetDefault(slog.New(slog.NewTextHandler(io.Discard, nil)))
	debug.SetGCPercent(400)
	sop.RetryStartDuration = time.Millisecond
	vhook.Install(&vhook.Hooks{
		Inline: true, // sop's task runner runs its tasks on the caller's goroutine: call indices are deterministic
		Sleep: func(_ context.Context, d time.Duration) bool {
			clockMu.Lock()
			vnow = vnow.Add(d)
			clockMu.Unlock()
			return true
		},
		Now: func() time.Time {
			clockMu.Lock()
			defer clockMu.Unlock()
			vnow = vnow.Add(time.Millisecond)
			return vnow
		},
		IO: func(op, path string, _ []byte, _ int64) error {
			fmu.Lock()
			defer fmu.Unlock()
			if !armed {
				return nil
			}
			ion++
			if wantTrace {
				traceIO = append(traceIO, op+":"+fileClass(path))
			}
			if plan.Kind == "io" && ion == plan.N {
				hitAt = op + ":" + fileClass(path)
				return errIO
			}
			return nil
		},
	})
}

func arm(p faultPlan, trace bool) {
	fmu.Lock()
	armed, plan, l2n, ion, hitAt, wantTrace = true, p, 0, 0, "", trace
	traceL2, traceIO = nil, nil
	fmu.Unlock()
	sopenv.L2.Fault = func(method string, _ []string) error {
		fmu.Lock()
		defer fmu.Unlock()
		if !armed {
			return nil
		}
		l2n++
		if wantTrace {
			traceL2 = append(traceL2, method)
		}
		if plan.Kind == "l2" && l2n == plan.N {
			hitAt = method
			return l2x.ErrInjected
		}
		return nil
	}
}

func disarm() (l2calls, iocalls int, hit string) {
	fmu.Lock()
	defer fmu.Unlock()
	armed = false
	return l2n, ion, hitAt
}

// ---------------- programs ----------------

type storeDef struct {
	Name  string   `json:"name"`
	Opt   opt      `json:"options"`
	Items []txn.KV `json:"items"`
	// DupProbe adds key 1 a second time (value "<v>dup"): accepted iff the store is not unique.
	DupProbe bool `json:"dup_probe,omitempty"`
}

type program struct {
	Stores []storeDef `json:"stores"`
	End    string     `json:"end"` // commit | rollback
	Fault  faultPlan  `json:"fault"`
}

type outcome struct {
	Steps     []string
	Committed bool
	Failed    bool // some call of the program returned an error
	L2, IO    int
	Hit       string
	Panic     string
	// expected items per store according to the acknowledged adds
	Acked map[string][]txn.KV
}

func invoke(f func()) (panicked string) {
	defer func() {
		if r := recover(); r != nil {
			st := string(debug.Stack())
			if i := strings.Index(st, "panic("); i >= 0 {
				st = st[i:]
			}
			if len(st) > 1200 {
				st = st[:1200]
			}
			panicked = fmt.Sprintf("%v @ %s", r, st)
		}
	}()
	f()
	return ""
}

func short(err error) string {
	if err == nil {
		return "nil"
	}
	s := err.Error()
	if len(s) > 160 {
		s = s[:160] + "..."
	}
	return s
}

// runProgram executes the creating transaction. The fault window opens right after Begin.
func runProgram(p program, trace bool) *outcome {
	o := &outcome{Acked: map[string][]txn.KV{}}
	step := func(f string, a ...any) { o.Steps = append(o.Steps, fmt.Sprintf(f, a...)) }
	o.Panic = invoke(func() {
		tx, err := infs.NewTransaction(ctx, sopenv.Opts(sop.ForWriting))
		if err != nil {
			panic(err)
		}
		if err := tx.Begin(ctx); err != nil {
			panic(err)
		}
		arm(p.Fault, trace)
		defer func() { o.L2, o.IO, o.Hit = disarm() }()
	stores:
		for _, sd := range p.Stores {
			b, err := infs.NewBtree[int, string](ctx, sd.Opt.options(sd.Name), tx, nil)
			step("NewBtree(%s,%s)=%s", sd.Name, sd.Opt, short(err))
			if err != nil {
				o.Failed = true
				break
			}
			for _, kv := range sd.Items {
				ok, err := b.Add(ctx, kv.K, kv.V)
				step("Add(%s,%d)=%v,%s", sd.Name, kv.K, ok, short(err))
				if err != nil || !ok {
					o.Failed = true
					break stores
				}
				o.Acked[sd.Name] = append(o.Acked[sd.Name], kv)
			}
			if sd.DupProbe && len(sd.Items) > 0 {
				kv := txn.KV{K: sd.Items[0].K, V: sd.Items[0].V + "dup"}
				ok, err := b.Add(ctx, kv.K, kv.V)
				step("Add(%s,%d) again=%v,%s", sd.Name, kv.K, ok, short(err))
				if err != nil {
					o.Failed = true
					break stores
				}
				if ok {
					o.Acked[sd.Name] = append(o.Acked[sd.Name], kv)
				}
			}
		}
		switch {
		case o.Failed:
			if tx.HasBegun() {
				err := tx.Rollback(ctx)
				step("Rollback=%s", short(err))
			}
		case p.End == "commit":
			err := tx.Commit(ctx)
			step("Commit=%s", short(err))
			o.Committed = err == nil
			o.Failed = err != nil
		default:
			err := tx.Rollback(ctx)
			step("Rollback=%s", short(err))
		}
		tx.Close()
	})
	if o.Panic != "" {
		o.L2, o.IO, o.Hit = disarm()
	}
	sopenv.L2.Fault = nil
	return o
}

// ---------------- observation ----------------

type storeObs struct {
	Listed    bool
	Exists    bool
	ExistsErr string
	OpenErr   string
	Count     int64
	Items     []txn.KV
	ScanErr   string
	Info      opt
	InfoName  string
	Folder    bool
	Files     []string // files below <dir>/<name>
	InList    bool     // named in storelist.txt
}

type observation struct {
	ListErr string
	Stores  map[string]*storeObs
	Tree    []string // every path below the folder except translogs/
}

func sortKV(a []txn.KV) {
	sort.Slice(a, func(i, j int) bool {
		if a[i].K != a[j].K {
			return a[i].K < a[j].K
		}
		return a[i].V < a[j].V
	})
}

func walkTree() []string {
	var r []string
	filepath.Walk(sopenv.Dir, func(p string, info os.FileInfo, err error) error {
		if err != nil {
			return nil
		}
		rel, _ := filepath.Rel(sopenv.Dir, p)
		if rel == "." {
			return nil
		}
		if info.IsDir() && rel == "translogs" {
			return filepath.SkipDir
		}
		if info.IsDir() {
			rel += "/"
		}
		r = append(r, rel)
		return nil
	})
	sort.Strings(r)
	return r
}

// observe looks at the named stores through fresh transactions (the caller decides about caches) and on disk.
func observe(names []string) *observation {
	ob := &observation{Stores: map[string]*storeObs{}}
	for _, n := range names {
		ob.Stores[n] = &storeObs{}
	}
	if p := invoke(func() {
		tx, err := infs.NewTransaction(ctx, sopenv.Opts(sop.ForReading))
		if err != nil {
			panic(err)
		}
		if err := tx.Begin(ctx); err != nil {
			panic(err)
		}
		list, err := tx.GetStores(ctx)
		if err != nil {
			ob.ListErr = err.Error()
		}
		for _, n := range names {
			so := ob.Stores[n]
			for _, l := range list {
				if l == n {
					so.Listed = true
				}
			}
			ex, err := infs.IsStoreExists(ctx, tx, n)
			so.Exists = ex
			if err != nil {
				so.ExistsErr = err.Error()
			}
		}
		tx.Rollback(ctx)
		tx.Close()
		// one transaction per store: OpenBtree of a missing store ends the transaction
		for _, n := range names {
			so := ob.Stores[n]
			tx, err := infs.NewTransaction(ctx, sopenv.Opts(sop.ForReading))
			if err != nil {
				panic(err)
			}
			if err := tx.Begin(ctx); err != nil {
				panic(err)
			}
			b, err := infs.OpenBtree[int, string](ctx, n, tx, nil)
			if err != nil {
				so.OpenErr = err.Error()
			} else {
				so.Count = b.Count()
				si := b.GetStoreInfo()
				so.InfoName = si.Name
				so.Info = opt{Slot: si.SlotLength, Unique: si.IsUnique}
				switch {
				case si.IsValueDataInNodeSegment:
					so.Info.Place = "node"
				case si.IsValueDataActivelyPersisted && si.IsValueDataGloballyCached:
					so.Info.Place = "active+global"
				case si.IsValueDataActivelyPersisted:
					so.Info.Place = "active"
				case si.IsValueDataGloballyCached:
					so.Info.Place = "global"
				default:
					so.Info.Place = "segment"
				}
				kv, err := txn.Scan(ctx, b)
				if err != nil {
					so.ScanErr = err.Error()
				}
				sortKV(kv)
				so.Items = kv
			}
			if tx.HasBegun() {
				if err := tx.Commit(ctx); err != nil && so.ScanErr == "" && so.OpenErr == "" {
					so.ScanErr = "reader commit: " + err.Error()
				}
			}
			tx.Close()
		}
	}); p != "" {
		ob.ListErr = "PANIC while observing: " + p
	}
	// disk
	ob.Tree = walkTree()
	var listed []string
	if b, err := os.ReadFile(filepath.Join(sopenv.Dir, "storelist.txt")); err == nil {
		json.Unmarshal(b, &listed)
	}
	for _, n := range names {
		so := ob.Stores[n]
		for _, l := range listed {
			if l == n {
				so.InList = true
			}
		}
		for _, p := range ob.Tree {
			if p == n+"/" {
				so.Folder = true
			}
			if strings.HasPrefix(p, n+"/") && !strings.HasSuffix(p, "/") {
				so.Files = append(so.Files, p)
			}
		}
	}
	return ob
}

// ---------------- oracle ----------------

var replayMode bool
var replayFound int

func violate(run *ev.Run, v ev.Violation) {
	if replayMode {
		replayFound++
		fmt.Printf("VIOLATION sig=%s\n  %s\n", v.Sig, v.Detail)
		return
	}
	run.Violate(v)
}

type checker struct {
	run    *ev.Run
	part   string
	class  string // coarse class of the case (ending / fault kind and position)
	detail string // concrete failing input
	replay any
	n      int
}

func (c *checker) fail(what, fine, msg string) {
	c.n++
	sig := fmt.Sprintf("%s|%s", what, c.part)
	if fine != "" {
		sig += "|" + fine
	}
	if c.class != "" {
		sig += "|" + c.class
	}
	violate(c.run, ev.Violation{Sig: sig, Detail: fmt.Sprintf("%s: %s — case: %s", what, msg, c.detail), Replay: c.replay})
}

// absent: the store must not exist in any observable way.
func (c *checker) absent(ob *observation, name, when, fine string) bool {
	so := ob.Stores[name]
	var bad []string
	if so.Listed {
		bad = append(bad, "GetStores lists it")
	}
	if so.Exists {
		bad = append(bad, "IsStoreExists=true")
	}
	if so.OpenErr == "" {
		bad = append(bad, fmt.Sprintf("OpenBtree succeeds (Count=%d items=%v)", so.Count, so.Items))
	}
	if so.InList {
		bad = append(bad, "storelist.txt names it")
	}
	if len(bad) > 0 {
		c.fail("ghost-store", fine, fmt.Sprintf("%s: store %q must not exist but %s; folder on disk=%v files=%v", when, name, strings.Join(bad, ", "), so.Folder, so.Files))
		return false
	}
	if so.Folder {
		c.fail("store-files-left", fine, fmt.Sprintf("%s: store %q must be gone but its folder is still on disk with files %v", when, name, so.Files))
		return false
	}
	return true
}

// present: the store exists with exactly these options and items.
func (c *checker) present(ob *observation, name string, o opt, items []txn.KV, when, fine string) {
	so := ob.Stores[name]
	want := append([]txn.KV(nil), items...)
	sortKV(want)
	if !so.Listed || !so.Exists || so.OpenErr != "" || !so.Folder || !so.InList {
		c.fail("store-missing", fine, fmt.Sprintf("%s: store %q must exist: listed=%v exists=%v(%s) open-error=%q folder=%v in-storelist=%v", when, name, so.Listed, so.Exists, so.ExistsErr, so.OpenErr, so.Folder, so.InList))
		return
	}
	if so.Info != o || so.InfoName != name {
		c.fail("wrong-options", fine, fmt.Sprintf("%s: store %q has options %s, created with %s", when, name, so.Info, o))
	}
	if so.ScanErr != "" {
		c.fail("store-unreadable", fine, fmt.Sprintf("%s: store %q scan failed: %s", when, name, so.ScanErr))
		return
	}
	if fmt.Sprint(so.Items) != fmt.Sprint(want) && !(len(so.Items) == 0 && len(want) == 0) {
		c.fail("wrong-items", fine, fmt.Sprintf("%s: store %q holds %v, expected %v", when, name, so.Items, want))
	} else if int(so.Count) != len(want) {
		c.fail("wrong-count", fine, fmt.Sprintf("%s: store %q Count()=%d with %d items %v", when, name, so.Count, len(want), so.Items))
	}
}

// onlyThese: apart from the base files nothing but the folders of the named stores may be in the tree.
func (c *checker) onlyThese(ob *observation, keep []string, when, fine string) {
	var extra []string
	for _, p := range ob.Tree {
		if p == "reghashmod.txt" || p == "storelist.txt" {
			continue
		}
		ok := false
		for _, k := range keep {
			if strings.HasPrefix(p, k+"/") {
				ok = true
			}
		}
		if !ok {
			extra = append(extra, p)
		}
	}
	if len(extra) > 0 {
		if len(extra) > 8 {
			extra = append(extra[:8], "...")
		}
		c.fail("store-files-left", fine, fmt.Sprintf("%s: paths that belong to no existing store: %v", when, extra))
	}
}

// rootCause names the input class of an aborted creation from the program and what its calls returned
// (used as the coarse part of a violation signature; it does not influence the verdict).
func rootCause(stores []storeDef, steps []string) string {
	all := strings.Join(steps, " ")
	if strings.Contains(all, "infs_sr already locked") {
		return "rc=store-list-lock-left-held"
	}
	for _, sd := range stores {
		if sd.Opt.Place == "active" && strings.Contains(all, "Add("+sd.Name+",") {
			return "rc=actively-persisted-add-then-abort"
		}
	}
	return "rc=none"
}

// ---------------- part: create (1 or 2 stores) ----------------

const otherName = "keep"

var otherSpec = txn.StoreSpec{Name: otherName, Slot: 4, Unique: true, Place: "node", Initial: []txn.KV{{K: 7, V: "k7"}, {K: 8, V: "k8"}}}
var otherOpt = opt{4, true, "node"}

type createCase struct {
	Part      string  `json:"part"`
	P         program `json:"program"`
	WithOther bool    `json:"with_other_store"`
	// Incompatible: the program's last NewBtree targets the existing store "keep" with other options.
	Incompatible bool `json:"second_newbtree_incompatible,omitempty"`
}

var haveTemplate bool

func startCase(withOther bool) {
	if !withOther {
		sopenv.FreshDir(500)
		return
	}
	if !haveTemplate {
		sopenv.FreshDir(400)
		if err := txn.Build(ctx, []txn.StoreSpec{otherSpec}); err != nil {
			panic(err)
		}
		sopenv.SaveTemplate()
		haveTemplate = true
	}
	sopenv.Restore(500)
}

func endingClass(p program, hit string) string {
	switch p.Fault.Kind {
	case "":
		return "end=" + p.End
	default:
		return fmt.Sprintf("end=commit-fault-%s|at=%s", p.Fault.Kind, hit)
	}
}

// runCreate executes one create case and judges it. Returns the fault-free call counts.
func runCreate(run *ev.Run, cc createCase, trace bool) (o *outcome) {
	startCase(cc.WithOther)
	o = runProgram(cc.P, trace)
	names := []string{}
	for _, sd := range cc.P.Stores {
		if sd.Name != otherName {
			names = append(names, sd.Name)
		}
	}
	var placesOf []string
	for _, sd := range cc.P.Stores {
		placesOf = append(placesOf, sd.Opt.Place)
	}
	c := &checker{run: run, part: cc.Part, class: endingClass(cc.P, o.Hit), replay: cc,
		detail: fmt.Sprintf("%s with_other_store=%v stores=%v end=%s fault=%+v(hit %q) steps=%v", cc.Part, cc.WithOther, cc.P.Stores, cc.P.End, cc.P.Fault, o.Hit, o.Steps)}
	fine := "place=" + strings.Join(placesOf, "+")
	if o.Panic != "" {
		c.fail("panic", fine, o.Panic)
	}
	if cc.P.Fault.Kind != "" && o.Hit == "" {
		// the fault position was not reached (cannot happen: positions come from the fault-free run)
		run.Add("fault_positions_not_reached", 1)
	}
	run.Add("evaluations", 1)
	if cc.P.Fault.Kind != "" {
		run.Add("fault_runs", 1)
		if o.Committed {
			run.Add("fault_runs_commit_still_succeeded", 1)
		} else {
			run.Add("fault_runs_transaction_failed", 1)
		}
	}
	keep := []string{}
	if cc.WithOther {
		keep = append(keep, otherName)
	}
	all := append(append([]string{}, names...), keep...)
	// cold caches, fresh transactions
	sopenv.ResetCaches()
	ob := observe(all)
	when := "after the creating transaction (cold caches)"
	if ob.ListErr != "" {
		c.fail("observe-failed", fine, ob.ListErr)
	}
	if o.Committed {
		for _, sd := range cc.P.Stores {
			if sd.Name == otherName {
				continue
			}
			c.present(ob, sd.Name, sd.Opt, o.Acked[sd.Name], when, fine)
		}
		c.onlyThese(ob, all, when, fine)
	} else {
		clean := true
		for _, sd := range cc.P.Stores {
			if sd.Name == otherName {
				continue
			}
			clean = c.absent(ob, sd.Name, when, rootCause(cc.P.Stores, o.Steps)+"|"+fine) && clean
		}
		if clean {
			c.onlyThese(ob, keep, when, fine)
		}
	}
	if cc.WithOther {
		c.present(ob, otherName, otherOpt, otherSpec.Initial, when+" [the other store must be untouched]", fine)
	}
	if !o.Committed && !cc.Incompatible {
		// the same creation, fault-free, must now succeed
		sopenv.ResetCaches()
		p2 := cc.P
		p2.Fault = faultPlan{}
		p2.End = "commit"
		o2 := runProgram(p2, false)
		sopenv.ResetCaches()
		ob2 := observe(all)
		when2 := "after creating again fault-free"
		if !o2.Committed {
			c.fail("recreate-failed", fine, fmt.Sprintf("%s: the creation does not succeed after the failed attempt: %v", when2, o2.Steps))
		} else {
			for _, sd := range p2.Stores {
				c.present(ob2, sd.Name, sd.Opt, o2.Acked[sd.Name], when2, fine)
			}
		}
		run.Add("recreations_after_failed_attempt", 1)
	}
	return o
}

// createJobs enumerates the fault-free endings and every fault position of one base program.
func explodeCreate(run *ev.Run, base createCase) {
	for _, end := range []string{"commit", "rollback"} {
		cc := base
		cc.P.End = end
		cc.P.Fault = faultPlan{}
		var o *outcome
		if !guarded(run, base.Part, cc, func() { o = runCreate(run, cc, end == "commit") }) {
			return
		}
		run.Add("distinct_nontrivial", 1)
		if end != "commit" {
			continue
		}
		if !o.Committed {
			// reported by runCreate's oracle only if the store is inconsistent; a fault-free commit must succeed
			violate(run, ev.Violation{Sig: "faultfree-commit-failed|" + base.Part, Detail: fmt.Sprintf("fault-free creation failed: %v", o.Steps), Replay: cc})
			return
		}
		run.Sample(map[string]any{"part": base.Part, "stores": fmt.Sprint(base.P.Stores), "with_other": base.WithOther, "l2_calls_in_window": o.L2, "file_ops_in_window": o.IO, "l2_trace": strings.Join(traceL2, " "), "io_trace": strings.Join(traceIO, " ")})
		for _, kind := range []string{"l2", "io"} {
			total := o.L2
			if kind == "io" {
				total = o.IO
			}
			for n := 1; n <= total; n++ {
				fc := base
				fc.P.End = "commit"
				fc.P.Fault = faultPlan{Kind: kind, N: n}
				if !guarded(run, base.Part, fc, func() { runCreate(run, fc, false) }) {
					return
				}
				run.Add("distinct_nontrivial", 1)
			}
		}
	}
}

// ---------------- part: recreate with different options ----------------

type recreateCase struct {
	Part   string `json:"part"`
	A      opt    `json:"old_options"`
	B      opt    `json:"new_options"`
	ItemsA int    `json:"old_items"`
	Cold   bool   `json:"cold_caches_between_steps"`
}

const stName = "st"

func removeBtree(name string) error {
	return infs.RemoveBtree(ctx, name, []string{sopenv.Dir}, nil, sop.InMemory)
}

func observeBoth(names []string, cold bool, f func(ob *observation, caches string)) {
	if !cold {
		f(observe(names), "warm caches")
	}
	sopenv.ResetCaches()
	f(observe(names), "cold caches")
}

func runRecreate(run *ev.Run, rc recreateCase) {
	sopenv.FreshDir(600)
	run.Add("evaluations", 1)
	run.Add("distinct_nontrivial", 1)
	c := &checker{run: run, part: rc.Part, class: fmt.Sprintf("caches=%s|old-items=%d", map[bool]string{true: "cold", false: "warm"}[rc.Cold], rc.ItemsA), replay: rc,
		detail: fmt.Sprintf("create %s with %d items, commit, RemoveBtree, create again with %s; cold=%v", rc.A, rc.ItemsA, rc.B, rc.Cold)}
	fine := fmt.Sprintf("old=%s|new=%s", rc.A.Place, rc.B.Place)
	names := []string{stName}
	reset := func() {
		if rc.Cold {
			sopenv.ResetCaches()
		}
	}
	// 1. create A
	oa := runProgram(program{Stores: []storeDef{{Name: stName, Opt: rc.A, Items: itemsN(rc.ItemsA, "a")}}, End: "commit"}, false)
	if !oa.Committed {
		c.fail("faultfree-commit-failed", fine, fmt.Sprint(oa.Steps))
		return
	}
	reset()
	ob := observe(names)
	c.present(ob, stName, rc.A, oa.Acked[stName], "after the first creation", fine)
	oldFiles := ob.Stores[stName].Files
	reset()
	// 2. remove
	var rerr error
	if p := invoke(func() { rerr = removeBtree(stName) }); p != "" {
		c.fail("panic", fine, "RemoveBtree: "+p)
		return
	}
	if rerr != nil {
		c.fail("remove-failed", fine, "RemoveBtree returned "+rerr.Error())
	}
	observeBoth(names, rc.Cold, func(ob *observation, caches string) {
		when := "after RemoveBtree (" + caches + ")"
		if c.absent(ob, stName, when, fine) {
			c.onlyThese(ob, nil, when, fine)
		}
		have := map[string]bool{}
		for _, p := range ob.Tree {
			have[p] = true
		}
		for _, f := range oldFiles {
			if have[f] {
				c.fail("old-file-left", fine, fmt.Sprintf("%s: file %s of the removed store is still there", when, f))
				break
			}
		}
	})
	if !rc.Cold {
		// the observation above ended cold; warm the caches again the way a running process would have them
		observe(names)
	}
	// 3. create B with the uniqueness probe
	ob3 := runProgram(program{Stores: []storeDef{{Name: stName, Opt: rc.B, Items: itemsN(1, "b"), DupProbe: true}}, End: "commit"}, false)
	if !ob3.Committed {
		c.fail("recreate-failed", fine, fmt.Sprintf("creating the store again with new options failed: %v", ob3.Steps))
		return
	}
	wantItems := itemsN(1, "b")
	if !rc.B.Unique {
		wantItems = append(wantItems, txn.KV{K: 1, V: "b1dup"})
	}
	if fmt.Sprint(ob3.Acked[stName]) != fmt.Sprint(wantItems) {
		c.fail("wrong-options", fine+"|uniqueness-probe", fmt.Sprintf("new store created with %s acknowledged the adds %v; a second Add of key 1 must be accepted iff the store is not unique; steps %v", rc.B, ob3.Acked[stName], ob3.Steps))
	}
	observeBoth(names, rc.Cold, func(ob *observation, caches string) {
		when := "after creating it again with new options (" + caches + ")"
		c.present(ob, stName, rc.B, ob3.Acked[stName], when, fine)
		c.onlyThese(ob, names, when, fine)
		have := map[string]bool{}
		for _, p := range ob.Tree {
			have[p] = true
		}
		for _, f := range oldFiles {
			b := filepath.Base(f)
			if b == "storeinfo.txt" || strings.HasSuffix(b, ".reg") {
				continue // legitimately written again under the same name
			}
			if have[f] {
				c.fail("old-file-left", fine, fmt.Sprintf("%s: blob file %s of the removed store is there", when, f))
				break
			}
		}
	})
}

// ---------------- part: histories ----------------

type round struct {
	Opt   int    `json:"opt"`
	Items int    `json:"items"`
	End   string `json:"end"` // commit-remove | rollback | commit-keep
}

type historyCase struct {
	Part   string  `json:"part"`
	Rounds []round `json:"rounds"`
	Cold   bool    `json:"cold_caches_between_steps"`
}

var histOpts = []opt{{2, true, "node"}, {4, false, "segment"}, {4, true, "active"}, {2, false, "global"}}

func runHistory(run *ev.Run, hc historyCase) {
	sopenv.FreshDir(700)
	run.Add("evaluations", 1)
	run.Add("distinct_nontrivial", 1)
	var desc []string
	for _, r := range hc.Rounds {
		desc = append(desc, fmt.Sprintf("%s/%d/%s", histOpts[r.Opt], r.Items, r.End))
	}
	var ends []string
	for _, r := range hc.Rounds {
		ends = append(ends, r.End)
	}
	c := &checker{run: run, part: hc.Part, class: "", replay: hc,
		detail: fmt.Sprintf("rounds %v (ends %s) cold=%v", desc, strings.Join(ends, ","), hc.Cold)}
	names := []string{stName}
	for i, r := range hc.Rounds {
		o := histOpts[r.Opt]
		if c.n > 0 {
			return // later rounds only show knock-on effects of the first violation
		}
		prev := "first-round"
		if i > 0 {
			prev = "after-" + hc.Rounds[i-1].End
		}
		rcTag := "rc=none"
		if o.Place == "active" && r.Items > 0 && r.End == "rollback" {
			rcTag = "rc=actively-persisted-add-then-abort"
		}
		fine := fmt.Sprintf("%s|place=%s|round-end=%s|%s", rcTag, o.Place, r.End, prev)
		if hc.Cold {
			sopenv.ResetCaches()
		}
		end := "commit"
		if r.End == "rollback" {
			end = "rollback"
		}
		tag := fmt.Sprintf("r%d_", i+1)
		out := runProgram(program{Stores: []storeDef{{Name: stName, Opt: o, Items: itemsN(r.Items, tag)}}, End: end}, false)
		if out.Panic != "" {
			c.fail("panic", fine, out.Panic)
			return
		}
		if hc.Cold {
			sopenv.ResetCaches()
		}
		when := fmt.Sprintf("round %d (%s) after %s", i+1, o, end)
		if end == "rollback" {
			ob := observe(names)
			if c.absent(ob, stName, when, fine) {
				c.onlyThese(ob, nil, when, fine)
			}
			continue
		}
		if !out.Committed {
			c.fail("recreate-failed", fine, fmt.Sprintf("%s: creation failed: %v", when, out.Steps))
			return
		}
		ob := observe(names)
		c.present(ob, stName, o, out.Acked[stName], when, fine)
		c.onlyThese(ob, names, when, fine)
		if r.End == "commit-keep" {
			continue
		}
		if hc.Cold {
			sopenv.ResetCaches()
		}
		if err := removeBtree(stName); err != nil {
			c.fail("remove-failed", fine, fmt.Sprintf("round %d RemoveBtree returned %v", i+1, err))
		}
		if hc.Cold {
			sopenv.ResetCaches()
		}
		ob = observe(names)
		when = fmt.Sprintf("round %d (%s) after RemoveBtree", i+1, o)
		if c.absent(ob, stName, when, fine) {
			c.onlyThese(ob, nil, when, fine)
		}
	}
	if c.n > 0 {
		return
	}
	// final cold look
	sopenv.ResetCaches()
	ob := observe(names)
	last := hc.Rounds[len(hc.Rounds)-1]
	fine := fmt.Sprintf("place=%s|final-cold-look|last-round-end=%s", histOpts[last.Opt].Place, last.End)
	if last.End == "commit-keep" {
		tag := fmt.Sprintf("r%d_", len(hc.Rounds))
		c.present(ob, stName, histOpts[last.Opt], itemsN(last.Items, tag), "at the end (cold caches)", fine)
	} else {
		if c.absent(ob, stName, "at the end (cold caches)", fine) {
			c.onlyThese(ob, nil, "at the end (cold caches)", fine)
		}
	}
}

func histories(maxRounds int) [][]round {
	var out [][]round
	var rec func(cur []round)
	rec = func(cur []round) {
		if len(cur) > 0 {
			out = append(out, append([]round(nil), cur...))
		}
		if len(cur) == maxRounds || (len(cur) > 0 && cur[len(cur)-1].End == "commit-keep") {
			return
		}
		for oi := range histOpts {
			for _, end := range []string{"commit-remove", "rollback", "commit-keep"} {
				items := (oi + len(cur)) % 3
				rec(append(cur, round{Opt: oi, Items: items, End: end}))
			}
		}
	}
	rec(nil)
	return out
}

// ---------------- jobs ----------------

type job struct {
	Kind string `json:"kind"`
	Idx  int    `json:"idx"`
}

func guarded(run *ev.Run, label string, replay any, f func()) bool {
	done := make(chan struct{})
	go func() { f(); close(done) }()
	select {
	case <-done:
		return true
	case <-time.After(120 * time.Second):
		violate(run, ev.Violation{Sig: "hang|" + label, Detail: "case did not return within 120 s (sop sleeps are virtual)", Replay: replay})
		run.NotExhaustive("a case hung; the rest of its job was not explored")
		return false
	}
}

func createBases(thorough bool) []createCase {
	opts := quickOpts()
	if thorough {
		opts = allOpts()
	}
	var r []createCase
	for _, o := range opts {
		for n := 0; n <= 2; n++ {
			for _, wo := range []bool{false, true} {
				r = append(r, createCase{Part: "create", WithOther: wo, P: program{Stores: []storeDef{{Name: stName, Opt: o, Items: itemsN(n, "a")}}}})
			}
		}
	}
	return r
}

func twoBases(thorough bool) []createCase {
	pairs := [][2]opt{{{4, true, "node"}, {2, false, "segment"}}, {{2, true, "active"}, {4, true, "node"}}, {{2, false, "global"}, {4, false, "active"}}}
	if thorough {
		pairs = append(pairs, [2]opt{{2, true, "segment"}, {2, true, "segment"}}, [2]opt{{4, false, "node"}, {4, true, "global"}}, [2]opt{{4, true, "active"}, {2, false, "global"}})
	}
	var r []createCase
	for _, p := range pairs {
		for _, n := range []int{0, 2} {
			for _, wo := range []bool{false, true} {
				r = append(r, createCase{Part: "two-stores", WithOther: wo, P: program{Stores: []storeDef{
					{Name: "st1", Opt: p[0], Items: itemsN(n, "x")}, {Name: "st2", Opt: p[1], Items: itemsN(2-n/2, "y")}}}})
			}
		}
		// the second NewBtree fails by itself: "keep" exists with other options
		bad := otherOpt
		bad.Slot = 2
		bad.Unique = false
		r = append(r, createCase{Part: "two-stores-second-incompatible", WithOther: true, Incompatible: true, P: program{End: "commit", Stores: []storeDef{
			{Name: "st1", Opt: p[0], Items: itemsN(2, "x")}, {Name: otherName, Opt: bad}}}})
	}
	return r
}

func recreateCases(thorough bool) []recreateCase {
	var r []recreateCase
	opts := allOpts()
	for _, a := range opts {
		for _, b := range opts {
			if a == b {
				continue
			}
			for _, n := range []int{0, 3} {
				for _, cold := range []bool{false, true} {
					if !thorough && (n == 0) != cold {
						// quick: (no items, cold) and (3 items, warm)
						continue
					}
					r = append(r, recreateCase{Part: "recreate", A: a, B: b, ItemsA: n, Cold: cold})
				}
			}
		}
	}
	return r
}

func main() {
	run := ev.New("C12", "fault_enumeration")
	thorough := run.Thorough()
	install()
	cb := createBases(thorough)
	tb := twoBases(thorough)
	rcs := recreateCases(thorough)
	hs := histories(3)
	const recChunk, histChunk = 40, 60

	for i, a := range os.Args {
		if a == "--replay" && i+1 < len(os.Args) {
			doReplay(run, os.Args[i+1])
		}
	}

	if j := ev.Job(); j != "" {
		var jb job
		json.Unmarshal([]byte(j), &jb)
		defer sopenv.Cleanup()
		switch jb.Kind {
		case "create":
			explodeCreate(run, cb[jb.Idx])
		case "two":
			base := tb[jb.Idx]
			if base.Incompatible {
				guarded(run, base.Part, base, func() {
					o := runCreate(run, base, false)
					run.Add("distinct_nontrivial", 1)
					if !o.Failed {
						run.Add("incompatible_newbtree_unexpectedly_accepted", 1)
					}
				})
			} else {
				explodeCreate(run, base)
			}
		case "recreate":
			for k := jb.Idx * recChunk; k < len(rcs) && k < (jb.Idx+1)*recChunk; k++ {
				rc := rcs[k]
				if !guarded(run, "recreate", rc, func() { runRecreate(run, rc) }) {
					break
				}
			}
		case "history":
			for k := jb.Idx * histChunk; k < len(hs) && k < (jb.Idx+1)*histChunk; k++ {
				for _, cold := range []bool{false, true} {
					hc := historyCase{Part: "history", Rounds: hs[k], Cold: cold}
					if !guarded(run, "history", hc, func() { runHistory(run, hc) }) {
						break
					}
				}
			}
		}
		sopenv.Cleanup()
		run.EmitPartial()
	}

	var jobs []string
	addJob := func(kind string, idx int) {
		b, _ := json.Marshal(job{kind, idx})
		jobs = append(jobs, string(b))
	}
	for i := range cb {
		addJob("create", i)
	}
	for i := range tb {
		addJob("two", i)
	}
	for i := 0; i*recChunk < len(rcs); i++ {
		addJob("recreate", i)
	}
	for i := 0; i*histChunk < len(hs); i++ {
		addJob("history", i)
	}
	dl := 15 * time.Minute
	if thorough {
		dl = time.Hour
	}
	run.Parallel(jobs, 0, dl, func(job, out string) *ev.Violation {
		return &ev.Violation{Sig: "crash|job", Detail: "worker " + job + " died: " + out, Replay: map[string]any{"job": job}}
	})
	run.Set("create_base_programs", len(cb))
	run.Set("two_store_base_programs", len(tb))
	run.Set("recreate_cases", len(rcs))
	run.Set("histories", len(hs)*2)
	run.Set("rule", "create: every base program (option set x 0..2 items x with/without another store) is run with Commit, with Rollback and with ONE injected error at every L2 call index and at every file operation index (fs.FileIO, registry DirectIO, transaction log) that the fault-free run makes between Begin and the return of Commit (NewBtree, Add and Commit are all inside the window); two-stores: the same for transactions creating two stores; recreate: every ordered pair of different option sets (2 slot lengths x unique x 4 value placements = 16 sets, 240 pairs) x old store empty / 3 items x warm / cold caches (quick: the diagonal of the last two); history: every sequence of 1..3 rounds over 4 option sets x {commit+remove, rollback, commit and keep (last round only)}, warm and cold; distinct_nontrivial counts executed cases, all distinct by construction; every case is non-trivial: it creates at least one store on disk")
	run.Assumption("single folder layout (no replication, no erasure coding); the active/passive layout is not covered here")
	run.Assumption("the concurrent-creation clause (several transactions creating the same name yield a single store) is NOT covered by this check; it is covered by the lead's scheduler engine")
	run.Assumption("faults are single transient errors (the failing call returns an error once, later calls work); sop.Retry back-off shortened to 1 ms and sop.Sleep virtualised, which changes no decision")
	run.Assumption("a transaction 'fails' when NewBtree, Add or Commit returns an error; the harness then calls Rollback if the transaction still reports HasBegun, as an application would")
	run.Assumption("stores are removed with infs.RemoveBtree (database.RemoveBtree is a thin wrapper around it); verification uses tx.GetStores, infs.IsStoreExists, infs.OpenBtree, Count, a full scan, GetStoreInfo, storelist.txt and a walk of the folder; translogs/ is not examined")
	run.Finish()
}

func doReplay(run *ev.Run, file string) {
	b, err := os.ReadFile(file)
	if err != nil {
		fmt.Fprintln(os.Stderr, err)
		os.Exit(2)
	}
	var f struct {
		Replay json.RawMessage `json:"replay"`
	}
	if err := json.Unmarshal(b, &f); err != nil {
		fmt.Fprintln(os.Stderr, "not a replay file:", err)
		os.Exit(2)
	}
	var head struct {
		Part string `json:"part"`
	}
	json.Unmarshal(f.Replay, &head)
	replayMode = true
	switch {
	case head.Part == "recreate":
		var rc recreateCase
		json.Unmarshal(f.Replay, &rc)
		runRecreate(run, rc)
	case head.Part == "history":
		var hc historyCase
		json.Unmarshal(f.Replay, &hc)
		runHistory(run, hc)
	default:
		var cc createCase
		json.Unmarshal(f.Replay, &cc)
		o := runCreate(run, cc, true)
		fmt.Println("steps:", o.Steps)
		fmt.Println("committed:", o.Committed, "fault hit at:", o.Hit)
		fmt.Println("l2 trace:", strings.Join(traceL2, " "))
		fmt.Println("io trace:", strings.Join(traceIO, " "))
		fmt.Println("tree:", walkTree())
	}
	sopenv.Cleanup()
	if replayFound == 0 {
		fmt.Println("no violation")
		os.Exit(0)
	}
	os.Exit(1)
}
