// c37m (C37, model part): TLC checks the TLA+ model of the node-version protocol (models/C37.tla) for three
// configurations, and validates every abstract trace that the schedule exploration of the implementation produced
// (schedx C37 with VERIF_C37_ABS) against that model (models/C37Trace.tla): each trace must be a behaviour of the
// specification, and the invariants must hold along it.
package main

import (
	"bufio"
	"bytes"
	"encoding/json"
	"fmt"
	"os"
	"os/exec"
	"path/filepath"
	"regexp"
	"sort"
	"strings"
	"time"

	"verif.local/mc/ev"
)

type absEvent struct {
	Op string   `json:"op"`
	T  int      `json:"t"`
	N  string   `json:"n,omitempty"`
	Ns []string `json:"ns,omitempty"`
}
type absTrace struct {
	Scenario   string              `json:"scenario"`
	Threads    []string            `json:"threads"`
	Upd        map[string][]string `json:"upd"`
	Events     []absEvent          `json:"events"`
	Unmodelled []string            `json:"unmodelled,omitempty"`
}

var reStates = regexp.MustCompile(`(\d+) states generated, (\d+) distinct states found`)

func root() string {
	exe, _ := os.Executable()
	return filepath.Dir(filepath.Dir(exe)) // /verif/bin/c37m -> /verif
}

func tlc(dir string, workers int, timeout time.Duration, args ...string) (string, error) {
	a := append([]string{"-workers", fmt.Sprint(workers), "-deadlock", "-metadir", filepath.Join(dir, "states")}, args...)
	cmd := exec.Command("tlc", a...)
	cmd.Dir = dir
	var out bytes.Buffer
	cmd.Stdout, cmd.Stderr = &out, &out
	if err := cmd.Start(); err != nil {
		return "", err
	}
	done := make(chan error, 1)
	go func() { done <- cmd.Wait() }()
	select {
	case err := <-done:
		return out.String(), err
	case <-time.After(timeout):
		cmd.Process.Kill()
		return out.String(), fmt.Errorf("timeout")
	}
}

func set(xs []string) string {
	var q []string
	for _, x := range xs {
		q = append(q, fmt.Sprintf("%q", x))
	}
	return "{" + strings.Join(q, ", ") + "}"
}

func main() {
	run := ev.New("C37", "model_checking")
	models := filepath.Join(root(), "models")
	work, _ := os.MkdirTemp("/dev/shm", "verif_c37m_")
	defer os.RemoveAll(work)
	for _, f := range []string{"C37.tla", "C37Trace.tla", "MC37.tla"} {
		b, err := os.ReadFile(filepath.Join(models, f))
		if err != nil {
			fmt.Fprintln(os.Stderr, "HARNESS FAILURE:", err)
			os.Exit(2)
		}
		os.WriteFile(filepath.Join(work, f), b, 0o644)
	}

	// 1. the model itself
	type cfg struct {
		name, T, N, upd string
		maxTry          int
	}
	cfgs := []cfg{{"B", "{t1, t2, t3}", "{n1}", "UpdB", 1}, {"A", "{t1, t2}", "{n1, n2}", "UpdA", 2}}
	if run.Thorough() {
		cfgs = append(cfgs, cfg{"C", "{t1, t2, t3}", "{n1, n2}", "UpdC", 1}, cfg{"B2", "{t1, t2, t3}", "{n1}", "UpdB", 2})
	}
	var states, trans int64
	for _, c := range cfgs {
		cf := fmt.Sprintf("SPECIFICATION Spec\nCONSTANTS\n  t1 = t1\n  t2 = t2\n  t3 = t3\n  n1 = n1\n  n2 = n2\n  T = %s\n  N = %s\n  Upd <- %s\n  MaxTry = %d\n  None = None\nINVARIANTS TypeOK NoTwoSuccessors ActiveWritten RecoveryRestores\n", c.T, c.N, c.upd, c.maxTry)
		os.WriteFile(filepath.Join(work, "MC37_"+c.name+".cfg"), []byte(cf), 0o644)
		out, err := tlc(work, 8, 40*time.Minute, "-config", "MC37_"+c.name+".cfg", "MC37.tla")
		m := reStates.FindStringSubmatch(out)
		if strings.Contains(out, "is violated") || strings.Contains(out, "Error:") && !strings.Contains(out, "No error has been found") {
			i := strings.Index(out, "Error:")
			detail := out[i:]
			if len(detail) > 6000 {
				detail = detail[:6000]
			}
			run.Violate(ev.Violation{Sig: "model-invariant|config=" + c.name, Detail: "TLC on models/C37.tla, configuration " + c.name + ": " + detail, Replay: map[string]any{"config": c}})
			continue
		}
		if err != nil || m == nil || !strings.Contains(out, "No error has been found") {
			if err != nil && err.Error() == "timeout" {
				run.NotExhaustive("TLC configuration " + c.name + " stopped by its deadline")
				continue
			}
			fmt.Fprintln(os.Stderr, "HARNESS FAILURE: TLC did not complete for configuration", c.name, err, "\n", tailStr(out, 2000))
			os.Exit(2)
		}
		var g, d int64
		fmt.Sscan(m[1], &g)
		fmt.Sscan(m[2], &d)
		states += d
		trans += g
		run.Sample(map[string]any{"model_config": c.name, "T": c.T, "N": c.N, "Upd": c.upd, "MaxTry": c.maxTry, "distinct_states": d, "states_generated": g, "invariants": "TypeOK NoTwoSuccessors ActiveWritten RecoveryRestores"})
	}

	// 2. implementation traces against the model
	dir := os.Getenv("VERIF_C37_ABS")
	var traces []absTrace
	skipped := map[string]int{}
	if dir != "" {
		files, _ := filepath.Glob(filepath.Join(dir, "*.jsonl"))
		sort.Strings(files)
		seen := map[string]bool{}
		for _, f := range files {
			fh, err := os.Open(f)
			if err != nil {
				continue
			}
			sc := bufio.NewScanner(fh)
			sc.Buffer(make([]byte, 1<<20), 1<<26)
			for sc.Scan() {
				var t absTrace
				if json.Unmarshal(sc.Bytes(), &t) != nil {
					continue
				}
				if len(t.Unmodelled) > 0 {
					skipped[t.Scenario]++
					continue
				}
				t2 := t
				t2.Scenario = ""
				k, _ := json.Marshal(t2)
				if seen[string(k)] || len(t.Events) == 0 {
					continue
				}
				seen[string(k)] = true
				traces = append(traces, t)
			}
			fh.Close()
		}
	}
	groups := map[string][]absTrace{}
	for _, t := range traces {
		k, _ := json.Marshal(map[string]any{"T": t.Threads, "U": t.Upd})
		groups[string(k)] = append(groups[string(k)], t)
	}
	var keys []string
	for k := range groups {
		keys = append(keys, k)
	}
	sort.Strings(keys)
	var validated int64
	perScenario := map[string]int{}
	for gi, k := range keys {
		g := groups[k]
		nodes := map[string]bool{}
		maxTry := 1
		for _, t := range g {
			locks := map[int]int{}
			for _, e := range t.Events {
				if e.N != "" {
					nodes[e.N] = true
				}
				for _, n := range e.Ns {
					nodes[n] = true
				}
				if e.Op == "Lock" {
					locks[e.T]++
					if locks[e.T] > maxTry {
						maxTry = locks[e.T]
					}
				}
			}
		}
		var ns []string
		for n := range nodes {
			ns = append(ns, n)
		}
		sort.Strings(ns)
		var sb strings.Builder
		sb.WriteString("------------------------------ MODULE TraceData ------------------------------\nEXTENDS TLC\n")
		sb.WriteString("TraceUpd == ")
		for i, t := range g[0].Threads {
			if i > 0 {
				sb.WriteString(" @@ ")
			}
			fmt.Fprintf(&sb, "(%q :> %s)", t, set(g[0].Upd[t]))
		}
		sb.WriteString("\nTraces == <<\n")
		for i, t := range g {
			if i > 0 {
				sb.WriteString(",\n")
			}
			sb.WriteString(" <<")
			for j, e := range t.Events {
				if j > 0 {
					sb.WriteString(", ")
				}
				n := e.N
				if n == "" {
					n = "-"
				}
				fmt.Fprintf(&sb, "[op |-> %q, t |-> \"t%d\", n |-> %q]", e.Op, e.T, n)
			}
			sb.WriteString(">>")
		}
		sb.WriteString("\n>>\n=============================================================================\n")
		gd := filepath.Join(work, fmt.Sprintf("g%d", gi))
		os.MkdirAll(gd, 0o755)
		for _, f := range []string{"C37.tla", "C37Trace.tla"} {
			b, _ := os.ReadFile(filepath.Join(work, f))
			os.WriteFile(filepath.Join(gd, f), b, 0o644)
		}
		os.WriteFile(filepath.Join(gd, "TraceData.tla"), []byte(sb.String()), 0o644)
		cf := fmt.Sprintf("SPECIFICATION TSpec\nCONSTANTS\n  T = %s\n  N = %s\n  Upd <- TraceUpd\n  MaxTry = %d\n  None = None\nINVARIANTS Mark NoTwoSuccessors ActiveWritten\nPOSTCONDITION AllAccepted\n", set(g[0].Threads), set(ns), maxTry+1)
		os.WriteFile(filepath.Join(gd, "C37Trace.cfg"), []byte(cf), 0o644)
		out, err := tlc(gd, 1, 30*time.Minute, "-config", "C37Trace.cfg", "C37Trace.tla")
		switch {
		case strings.Contains(out, "ACCEPTED-ALL"):
			validated += int64(len(g))
			for _, t := range g {
				perScenario[t.Scenario]++
			}
		case strings.Contains(out, "REJECTED"):
			m := regexp.MustCompile(`"REJECTED", \{([0-9, ]+)\}`).FindStringSubmatch(out)
			bad := map[int]bool{}
			if m != nil {
				for _, f := range strings.Split(m[1], ",") {
					var j int
					fmt.Sscan(strings.TrimSpace(f), &j)
					bad[j] = true
				}
			}
			for i, t := range g {
				if bad[i+1] {
					ev0, _ := json.Marshal(t.Events)
					run.Violate(ev.Violation{Sig: "trace-rejected-by-model|" + t.Scenario, Detail: fmt.Sprintf("an execution of the implementation (scenario %s) abstracts to an event sequence that is NOT a behaviour of models/C37.tla (Upd=%v): %s", t.Scenario, t.Upd, ev0), Replay: t})
				} else {
					validated++
					perScenario[t.Scenario]++
				}
			}
		case strings.Contains(out, "is violated"):
			i := strings.Index(out, "Error:")
			d := out[i:]
			if len(d) > 5000 {
				d = d[:5000]
			}
			run.Violate(ev.Violation{Sig: "model-invariant-on-implementation-trace|" + g[0].Scenario, Detail: "along an implementation trace the model's invariant fails: " + d, Replay: g[0]})
		default:
			fmt.Fprintln(os.Stderr, "HARNESS FAILURE: trace validation did not complete for group", k, err, "\n", tailStr(out, 3000))
			os.Exit(2)
		}
		if m := reStates.FindStringSubmatch(out); m != nil {
			var gg int64
			fmt.Sscan(m[1], &gg)
			run.Add("trace_validation_states_generated", gg)
		}
	}
	run.Set("states", states)
	run.Set("transitions", trans)
	run.Set("traces_validated_against_impl", validated)
	run.Set("trace_groups", len(keys))
	run.Set("traces_per_scenario", perScenario)
	run.Set("executions_not_abstractable_per_scenario", skipped)
	run.Set("evaluations", validated)
	run.Set("distinct_nontrivial", validated)
	run.Set("rule", "TLC, exhaustive breadth-first search of models/C37.tla per configuration (states = distinct states summed, transitions = states generated summed); implementation binding: every DISTINCT abstract event sequence produced by the schedule exploration of the real code (locks granted/released, registry record writes classified Stage/Flip/Unstage, blob writes/deletes, priority log written/removed, recorded when each operation executes) is checked by TLC to be a behaviour of the model with unobservable steps (Read, Check, Abort, Done) interleaved freely (models/C37Trace.tla, one TLC run per (threads, Upd) group, acceptance recorded in TLC registers and demanded by a post-condition)")
	run.Assumption("executions in which a node is added to or removed from the tree (registry record added/removed, removal marks) are outside the model's alphabet and are not validated (counted in executions_not_abstractable_per_scenario); they remain covered by the monitor of the exploration part")
	run.Assumption("the crash/recovery actions of the model (Die, Recover, LockExpire, WipExpire) are model-checked but have no implementation traces: recovery never runs on this tree (C09 finding) and crash points are explored by FAULTX (C08)")
	if dir == "" {
		run.Assumption("VERIF_C37_ABS not set: no implementation traces were validated in this run")
	}
	os.RemoveAll(work) // Finish exits the process: deferred clean-up would not run
	run.Finish()
}

func tailStr(s string, n int) string {
	if len(s) > n {
		return s[len(s)-n:]
	}
	return s
}
