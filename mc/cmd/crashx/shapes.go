package main

import (
	"github.com/sharedcode/sop"
	"verif.local/mc/txn"
)

// shape = pre-state (stores built by ordinary commits + one more committed transaction) and the
// transaction under test.
type shape struct {
	Name   string
	Stores []txn.StoreSpec
	// NewStores are created by the transaction under test itself (NewBtree inside it).
	NewStores []txn.StoreSpec
	Pre       []txn.Prog
	Test      txn.Prog
}

func kv(pairs ...any) []txn.KV {
	var r []txn.KV
	for i := 0; i < len(pairs); i += 2 {
		r = append(r, txn.KV{K: pairs[i].(int), V: pairs[i+1].(string)})
	}
	return r
}
func st(name string, slot int, place string, initial ...any) txn.StoreSpec {
	return txn.StoreSpec{Name: name, Slot: slot, Unique: true, Place: place, Initial: kv(initial...)}
}
func op(kind, store string, k int, v ...string) txn.Op {
	o := txn.Op{Kind: kind, Store: store, K: k}
	if len(v) > 0 {
		o.V = v[0]
	}
	return o
}
func W(name string, ops ...txn.Op) txn.Prog {
	return txn.Prog{Name: name, Mode: sop.ForWriting, Ops: ops, End: "commit"}
}

var five = []any{1, "a", 2, "b", 3, "c", 4, "d", 5, "e"}

func shapes(thorough bool) []shape {
	pre := func(store string) []txn.Prog { return []txn.Prog{W("pre", op("upsert", store, 3, "c2"))} }
	s := []shape{
		{Name: "update-in-place", Stores: []txn.StoreSpec{st("a", 4, "node", 1, "a", 2, "b", 3, "c")}, Pre: pre("a"), Test: W("T", op("update", "a", 1, "new"))},
		{Name: "add-to-leaf", Stores: []txn.StoreSpec{st("a", 4, "node", 1, "a", 2, "b", 3, "c")}, Pre: pre("a"), Test: W("T", op("add", "a", 4, "new"))},
		{Name: "add-forcing-split", Stores: []txn.StoreSpec{st("a", 2, "node", 1, "a", 2, "b", 3, "c")}, Pre: pre("a"), Test: W("T", op("add", "a", 4, "new"), op("add", "a", 5, "new5"))},
		{Name: "remove-emptying-leaf", Stores: []txn.StoreSpec{st("a", 2, "node", five...)}, Pre: pre("a"), Test: W("T", op("remove", "a", 1))},
		{Name: "remove-inner-item", Stores: []txn.StoreSpec{st("a", 2, "node", five...)}, Pre: pre("a"), Test: W("T", op("remove", "a", 2), op("remove", "a", 4))},
		{Name: "mixed", Stores: []txn.StoreSpec{st("a", 2, "node", five...)}, Pre: pre("a"), Test: W("T", op("add", "a", 6, "n6"), op("update", "a", 1, "u1"), op("remove", "a", 5))},
		{Name: "two-stores", Stores: []txn.StoreSpec{st("a", 4, "node", 1, "a", 2, "b", 3, "c"), st("b", 2, "node", 1, "x", 2, "y", 3, "z")}, Pre: pre("a"), Test: W("T", op("update", "a", 1, "na"), op("add", "b", 4, "nb"), op("remove", "b", 1))},
		{Name: "first-item-of-empty-store", Stores: []txn.StoreSpec{st("a", 4, "node", 1, "a", 3, "c"), st("e", 4, "node")}, Pre: pre("a"), Test: W("T", op("add", "e", 1, "first"), op("update", "a", 1, "na"))},
		{Name: "new-store-in-transaction", Stores: []txn.StoreSpec{st("a", 4, "node", 1, "a", 3, "c")}, NewStores: []txn.StoreSpec{st("n", 4, "node")}, Pre: pre("a"), Test: W("T", op("add", "n", 1, "first"), op("update", "a", 1, "na"))},
		{Name: "segment-values", Stores: []txn.StoreSpec{st("a", 2, "segment", 1, "a", 2, "b", 3, "c")}, Pre: pre("a"), Test: W("T", op("update", "a", 1, "new"), op("add", "a", 4, "n4"), op("remove", "a", 2))},
		{Name: "active-values", Stores: []txn.StoreSpec{st("a", 4, "active", 1, "a", 2, "b", 3, "c")}, Pre: pre("a"), Test: W("T", op("update", "a", 1, "new"), op("add", "a", 4, "n4"), op("remove", "a", 2))},
		{Name: "global-values", Stores: []txn.StoreSpec{st("a", 4, "global", 1, "a", 2, "b", 3, "c")}, Pre: pre("a"), Test: W("T", op("update", "a", 1, "new"), op("add", "a", 4, "n4"), op("remove", "a", 2))},
	}
	return s
}

func (s shape) allStores() []txn.StoreSpec { return append(append([]txn.StoreSpec(nil), s.Stores...), s.NewStores...) }

func (s shape) names() []string {
	var n []string
	for _, x := range s.allStores() {
		n = append(n, x.Name)
	}
	return n
}

func (s shape) unique() map[string]bool {
	u := map[string]bool{}
	for _, x := range s.allStores() {
		u[x.Name] = x.Unique
	}
	return u
}

// models returns (before, after): the committed state before the transaction under test, and after it.
func (s shape) models() (txn.Model, txn.Model) {
	m := txn.NewModel(s.Stores)
	for _, p := range s.Pre {
		for _, o := range p.Ops {
			m.Apply(o, true)
		}
	}
	before := m.Clone()
	for _, ns := range s.NewStores {
		m[ns.Name] = nil
	}
	for _, o := range s.Test.Ops {
		m.Apply(o, true)
	}
	return before, m
}
