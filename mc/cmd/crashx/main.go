// crashx: exhaustive crash-point, torn-write and fault-position enumeration of a commit through the real
// filesystem backend. A writer child process runs the transaction under test with a plan (die at the
// k-th mutating file operation / after a partial write / fail the k-th operation); a fresh verifier
// process then performs what the system does on restart (ages passed) and dumps every store; fsck reads
// the disk independently. Serves C08, C09, C10 (crash part), C01, C07, C11.
package main

import (
	"bufio"
	"bytes"
	"encoding/base64"
	"encoding/json"
	"fmt"
	"os"
	"os/exec"
	"path/filepath"
	"runtime"
	"sort"
	"strings"
	"sync"
	"syscall"
	"time"

	"github.com/sharedcode/sop"
	"verif.local/mc/ev"
	"verif.local/mc/fsck"
	"verif.local/mc/sopenv"
	"verif.local/mc/txn"
	"verif.local/mc/vhook"
)

type plan struct {
	Mode   string // record | crash | torn | fault | l2fault | none
	K      int    // index of the mutating op (crash/torn), of any file op (fault) or L2 call (l2fault); 1-based
	T      int    // torn: bytes let through
	Errno  string // fault: EIO | ENOSPC
	Sticky bool   // fault: every later op on the same path fails too
	Retry  bool   // after the transaction under test, run the same program again fault-free (C07)
}

type ioEvent struct {
	A, N int // ordinal among all ops / among mutating ops (0 if not mutating)
	Op   string
	Path string
	Len  int
}

type childResult struct {
	Committed bool
	EndErr    string
	Aborted   bool
	OpErr     string
	Events    []ioEvent `json:",omitempty"`
	L2Methods []string  `json:",omitempty"`
	L2Calls   int
	Fired     bool
	// C07: state seen by a fresh transaction in the same process right after the failed commit, then the retry
	After      *txn.Dump `json:",omitempty"`
	Retry      *struct{ Committed bool; EndErr string } `json:",omitempty"`
	RetryOps   []string `json:",omitempty"`
	AfterRetry *txn.Dump `json:",omitempty"`
	TID        string
}

type verifyResult struct {
	Dump1     txn.Dump
	WriterErr string
	Dump2     txn.Dump
	Fsck      *fsck.Report
}

func rel(p string) string { return strings.TrimPrefix(strings.TrimPrefix(p, sopenv.Dir), "/") }

func child(s shape, pl plan) {
	sop.RetryStartDuration = time.Millisecond
	sopenv.FreshDir(1)
	if err := txn.Build(sopenv.Bg, s.Stores); err != nil {
		fmt.Println("@@FATAL build:", err)
		os.Exit(3)
	}
	for _, p := range s.Pre {
		if r := txn.Run(sopenv.Bg, p, nil); !r.Committed {
			fmt.Println("@@FATAL pre:", r.EndErr, r.OpenErr)
			os.Exit(3)
		}
	}
	res := childResult{}
	var mu sync.Mutex
	a, n := 0, 0
	stickyPath := ""
	active := true
	errno := func() error {
		if pl.Errno == "ENOSPC" {
			return &os.PathError{Op: "verif-injected", Path: "x", Err: syscall.ENOSPC}
		}
		return &os.PathError{Op: "verif-injected", Path: "x", Err: syscall.EIO}
	}
	vhook.Install(&vhook.Hooks{IO: func(op, path string, data []byte, off int64) error {
		mu.Lock()
		defer mu.Unlock()
		if !active {
			return nil
		}
		a++
		mut := vhook.Mutating(op)
		if mut {
			n++
		}
		switch pl.Mode {
		case "record":
			e := ioEvent{A: a, Op: op, Path: rel(path), Len: len(data)}
			if mut {
				e.N = n
			}
			res.Events = append(res.Events, e)
		case "crash":
			if mut && n == pl.K {
				os.Exit(137)
			}
		case "torn":
			if mut && n == pl.K {
				partial(op, path, data, off, pl.T)
				os.Exit(137)
			}
		case "fault", "fault-sticky":
			if a == pl.K {
				res.Fired = true
				if pl.Sticky {
					stickyPath = path
				}
				return errno()
			}
			if stickyPath != "" && path == stickyPath {
				return errno()
			}
		}
		return nil
	}})
	if pl.Mode == "l2fault" {
		calls := 0
		sopenv.L2.Fault = func(method string, keys []string) error {
			calls++
			if calls == pl.K {
				res.Fired = true
				return fmt.Errorf("verif: injected L2 failure in %s", method)
			}
			return nil
		}
	}
	base := sopenv.L2.Calls
	var l2trace []string
	if pl.Mode == "record" {
		sopenv.L2.Trace = &l2trace
	}
	newStores := map[string]txn.StoreSpec{}
	for _, ns := range s.NewStores {
		newStores[ns.Name] = ns
	}
	rec := txn.Run(sopenv.Bg, s.Test, newStores)
	res.Committed, res.EndErr, res.Aborted, res.TID = rec.Committed, rec.EndErr, rec.Aborted, rec.TID
	res.OpErr = rec.OpenErr
	for _, r := range rec.Results {
		if r.Err != "" {
			res.OpErr += " " + r.Err
		}
	}
	res.L2Calls = sopenv.L2.Calls - base
	for _, t := range l2trace {
		res.L2Methods = append(res.L2Methods, l2site(t))
	}
	sopenv.L2.Trace = nil
	mu.Lock()
	active = false
	mu.Unlock()
	sopenv.L2.Fault = nil
	if pl.Retry {
		d := txn.ReadAll(sopenv.Bg, s.names())
		res.After = &d
		if !rec.Committed {
			r2 := txn.Run(sopenv.Bg, s.Test, newStores)
			res.Retry = &struct {
				Committed bool
				EndErr    string
			}{r2.Committed, strings.TrimSpace(r2.EndErr + " " + r2.OpenErr + " " + opErrs(r2))}
			for _, x := range r2.Results {
				res.RetryOps = append(res.RetryOps, fmt.Sprintf("%s=>ok=%v found=%v val=%q err=%q", x.Op, x.OK, x.Found, x.Val, x.Err))
			}
			d2 := txn.ReadAll(sopenv.Bg, s.names())
			res.AfterRetry = &d2
		}
	}
	b, _ := json.Marshal(res)
	fmt.Printf("\n@@RESULT %s\n", b)
}

// l2site classifies an L2 call "Method key,key" as Method:<key class>.
func l2site(t string) string {
	parts := strings.SplitN(t, " ", 2)
	cls := "other"
	if len(parts) == 2 {
		k := parts[1]
		switch {
		case strings.HasPrefix(k, "lock:lock:infs"), strings.HasPrefix(k, "lock:infs"):
			cls = "fileregion-lock"
		case strings.HasPrefix(k, "lock:/"), strings.HasPrefix(k, "/"):
			cls = "storeinfo"
		case strings.HasPrefix(k, "lock:DTrollbk"):
			cls = "rollback-lock"
		case strings.HasPrefix(k, "lock:"):
			cls = "lock"
		case strings.HasPrefix(k, "N"):
			cls = "node"
		case strings.HasPrefix(k, "V"):
			cls = "value"
		case len(k) >= 36:
			cls = "handle"
		}
	}
	return parts[0] + ":" + cls
}

// fileSite classifies a file operation as op:<file class>.
func fileSite(e ioEvent) string {
	p := e.Path
	cls := "blob"
	switch {
	case strings.HasSuffix(p, ".reg"):
		cls = "reg"
	case strings.HasSuffix(p, ".cow"):
		cls = "cow"
	case strings.HasSuffix(p, "storeinfo.txt"):
		cls = "storeinfo"
	case strings.HasSuffix(p, "storelist.txt"):
		cls = "storelist"
	case strings.HasSuffix(p, ".log"):
		cls = "log"
	case strings.HasSuffix(p, ".plg"):
		cls = "plg"
	case strings.HasSuffix(p, ".txt"):
		cls = "txt"
	case e.Op == "MkdirAll" || e.Op == "RemoveAll" || e.Op == "ReadDir":
		cls = "dir"
	}
	return e.Op + ":" + cls
}

func opErrs(r *txn.Record) string {
	var s []string
	for _, x := range r.Results {
		if x.Err != "" {
			s = append(s, x.Err)
		}
	}
	return strings.Join(s, "; ")
}

// partial performs the first t bytes of a write the way the real call would have started it.
func partial(op, path string, data []byte, off int64, t int) {
	switch op {
	case "WriteFile":
		if t > len(data) {
			t = len(data)
		}
		os.WriteFile(path, data[:t], 0o644) // O_TRUNC + partial content (t=0: truncated, empty)
	case "pwrite":
		if t > len(data) {
			t = len(data)
		}
		if f, err := os.OpenFile(path, os.O_WRONLY, 0o644); err == nil {
			f.WriteAt(data[:t], off)
			f.Close()
		}
	case "append":
		line, _ := json.Marshal(map[string]any{"Key": off, "Value": base64.StdEncoding.EncodeToString(data)})
		line = append(line, '\n')
		if t > len(line) {
			t = len(line)
		}
		if f, err := os.OpenFile(path, os.O_WRONLY|os.O_APPEND, 0o644); err == nil {
			f.Write(line[:t])
			f.Close()
		}
	}
}

func verify(s shape, age time.Duration) {
	start := time.Now()
	vhook.Install(&vhook.Hooks{Now: func() time.Time { return time.Now().Add(age) }})
	_ = start
	var vr verifyResult
	names := s.names()
	// what the system does on restart: new transactions begin, open, read, commit
	vr.Dump1 = txn.ReadAll(sopenv.Bg, names)
	// a writer touching the same keys must be able to commit
	var ops []txn.Op
	for _, st := range s.Stores {
		ops = append(ops, op("upsert", st.Name, 1, "post"))
	}
	w := txn.Run(sopenv.Bg, W("post", ops...), nil)
	if !w.Committed {
		vr.WriterErr = strings.TrimSpace("commit: " + w.EndErr + " " + w.OpenErr + " " + opErrs(w))
	}
	for i := 0; i < 3; i++ { // more ordinary transactions (C09: "starting new transactions")
		txn.ReadAll(sopenv.Bg, names[:1])
	}
	sopenv.ResetCaches()
	vr.Dump2 = txn.ReadAll(sopenv.Bg, names)
	vr.Fsck = fsck.Check(sopenv.Dir)
	b, _ := json.Marshal(vr)
	fmt.Printf("\n@@VERIFY %s\n", b)
}

func runSelf(base string, timeout time.Duration, args ...string) (string, int) {
	cmd := exec.Command(os.Args[0], args...)
	cmd.Env = append(os.Environ(), "VERIF_BASE="+base, "GOMAXPROCS=2")
	var out bytes.Buffer
	cmd.Stdout = &out
	cmd.Stderr = &out
	if err := cmd.Start(); err != nil {
		return err.Error(), -1
	}
	done := make(chan error, 1)
	go func() { done <- cmd.Wait() }()
	select {
	case <-done:
	case <-time.After(timeout):
		cmd.Process.Kill()
		<-done
		return out.String(), -2
	}
	return out.String(), cmd.ProcessState.ExitCode()
}

func extract(out, tag string, v any) bool {
	sc := bufio.NewScanner(strings.NewReader(out))
	sc.Buffer(make([]byte, 1<<20), 1<<28)
	for sc.Scan() {
		if strings.HasPrefix(sc.Text(), tag+" ") {
			return json.Unmarshal([]byte(sc.Text()[len(tag)+1:]), v) == nil
		}
	}
	return false
}

type caseOut struct {
	shape   int
	site    string
	pl      plan
	child   *childResult
	crashed bool
	vr      *verifyResult
	infra   string
}

func main() {
	if len(os.Args) > 1 && os.Args[1] == "child" {
		var pl plan
		json.Unmarshal([]byte(os.Args[3]), &pl)
		child(shapeByArg(os.Args[2]), pl)
		return
	}
	if len(os.Args) > 1 && os.Args[1] == "verify" {
		var ageMin int
		fmt.Sscan(os.Args[3], &ageMin)
		verify(shapeByArg(os.Args[2]), time.Duration(ageMin)*time.Minute)
		return
	}
	prop := os.Args[1]
	level := "fault_enumeration"
	run := ev.New(prop, level)
	thorough := run.Thorough()
	all := shapes(thorough)
	if !thorough {
		var q []shape
		for _, s := range all {
			switch s.Name {
			case "update-in-place", "add-forcing-split", "two-stores", "segment-values", "new-store-in-transaction":
				q = append(q, s)
			}
		}
		all = q
	}
	root := fmt.Sprintf("/dev/shm/verif_crashx_%d", os.Getpid())
	os.MkdirAll(root, 0o755)
	defer os.RemoveAll(root)
	ev.OnExit(func() { os.RemoveAll(root) })

	// 1. reference traces (twice: must be identical => the child is deterministic)
	type ref struct {
		events []ioEvent
		l2     int
		l2m    []string
	}
	refs := make([]ref, len(all))
	for i := range all {
		var r1, r2 childResult
		b1 := filepath.Join(root, fmt.Sprintf("ref%d_a", i))
		o1, _ := runSelf(b1, 2*time.Minute, "child", all[i].Name, `{"Mode":"record"}`)
		o2, _ := runSelf(b1, 2*time.Minute, "child", all[i].Name, `{"Mode":"record"}`)
		os.RemoveAll(b1)
		if !extract(o1, "@@RESULT", &r1) || !extract(o2, "@@RESULT", &r2) || !r1.Committed {
			fmt.Fprintf(os.Stderr, "HARNESS FAILURE: reference run of shape %s failed:\n%s\n", all[i].Name, tail(o1, 2000))
			os.Exit(2)
		}
		j1, _ := json.Marshal(r1.Events)
		j2, _ := json.Marshal(r2.Events)
		if string(j1) != string(j2) || r1.L2Calls != r2.L2Calls {
			fmt.Fprintf(os.Stderr, "DIVERGENCE: reference trace of shape %s is not reproducible\n", all[i].Name)
			os.Exit(2)
		}
		refs[i] = ref{r1.Events, r1.L2Calls, r1.L2Methods}
	}
	run.Set("reference_traces_stable", true)
	// fault-free baseline of fsck findings per shape (orphans that exist without any fault are reported once,
	// under mode "none", and are not attributed to every fault plan again)
	baseOrphans := make([]map[string]bool, len(all))
	for i := range all {
		baseOrphans[i] = map[string]bool{}
		b := filepath.Join(root, fmt.Sprintf("base%d", i))
		o, _ := runSelf(b, 5*time.Minute, "child", all[i].Name, `{"Mode":"none","Retry":true}`)
		var cr childResult
		var vr verifyResult
		vo, _ := runSelf(b, 5*time.Minute, "verify", all[i].Name, "130")
		os.RemoveAll(b)
		if !extract(o, "@@RESULT", &cr) || !extract(vo, "@@VERIFY", &vr) || !cr.Committed {
			fmt.Fprintf(os.Stderr, "HARNESS FAILURE: fault-free run of shape %s failed\n", all[i].Name)
			os.Exit(2)
		}
		run.Add("evaluations", 1)
		c := caseOut{shape: i, site: "fault-free", pl: plan{Mode: "none"}, child: &cr, vr: &vr}
		judgeBase = nil
		judge(run, prop, all[i], &c)
		for n, sr := range vr.Fsck.Stores {
			for _, ob := range sr.OrphanBlobs {
				baseOrphans[i][n+"/"+ob] = true
			}
			for _, oh := range sr.OrphanHandles {
				baseOrphans[i][n+"/h/"+oh] = true
			}
		}
	}

	// 2. plans
	var cases []caseOut
	perShape := []map[string]any{}
	for i, s := range all {
		M := 0
		for _, e := range refs[i].events {
			if e.N > M {
				M = e.N
			}
		}
		nPlans := 0
		switch prop {
		case "C08", "C09", "C10", "C37":
			mutSite := map[int]string{M + 1: "after-last-op"}
			for _, e := range refs[i].events {
				if e.N > 0 {
					mutSite[e.N] = fileSite(e)
				}
			}
			for k := 1; k <= M+1; k++ {
				cases = append(cases, caseOut{shape: i, site: "before-" + mutSite[k], pl: plan{Mode: "crash", K: k}})
				nPlans++
			}
			for _, e := range refs[i].events {
				if e.N == 0 || (e.Op != "WriteFile" && e.Op != "pwrite" && e.Op != "append") {
					continue
				}
				for _, t := range tornLengths(e, thorough) {
					cases = append(cases, caseOut{shape: i, site: "in-" + fileSite(e), pl: plan{Mode: "torn", K: e.N, T: t}})
					nPlans++
				}
			}
		}
		switch prop {
		case "C01", "C07", "C11", "C10", "C06":
			A := len(refs[i].events)
			for k := 1; k <= A; k++ {
				cases = append(cases, caseOut{shape: i, site: fileSite(refs[i].events[k-1]), pl: plan{Mode: "fault", K: k, Errno: "EIO", Retry: true}})
				nPlans++
				if vhook.Mutating(refs[i].events[k-1].Op) {
					cases = append(cases, caseOut{shape: i, site: fileSite(refs[i].events[k-1]), pl: plan{Mode: "fault-sticky", K: k, Errno: "ENOSPC", Sticky: true, Retry: true}})
					nPlans++
				}
			}
			for k := 1; k <= refs[i].l2; k++ {
				site := "?"
				if k-1 < len(refs[i].l2m) {
					site = refs[i].l2m[k-1]
				}
				cases = append(cases, caseOut{shape: i, site: site, pl: plan{Mode: "l2fault", K: k, Retry: true}})
				nPlans++
			}
		}
		perShape = append(perShape, map[string]any{"shape": s.Name, "program": s.Test.String(), "file_ops_in_commit": len(refs[i].events), "mutating_file_ops": M, "l2_calls": refs[i].l2, "plans": nPlans})
	}
	run.Set("shapes", perShape)

	// 3. run
	var wg sync.WaitGroup
	sem := make(chan struct{}, runtime.NumCPU())
	for ci := range cases {
		wg.Add(1)
		sem <- struct{}{}
		go func(c *caseOut, ci int) {
			defer wg.Done()
			defer func() { <-sem }()
			base := filepath.Join(root, fmt.Sprintf("c%d", ci))
			defer os.RemoveAll(base)
			pj, _ := json.Marshal(c.pl)
			out, code := runSelf(base, 10*time.Minute, "child", all[c.shape].Name, string(pj))
			var cr childResult
			if extract(out, "@@RESULT", &cr) {
				c.child = &cr
			} else if code == 137 {
				c.crashed = true
			} else {
				c.infra = fmt.Sprintf("child exit %d: %s", code, tail(out, 1500))
				return
			}
			age := 130
			vout, vcode := runSelf(base, 10*time.Minute, "verify", all[c.shape].Name, fmt.Sprint(age))
			var vr verifyResult
			if extract(vout, "@@VERIFY", &vr) {
				c.vr = &vr
			} else {
				c.infra = fmt.Sprintf("verifier exit %d: %s", vcode, tail(vout, 1500))
			}
		}(&cases[ci], ci)
	}
	wg.Wait()

	// 4. judge
	outcomes := map[string]int{}
	fired := 0
	for ci := range cases {
		c := &cases[ci]
		s := all[c.shape]
		run.Add("evaluations", 1)
		if c.infra != "" {
			if strings.Contains(c.infra, "panic:") {
				run.Violate(ev.Violation{Sig: "panic|" + c.pl.Mode + "|" + s.Name, Detail: fmt.Sprintf("shape %s plan %+v: process panicked: %s", s.Name, c.pl, c.infra), Replay: map[string]any{"shape": s.Name, "plan": c.pl}})
				outcomes["panic"]++
				continue
			}
			fmt.Fprintf(os.Stderr, "HARNESS FAILURE shape %s plan %+v: %s\n", s.Name, c.pl, c.infra)
			os.Exit(2)
		}
		if c.crashed || (c.child != nil && c.child.Fired) {
			fired++
		}
		judgeBase = baseOrphans[c.shape]
		o := judge(run, prop, s, c)
		outcomes[o]++
		if ci%97 == 0 {
			run.Sample(map[string]any{"shape": s.Name, "plan": c.pl, "outcome": o})
		}
	}
	run.Set("distinct_nontrivial", fired)
	run.Set("violation_signature_shapes", sigShapes)
	run.Set("outcomes", outcomes)
	run.Set("rule", "for every shape: reference run records every file operation of the commit (twice, must match); then one child process per plan: crash plans kill the writer on entry to the k-th mutating file operation for every k (1..M+1), torn plans let a prefix of a write through and kill, fault plans fail the k-th file operation (EIO once; ENOSPC sticky for mutating ops) or the k-th L2 cache call; a fresh verifier process (clock +130 min) reads, writes and dumps every store and fsck parses the disk independently. non-trivial = plans whose kill/fault actually fired")
	run.Assumption("a completed write is durable (tmpfs, no page-cache loss after a finished write); crash = process death before the k-th mutating file operation of sop's filesystem backend (instrumented call sites: FileIO, DirectIO, transaction log create/append/remove, segment truncate)")
	run.Assumption("standalone mode (in-memory L2 cache): all locks and cached data vanish with the process")
	run.Finish()
}

var sigShapes = map[string][]string{}

// judgeBase: orphans that the fault-free run of the same shape already leaves behind.
var judgeBase map[string]bool

func newOnly(store string, ids []string, handle bool) []string {
	var r []string
	for _, id := range ids {
		k := store + "/" + id
		if handle {
			k = store + "/h/" + id
		}
		if !judgeBase[k] {
			r = append(r, id)
		}
	}
	return r
}

func appendUniq(a []string, x string) []string {
	for _, y := range a {
		if y == x {
			return a
		}
	}
	return append(a, x)
}

func shapeByArg(a string) shape {
	for _, s := range shapes(true) {
		if s.Name == a {
			return s
		}
	}
	fmt.Fprintln(os.Stderr, "unknown shape", a)
	os.Exit(2)
	return shape{}
}

func tail(s string, n int) string {
	if len(s) > n {
		return s[len(s)-n:]
	}
	return s
}

func tornLengths(e ioEvent, thorough bool) []int {
	L := e.Len
	set := map[int]bool{}
	add := func(t int) {
		if t >= 0 && t < L {
			set[t] = true
		}
	}
	if e.Op == "pwrite" {
		add(1)
		add(62)
		add(512)
		add(2048)
		add(L - 4)
		add(L - 1)
		if thorough {
			for j := 62; j < L; j += 62 {
				add(j)
			}
			for j := 512; j < L; j += 512 {
				add(j)
			}
		}
	} else {
		add(0)
		add(1)
		add(L / 2)
		add(L - 1)
	}
	var r []int
	for t := range set {
		r = append(r, t)
	}
	sort.Ints(r)
	return r
}

func dumpEq(d txn.Dump, m txn.Model, names []string, newStores map[string]bool, allowAbsentNew bool) (bool, string) {
	for _, n := range names {
		if e := d.Errs[n]; e != "" {
			if newStores[n] && allowAbsentNew && strings.Contains(e, "does not exist") {
				continue
			}
			return false, fmt.Sprintf("store %s: %s", n, e)
		}
		if fmt.Sprint(d.Stores[n]) != fmt.Sprint(m[n]) && !(len(d.Stores[n]) == 0 && len(m[n]) == 0) {
			return false, fmt.Sprintf("store %s = %v, model %v", n, d.Stores[n], m[n])
		}
		if d.Counts[n] != int64(len(m[n])) {
			return false, fmt.Sprintf("store %s Count=%d, model has %d items (%v)", n, d.Counts[n], len(m[n]), d.Stores[n])
		}
	}
	return true, ""
}

func judge(run *ev.Run, prop string, s shape, c *caseOut) string {
	before, after := s.models()
	names := s.names()
	newStores := map[string]bool{}
	for _, ns := range s.NewStores {
		newStores[ns.Name] = true
	}
	viol := func(kind, detail string) {
		run.Violate(ev.Violation{Sig: fmt.Sprintf("%s|%s|%s", kind, c.pl.Mode, c.site), Detail: fmt.Sprintf("%s: shape %s [%s] plan %+v (site %s): %s", kind, s.Name, s.Test, c.pl, c.site, detail), Replay: map[string]any{"shape": s.Name, "plan": c.pl, "site": c.site}})
		sigShapes[fmt.Sprintf("%s|%s|%s", kind, c.pl.Mode, c.site)] = appendUniq(sigShapes[fmt.Sprintf("%s|%s|%s", kind, c.pl.Mode, c.site)], s.Name)
	}
	vr := c.vr
	if vr == nil {
		return "no-verifier"
	}
	// state after restart + recovery: all-or-nothing
	isBefore, whyB := dumpEq(vr.Dump1, before, names, newStores, true)
	isAfter, whyA := dumpEq(vr.Dump1, after, names, newStores, false)
	outcome := "before"
	if isAfter && !isBefore {
		outcome = "after"
	}
	readable := true
	for n, e := range vr.Dump1.Errs {
		if newStores[n] && strings.Contains(e, "does not exist") {
			continue
		}
		readable = false
		_ = n
	}
	countBad := ""
	for n, kvs := range vr.Dump1.Stores {
		if vr.Dump1.Errs[n] == "" && int64(len(kvs)) != vr.Dump1.Counts[n] {
			countBad = fmt.Sprintf("store %s Count=%d items=%d", n, vr.Dump1.Counts[n], len(kvs))
		}
	}
	switch prop {
	case "C06":
		// after a failed and a retried commit (crashes are C08's subject) the reported count must equal what a scan returns,
		// in the failing process itself and in a fresh one
		chk := func(where string, d *txn.Dump) {
			if d == nil {
				return
			}
			var ns []string
			for n := range d.Stores {
				ns = append(ns, n)
			}
			sort.Strings(ns)
			for _, n := range ns {
				if d.Errs[n] == "" && int64(len(d.Stores[n])) != d.Counts[n] {
					viol("count-mismatch", fmt.Sprintf("%s: store %s reports Count=%d, a scan returns %d items %v", where, n, d.Counts[n], len(d.Stores[n]), d.Stores[n]))
				}
			}
		}
		if c.child != nil {
			chk("same process right after the commit ended", c.child.After)
			chk("same process after the fault-free retry", c.child.AfterRetry)
		}
		chk("fresh process", &vr.Dump1)
		return "judged"
	case "C08":
		if !readable {
			viol("unreadable-after-crash", vr.Dump1.String())
			return "unreadable"
		}
		if !isBefore && !isAfter {
			viol("mixed-state-after-crash", fmt.Sprintf("neither before (%s) nor after (%s); dump: %s", whyB, whyA, vr.Dump1.String()))
			return "mixed"
		}
		if vr.WriterErr != "" {
			viol("not-writable-after-crash", vr.WriterErr)
		}
		if countBad != "" {
			viol("count-mismatch-after-crash", countBad)
		}
	case "C09":
		if c.crashed {
			f := vr.Fsck
			if len(f.LogFiles) > 0 || len(f.PlgFiles) > 0 {
				viol("logs-left-after-recovery", fmt.Sprintf("translogs still holds %v %v after ages passed and %d new transactions", f.LogFiles, f.PlgFiles, 6))
			}
			for n, sr := range f.Stores {
				if ob := newOnly(n, sr.OrphanBlobs, false); len(ob) > 0 {
					viol("staged-blobs-left-after-recovery", fmt.Sprintf("store %s: blobs nothing references: %v", n, ob))
				}
				if len(sr.DirtyHandles) > 0 {
					viol("handles-left-dirty-after-recovery", fmt.Sprintf("store %s: %v", n, sr.DirtyHandles))
				}
			}
			if vr.WriterErr != "" {
				viol("writer-blocked-after-recovery", vr.WriterErr)
			}
		}
	case "C10":
		for n, sr := range vr.Fsck.Stores {
			if len(sr.Problems) > 0 {
				// count mismatch is C06's; keep only load/reachability problems here
				var ps []string
				for _, p := range sr.Problems {
					// only node / item-value load and reachability problems are C10's subject; a damaged or missing
					// store record is judged by C08 (readable after crash) and C12 (store creation).
					if !strings.HasPrefix(p, "storeinfo") {
						ps = append(ps, p)
					}
				}
				if len(ps) > 0 {
					viol("dangling-reference", fmt.Sprintf("store %s: %v", n, ps))
				}
			}
		}
		for n, e := range vr.Dump1.Errs {
			if strings.Contains(e, "no such file") || strings.Contains(e, "node") {
				viol("unreadable-node-or-value", fmt.Sprintf("store %s: %s", n, e))
			}
		}
	case "C01", "C07":
		ch := c.child
		if ch == nil {
			return "no-child"
		}
		if ch.Committed {
			// fault absorbed: everything must be visible
			if ok, why := dumpEq(*ch.After, after, names, newStores, false); !ok {
				viol("commit-ok-but-changes-missing", "same process: "+why)
			}
			if !isAfter {
				viol("commit-ok-but-changes-missing", "fresh process: "+whyA)
			}
			return "committed"
		}
		// commit (or an operation) failed: nothing may be visible
		if ok, why := dumpEq(*ch.After, before, names, newStores, true); !ok {
			kind := "failed-commit-left-trace"
			if strings.Contains(why, "Count=") {
				kind = "failed-commit-left-count"
			}
			viol(kind, "same process, right after the failure: "+why+" (error was: "+ch.EndErr+ch.OpErr+")")
		}
		if prop == "C07" {
			if ch.Retry != nil && !ch.Retry.Committed {
				viol("retry-blocked", fmt.Sprintf("first attempt failed with %q; the fault-free retry of the same changes failed too: %s", ch.EndErr+ch.OpErr, ch.Retry.EndErr))
			} else if ch.AfterRetry != nil {
				if ok, why := dumpEq(*ch.AfterRetry, after, names, newStores, false); !ok {
					viol("retry-wrong-state", why+fmt.Sprintf("; the retry's calls returned %v and its Commit returned nil", ch.RetryOps))
				}
			}
		}
		if prop == "C01" && ch.Retry != nil && ch.Retry.Committed {
			// cold view after failed + retried: must be exactly after
			if !isAfter {
				viol("cold-view-differs-after-retry", whyA)
			}
		}
		return "failed"
	case "C11":
		ch := c.child
		if ch == nil {
			return "no-child"
		}
		f := vr.Fsck
		if len(f.LogFiles) > 0 || len(f.PlgFiles) > 0 {
			viol("logs-left", fmt.Sprintf("%v %v", f.LogFiles, f.PlgFiles))
		}
		for n, sr := range f.Stores {
			if ob := newOnly(n, sr.OrphanBlobs, false); len(ob) > 0 {
				viol("orphan-blobs", fmt.Sprintf("store %s: blob files nothing references: %v", n, ob))
			}
			if oh := newOnly(n, sr.OrphanHandles, true); len(oh) > 0 {
				viol("orphan-registry-entries", fmt.Sprintf("store %s: registry entries of unreachable nodes: %v", n, oh))
			}
		}
	}
	return outcome
}
