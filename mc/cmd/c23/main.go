// c23: "corrupted registry data is reported, never served".
//
// A registry block is written through the real fs.NewRegistry (five handles in one block, one of them
// displaced from its ideal slot, one in the last slot next to the CRC). Then, for EVERY single-bit flip of
// the 4096-byte block and for bursts (zeroed / inverted runs) at every aligned offset, in every backup
// (.cow) situation, the block image is written straight into the segment file and each registry entry
// point that touches the block is called with a cold cache. The harness' own block reader/encoder
// (rawreader.go) decides what is corrupt and what the block must look like afterwards.
package main

import (
	"bytes"
	"context"
	"encoding/binary"
	"errors"
	"fmt"
	"os"
	"path/filepath"
	"runtime/debug"
	"sort"
	"time"

	"github.com/sharedcode/sop"
	"github.com/sharedcode/sop/cache"
	"github.com/sharedcode/sop/fs"
	"verif.local/mc/detuuid"
	"verif.local/mc/ev"
)

const (
	table   = "c23reg"
	blockNo = 7
)

// ---- ids and handles ----

func makeID(block, slot, n int) sop.UUID {
	mod := uint64(fs.MinimumModValue)
	high := uint64(block) + mod*uint64(1000+7919*n)
	low := uint64(slot) + 66*uint64(12345+104729*n)
	var id sop.UUID
	binary.BigEndian.PutUint64(id[:8], high)
	binary.BigEndian.PutUint64(id[8:], low)
	return id
}

func handleFor(id sop.UUID, v int) sop.Handle {
	h := sop.NewHandle(id)
	h.Version = int32(v)
	if v > 0 {
		var b sop.UUID
		copy(b[:], id[:])
		b[0] ^= 0xA5
		b[15] = byte(v)
		h.PhysicalIDB = b
		h.IsActiveIDB = v%2 == 1
		h.WorkInProgressTimestamp = int64(1000 + v)
	}
	return h
}

// encodeRecord: the harness' own 62-byte encoder (layout documented in rawreader.go).
func encodeRecord(h sop.Handle) []byte {
	r := make([]byte, recSz)
	copy(r[0:16], h.LogicalID[:])
	copy(r[16:32], h.PhysicalIDA[:])
	copy(r[32:48], h.PhysicalIDB[:])
	if h.IsActiveIDB {
		r[48] = 1
	}
	binary.LittleEndian.PutUint32(r[49:53], uint32(h.Version))
	binary.LittleEndian.PutUint64(r[53:61], uint64(h.WorkInProgressTimestamp))
	if h.IsDeleted {
		r[61] = 1
	}
	return r
}

var (
	idA = makeID(blockNo, 3, 1)  // ideal slot 3
	idB = makeID(blockNo, 3, 2)  // collides with A: displaced to slot 0
	idC = makeID(blockNo, 10, 3) // slot 10
	idD = makeID(blockNo, 65, 4) // last slot, adjacent to the CRC
	idE = makeID(blockNo, 30, 5) // slot 30
	idN = makeID(blockNo, 40, 6) // not stored; used by Add (ideal slot 40 is free)
	all = []sop.UUID{idA, idB, idC, idD, idE}
)

const newVersion = 7 // version written by Update/UpdateNoLocks in every case

// ---- implementation under test ----

type impl struct {
	l2  sop.L2Cache
	reg fs.Registry
}

func openRegistry(dir string, readWrite bool) *impl {
	l2 := cache.NewL2InMemoryCache()
	rt, err := fs.NewReplicationTracker(context.Background(), []string{dir}, false, l2)
	if err != nil {
		panic(err)
	}
	return &impl{l2: l2, reg: fs.NewRegistry(readWrite, 0, rt, l2)}
}

func hp(hs ...sop.Handle) []sop.RegistryPayload[sop.Handle] {
	return []sop.RegistryPayload[sop.Handle]{{RegistryTable: table, IDs: hs}}
}
func ip(ids ...sop.UUID) []sop.RegistryPayload[sop.UUID] {
	return []sop.RegistryPayload[sop.UUID]{{RegistryTable: table, IDs: ids}}
}

var opNames = []string{"Get(A)", "Get(A,B,C,D,E)", "Get(A) read-only registry", "Update(A)", "UpdateNoLocks(A)", "Add(N)", "Remove(A)"}

func isWrite(op int) bool { return op >= 3 }

// call runs entry point op. It returns the handles a lookup produced and the error.
func call(in *impl, op int) ([]sop.Handle, error) {
	ctx, cancel := context.WithTimeout(context.Background(), 20*time.Second) // hang guard only
	defer cancel()
	get := func(ids ...sop.UUID) ([]sop.Handle, error) {
		r, err := in.reg.Get(ctx, ip(ids...))
		var hs []sop.Handle
		for _, p := range r {
			hs = append(hs, p.IDs...)
		}
		return hs, err
	}
	switch op {
	case 0, 2:
		return get(idA)
	case 1:
		return get(all...)
	case 3:
		return nil, in.reg.Update(ctx, hp(handleFor(idA, newVersion)))
	case 4:
		return nil, in.reg.UpdateNoLocks(ctx, true, hp(handleFor(idA, newVersion)))
	case 5:
		return nil, in.reg.Add(ctx, hp(handleFor(idN, 0)))
	case 6:
		return nil, in.reg.Remove(ctx, ip(idA))
	}
	panic(op)
}

// ---- corruptions ----

type corruption struct {
	Kind string // "bitflip" "zero-run" "invert-run" "bitflip2"
	Off  int    // bit index (bitflip), byte offset (runs)
	Len  int    // run length in bytes; second bit index for bitflip2
	// AllBackups: combine with every backup situation (otherwise only with "no .cow file"). Quick tier:
	// see quickAllBackups; thorough tier: always true.
	AllBackups bool
}

// quickAllBackups selects, for the quick tier, the single-bit flips that are combined with ALL backup
// situations (every flip is always combined with "no backup"): one bit of every byte (bit number = byte
// offset mod 8, so all bit positions occur), every bit of the target record (slot 3), of the displaced
// record (slot 0), of the last record (slot 65) and of the CRC field, and every bit of the first and last
// byte of each record.
func quickAllBackups(bit int) bool {
	byteOff := bit / 8
	if bit%8 == byteOff%8 {
		return true
	}
	if byteOff >= crcOff {
		return true
	}
	slot, inRec := byteOff/recSz, byteOff%recSz
	return slot == 3 || slot == 0 || slot == 65 || inRec == 0 || inRec == recSz-1
}

func (c corruption) apply(good []byte) []byte {
	b := append([]byte(nil), good...)
	switch c.Kind {
	case "bitflip":
		b[c.Off/8] ^= 1 << (c.Off % 8)
	case "bitflip2":
		b[c.Off/8] ^= 1 << (c.Off % 8)
		b[c.Len/8] ^= 1 << (c.Len % 8)
	case "zero-run":
		for i := c.Off; i < c.Off+c.Len; i++ {
			b[i] = 0
		}
	case "invert-run":
		for i := c.Off; i < c.Off+c.Len; i++ {
			b[i] ^= 0xFF
		}
	}
	return b
}

// region says what the first damaged byte belongs to in the good image.
func (c corruption) region(slotOfA int, good []byte) string {
	byteOff := c.Off
	if c.Kind == "bitflip" || c.Kind == "bitflip2" {
		byteOff = c.Off / 8
	}
	if byteOff >= crcOff {
		return "crc-field"
	}
	slot := byteOff / recSz
	switch {
	case slot == slotOfA:
		return "target-record"
	case allZero(good[slot*recSz : (slot+1)*recSz]):
		return "free-slot"
	}
	return "other-record"
}

func corruptions(thorough bool) []corruption {
	var out []corruption
	for bit := 0; bit < blockSz*8; bit++ {
		out = append(out, corruption{"bitflip", bit, 0, thorough || quickAllBackups(bit)})
	}
	runs := func(l int) {
		for off := 0; off+l <= blockSz; off += l {
			out = append(out, corruption{"zero-run", off, l, true}, corruption{"invert-run", off, l, true})
		}
	}
	runs(2)
	runs(62)                                                                                              // record-aligned: 66 records
	out = append(out, corruption{"zero-run", crcOff, 4, true}, corruption{"invert-run", crcOff, 4, true}) // the CRC field itself
	runs(512)
	if thorough {
		runs(1)
		runs(4)
		runs(8)
		runs(1024)
		runs(2048)
		out = append(out, corruption{"invert-run", 0, blockSz, true}, corruption{"zero-run", 0, crcOff, true}, corruption{"zero-run", 1, blockSz - 1, true})
		// double flips: one bit of the target record (slot 3) or of the CRC + one bit of the CRC
		for i := 3 * recSz * 8; i < 4*recSz*8; i++ {
			for j := crcOff * 8; j < blockSz*8; j++ {
				out = append(out, corruption{"bitflip2", i, j, true})
			}
		}
		for i := crcOff * 8; i < blockSz*8; i++ {
			for j := i + 1; j < blockSz*8; j++ {
				out = append(out, corruption{"bitflip2", i, j, true})
			}
		}
	}
	return out
}

// backup situations
var cowNames = []string{"none", "empty", "invalid-crc", "wrong-size", "valid-same", "valid-older"}

func cowValid(c int) bool { return c >= 4 }

// ---- one worker ----

type env struct {
	dir, tdir, segPath, seg2Path, cowPath string
	seg                                   *os.File
	rw, ro                                *impl
	good, older                           []byte // G: the block as written last; P: the block before the last update
	slotA                                 int
}

func setup(dir string) *env {
	e := &env{dir: dir, tdir: filepath.Join(dir, table)}
	os.RemoveAll(dir)
	if err := os.MkdirAll(e.tdir, 0o755); err != nil {
		panic(err)
	}
	e.segPath = filepath.Join(e.tdir, table+"-1.reg")
	e.seg2Path = filepath.Join(e.tdir, table+"-2.reg")
	// by reading hashmap.cow.go: "<segment path without .reg>_<block offset>.cow"
	e.cowPath = filepath.Join(e.tdir, fmt.Sprintf("%s-1_%d.cow", table, blockNo*blockSz))
	in := openRegistry(dir, true)
	ctx := context.Background()
	for _, id := range all {
		if err := in.reg.Add(ctx, hp(handleFor(id, 0))); err != nil {
			panic(err)
		}
	}
	if err := in.reg.Update(ctx, hp(handleFor(idD, 2))); err != nil {
		panic(err)
	}
	e.older = readBlock(e.segPath)
	if err := in.reg.Update(ctx, hp(handleFor(idA, 1))); err != nil {
		panic(err)
	}
	in.reg.Close()
	e.good = readBlock(e.segPath)
	// sanity of the base images with the harness' own reader
	for _, img := range [][]byte{e.good, e.older} {
		if !blockCRCOK(img) {
			panic("base image fails the harness CRC")
		}
	}
	wantSlots := map[sop.UUID]int{idA: 3, idB: 0, idC: 10, idD: 65, idE: 30}
	n := 0
	for slot := 0; slot < recsPerBlock; slot++ {
		rec := e.good[slot*recSz : (slot+1)*recSz]
		if allZero(rec) {
			continue
		}
		n++
		h, _ := decodeRecord(rec)
		if wantSlots[sop.UUID(h.LogicalID)] != slot {
			panic(fmt.Sprintf("unexpected layout: %x in slot %d", h.LogicalID, slot))
		}
	}
	if n != 5 {
		panic("unexpected number of records in the base block")
	}
	e.slotA = 3
	if !bytes.Equal(e.good[3*recSz:4*recSz], encodeRecord(handleFor(idA, 1))) || !bytes.Equal(e.older[3*recSz:4*recSz], encodeRecord(handleFor(idA, 0))) {
		panic("harness encoder disagrees with the stored record")
	}
	var err error
	if e.seg, err = os.OpenFile(e.segPath, os.O_RDWR, 0); err != nil {
		panic(err)
	}
	e.reopen()
	return e
}

func (e *env) reopen() {
	if e.rw != nil {
		e.rw.reg.Close()
		e.ro.reg.Close()
	}
	e.rw = openRegistry(e.dir, true)
	e.ro = openRegistry(e.dir, false)
}

func readBlock(path string) []byte {
	f, err := os.Open(path)
	if err != nil {
		panic(err)
	}
	defer f.Close()
	b := make([]byte, blockSz)
	if _, err := f.ReadAt(b, blockNo*blockSz); err != nil {
		panic(err)
	}
	return b
}

func (e *env) install(img []byte, cow int) {
	if _, err := e.seg.WriteAt(img, blockNo*blockSz); err != nil {
		panic(err)
	}
	var data []byte
	switch cow {
	case 0:
		os.Remove(e.cowPath)
		return
	case 1:
		data = []byte{}
	case 2:
		data = append([]byte(nil), e.good...)
		data[100] ^= 0x10 // a backup whose own checksum does not match
	case 3:
		data = e.good[:blockSz-1]
	case 4:
		data = e.good
	case 5:
		data = e.older
	}
	if err := os.WriteFile(e.cowPath, data, 0o644); err != nil {
		panic(err)
	}
}

func (e *env) current() []byte {
	b := make([]byte, blockSz)
	if _, err := e.seg.ReadAt(b, blockNo*blockSz); err != nil {
		panic(err)
	}
	return b
}

// expectedAfter: the block a correct implementation leaves after op when the block content is base.
func expectedAfter(base []byte, op int) []byte {
	b := append([]byte(nil), base...)
	switch op {
	case 3, 4:
		copy(b[3*recSz:], encodeRecord(handleFor(idA, newVersion)))
	case 5:
		copy(b[40*recSz:], encodeRecord(handleFor(idN, 0)))
	case 6:
		copy(b[3*recSz:], make([]byte, recSz))
	}
	sealBlock(b)
	return b
}

func handlesIn(img []byte, ids []sop.UUID) map[sop.UUID]rawHandle {
	out := map[sop.UUID]rawHandle{}
	for slot := 0; slot < recsPerBlock; slot++ {
		rec := img[slot*recSz : (slot+1)*recSz]
		if allZero(rec) {
			continue
		}
		h, _ := decodeRecord(rec)
		for _, id := range ids {
			if sop.UUID(h.LogicalID) == id {
				out[id] = h
			}
		}
	}
	return out
}

func sameHandle(h sop.Handle, r rawHandle) bool {
	return [16]byte(h.LogicalID) == r.LogicalID && [16]byte(h.PhysicalIDA) == r.PhysicalIDA && [16]byte(h.PhysicalIDB) == r.PhysicalIDB &&
		h.IsActiveIDB == r.IsActiveIDB && h.Version == r.Version && h.WorkInProgressTimestamp == r.WorkInProgressTimestamp && h.IsDeleted == r.IsDeleted
}

func work(run *ev.Run, cs []corruption, dir string) {
	detuuid.Reset(23)
	debug.SetGCPercent(800)
	e := setup(dir)
	defer os.RemoveAll(dir)
	sampled := 0
	reported := map[string]bool{}
	for _, c := range cs {
		img := c.apply(e.good)
		run.Add("corruptions", 1)
		switch {
		case bytes.Equal(img, e.good):
			run.Add("corruptions_without_effect_skipped", 1) // zeroing bytes that are already zero
			continue
		case allZero(img):
			run.Add("corruptions_to_all_zero_block_skipped", 1)
			continue
		case blockCRCOK(img):
			run.Add("corruptions_not_detectable_by_crc32_skipped", 1)
			continue
		}
		region := c.region(e.slotA, e.good)
		run.Add("corruptions_in_"+region, 1)
		corruptionViolated := false
		for cow := range cowNames {
			if cow > 0 && !c.AllBackups {
				break
			}
			run.Add("distinct_nontrivial", 1)
			for op := range opNames {
				in := e.rw
				if op == 2 {
					in = e.ro
				}
				e.install(img, cow)
				in.l2.Clear(context.Background())
				hs, err := call(in, op)
				after := e.current()
				run.Add("evaluations", 1)
				viol := func(kind string, detail func() string) {
					corruptionViolated = true
					run.Add("violating_calls", 1)
					run.Add("violating_calls_"+kind, 1)
					sig := kind + "|op=" + opNames[op] + "|cow=" + cowNames[cow]
					if reported[sig] {
						return
					}
					reported[sig] = true
					run.Violate(ev.Violation{
						Sig:    sig,
						Detail: fmt.Sprintf("%s: block %d of %s-1.reg corrupted by %+v (damage starts in: %s), backup file: %s, call %s: %s", kind, blockNo, table, c, region, cowNames[cow], opNames[op], detail()),
						Replay: map[string]any{"corruption": c, "cow": cowNames[cow], "op": opNames[op], "region": region},
					})
				}
				if errors.Is(err, context.DeadlineExceeded) {
					viol("call-blocked", func() string { return "the call did not return within the 20 s hang guard" })
				} else if !cowValid(cow) {
					// checksum mismatch and no valid backup: an error, nothing served, nothing written
					changed := !bytes.Equal(after, img)
					switch {
					case err == nil && len(hs) > 0:
						viol("lookup-served-handles-from-corrupt-block", func() string { return fmt.Sprintf("returned %d handle(s), first %+v, and no error", len(hs), hs[0]) })
					case err == nil && !isWrite(op):
						viol("lookup-no-error-on-corrupt-block", func() string { return "returned no error (and no handle)" })
					case err == nil && changed && blockCRCOK(after):
						viol("write-overwrote-corrupt-block-with-fresh-checksum", func() string {
							return "returned no error; the block on disk was rewritten and now carries a VALID checksum over the corrupted content"
						})
					case err == nil && changed:
						viol("write-overwrote-corrupt-block", func() string { return "returned no error; the block on disk was rewritten" })
					case err == nil:
						viol("write-no-error-on-corrupt-block", func() string { return "returned no error" })
					case changed:
						viol("error-but-corrupt-block-rewritten", func() string { return fmt.Sprintf("returned error %q but the block bytes on disk changed", err) })
					case len(hs) > 0:
						viol("error-but-handles-returned", func() string { return fmt.Sprintf("returned error %q together with %d handle(s)", err, len(hs)) })
					}
				} else {
					base := e.good
					if cow == 5 {
						base = e.older
					}
					want := expectedAfter(base, op)
					switch {
					case err != nil:
						viol("valid-backup-not-used", func() string {
							return fmt.Sprintf("returned error %q although a valid backup of the block exists", err)
						})
					case !isWrite(op):
						ids := []sop.UUID{idA}
						if op == 1 {
							ids = all
						}
						exp := handlesIn(base, ids)
						ok := len(hs) == len(exp)
						for _, h := range hs {
							if r, found := exp[h.LogicalID]; !found || !sameHandle(h, r) {
								ok = false
							}
						}
						if !ok {
							viol("valid-backup-wrong-handles-served", func() string { return fmt.Sprintf("returned %+v, the backup holds %+v", hs, exp) })
						} else if op != 2 && !bytes.Equal(after, want) {
							viol("valid-backup-block-not-restored", func() string {
								return "lookup served the backup's handles but the block on disk is not the backup image"
							})
						} else if op == 2 && !bytes.Equal(after, want) && !bytes.Equal(after, img) {
							viol("valid-backup-block-not-restored", func() string {
								return "read-only lookup left a block that is neither the corrupted nor the backup image"
							})
						}
					default:
						if !bytes.Equal(after, want) {
							viol("valid-backup-wrong-block-after-write", func() string {
								return fmt.Sprintf("block after the call differs from backup image + the requested change (checksum valid: %v)", blockCRCOK(after))
							})
						}
					}
				}
				if err != nil {
					e.reopen() // do not let a failed call's leftovers (locks, handles) influence the next case
				}
				// keep the folder to the one segment file (+ backup): a corrupted block that looks full makes
				// writes spill into a new segment file, which must not leak into the next case
				if _, serr := os.Stat(e.seg2Path); serr == nil {
					run.Add("calls_that_created_another_segment_file", 1)
					ents, _ := os.ReadDir(e.tdir)
					for _, en := range ents {
						if p := filepath.Join(e.tdir, en.Name()); p != e.segPath && p != e.cowPath {
							os.RemoveAll(p)
						}
					}
					e.reopen()
				}
			}
		}
		if corruptionViolated {
			run.Add("corruptions_with_violation", 1)
			run.Add("corruptions_with_violation_in_"+region, 1)
		}
		if sampled < 1 && (region == "target-record" || region == "crc-field") {
			sampled++
			run.Sample(map[string]any{"corruption": fmt.Sprintf("%s off=%d len=%d", c.Kind, c.Off, c.Len), "region": region, "all_backup_situations": c.AllBackups, "any_call_violated": corruptionViolated})
		}
	}
}

func main() {
	run := ev.New("C23", "exploration")
	cs := corruptions(run.Thorough())
	const chunks = 64
	if job := ev.Job(); job != "" {
		var k int
		fmt.Sscan(job, &k)
		var mine []corruption
		for i := k; i < len(cs); i += chunks { // round-robin: every worker sees every region
			mine = append(mine, cs[i])
		}
		work(run, mine, fmt.Sprintf("/dev/shm/c23_%d_%d", os.Getpid(), k))
		run.EmitPartial()
	}
	var jobs []string
	for i := 0; i < chunks; i++ {
		jobs = append(jobs, fmt.Sprint(i))
	}
	run.Parallel(jobs, 0, 30*time.Minute, nil)
	delete(run.Coverage, "per_job")
	kinds := map[string]int{}
	for _, c := range cs {
		kinds[fmt.Sprintf("%s/len%d", c.Kind, func() int {
			if c.Kind == "bitflip" || c.Kind == "bitflip2" {
				return 0
			}
			return c.Len
		}())]++
	}
	var ks []string
	for k, n := range kinds {
		ks = append(ks, fmt.Sprintf("%s:%d", k, n))
	}
	sort.Strings(ks)
	run.Set("corruption_classes", ks)
	run.Set("backup_situations", cowNames)
	run.Set("calls", opNames)
	run.Set("rule", "base block written through the real registry: ids A(slot 3) B(collides with A, slot 0) C(10) E(30) D(65, adjacent to the CRC); corruption = every single-bit flip of the 4096-byte block (32768; quick tier: every flip with backup situation none, and with ALL backup situations the flips selected by quickAllBackups = one bit of every byte + every bit of slots 0, 3, 65, of the CRC field and of the first/last byte of every record; thorough tier: every flip with every situation), zeroed and inverted runs of 2, 62 (record-aligned) and 512 bytes at every aligned offset, the 4-byte CRC field zeroed/inverted [thorough: also runs of 1,4,8,1024,2048 bytes, whole-block inversions, and all double flips (target-record bit | CRC bit) x CRC bit]; x backup file {none, empty, 4096 bytes with bad CRC, 4095 bytes, valid = pre-corruption image, valid = older image}; x calls {Get(A), Get(all five), Get(A) on a read-only registry, Update(A), UpdateNoLocks(A), Add(new id of that block), Remove(A)}; the corrupted image is written directly into the segment file before EVERY call and the L2 cache is cleared. distinct_nontrivial = (corruption, backup situation) pairs where the image differs from the good one, is not all-zero and fails the harness' CRC32")
	run.Assumption("an all-zero block is 'never written' by design (marshalData stores empty blocks as zeros, unmarshalData accepts them): a corruption producing an all-zero block is out of scope (none of the enumerated ones does); corruptions that CRC32 cannot detect are skipped and counted (none occurs: CRC32 detects all single-bit, double-bit and <=32-bit-burst errors; longer enumerated bursts are checked with the harness' own CRC)")
	run.Assumption("'no valid backup' = no .cow file, an empty one, one of the wrong size, or one whose own checksum fails; then every call must return an error, return no handle, and leave the 4096 bytes on disk exactly as corrupted. 'valid backup' = a 4096-byte .cow with a good checksum; then the call must behave as on the backup image and leave backup image + requested change on disk (a read-only registry may leave the corrupted block)")
	run.Assumption("only the segment-1 block of the ids is corrupted; ids whose block is intact, overflow segments, I/O errors and concurrent writers are not part of this check (C22 covers torn writes)")
	run.Finish()
}
