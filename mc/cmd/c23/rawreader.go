// Independent reader of registry segment files (shares no code with /repo/fs or /repo/encoding).
//
// Layout (derived by reading /repo/encoding/handle.go and /repo/fs/marshaldata.go):
//
//	segment file "<table>-<n>.reg", n = 1,2,..., made of 4096-byte blocks;
//	block = 66 records of 62 bytes (bytes 0..4091) + CRC32-IEEE of bytes 0..4091, little endian, at 4092..4095;
//	an all-zero block was never written; an all-zero record is a free slot;
//	record = LogicalID[16] PhysicalIDA[16] PhysicalIDB[16] IsActiveIDB[1] Version[int32 LE] WorkInProgressTimestamp[int64 LE] IsDeleted[1].
package main

import (
	"encoding/binary"
	"fmt"
	"hash/crc32"
	"io"
	"os"
	"path/filepath"
	"sort"
	"strconv"
	"strings"
)

const (
	blockSz      = 4096
	recSz        = 62
	recsPerBlock = 66
	crcOff       = recSz * recsPerBlock // 4092
)

type rawHandle struct {
	LogicalID, PhysicalIDA, PhysicalIDB [16]byte
	IsActiveIDB                         bool
	Version                             int32
	WorkInProgressTimestamp             int64
	IsDeleted                           bool
}

type rawEntry struct {
	Seg, Block, Slot int
	Rec              [recSz]byte
	H                rawHandle
}

type rawProblem struct{ Kind, Detail string }

func decodeRecord(rec []byte) (h rawHandle, flagsOK bool) {
	copy(h.LogicalID[:], rec[0:16])
	copy(h.PhysicalIDA[:], rec[16:32])
	copy(h.PhysicalIDB[:], rec[32:48])
	h.IsActiveIDB = rec[48] == 1
	h.Version = int32(binary.LittleEndian.Uint32(rec[49:53]))
	h.WorkInProgressTimestamp = int64(binary.LittleEndian.Uint64(rec[53:61]))
	h.IsDeleted = rec[61] == 1
	return h, rec[48] <= 1 && rec[61] <= 1
}

func allZero(b []byte) bool {
	for _, x := range b {
		if x != 0 {
			return false
		}
	}
	return true
}

func blockCRCOK(blk []byte) bool {
	return crc32.ChecksumIEEE(blk[:crcOff]) == binary.LittleEndian.Uint32(blk[crcOff:])
}

// scanRegistry parses every segment file of the table folder. Entries are sorted by (segment, block, slot).
func scanRegistry(dir, table string) ([]rawEntry, []int64, []rawProblem) {
	var out []rawEntry
	var sizes []int64
	var probs []rawProblem
	names, _ := filepath.Glob(filepath.Join(dir, table+"-*.reg"))
	type seg struct {
		n    int
		path string
	}
	var segs []seg
	for _, p := range names {
		base := strings.TrimSuffix(filepath.Base(p), ".reg")
		n, err := strconv.Atoi(strings.TrimPrefix(base, table+"-"))
		if err != nil {
			probs = append(probs, rawProblem{"odd-file-name", p})
			continue
		}
		segs = append(segs, seg{n, p})
	}
	sort.Slice(segs, func(i, j int) bool { return segs[i].n < segs[j].n })
	for i, s := range segs {
		if s.n != i+1 {
			probs = append(probs, rawProblem{"segment-numbering-gap", fmt.Sprintf("segment files present: %v", segs)})
			break
		}
	}
	blk := make([]byte, blockSz)
	for _, s := range segs {
		f, err := os.Open(s.path)
		if err != nil {
			probs = append(probs, rawProblem{"unreadable", err.Error()})
			continue
		}
		fi, _ := f.Stat()
		sizes = append(sizes, fi.Size())
		if fi.Size()%blockSz != 0 {
			probs = append(probs, rawProblem{"size-not-multiple-of-block", fmt.Sprintf("%s size %d", s.path, fi.Size())})
		}
		// iterate over the data extents only (segment files are sparse)
		off := int64(0)
		for off < fi.Size() {
			d, err := f.Seek(off, 3 /* SEEK_DATA */)
			if err != nil {
				break // ENXIO: no more data
			}
			d -= d % blockSz
			h, err := f.Seek(d, 4 /* SEEK_HOLE */)
			if err != nil {
				h = fi.Size()
			}
			if h <= d {
				h = d + blockSz
			}
			for b := d; b < h && b+blockSz <= fi.Size(); b += blockSz {
				if _, err := f.ReadAt(blk, b); err != nil && err != io.EOF {
					probs = append(probs, rawProblem{"unreadable", err.Error()})
					break
				}
				if allZero(blk) {
					continue
				}
				bn := int(b / blockSz)
				if !blockCRCOK(blk) {
					probs = append(probs, rawProblem{"block-crc-mismatch", fmt.Sprintf("segment %d block %d", s.n, bn)})
				}
				for slot := 0; slot < recsPerBlock; slot++ {
					rec := blk[slot*recSz : (slot+1)*recSz]
					if allZero(rec) {
						continue
					}
					hd, ok := decodeRecord(rec)
					if !ok {
						probs = append(probs, rawProblem{"record-bad-flag-byte", fmt.Sprintf("segment %d block %d slot %d", s.n, bn, slot)})
					}
					e := rawEntry{Seg: s.n, Block: bn, Slot: slot, H: hd}
					copy(e.Rec[:], rec)
					out = append(out, e)
				}
			}
			off = h
		}
		f.Close()
	}
	return out, sizes, probs
}

// sealBlock writes the CRC trailer of a block image.
func sealBlock(blk []byte) {
	binary.LittleEndian.PutUint32(blk[crcOff:], crc32.ChecksumIEEE(blk[:crcOff]))
}
