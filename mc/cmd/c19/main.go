// c19: "Persisted stores hold exactly what was written, under every storage option".
//
// SEQX DFS over the public infs API on a real (tmpfs) store folder: every operation sequence of a
// stated family, every batching of it into 1..3 consecutive transactions (with at most one of them
// rolled back), under every value placement x slot length (plus one non-unique configuration), from
// an empty and from a non-empty pre-state. Every step result and the final ordered dump / Count (read
// warm, read after sopenv.ResetCaches(), and - where the family says so - read by a fresh process)
// are compared with an independent sorted-multiset reference model.
package main

import (
	"bytes"
	"context"
	"encoding/json"
	"fmt"
	"hash/fnv"
	"os"
	"os/exec"
	"path/filepath"
	"runtime"
	"sort"
	"strconv"
	"strings"
	"time"

	"github.com/sharedcode/sop"
	"verif.local/mc/ev"
	"verif.local/mc/sopenv"
	"verif.local/mc/txn"
)

var ctx = context.Background()

const storeName = "s"

// ---------------- configuration matrix ----------------

type combo struct {
	Place  string // node | segment | active | global
	Slot   int
	Unique bool
	Pre    string // empty | five
}

func (c combo) String() string {
	return fmt.Sprintf("place=%s|slot=%d|unique=%v|pre=%s", c.Place, c.Slot, c.Unique, c.Pre)
}

var big = strings.Repeat("0123456789abcdef", 320) // 5120 bytes

func bigVal(tag string) string { return "B" + tag + ":" + big }

// initial returns the committed pre-state. "five": keys 10..50 with mixed value classes; with slot
// length 2 the tree is root[20,40] over leaves [10][30][50], with slot length 4 root[30] over
// [10,20][40,50] - so the enumerated keys hit an item held in an inner node, an item in a leaf and an
// absent key. The non-unique configuration additionally holds a duplicate of key 20.
func (c combo) initial() []txn.KV {
	if c.Pre == "empty" {
		return nil
	}
	kv := []txn.KV{{K: 10, V: "p10"}, {K: 20, V: bigVal("p20")}, {K: 30, V: ""}, {K: 40, V: "p40"}, {K: 50, V: bigVal("p50")}}
	if !c.Unique {
		kv = append(kv, txn.KV{K: 20, V: "d20"})
	}
	return kv
}

func (c combo) keys() []int {
	if c.Pre == "empty" {
		return []int{1, 2, 3}
	}
	if c.Slot == 4 {
		return []int{30, 20, 35}
	}
	return []int{20, 30, 35}
}

func (c combo) spec() txn.StoreSpec {
	return txn.StoreSpec{Name: storeName, Slot: c.Slot, Unique: c.Unique, Place: c.Place, Initial: c.initial()}
}

func combos() []combo {
	var cs []combo
	for _, pre := range []string{"five", "empty"} {
		for _, slot := range []int{2, 4} {
			for _, p := range []string{"node", "segment", "active", "global"} {
				cs = append(cs, combo{p, slot, true, pre})
			}
		}
		// one non-unique configuration (Add creates duplicates); values out of node so that the value
		// blobs of duplicates are distinguished by item id only.
		cs = append(cs, combo{"segment", 2, false, pre})
	}
	return cs
}

// ---------------- families of sequences ----------------

type family struct {
	Name     string
	Alphabet string // full: {add,upsert,update} x 3 keys x {small,5KB,empty} + remove x 3 + get x 3 (33 symbols)
	//                 small: the same with small values only (15 symbols)
	MinLen, MaxLen int
	Batch          string // all | followed | commit | split3 | finest | one+finest | mid (see batchings)
	Fresh          bool   // additionally dump from a fresh process
	OnlyPre        string // "" = both pre-states
	OnlySlot       int    // 0 = both slot lengths
}

// families are listed in the order in which they are run (a run deadline cuts the last ones first).
func families(thorough bool) []family {
	if !thorough {
		return []family{
			{Name: "full-len1", Alphabet: "full", MinLen: 1, MaxLen: 1, Batch: "all", Fresh: true},
			{Name: "full-len2-five", Alphabet: "full", MinLen: 2, MaxLen: 2, Batch: "split3", OnlyPre: "five"},
			{Name: "small-len2-empty", Alphabet: "small", MinLen: 2, MaxLen: 2, Batch: "split3", OnlyPre: "empty"},
			{Name: "onekey-len4", Alphabet: "onekey", MinLen: 4, MaxLen: 4, Batch: "finest", OnlyPre: "five", OnlySlot: 2},
			{Name: "small-len3", Alphabet: "small", MinLen: 3, MaxLen: 3, Batch: "one+finest", OnlyPre: "five", OnlySlot: 2},
			{Name: "rewrite-len5", Alphabet: "rewrite", MinLen: 5, MaxLen: 5, Batch: "one+2rest", OnlyPre: "empty", OnlySlot: 4},
		}
	}
	return []family{
		{Name: "full-len1", Alphabet: "full", MinLen: 1, MaxLen: 1, Batch: "all", Fresh: true},
		{Name: "onekey-len4", Alphabet: "onekey", MinLen: 4, MaxLen: 4, Batch: "split3", OnlyPre: "five"},
		{Name: "onekey-len5", Alphabet: "onekey", MinLen: 5, MaxLen: 5, Batch: "finest", OnlyPre: "five", OnlySlot: 2},
		{Name: "small-len3-five", Alphabet: "small", MinLen: 3, MaxLen: 3, Batch: "split3", OnlyPre: "five"},
		{Name: "full-len2", Alphabet: "full", MinLen: 2, MaxLen: 2, Batch: "all", Fresh: true},
		{Name: "small-len3-empty", Alphabet: "small", MinLen: 3, MaxLen: 3, Batch: "one+finest", OnlyPre: "empty"},
		{Name: "small-len4", Alphabet: "small", MinLen: 4, MaxLen: 4, Batch: "finest", OnlyPre: "five", OnlySlot: 2},
		{Name: "rewrite-len5", Alphabet: "rewrite", MinLen: 5, MaxLen: 5, Batch: "one+2rest"},
		{Name: "rewrite-len6", Alphabet: "rewrite", MinLen: 6, MaxLen: 6, Batch: "one+2rest", OnlyPre: "empty", OnlySlot: 4},
	}
}

type sym struct {
	Kind string
	KI   int    // index into combo.keys()
	VC   string // S | B | E | ""
}

func alphabet(name string) []sym {
	var a []sym
	if name == "onekey" {
		// one key (index 0: the item held in an inner node of the pre-state), every op kind.
		return []sym{{"add", 0, "S"}, {"upsert", 0, "B"}, {"update", 0, "S"}, {"update", 0, "E"}, {"remove", 0, ""}, {"get", 0, ""}}
	}
	if name == "rewrite" {
		// a key written more than once and read around writes of a neighbour: write/read symbols on key 0,
		// a read of key 1 and a write of key 2 (cursor moves and node re-saves between the reads)
		return []sym{{"add", 0, "S"}, {"upsert", 0, "S"}, {"update", 0, "S"}, {"get", 0, ""}, {"get", 1, ""}, {"add", 2, "S"}}
	}
	vcs := []string{"S", "B", "E"}
	if name == "small" {
		vcs = []string{"S"}
	}
	// simplest first
	for _, kind := range []string{"add", "upsert", "update"} {
		for _, vc := range vcs {
			for k := 0; k < 3; k++ {
				a = append(a, sym{kind, k, vc})
			}
		}
	}
	for _, kind := range []string{"remove", "get"} {
		for k := 0; k < 3; k++ {
			a = append(a, sym{kind, k, ""})
		}
	}
	return a
}

func (s sym) op(c combo, step int) txn.Op {
	o := txn.Op{Kind: s.Kind, Store: storeName, K: c.keys()[s.KI]}
	switch s.VC {
	case "S":
		o.V = fmt.Sprintf("v%d", step)
	case "B":
		o.V = bigVal(fmt.Sprint(step))
	case "E":
		o.V = ""
	}
	return o
}

// batching: Cuts are the lengths of the consecutive transactions, Rollback the index of the one rolled
// back (-1: all commit).
type batching struct {
	Cuts     []int
	Rollback int
}

func compositions(n, maxParts int) [][]int {
	var out [][]int
	var rec func(rem int, cur []int)
	rec = func(rem int, cur []int) {
		if rem == 0 {
			out = append(out, append([]int(nil), cur...))
			return
		}
		if len(cur) == maxParts {
			return
		}
		for p := rem; p >= 1; p-- {
			rec(rem-p, append(cur, p))
		}
	}
	rec(n, nil)
	return out
}

// batchings: mode all = every composition into <=3 parts x {no rollback, rollback of any one part};
// followed = no rollback, or rollback of a part that is followed by a committed part (plus the
// single-transaction rollback); commit = no rollback; split3 = the finest split into <=3 transactions
// ([a][b][c] resp. [a][b][cd]) all committed, the same with the middle one rolled back, and the
// single-transaction batching committed.
func batchings(n int, mode string) []batching {
	var out []batching
	if mode == "finest" || mode == "mid" || mode == "one+finest" {
		// finest: only the finest split into <=3 transactions, all committed; one+finest: the single
		// transaction and the finest split, all committed; mid: the single transaction
		// and the finest split with its middle (2 transactions: first) transaction rolled back.
		all := batchings(n, "split3")
		if mode == "finest" {
			if len(all) > 1 {
				return all[1:2]
			}
			return all
		}
		if mode == "one+finest" {
			if len(all) > 2 {
				return all[:2]
			}
			return all
		}
		if len(all) > 2 {
			return []batching{all[0], all[2]}
		}
		return all
	}
	if mode == "one+2rest" {
		// the single transaction, and the first two operations in one transaction followed by the rest in another
		out = append(out, batching{[]int{n}, -1})
		if n > 2 {
			out = append(out, batching{[]int{2, n - 2}, -1})
		}
		return out
	}
	if mode == "split3" {
		out = append(out, batching{[]int{n}, -1})
		if n >= 2 {
			var cuts []int
			for i := 0; i < n && i < 2; i++ {
				cuts = append(cuts, 1)
			}
			if n > 2 {
				cuts = append(cuts, n-2)
			}
			out = append(out, batching{cuts, -1})
			if len(cuts) == 3 {
				out = append(out, batching{cuts, 1})
			} else {
				out = append(out, batching{cuts, 0})
			}
		}
		return out
	}
	for _, c := range compositions(n, 3) {
		out = append(out, batching{c, -1})
		if mode == "commit" {
			continue
		}
		for r := range c {
			if mode == "followed" && r == len(c)-1 && len(c) > 1 {
				continue
			}
			out = append(out, batching{c, r})
		}
	}
	return out
}

func (b batching) String() string {
	var s []string
	for i, c := range b.Cuts {
		e := "C"
		if i == b.Rollback {
			e = "R"
		}
		s = append(s, fmt.Sprintf("%d%s", c, e))
	}
	return strings.Join(s, "+")
}

// ---------------- reference model: set of possible sorted multisets ----------------

type mstate []txn.KV // sorted by (K,V)

func canon(s []txn.KV) string {
	var sb strings.Builder
	for _, kv := range s {
		fmt.Fprintf(&sb, "%d=%d:%s;", kv.K, len(kv.V), kv.V)
	}
	return sb.String()
}

func sorted(s []txn.KV) mstate {
	c := append([]txn.KV(nil), s...)
	sort.Slice(c, func(i, j int) bool {
		if c[i].K != c[j].K {
			return c[i].K < c[j].K
		}
		return c[i].V < c[j].V
	})
	return c
}

type model struct {
	unique bool
	states map[string]mstate
}

func newModel(unique bool, init []txn.KV) *model {
	s := sorted(init)
	return &model{unique: unique, states: map[string]mstate{canon(s): s}}
}

func (m *model) clone() *model {
	c := &model{unique: m.unique, states: map[string]mstate{}}
	for k, v := range m.states {
		c.states[k] = v
	}
	return c
}

type expect struct {
	OK    bool
	Found bool
	Vals  map[string]bool // get: allowed values
}

// apply advances every possible state by o and returns what the step must report.
func (m *model) apply(o txn.Op) expect {
	var e expect
	e.Vals = map[string]bool{}
	next := map[string]mstate{}
	put := func(s []txn.KV) { c := sorted(s); next[canon(c)] = c }
	first := true
	for _, st := range m.states {
		var idx []int
		for i, kv := range st {
			if kv.K == o.K {
				idx = append(idx, i)
			}
		}
		ok, found := false, false
		with := func(i int, v string) []txn.KV {
			c := append([]txn.KV(nil), st...)
			c[i].V = v
			return c
		}
		switch o.Kind {
		case "add":
			if m.unique && len(idx) > 0 {
				put(st)
			} else {
				ok = true
				put(append(append([]txn.KV(nil), st...), txn.KV{K: o.K, V: o.V}))
			}
		case "update":
			if len(idx) == 0 {
				put(st)
			} else {
				ok = true
				for _, i := range idx {
					put(with(i, o.V))
				}
			}
		case "upsert":
			ok = true
			if len(idx) == 0 {
				put(append(append([]txn.KV(nil), st...), txn.KV{K: o.K, V: o.V}))
			} else {
				for _, i := range idx {
					put(with(i, o.V))
				}
			}
		case "remove":
			if len(idx) == 0 {
				put(st)
			} else {
				ok = true
				for _, i := range idx {
					put(append(append([]txn.KV(nil), st[:i]...), st[i+1:]...))
				}
			}
		case "get":
			found = len(idx) > 0
			ok = found
			for _, i := range idx {
				e.Vals[st[i].V] = true
			}
			put(st)
		default:
			panic(o.Kind)
		}
		if !first && (ok != e.OK || found != e.Found) {
			panic("model: possible states disagree on a step result")
		}
		first = false
		e.OK, e.Found = ok, found
	}
	m.states = next
	return e
}

// observeGet narrows the possible states to those holding (k,v).
func (m *model) observeGet(k int, v string) {
	for key, st := range m.states {
		has := false
		for _, kv := range st {
			if kv.K == k && kv.V == v {
				has = true
			}
		}
		if !has {
			delete(m.states, key)
		}
	}
}

func (m *model) size() int {
	for _, st := range m.states {
		return len(st)
	}
	return 0
}

func (m *model) describe() string {
	var keys []string
	for k := range m.states {
		keys = append(keys, k)
	}
	sort.Strings(keys)
	var s []string
	for _, k := range keys {
		s = append(s, abbrKVs(m.states[k]))
	}
	return strings.Join(s, " or ")
}

func abbr(v string) string {
	if len(v) <= 12 {
		return fmt.Sprintf("%q", v)
	}
	return fmt.Sprintf("%q..(%dB)", v[:6], len(v))
}

func abbrKVs(s []txn.KV) string {
	var p []string
	for _, kv := range s {
		p = append(p, fmt.Sprintf("%d=%s", kv.K, abbr(kv.V)))
	}
	return "[" + strings.Join(p, " ") + "]"
}

// ---------------- one case ----------------

type caseSpec struct {
	Combo    combo    `json:"combo"`
	Family   string   `json:"family"`
	Syms     []sym    `json:"syms"`
	Batching batching `json:"batching"`
}

func (cs caseSpec) ops() []txn.Op {
	var o []txn.Op
	for i, s := range cs.Syms {
		o = append(o, s.op(cs.Combo, i))
	}
	return o
}

func (cs caseSpec) String() string {
	var p []string
	i := 0
	for ti, n := range cs.Batching.Cuts {
		var q []string
		for j := 0; j < n; j++ {
			o := cs.ops()[i]
			if o.Kind == "remove" || o.Kind == "get" {
				q = append(q, fmt.Sprintf("%s(%d)", o.Kind, o.K))
			} else {
				q = append(q, fmt.Sprintf("%s(%d,%s)", o.Kind, o.K, abbr(o.V)))
			}
			i++
		}
		end := "commit"
		if ti == cs.Batching.Rollback {
			end = "ROLLBACK"
		}
		p = append(p, "{"+strings.Join(q, "; ")+"; "+end+"}")
	}
	return fmt.Sprintf("[%s] pre=%s %s", cs.Combo, abbrKVs(sorted(cs.Combo.initial())), strings.Join(p, " "))
}

type viol struct {
	Kind, Detail string
}

type outcome struct {
	rc         string // root-cause class of the input ("none" unless the input belongs to a recognised class)
	viols      []viol
	final      *model
	effective  bool // at least one mutating step took effect (per the model)
	finalCanon string
}

// execute runs the transactions of cs on the store in sopenv.Dir (already restored) and checks steps.
func execute(cs caseSpec) (out outcome) {
	c := cs.Combo
	stores := map[string]txn.StoreSpec{storeName: {Name: storeName, Slot: c.Slot, Unique: c.Unique, Place: c.Place}}
	m := newModel(c.Unique, c.initial())
	ops := cs.ops()
	add := func(kind, f string, a ...any) { out.viols = append(out.viols, viol{kind, fmt.Sprintf(f, a...)}) }
	i := 0
	out.rc = "none"
	for ti, n := range cs.Batching.Cuts {
		rb := ti == cs.Batching.Rollback
		effRemoves, otherTracked := 0, false
		end := "commit"
		work := m
		if rb {
			end = "rollback"
			work = m.clone()
		}
		p := txn.Prog{Name: fmt.Sprint("t", ti), Mode: sop.ForWriting, Ops: ops[i : i+n], End: end}
		rec := txn.Run(ctx, p, stores)
		if rec.BeginErr != "" || rec.OpenErr != "" {
			add("txn-error|begin-open", "transaction %d: begin=%q open=%q", ti, rec.BeginErr, rec.OpenErr)
			out.final = m
			return
		}
		for j, r := range rec.Results {
			o := ops[i+j]
			if r.Err != "" {
				add("step-error|"+o.Kind, "transaction %d step %d %s returned error %q (transaction rolled back by the harness)", ti, i+j, o, r.Err)
				break
			}
			e := work.apply(o)
			if e.OK && o.Kind != "get" {
				out.effective = true
			}
			if e.OK && o.Kind == "remove" {
				effRemoves++
			} else if e.OK {
				otherTracked = true // effective add/update/upsert or a found get registers the item with the tracker
			}
			if o.Kind == "get" {
				if r.Found != e.Found {
					add("step-result|get", "transaction %d step %d get(%d): found=%v, model says %v", ti, i+j, o.K, r.Found, e.Found)
				} else if r.Found {
					if !e.Vals[r.Val] {
						var al []string
						for v := range e.Vals {
							al = append(al, abbr(v))
						}
						sort.Strings(al)
						add("step-result|get-value", "transaction %d step %d get(%d) read %s, model allows %v", ti, i+j, o.K, abbr(r.Val), al)
					} else {
						work.observeGet(o.K, r.Val)
					}
				}
			} else if r.OK != e.OK {
				add("step-result|"+o.Kind, "transaction %d step %d %s(%d) returned %v, model says %v", ti, i+j, o.Kind, o.K, r.OK, e.OK)
			}
		}
		if rec.Aborted {
			// an op failed: the harness rolled back; the model keeps the pre-transaction state.
			if !rb {
				// m was advanced in place up to the failing step: cannot continue meaningfully.
				out.final = m
				return
			}
		} else if rec.EndErr != "" {
			add("txn-error|"+end, "transaction %d %s failed: %s", ti, end, rec.EndErr)
			out.final = m
			return
		}
		i += n
		// Input class: a committed transaction on an actively-persisted store whose only effective
		// operations are removes (the item tracker then holds no item, see known finding).
		if !rb && c.Place == "active" && effRemoves > 0 && !otherTracked {
			out.rc = "active-remove-only-txn"
		}
	}
	out.final = m
	return
}

// checkDump compares a dump with the model's possible final states.
func checkDump(where string, m *model, unique bool, d txn.Dump) []viol {
	var vs []viol
	if e := d.Errs[storeName]; e != "" {
		return []viol{{"dump-error|" + where, fmt.Sprintf("%s dump failed: %s", where, e)}}
	}
	kv := d.Stores[storeName]
	for i := 1; i < len(kv); i++ {
		if kv[i-1].K > kv[i].K || (unique && kv[i-1].K == kv[i].K) {
			vs = append(vs, viol{"dump-order|" + where, fmt.Sprintf("%s dump not in key order: %s", where, abbrKVs(kv))})
			break
		}
	}
	if _, ok := m.states[canon(sorted(kv))]; !ok {
		vs = append(vs, viol{"dump-contents|" + where, fmt.Sprintf("%s dump %s, model: %s", where, abbrKVs(kv), m.describe())})
	}
	if d.Counts[storeName] != int64(m.size()) {
		vs = append(vs, viol{"dump-count|" + where, fmt.Sprintf("%s Count()=%d, model has %d items (dump has %d)", where, d.Counts[storeName], m.size(), len(kv))})
	}
	return vs
}

// ---------------- worker ----------------

const ringSize = 32

type pending struct {
	cs  caseSpec
	rc  string
	dir string
	m   *model
}

type worker struct {
	run     *ev.Run
	c       combo
	dirs    []string
	tpls    []*template
	n       int
	pend    []pending
	finals  map[string]bool
	nontriv int64
	byBatch map[string]int64
	sampled bool
}

func newWorker(run *ev.Run, c combo) *worker {
	w := &worker{run: run, c: c, finals: map[string]bool{}, byBatch: map[string]int64{}}
	// The store records its absolute blob folder, so a template can only be restored into the folder it
	// was built in: build one template per ring slot.
	for i := 0; i < ringSize; i++ {
		w.dirs = append(w.dirs, filepath.Join(sopenv.Base, fmt.Sprintf("w%02d", i)))
		w.tpls = append(w.tpls, nil)
	}
	return w
}

func (w *worker) prepare(slot int) {
	sopenv.Dir = w.dirs[slot]
	if w.tpls[slot] != nil {
		return
	}
	sopenv.FreshDir(1)
	if err := txn.Build(ctx, []txn.StoreSpec{w.c.spec()}); err != nil {
		panic(fmt.Sprintf("cannot build pre-state for %s: %v", w.c, err))
	}
	w.tpls[slot] = loadTemplate(sopenv.Dir)
}

func (w *worker) violate(cs caseSpec, rc string, v viol) {
	w.run.Violate(ev.Violation{
		Sig:    fmt.Sprintf("rc=%s|%s|%s", rc, v.Kind, cs.Combo),
		Detail: fmt.Sprintf("%s: %s", cs, v.Detail),
		Replay: cs,
	})
}

func (w *worker) one(cs caseSpec, fresh bool) {
	slot := w.n % ringSize
	if slot == 0 {
		w.flush() // pending folders are about to be reused
	}
	w.n++
	w.prepare(slot)
	w.tpls[slot].restoreTo(sopenv.Dir, uint64(1000+w.n))
	var out outcome
	func() {
		defer func() {
			if r := recover(); r != nil {
				out.rc = "none"
				out.viols = append(out.viols, viol{"panic", fmt.Sprint("panic: ", r)})
			}
		}()
		out = execute(cs)
		if len(out.viols) > 0 {
			return
		}
		// warm read (caches as the writers left them), then cold read.
		out.viols = append(out.viols, checkDump("warm", out.final, cs.Combo.Unique, txn.ReadAll(ctx, []string{storeName}))...)
		sopenv.ResetCaches()
		out.viols = append(out.viols, checkDump("cold", out.final, cs.Combo.Unique, txn.ReadAll(ctx, []string{storeName}))...)
	}()
	w.run.Add("evaluations", 1)
	w.byBatch[cs.Batching.String()]++
	if out.effective {
		w.nontriv++
	}
	if out.final != nil {
		for k := range out.final.states {
			h := fnv.New64a()
			h.Write([]byte(k))
			w.finals[fmt.Sprintf("%016x", h.Sum64())] = true
		}
	}
	if w.n >= 300 && !w.sampled && len(cs.Batching.Cuts) > 1 && out.effective {
		w.sampled = true
		w.run.Sample(cs.String())
	}
	for _, v := range out.viols {
		w.violate(cs, out.rc, v)
	}
	if out.rc != "none" {
		w.run.Add("runs_in_known_root_cause_class", 1)
	}
	if fresh && len(out.viols) == 0 {
		w.pend = append(w.pend, pending{cs, out.rc, sopenv.Dir, out.final})
	}
}

// flush has ONE fresh process (which never executed the writes) dump the pending store folders.
func (w *worker) flush() {
	if len(w.pend) == 0 {
		return
	}
	var dirs []string
	for _, p := range w.pend {
		dirs = append(dirs, p.dir)
	}
	in, _ := json.Marshal(dirs)
	cmd := exec.Command(os.Args[0], os.Args[1:]...)
	cmd.Env = append(os.Environ(), "VERIF_JOB=reader", "GOMAXPROCS=2")
	cmd.Stdin = bytes.NewReader(in)
	var stdout, stderr bytes.Buffer
	cmd.Stdout, cmd.Stderr = &stdout, &stderr
	err := cmd.Run()
	var dumps []txn.Dump
	idx := bytes.LastIndex(stdout.Bytes(), []byte("@@DUMPS "))
	if err == nil && idx >= 0 {
		err = json.Unmarshal(stdout.Bytes()[idx+len("@@DUMPS "):], &dumps)
	}
	if err != nil || idx < 0 || len(dumps) != len(w.pend) {
		for _, p := range w.pend {
			w.violate(p.cs, p.rc, viol{"dump-error|fresh-process", fmt.Sprintf("fresh reader process failed: %v %s", err, tail(stderr.String()+stdout.String(), 600))})
		}
		w.pend = nil
		return
	}
	for i, p := range w.pend {
		for _, v := range checkDump("fresh-process", p.m, p.cs.Combo.Unique, dumps[i]) {
			w.violate(p.cs, p.rc, v)
		}
	}
	w.run.Add("fresh_process_dumps", int64(len(w.pend)))
	w.run.Add("fresh_processes", 1)
	w.pend = nil
}

func tail(s string, n int) string {
	if len(s) > n {
		return s[len(s)-n:]
	}
	return s
}

func readerMain() {
	var dirs []string
	if err := json.NewDecoder(os.Stdin).Decode(&dirs); err != nil {
		fmt.Fprintln(os.Stderr, "reader: bad input:", err)
		os.Exit(3)
	}
	var dumps []txn.Dump
	for i, d := range dirs {
		sopenv.Dir = d
		if i > 0 {
			sopenv.ResetCaches() // different folders reuse the same deterministic ids
		}
		dumps = append(dumps, txn.ReadAll(ctx, []string{storeName}))
	}
	b, _ := json.Marshal(dumps)
	fmt.Printf("\n@@DUMPS %s\n", b)
	sopenv.Cleanup()
	os.Exit(0)
}

// enumerate calls f for every case of family fam under combo c that belongs to the shard.
func enumerate(c combo, fam family, shard, shards int, f func(caseSpec)) {
	alpha := alphabet(fam.Alphabet)
	idx := 0
	for n := fam.MinLen; n <= fam.MaxLen; n++ {
		bs := batchings(n, fam.Batch)
		cur := make([]int, n)
		for {
			syms := make([]sym, n)
			for i, a := range cur {
				syms[i] = alpha[a]
			}
			for _, b := range bs {
				if idx%shards == shard {
					f(caseSpec{Combo: c, Family: fam.Name, Syms: syms, Batching: b})
				}
				idx++
			}
			// odometer, last position fastest
			p := n - 1
			for p >= 0 {
				cur[p]++
				if cur[p] < len(alpha) {
					break
				}
				cur[p] = 0
				p--
			}
			if p < 0 {
				break
			}
		}
	}
}

func familySize(fam family) int64 {
	a := int64(len(alphabet(fam.Alphabet)))
	var total int64
	for n := fam.MinLen; n <= fam.MaxLen; n++ {
		seqs := int64(1)
		for i := 0; i < n; i++ {
			seqs *= a
		}
		total += seqs * int64(len(batchings(n, fam.Batch)))
	}
	return total
}

type jobSpec struct {
	Combo, Family, Shard, Shards int
}

func main() {
	if ev.Job() != "" {
		// a worker runs one transaction at a time; with more Ps the runtime spends 2-3x the CPU on
		// futex/spinning for sop's short-lived task goroutines (measured), which matters on a shared box.
		runtime.GOMAXPROCS(1)
	}
	if ev.Job() == "reader" {
		readerMain()
	}
	run := ev.New("C19", "exploration")
	thorough := run.Thorough()
	cs := combos()
	fams := families(thorough)

	for i, a := range os.Args {
		if a == "--replay" && i+1 < len(os.Args) {
			replay(run, os.Args[i+1])
		}
	}

	if job := ev.Job(); job != "" {
		var js jobSpec
		if err := json.Unmarshal([]byte(job), &js); err != nil {
			panic(err)
		}
		c, fam := cs[js.Combo], fams[js.Family]
		w := newWorker(run, c)
		// one absolute deadline for the whole run (set by the parent), so that a loaded machine yields a
		// non-exhaustive result instead of an over-long run.
		deadline := time.Now().Add(12 * time.Minute)
		if d, err := strconv.ParseInt(os.Getenv("C19_DEADLINE"), 10, 64); err == nil {
			deadline = time.Unix(d, 0)
		}
		stopped := false
		enumerate(c, fam, js.Shard, js.Shards, func(k caseSpec) {
			if stopped {
				return
			}
			if time.Now().After(deadline) {
				stopped = true
				run.NotExhaustive(fmt.Sprintf("worker deadline reached in %s family %s shard %d/%d after %d cases", c, fam.Name, js.Shard, js.Shards, w.n))
				return
			}
			w.one(k, fam.Fresh)
		})
		w.flush()
		run.Add("effective_runs", w.nontriv)
		var fl []string
		for k := range w.finals {
			fl = append(fl, k)
		}
		run.Set("final_states", fl)
		bb := map[string]int64{}
		for k, v := range w.byBatch {
			bb[k] = v
		}
		run.Set("by_batching", bb)
		sopenv.Cleanup()
		run.EmitPartial()
	}

	// parent: jobs = combo x family x shard, big families sharded so that jobs are of similar size.
	var jobs []string
	var planned int64
	perFamily := map[string]int64{}
	for fi, fam := range fams {
		sz := familySize(fam)
		shards := int(sz/2000) + 1
		for ci, c := range cs {
			if (fam.OnlyPre != "" && c.Pre != fam.OnlyPre) || (fam.OnlySlot != 0 && c.Slot != fam.OnlySlot) {
				continue
			}
			if f := os.Getenv("C19_ONLY"); f != "" && !strings.Contains(c.String()+"|fam="+fam.Name, f) {
				continue // development knob: restrict to configurations/families containing the substring
			}
			planned += sz
			perFamily[fam.Name] += sz
			for s := 0; s < shards; s++ {
				b, _ := json.Marshal(jobSpec{ci, fi, s, shards})
				jobs = append(jobs, string(b))
			}
		}
	}
	// largest families first would leave stragglers of small ones; jobs are uniform enough as is.
	dl := 100 * time.Second
	if thorough {
		dl = 13 * time.Minute
	}
	if v, err := strconv.Atoi(os.Getenv("C19_DEADLINE_S")); err == nil && v > 0 {
		dl = time.Duration(v) * time.Second // knob for shared machines: allow the stated domain to complete
	}
	os.Setenv("C19_DEADLINE", fmt.Sprint(time.Now().Add(dl).Unix()))
	dl += time.Minute
	run.Parallel(jobs, 0, dl, func(job, output string) *ev.Violation {
		return &ev.Violation{Sig: "worker-crash", Detail: fmt.Sprintf("worker for job %s died: %s", job, tail(output, 1500)), Replay: job}
	})

	// fold per-job extras
	cov := run.Coverage
	finals := map[string]bool{}
	byBatch := map[string]int64{}
	if pj, ok := cov["per_job"].(map[string]any); ok {
		for _, x := range pj {
			m, _ := x.(map[string]any)
			if fl, ok := m["final_states"].([]any); ok {
				for _, s := range fl {
					finals[fmt.Sprint(s)] = true
				}
			}
			if bb, ok := m["by_batching"].(map[string]any); ok {
				for k, v := range bb {
					if f, ok := v.(float64); ok {
						byBatch[k] += int64(f)
					}
				}
			}
		}
	}
	delete(cov, "per_job")
	if caps, ok := cov["caps_hit"].([]string); ok && len(caps) > 4 {
		sort.Strings(caps)
		run.Set("caps_hit", append(caps[:3:3], fmt.Sprintf("... and %d more workers stopped by the run deadline", len(caps)-3)))
	}
	if ev, ok := cov["evaluations"].(int64); ok {
		run.Set("planned_cases_not_run", planned-ev)
	}
	run.Set("planned_cases", planned)
	run.Set("planned_per_family", perFamily)
	run.Set("runs_by_batching", byBatch)
	run.Set("distinct_final_contents", len(finals))
	run.Set("distinct_nontrivial", cov["effective_runs"])
	run.Set("configurations", len(cs))
	var fd []string
	for _, f := range fams {
		fd = append(fd, fmt.Sprintf("%s: alphabet=%s length=%d..%d batchings=%s fresh-process-dump=%v pre=%s slot=%s cases-per-configuration=%d", f.Name, f.Alphabet, f.MinLen, f.MaxLen, f.Batch, f.Fresh, map[bool]string{true: "both", false: f.OnlyPre}[f.OnlyPre == ""], map[bool]string{true: "2,4", false: fmt.Sprint(f.OnlySlot)}[f.OnlySlot == 0], familySize(f)))
	}
	run.Set("families", fd)
	run.Set("rule", "DFS, no sampling: for every configuration {value placement node|segment|active|global} x {slot length 2,4} x unique, plus one non-unique configuration (segment, slot 2), from pre-state empty (keys 1,2,3) and from pre-state 10,20,30,40,50 (keys 20,30,35: an item in an inner node, an item in a leaf, an absent key; values small/5KB/empty), EVERY sequence of each family listed in 'families' (alphabet full = {add,upsert,update} x 3 keys x {small v<step>, 5 KB, empty} + remove x 3 keys + find+GetCurrentValue x 3 keys = 33 symbols; small = small values only = 15 symbols; onekey = {add small, upsert 5KB, update small, update empty, remove, find+GetCurrentValue} on the inner-node key only = 6 symbols) is run under EVERY batching of the family's mode (all = every split into 1..3 consecutive transactions x {all commit, any one rolled back}; followed = all commit, or one rolled back that is followed by a committed one, or the single transaction rolled back; split3 = one transaction / finest split into <=3 transactions all committed / the same with the middle (for 2 transactions: first) one rolled back; finest = only the finest split into <=3 transactions ([a][b][rest]), all committed; one+finest = one transaction, and the finest split, all committed). With slot length 2 the pre-state tree is root[20,40] over leaves [10][30][50] (non-unique: plus a duplicate of 20), with slot length 4 root[30] over [10,20][40,50]; the first enumerated key is the one held in the inner node. Each run = its own restored store folder on tmpfs, real infs transactions, step results compared with a sorted-multiset model (set of possible states for duplicates), then dump+Count read warm, after sopenv.ResetCaches(), and for fresh-process families by a new process. distinct_nontrivial = runs in which at least one mutating operation took effect (model result true); distinct_final_contents = distinct final model contents reached")
	run.Assumption("runs tagged rc=active-remove-only-txn (actively persisted store, some committed transaction whose only effective operations are removes) belong to one input class with a known root cause (itemActionTracker.Remove did not register the item, so a remove-only commit was skipped; found by this check on /repo ce9bcdc0, repaired in /repo 7074c2ba; the tag stays so that a regression is recognised); a second defect that only shows inside that class would be reported under the same prefix")
	run.Assumption("value domain {small, 5 KB, empty}; 3 keys per pre-state; sequence length and batching families as listed in coverage.families (bounded exhaustive within them, nothing beyond)")
	run.Assumption("fresh-process dumps are taken by one new process per up to 32 store folders (cold caches between folders); the folders are read in place because a store records its absolute blob path")
	run.Assumption("single-threaded: no concurrent transactions (C02-C06 cover those); L2 cache is the in-memory implementation")
	run.Finish()
}

func replay(run *ev.Run, file string) {
	b, err := os.ReadFile(file)
	if err != nil {
		panic(err)
	}
	var r struct {
		Replay caseSpec `json:"replay"`
	}
	if err := json.Unmarshal(b, &r); err != nil {
		panic(err)
	}
	w := newWorker(run, r.Replay.Combo)
	w.one(r.Replay, true)
	w.flush()
	if os.Getenv("C19_KEEP") == "" {
		sopenv.Cleanup()
	} else {
		fmt.Println("kept:", sopenv.Dir)
	}
	fmt.Println("replayed:", r.Replay)
	run.Finish()
}
