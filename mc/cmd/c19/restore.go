package main

import (
	"bytes"
	"os"
	"path/filepath"
	"time"

	"verif.local/mc/detuuid"
	"verif.local/mc/sopenv"
)

// A template is an in-memory image of a store folder. Registry segment files are 1 MB of mostly
// zeroes, so files are kept (and rewritten) as sparse lists of non-zero 4 KB blocks: restoring is
// ~20x cheaper than sopenv.Restore's byte copy and produces identical file contents, sizes and mtimes.
type tblock struct {
	off  int64
	data []byte
}

type tfile struct {
	rel    string
	mode   os.FileMode
	size   int64
	mtime  time.Time
	blocks []tblock
}

type template struct {
	dirs  []string
	files []tfile
}

const blk = 4096

func loadTemplate(root string) *template {
	t := &template{}
	zero := make([]byte, blk)
	err := filepath.Walk(root, func(p string, info os.FileInfo, err error) error {
		if err != nil {
			return err
		}
		rel, _ := filepath.Rel(root, p)
		if info.IsDir() {
			t.dirs = append(t.dirs, rel)
			return nil
		}
		b, err := os.ReadFile(p)
		if err != nil {
			return err
		}
		f := tfile{rel: rel, mode: info.Mode(), size: int64(len(b)), mtime: info.ModTime()}
		for off := 0; off < len(b); off += blk {
			end := off + blk
			if end > len(b) {
				end = len(b)
			}
			if !bytes.Equal(b[off:end], zero[:end-off]) {
				f.blocks = append(f.blocks, tblock{int64(off), append([]byte(nil), b[off:end]...)})
			}
		}
		t.files = append(t.files, f)
		return nil
	})
	if err != nil {
		panic(err)
	}
	return t
}

// restoreTo replaces dir by the template image and gives the process cold caches and a fresh UUID stream
// (same contract as sopenv.Restore).
func (t *template) restoreTo(dir string, uuidNamespace uint64) {
	os.RemoveAll(dir)
	for _, d := range t.dirs {
		if err := os.MkdirAll(filepath.Join(dir, d), 0o755); err != nil {
			panic(err)
		}
	}
	for _, f := range t.files {
		p := filepath.Join(dir, f.rel)
		fh, err := os.OpenFile(p, os.O_CREATE|os.O_WRONLY|os.O_TRUNC, f.mode)
		if err != nil {
			panic(err)
		}
		if err := fh.Truncate(f.size); err != nil {
			panic(err)
		}
		for _, b := range f.blocks {
			if _, err := fh.WriteAt(b.data, b.off); err != nil {
				panic(err)
			}
		}
		fh.Close()
		os.Chtimes(p, f.mtime, f.mtime)
	}
	sopenv.ResetCaches()
	detuuid.Reset(uuidNamespace)
}
