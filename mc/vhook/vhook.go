// Package vhook is the only package that instrumented copies of sop files call.
// It is inert (pass-through) unless a harness installs hooks.
package vhook

import (
	"context"
	"sync/atomic"
	"time"
)

// Hooks are installed by an engine (sched) for the duration of an exploration.
type Hooks struct {
	// Point is a scheduling point of the given class ("l2", "dio", "file", "l1", "map", ...).
	Point func(class, label string)
	// Sleep handles sop.Sleep; returns true when it handled the sleep (virtual time), false to sleep for real.
	Sleep func(ctx context.Context, d time.Duration) bool
	// Now is the virtual clock.
	Now func() time.Time
	// Inline makes TaskRunner.Go run its task synchronously on the caller's goroutine.
	Inline bool
	// Spawn (optional; ignored when Inline) is called by TaskRunner.Go on the spawning goroutine: it registers the
	// task as a thread of the controlled scheduler and returns its handle (nil = leave the task free-running).
	// limit > 0 is the TaskRunner's concurrency limit: Spawn blocks while that many tasks of the caller are live.
	Spawn func(limit int) TaskHandle
	// Join is called by TaskRunner.Wait before the real wait: it parks the caller until its tasks have ended.
	Join func()
	// Hold(+1/-1) brackets a region in which the calling thread holds a real mutex of sop across scheduling
	// points (fs.globalReplicationDetailsLocker): a cooperative scheduler must not park the thread there.
	Hold func(delta int)
	// IO is consulted at the entry of every file operation of sop's filesystem backend (after the
	// scheduling point). A non-nil error makes the operation fail with it without executing; the hook may
	// also terminate the process (crash plans), possibly after performing a partial write itself.
	IO func(op, path string, data []byte, off int64) error
}

var cur atomic.Pointer[Hooks]

func Install(h *Hooks) { cur.Store(h) }
func Uninstall()       { cur.Store(nil) }

func Point(class, label string) {
	if h := cur.Load(); h != nil && h.Point != nil {
		h.Point(class, label)
	}
}

func Sleep(ctx context.Context, d time.Duration) bool {
	if h := cur.Load(); h != nil && h.Sleep != nil {
		return h.Sleep(ctx, d)
	}
	return false
}

func Now() time.Time {
	if h := cur.Load(); h != nil && h.Now != nil {
		return h.Now()
	}
	return time.Now()
}

// TaskHandle is used by a scheduler-managed task goroutine: Start first thing, End last thing.
type TaskHandle interface {
	Start()
	End()
}

func TaskSpawn(limit int) TaskHandle {
	if h := cur.Load(); h != nil && !h.Inline && h.Spawn != nil {
		return h.Spawn(limit)
	}
	return nil
}

func TaskJoin() {
	if h := cur.Load(); h != nil && !h.Inline && h.Join != nil {
		h.Join()
	}
}

func Hold(delta int) {
	if h := cur.Load(); h != nil && h.Hold != nil {
		h.Hold(delta)
	}
}

func InlineTasks() bool {
	h := cur.Load()
	return h != nil && h.Inline
}

// IO is called by instrumented file operations: op is one of WriteFile, ReadFile, Remove, Stat, MkdirAll,
// RemoveAll, ReadDir, truncate, create, append, remove, pwrite, pread.
func IO(op, path string, data []byte, off int64) error {
	h := cur.Load()
	if h == nil {
		return nil
	}
	if h.Point != nil {
		class := "file"
		if op == "pwrite" || op == "pread" || op == "open" {
			class = "dio"
		}
		h.Point(class, op+" "+path)
	}
	if h.IO != nil {
		return h.IO(op, path, data, off)
	}
	return nil
}

// Mutating reports whether op changes the disk.
func Mutating(op string) bool {
	switch op {
	case "WriteFile", "Remove", "MkdirAll", "RemoveAll", "truncate", "create", "append", "remove", "pwrite":
		return true
	}
	return false
}

// IOHook calls only the IO hook (no scheduling point); used by decorators that already yielded.
func IOHook(op, path string, data []byte, off int64) error {
	if h := cur.Load(); h != nil && h.IO != nil {
		return h.IO(op, path, data, off)
	}
	return nil
}
