// Package vhook is the only package that instrumented copies of sop files call.
// It is inert (pass-through) unless a harness installs hooks.
package vhook

import (
	"context"
	"sync/atomic"
	"time"
)

// Hooks are installed by an engine (sched) for the duration of an exploration.
type Hooks struct {
	// Point is a scheduling point of the given class ("l2", "dio", "file", "l1", "map", ...).
	Point func(class, label string)
	// Sleep handles sop.Sleep; returns true when it handled the sleep (virtual time), false to sleep for real.
	Sleep func(ctx context.Context, d time.Duration) bool
	// Now is the virtual clock.
	Now func() time.Time
	// Inline makes TaskRunner.Go run its task synchronously on the caller's goroutine.
	Inline bool
}

var cur atomic.Pointer[Hooks]

func Install(h *Hooks) { cur.Store(h) }
func Uninstall()       { cur.Store(nil) }

func Point(class, label string) {
	if h := cur.Load(); h != nil && h.Point != nil {
		h.Point(class, label)
	}
}

func Sleep(ctx context.Context, d time.Duration) bool {
	if h := cur.Load(); h != nil && h.Sleep != nil {
		return h.Sleep(ctx, d)
	}
	return false
}

func Now() time.Time {
	if h := cur.Load(); h != nil && h.Now != nil {
		return h.Now()
	}
	return time.Now()
}

func InlineTasks() bool {
	h := cur.Load()
	return h != nil && h.Inline
}
