// Package ev writes evidence files, replay artefacts and applies the known-findings protocol.
package ev

import (
	"encoding/json"
	"fmt"
	"os"
	"path/filepath"
	"sort"
	"strconv"
	"strings"
	"sync"
	"time"
)

// Root is the verification directory (evidence/, replays/, known_findings.json live here).
var Root = func() string {
	if r := os.Getenv("VERIF_ROOT"); r != "" {
		return r
	}
	return "/verif"
}()

// Violation is one property violation found by a check.
type Violation struct {
	// Sig identifies the failing input / schedule / history class; matched against known_findings.json.
	Sig string `json:"sig"`
	// Detail is the human-readable explanation.
	Detail string `json:"detail"`
	// Replay is the artefact (operation list, schedule, crash plan ...) that reproduces it.
	Replay any `json:"replay"`
}

type knownFinding struct {
	Property string `json:"property"`
	// Match: a violation is this finding iff its Sig has this prefix.
	Match  string `json:"match"`
	What   string `json:"what"`
	Status string `json:"status"` // "open" or "fixed"
	Commit string `json:"commit,omitempty"`
}

// Run collects what one check run covered.
type Run struct {
	mu         sync.Mutex
	Property   string
	Level      string
	Tier       string
	Seed       int64
	start      time.Time
	Coverage   map[string]any
	Assume     []string
	violations []Violation
	samples    []any
	maxSamples int
	Exhaustive bool
}

// Tier returns the requested tier: argument > VERIF_TIER > quick.
func TierFromArgs() string {
	for _, a := range os.Args[1:] {
		if a == "quick" || a == "thorough" {
			return a
		}
	}
	if t := os.Getenv("VERIF_TIER"); t == "quick" || t == "thorough" {
		return t
	}
	return "quick"
}

func New(property, level string) *Run {
	seed, _ := strconv.ParseInt(os.Getenv("VERIF_SEED"), 10, 64)
	return &Run{Property: property, Level: level, Tier: TierFromArgs(), Seed: seed, start: time.Now(),
		Coverage: map[string]any{}, maxSamples: 6, Exhaustive: true}
}

func (r *Run) Thorough() bool { return r.Tier == "thorough" }

func (r *Run) Assumption(s string) { r.mu.Lock(); r.Assume = append(r.Assume, s); r.mu.Unlock() }

// Sample records an explored case (only the first few are kept).
func (r *Run) Sample(s any) {
	r.mu.Lock()
	if len(r.samples) < r.maxSamples {
		r.samples = append(r.samples, s)
	}
	r.mu.Unlock()
}

func (r *Run) Set(k string, v any) { r.mu.Lock(); r.Coverage[k] = v; r.mu.Unlock() }

func (r *Run) Add(k string, n int64) {
	r.mu.Lock()
	cur, _ := r.Coverage[k].(int64)
	r.Coverage[k] = cur + n
	r.mu.Unlock()
}

func (r *Run) NotExhaustive(why string) {
	r.mu.Lock()
	r.Exhaustive = false
	caps, _ := r.Coverage["caps_hit"].([]string)
	r.Coverage["caps_hit"] = append(caps, why)
	r.mu.Unlock()
}

// Violate records a violation (deduplicated by Sig; the first replay per Sig is kept).
func (r *Run) Violate(v Violation) {
	r.mu.Lock()
	defer r.mu.Unlock()
	for _, o := range r.violations {
		if o.Sig == v.Sig {
			return
		}
	}
	r.violations = append(r.violations, v)
}

// NewViolationCount counts violations that are not listed as open known findings.
func (r *Run) NewViolationCount() int {
	r.mu.Lock()
	defer r.mu.Unlock()
	known := loadKnown()
	n := 0
	for _, v := range r.violations {
		m := false
		for _, k := range known {
			if k.Property == r.Property && k.Status == "open" && strings.HasPrefix(v.Sig, k.Match) {
				m = true
			}
		}
		if !m {
			n++
		}
	}
	return n
}

func (r *Run) ViolationCount() int { r.mu.Lock(); defer r.mu.Unlock(); return len(r.violations) }

func loadKnown() []knownFinding {
	b, err := os.ReadFile(filepath.Join(Root, "known_findings.json"))
	if err != nil {
		return nil
	}
	var f struct {
		Findings []knownFinding `json:"findings"`
	}
	if err := json.Unmarshal(b, &f); err != nil {
		fmt.Fprintf(os.Stderr, "known_findings.json unreadable: %v\n", err)
		os.Exit(2)
	}
	return f.Findings
}

// Finish writes the evidence file, prints KNOWN-FINDING / VIOLATION lines and exits.
func (r *Run) Finish() {
	r.mu.Lock()
	defer r.mu.Unlock()
	known := loadKnown()
	sort.Slice(r.violations, func(i, j int) bool { return r.violations[i].Sig < r.violations[j].Sig })
	newV := 0
	knownHit := map[string]int{}
	var knownSigs []string
	for i, v := range r.violations {
		matched := false
		for _, k := range known {
			if k.Property == r.Property && k.Status == "open" && strings.HasPrefix(v.Sig, k.Match) {
				knownHit[k.Match+"\x00"+k.What]++
				knownSigs = append(knownSigs, v.Sig)
				matched = true
				break
			}
		}
		if matched {
			continue
		}
		newV++
		dir := filepath.Join(Root, "replays")
		os.MkdirAll(dir, 0o755)
		p := filepath.Join(dir, fmt.Sprintf("%s_%d.json", r.Property, i))
		b, _ := json.MarshalIndent(map[string]any{"property": r.Property, "sig": v.Sig, "detail": v.Detail, "replay": v.Replay}, "", " ")
		os.WriteFile(p, b, 0o644)
		fmt.Printf("VIOLATION property=%s replay=%s\n", r.Property, p)
		fmt.Printf("  sig=%s\n  %s\n", v.Sig, v.Detail)
	}
	keys := make([]string, 0, len(knownHit))
	for k := range knownHit {
		keys = append(keys, k)
	}
	sort.Strings(keys)
	for _, k := range keys {
		parts := strings.SplitN(k, "\x00", 2)
		fmt.Printf("KNOWN-FINDING: property=%s %s (match=%q, %d cases this run)\n", r.Property, parts[1], parts[0], knownHit[k])
	}
	cov := r.Coverage
	cov["samples"] = r.samples
	if len(r.samples) == 0 {
		cov["samples"] = []any{"(none recorded)"}
	}
	cov["exhaustive"] = r.Exhaustive
	cov["known_finding_cases"] = len(r.violations) - newV
	if len(knownSigs) > 300 {
		knownSigs = knownSigs[:300]
	}
	cov["known_finding_signatures"] = knownSigs // the full signatures that matched a listed finding in this run
	out := map[string]any{
		"property_id": r.Property, "tier": r.Tier, "seed": r.Seed, "level": r.Level,
		"coverage": cov, "assumptions": r.Assume,
		"wall_s":     time.Since(r.start).Seconds(),
		"violations": newV,
	}
	if r.Assume == nil {
		out["assumptions"] = []string{}
	}
	if part := os.Getenv("VERIF_MERGE_PART"); part != "" {
		// second part of a two-engine check: fold this run into the evidence the first part just wrote
		if eb, err := os.ReadFile(filepath.Join(Root, "evidence", r.Property+".json")); err == nil {
			var prev map[string]any
			if json.Unmarshal(eb, &prev) == nil {
				pc, _ := prev["coverage"].(map[string]any)
				if pc != nil {
					num := func(v any) float64 {
						switch x := v.(type) {
						case float64:
							return x
						case int64:
							return float64(x)
						case int:
							return float64(x)
						}
						return 0
					}
					pc["evaluations"] = int64(num(pc["evaluations"]) + num(cov["evaluations"]))
					pc["distinct_nontrivial"] = int64(num(pc["distinct_nontrivial"]) + num(cov["distinct_nontrivial"]))
					if e, ok := pc["exhaustive"].(bool); ok {
						pc["exhaustive"] = e && r.Exhaustive
					}
					parts, _ := pc["additional_parts"].(map[string]any)
					if parts == nil {
						parts = map[string]any{}
					}
					parts[part] = cov
					pc["additional_parts"] = parts
					if lvl := os.Getenv("VERIF_MERGE_LEVEL"); lvl != "" {
						// the second part lifts the check to another evidence level and brings that level's own keys
						prev["level"] = lvl
						for _, k := range []string{"states", "transitions", "traces_validated_against_impl"} {
							if v, ok := cov[k]; ok {
								pc[k] = v
							}
						}
					}
					prev["violations"] = int(num(prev["violations"])) + newV
					prev["wall_s"] = num(prev["wall_s"]) + time.Since(r.start).Seconds()
					out = prev
				}
			}
		}
	}
	b, _ := json.MarshalIndent(out, "", " ")
	os.MkdirAll(filepath.Join(Root, "evidence"), 0o755)
	if err := os.WriteFile(filepath.Join(Root, "evidence", r.Property+".json"), b, 0o644); err != nil {
		fmt.Fprintln(os.Stderr, "cannot write evidence:", err)
		os.Exit(2)
	}
	fmt.Printf("%s %s: level=%s exhaustive=%v violations=%d known=%d wall=%.1fs\n", r.Property, r.Tier, r.Level, r.Exhaustive, newV, len(r.violations)-newV, time.Since(r.start).Seconds())
	runAtExit()
	if newV > 0 {
		os.Exit(1)
	}
	os.Exit(0)
}

// ---- worker-process fan-out ----

// Partial is what a worker process reports to its parent.
type Partial struct {
	Job        string           `json:"job"`
	Counters   map[string]int64 `json:"counters"`
	Extra      map[string]any   `json:"extra"`
	Violations []Violation      `json:"violations"`
	Samples    []any            `json:"samples"`
	Caps       []string         `json:"caps"`
}

var atExit []func()

// OnExit registers a clean-up that runs right before Finish / EmitPartial end the process (they call os.Exit, so
// deferred functions of main would not run).
func OnExit(f func()) { atExit = append(atExit, f) }

func runAtExit() {
	for _, f := range atExit {
		f()
	}
}

// Job returns the job assigned to this process ("" in the parent).
func Job() string { return os.Getenv("VERIF_JOB") }

// EmitPartial prints this run's content for the parent and exits 0 (worker side).
func (r *Run) EmitPartial() {
	r.mu.Lock()
	p := Partial{Job: Job(), Counters: map[string]int64{}, Extra: map[string]any{}, Violations: r.violations, Samples: r.samples}
	for k, v := range r.Coverage {
		switch x := v.(type) {
		case int64:
			p.Counters[k] = x
		case int:
			p.Counters[k] = int64(x)
		case []string:
			if k == "caps_hit" {
				p.Caps = x
			} else {
				p.Extra[k] = x
			}
		default:
			p.Extra[k] = v
		}
	}
	r.mu.Unlock()
	b, _ := json.Marshal(p)
	fmt.Printf("\n@@PARTIAL %s\n", b)
	runAtExit()
	os.Exit(0)
}

// Merge folds a worker's partial into this run: counters are summed, extras collected per job.
func (r *Run) Merge(p Partial) {
	for k, v := range p.Counters {
		r.Add(k, v)
	}
	for _, v := range p.Violations {
		r.Violate(v)
	}
	for _, s := range p.Samples {
		r.Sample(s)
	}
	for _, c := range p.Caps {
		r.NotExhaustive(c)
	}
	if len(p.Extra) > 0 {
		r.mu.Lock()
		pj, _ := r.Coverage["per_job"].(map[string]any)
		if pj == nil {
			pj = map[string]any{}
		}
		pj[p.Job] = p.Extra
		r.Coverage["per_job"] = pj
		r.mu.Unlock()
	}
}
