package ev

import (
	"bufio"
	"bytes"
	"encoding/json"
	"fmt"
	"os"
	"os/exec"
	"runtime"
	"strings"
	"sync"
	"time"
)

// Parallel re-executes this binary once per job (env VERIF_JOB=<job>) on up to nproc processes and
// merges the workers' partial results. A worker that dies without a partial is reported:
// onCrash decides whether that is a violation (returns non-nil) or an infrastructure failure (exit 2).
func (r *Run) Parallel(jobs []string, nproc int, perJobTimeout time.Duration, onCrash func(job, output string) *Violation) {
	if nproc <= 0 {
		nproc = runtime.NumCPU()
	}
	sem := make(chan struct{}, nproc)
	var wg sync.WaitGroup
	var infra []string
	var imu sync.Mutex
	for _, job := range jobs {
		wg.Add(1)
		sem <- struct{}{}
		go func(job string) {
			defer wg.Done()
			defer func() { <-sem }()
			cmd := exec.Command(os.Args[0], os.Args[1:]...)
			cmd.Env = append(os.Environ(), "VERIF_JOB="+job, "GOMAXPROCS=2")
			var out bytes.Buffer
			cmd.Stdout = &out
			cmd.Stderr = &out
			if err := cmd.Start(); err != nil {
				imu.Lock()
				infra = append(infra, fmt.Sprintf("job %s: cannot start: %v", job, err))
				imu.Unlock()
				return
			}
			done := make(chan error, 1)
			go func() { done <- cmd.Wait() }()
			timedOut := false
			select {
			case <-done:
			case <-time.After(perJobTimeout):
				timedOut = true
				cmd.Process.Kill()
				<-done
			}
			var got *Partial
			sc := bufio.NewScanner(bytes.NewReader(out.Bytes()))
			sc.Buffer(make([]byte, 1<<20), 1<<28)
			for sc.Scan() {
				line := sc.Text()
				if strings.HasPrefix(line, "@@PARTIAL ") {
					var p Partial
					if json.Unmarshal([]byte(line[len("@@PARTIAL "):]), &p) == nil {
						got = &p
					}
				}
			}
			if got != nil {
				r.Merge(*got)
				return
			}
			if timedOut {
				r.NotExhaustive(fmt.Sprintf("job %s stopped by its %v deadline", job, perJobTimeout))
				r.Add("jobs_timed_out", 1)
				return
			}
			tail := out.String()
			if len(tail) > 4000 {
				tail = tail[len(tail)-4000:]
			}
			if onCrash != nil {
				if v := onCrash(job, tail); v != nil {
					r.Violate(*v)
					return
				}
			}
			imu.Lock()
			infra = append(infra, fmt.Sprintf("job %s died without result:\n%s", job, tail))
			imu.Unlock()
		}(job)
	}
	wg.Wait()
	if len(infra) > 0 {
		for _, s := range infra {
			fmt.Fprintln(os.Stderr, "HARNESS FAILURE:", s)
		}
		os.Exit(2)
	}
}
