// Package detuuid makes github.com/google/uuid (and therefore sop.NewUUID) deterministic.
package detuuid

import (
	"encoding/binary"
	"sync"

	"github.com/google/uuid"
)

type stream struct {
	mu sync.Mutex
	n  uint64
	ns uint64
}

// NoSync (race-detection builds): no lock, state touched from //go:norace code only (one thread runs at a time).
var NoSync bool

//go:norace
func (s *stream) Read(p []byte) (int, error) {
	if !NoSync {
		s.mu.Lock()
		defer s.mu.Unlock()
	}
	for i := 0; i < len(p); i += 16 {
		s.n++
		var b [16]byte
		// Spread the counter so that high%mod and low%66 both vary: mix with a multiplicative hash.
		x := s.n*0x9E3779B97F4A7C15 + s.ns
		binary.BigEndian.PutUint64(b[:8], x)
		binary.BigEndian.PutUint64(b[8:], s.n^(x>>7)^(s.ns<<32))
		copy(p[i:], b[:])
	}
	return len(p), nil
}

var cur = &stream{}

// Reset restarts the deterministic UUID stream; namespace distinguishes independent streams.
func Reset(namespace uint64) {
	cur = &stream{ns: namespace * 0xD1B54A32D192ED03}
	uuid.SetRand(cur)
}
