// Package sopenv owns the process-global state of sop for harnesses: the memoised L2 cache instance,
// the global L1 cache, UUIDs, jitter, the clock, the DirectIO seam and the store folder.
// It must be built with the instrumentation overlay (cache.VerifResetGlobals comes from it).
package sopenv

import (
	"context"
	"fmt"
	"github.com/sharedcode/sop/infs"
	"math/rand"
	"os"
	"os/exec"
	"path/filepath"
	"time"

	"github.com/sharedcode/sop"
	"github.com/sharedcode/sop/cache"
	"github.com/sharedcode/sop/common"
	"github.com/sharedcode/sop/fs"
	"verif.local/mc/detuuid"
	"verif.local/mc/ev"
	"verif.local/mc/l2x"
	"verif.local/mc/vhook"
)

// L2 is the stable decorator registered for sop.InMemory (sop.GetL2Cache memoises per type).
var L2 *l2x.Cache

// DIO is the stable DirectIO decorator installed in fs.DirectIOSim.
var DIO *l2x.DIO

// Base is this process' scratch root; Dir the store folder used by scenarios; Tpl the template.
var Base, Dir, Tpl string

func init() {
	L2 = l2x.New(cache.NewL2InMemoryCache(), sop.InMemory)
	sop.RegisterL2CacheFactory(sop.InMemory, func(sop.TransactionOptions) sop.L2Cache { return L2 })
	L2B = l2x.New(L2.Inner(), ProcCacheType)
	sop.RegisterL2CacheFactory(ProcCacheType, func(sop.TransactionOptions) sop.L2Cache { return L2B })
	DIO = l2x.NewDIO()
	fs.DirectIOSim = DIO
	sop.Now = vhook.Now
	Base = fmt.Sprintf("/dev/shm/verif_%d", os.Getpid())
	if b := os.Getenv("VERIF_BASE"); b != "" {
		Base = b // shared between a writer child and its verifier process
	}
	Dir = filepath.Join(Base, "w")
	Tpl = filepath.Join(Base, "tpl")
	if os.Getenv("VERIF_BASE") == "" {
		ev.OnExit(Cleanup) // the scratch root of this process; a shared VERIF_BASE belongs to whoever set it
	}
}

// Cleanup removes the scratch root.
func Cleanup() { os.RemoveAll(Base) }

// ResetCaches gives the process cold caches: fresh in-memory L2, empty global L1, reset maintenance timers.
func ResetCaches() {
	L2.SetInner(cache.NewL2InMemoryCache())
	L2B.SetInner(L2.Inner())
	L2B.Fault, L2B.Trace, L2B.OnLocked, L2B.OnSet = nil, nil, nil, nil
	L2.Fault = nil
	L2.Trace = nil
	L2.OnLocked = nil
	L2.OnSet = nil
	L2.OnUnlock = nil
	DIO.Fault = nil
	DIO.Trace = nil
	DIO.OnWrite = nil
	DIO.Calls = 0
	cache.VerifResetGlobals()
	if Replicated {
		fs.GlobalReplicationDetails = nil
	}
	common.VerifResetOnIdle()
	sop.SetJitterRNG(rand.New(rand.NewSource(1)))
}

// FreshDir empties the store folder and gives cold caches and a fresh UUID stream.
func FreshDir(uuidNamespace uint64) {
	os.RemoveAll(Dir)
	os.MkdirAll(Dir, 0o755)
	ResetCaches()
	detuuid.Reset(uuidNamespace)
}

// SaveTemplate snapshots Dir as the template.
func SaveTemplate() {
	os.RemoveAll(Tpl)
	if out, err := exec.Command("cp", "-a", Dir, Tpl).CombinedOutput(); err != nil {
		panic(fmt.Sprintf("cp template: %v %s", err, out))
	}
}

// Restore replaces Dir by a copy of the template, with cold caches and a fresh UUID namespace.
func Restore(uuidNamespace uint64) {
	os.RemoveAll(Dir)
	if err := copyTree(Tpl, Dir); err != nil {
		panic(err)
	}
	ResetCaches()
	detuuid.Reset(uuidNamespace)
}

func copyTree(src, dst string) error {
	return filepath.Walk(src, func(p string, info os.FileInfo, err error) error {
		if err != nil {
			return err
		}
		rel, _ := filepath.Rel(src, p)
		t := filepath.Join(dst, rel)
		if info.IsDir() {
			return os.MkdirAll(t, 0o755)
		}
		b, err := os.ReadFile(p)
		if err != nil {
			return err
		}
		if err := os.WriteFile(t, b, info.Mode()); err != nil {
			return err
		}
		return os.Chtimes(t, info.ModTime(), info.ModTime())
	})
}

// MaxTime is the commit budget / lock TTL given to transactions created through Opts (0 = sop default, 15 min).
var MaxTime time.Duration

// Replicated switches every transaction made through NewTransaction to active/passive replication (folders
// Dir/a and Dir/p) with erasure-coded blobs (1 data + 1 parity shard on Dir/e1 and Dir/e2).
var Replicated bool

// ProcCacheType is the L2 cache type under which "process 1" sees the shared L2 cache: sop keeps one global L1
// cache per L2 cache type, so transactions created with it get an L1 (node MRU and handle cache) of their own
// while every L2 call lands in the same cache content: what two processes sharing a Redis look like.
const ProcCacheType = sop.L2CacheType(9001)

// L2B is the decorator through which process 1 reaches the shared L2 content.
var L2B *l2x.Cache

// NewTransactionProc is NewTransaction for the given emulated process (0 = the default one).
func NewTransactionProc(ctx context.Context, mode sop.TransactionMode, proc int) (sop.Transaction, error) {
	if proc == 0 {
		return NewTransaction(ctx, mode)
	}
	o := Opts(mode)
	o.CacheType = ProcCacheType
	if Replicated {
		return infs.NewTransactionWithReplication(ctx, o)
	}
	return infs.NewTransaction(ctx, o)
}

// NewTransaction creates a transaction for the scenario folder(s), replicated or not.
func NewTransaction(ctx context.Context, mode sop.TransactionMode) (sop.Transaction, error) {
	if Replicated {
		return infs.NewTransactionWithReplication(ctx, Opts(mode))
	}
	return infs.NewTransaction(ctx, Opts(mode))
}

// Opts returns transaction options for the scenario folder.
func Opts(mode sop.TransactionMode) sop.TransactionOptions {
	if Replicated {
		ec := map[string]sop.ErasureCodingConfig{"": {DataShardsCount: 1, ParityShardsCount: 1,
			BaseFolderPathsAcrossDrives: []string{filepath.Join(Dir, "e1"), filepath.Join(Dir, "e2")}}}
		return sop.TransactionOptions{Mode: mode, StoresFolders: []string{filepath.Join(Dir, "a"), filepath.Join(Dir, "p")}, ErasureConfig: ec,
			CacheType: sop.InMemory, MaxTime: MaxTime, RegistryHashModValue: fs.MinimumModValue}
	}
	return sop.TransactionOptions{Mode: mode, StoresFolders: []string{Dir}, CacheType: sop.InMemory, MaxTime: MaxTime, RegistryHashModValue: fs.MinimumModValue}
}

var Bg = context.Background()
