// Package txn is a small library of transaction programs over the public infs API, their recorded
// histories, and a map reference model with a brute-force serializability oracle.
package txn

import (
	"context"
	"fmt"
	"sort"
	"strings"
	"time"

	"github.com/sharedcode/sop"
	"github.com/sharedcode/sop/btree"
	"github.com/sharedcode/sop/infs"
	"verif.local/mc/sopenv"
)

// StoreSpec describes a store used by scenarios.
type StoreSpec struct {
	Name    string
	Slot    int
	Unique  bool
	Place   string // "node" | "segment" | "active" | "global"
	Initial []KV
}

type KV struct {
	K int
	V string
}

func (s StoreSpec) Options() sop.StoreOptions {
	so := sop.StoreOptions{Name: s.Name, SlotLength: s.Slot, IsUnique: s.Unique}
	switch s.Place {
	case "", "node":
		so.IsValueDataInNodeSegment = true
	case "segment":
	case "active":
		so.IsValueDataActivelyPersisted = true
	case "global":
		so.IsValueDataGloballyCached = true
	}
	return so
}

// Op is one B-tree operation of a program.
type Op struct {
	Kind  string // add | addif | update | upsert | remove | get | rmw | count | scan | getnolock
	Store string
	K     int
	V     string
}

func (o Op) String() string {
	switch o.Kind {
	case "count", "scan":
		return fmt.Sprintf("%s(%s)", o.Kind, o.Store)
	case "get", "remove", "getnolock":
		return fmt.Sprintf("%s(%s,%d)", o.Kind, o.Store, o.K)
	}
	return fmt.Sprintf("%s(%s,%d,%q)", o.Kind, o.Store, o.K, o.V)
}

// Prog is a transaction program.
type Prog struct {
	Name string
	Mode sop.TransactionMode
	Ops  []Op
	End  string // "commit" | "rollback"
	// Proc > 0: the transaction runs as another process would: its own L1 cache (handles, nodes), the same L2
	// cache content and the same folder (see sopenv.NewTransactionProc).
	Proc int
}

func (p Prog) String() string {
	var s []string
	for _, o := range p.Ops {
		s = append(s, o.String())
	}
	m := map[sop.TransactionMode]string{sop.ForWriting: "W", sop.ForReading: "R", sop.NoCheck: "N"}[p.Mode]
	if p.Proc > 0 {
		m += fmt.Sprintf("@proc%d", p.Proc)
	}
	return fmt.Sprintf("%s[%s]{%s;%s}", p.Name, m, strings.Join(s, ";"), p.End)
}

// OpResult is what one op observed.
type OpResult struct {
	Op    Op
	OK    bool
	Val   string // get/rmw: value read
	Found bool
	Count int64
	Scan  []KV
	Err   string
	// At is the logical time (harness-provided stamp) when the call returned; 0 if no stamper.
	At int
}

// ClockKey is the context key of an optional `func() int64` clock (virtual nanoseconds).
type ClockKey struct{}

// StampKey is the context key of an optional `func() int` logical clock used to stamp call returns.
type StampKey struct{}

// Record is the history of one program run.
type Record struct {
	Prog      Prog
	Results   []OpResult
	BeginErr  string
	OpenErr   string
	EndErr    string // commit / rollback error
	Committed bool   // End==commit and Commit returned nil
	Aborted   bool   // an op/open failed and the program rolled back
	TID       string
	// EndAt is the logical time when Commit/Rollback returned; BeginAt when the program started.
	EndAt   int
	BeginAt int
	// CommitStart/CommitEnd: harness clock (ClockKey) around the Commit call, in nanoseconds.
	CommitStart, CommitEnd int64
}

type opener func(ctx context.Context, name string, tx sop.Transaction) (btree.BtreeInterface[int, string], error)

// Run executes the program through the public API and returns its record.
func Run(ctx context.Context, p Prog, stores map[string]StoreSpec) *Record {
	rec := &Record{Prog: p}
	stamp := func() int { return 0 }
	if f, ok := ctx.Value(StampKey{}).(func() int); ok {
		stamp = f
	}
	rec.BeginAt = stamp()
	defer func() { rec.EndAt = stamp() }()
	tx, err := sopenv.NewTransactionProc(ctx, p.Mode, p.Proc)
	if err != nil {
		rec.BeginErr = err.Error()
		return rec
	}
	rec.TID = tx.GetID().String()
	if err := tx.Begin(ctx); err != nil {
		rec.BeginErr = err.Error()
		return rec
	}
	open := map[string]btree.BtreeInterface[int, string]{}
	get := func(name string) (btree.BtreeInterface[int, string], error) {
		if b, ok := open[name]; ok {
			return b, nil
		}
		var b btree.BtreeInterface[int, string]
		var err error
		if sp, ok := stores[name]; ok && sp.Slot > 0 && p.Mode == sop.ForWriting {
			b, err = newBtree(ctx, sp.Options(), tx)
		} else {
			b, err = openBtree(ctx, name, tx)
		}
		if err != nil {
			return nil, err
		}
		open[name] = b
		return b, nil
	}
	abort := func() {
		rec.Aborted = true
		if tx.HasBegun() {
			if err := tx.Rollback(ctx); err != nil {
				rec.EndErr = "rollback: " + err.Error()
			}
		}
	}
	for _, o := range p.Ops {
		if o.Kind == "pause" {
			// a voluntary yield (K ms of virtual sleep, at least 1): lets a scheduler run other threads here at no
			// deviation cost
			sop.Sleep(ctx, time.Duration(max(1, o.K))*time.Millisecond)
			continue
		}
		b, err := get(o.Store)
		if err != nil {
			rec.OpenErr = err.Error()
			abort()
			return rec
		}
		r := OpResult{Op: o}
		var e error
		switch o.Kind {
		case "add":
			r.OK, e = b.Add(ctx, o.K, o.V)
		case "addif":
			r.OK, e = b.AddIfNotExist(ctx, o.K, o.V)
		case "update":
			r.OK, e = b.Update(ctx, o.K, o.V)
		case "upsert":
			r.OK, e = b.Upsert(ctx, o.K, o.V)
		case "remove":
			r.OK, e = b.Remove(ctx, o.K)
		case "get", "getnolock":
			r.Found, e = b.Find(ctx, o.K, false)
			if e == nil && r.Found {
				if o.Kind == "get" {
					r.Val, e = b.GetCurrentValue(ctx)
				} else {
					r.Val, e = b.GetCurrentValueNoLock(ctx)
				}
			}
			r.OK = r.Found
		case "rmw":
			r.Found, e = b.Find(ctx, o.K, false)
			if e == nil && r.Found {
				r.Val, e = b.GetCurrentValue(ctx)
				if e == nil {
					r.OK, e = b.UpdateCurrentValue(ctx, r.Val+o.V)
				}
			}
		case "count":
			r.Count = b.Count()
			r.OK = true
		case "scan":
			r.Scan, e = Scan(ctx, b)
			r.OK = e == nil
		default:
			panic("unknown op " + o.Kind)
		}
		r.At = stamp()
		if e != nil {
			r.Err = e.Error()
			rec.Results = append(rec.Results, r)
			abort()
			return rec
		}
		rec.Results = append(rec.Results, r)
	}
	if p.End == "rollback" {
		if err := tx.Rollback(ctx); err != nil {
			rec.EndErr = err.Error()
		}
		return rec
	}
	clock, _ := ctx.Value(ClockKey{}).(func() int64)
	if clock != nil {
		rec.CommitStart = clock()
	}
	err = tx.Commit(ctx)
	if clock != nil {
		rec.CommitEnd = clock()
	}
	if err != nil {
		rec.EndErr = err.Error()
		return rec
	}
	rec.Committed = true
	return rec
}

// Scan returns all items in key order.
func Scan(ctx context.Context, b btree.BtreeInterface[int, string]) ([]KV, error) {
	var out []KV
	ok, err := b.First(ctx)
	for ok && err == nil {
		k := b.GetCurrentKey().Key
		v, e := b.GetCurrentValue(ctx)
		if e != nil {
			return out, e
		}
		out = append(out, KV{k, v})
		ok, err = b.Next(ctx)
		if len(out) > 100000 {
			return out, fmt.Errorf("scan does not terminate")
		}
	}
	return out, err
}

// Dump is the observable content of a set of stores.
type Dump struct {
	Stores map[string][]KV
	Counts map[string]int64
	Errs   map[string]string
}

func (d Dump) String() string {
	var names []string
	for n := range d.Stores {
		names = append(names, n)
	}
	for n := range d.Errs {
		if _, ok := d.Stores[n]; !ok {
			names = append(names, n)
		}
	}
	sort.Strings(names)
	var sb strings.Builder
	for _, n := range names {
		if e := d.Errs[n]; e != "" {
			fmt.Fprintf(&sb, "%s:ERR(%s) ", n, e)
			continue
		}
		fmt.Fprintf(&sb, "%s:%v#%d ", n, d.Stores[n], d.Counts[n])
	}
	return sb.String()
}

// ReadAll dumps the named stores in one fresh ForReading transaction (missing stores are reported in Errs).
func ReadAll(ctx context.Context, names []string) Dump {
	d := Dump{Stores: map[string][]KV{}, Counts: map[string]int64{}, Errs: map[string]string{}}
	for _, n := range names {
		tx, err := sopenv.NewTransaction(ctx, sop.ForReading)
		if err != nil {
			d.Errs[n] = err.Error()
			continue
		}
		if err := tx.Begin(ctx); err != nil {
			d.Errs[n] = err.Error()
			continue
		}
		b, err := openBtree(ctx, n, tx)
		if err != nil {
			d.Errs[n] = "open: " + err.Error()
			if tx.HasBegun() {
				tx.Rollback(ctx)
			}
			continue
		}
		kv, err := Scan(ctx, b)
		if err != nil {
			d.Errs[n] = "scan: " + err.Error()
		}
		d.Stores[n] = kv
		d.Counts[n] = b.Count()
		if err := tx.Commit(ctx); err != nil {
			d.Errs[n] = "commit(read): " + err.Error()
		}
	}
	return d
}

// Build creates the stores with their initial content using ordinary committed transactions.
func Build(ctx context.Context, specs []StoreSpec) error {
	for _, sp := range specs {
		tx, err := sopenv.NewTransaction(ctx, sop.ForWriting)
		if err != nil {
			return err
		}
		if err := tx.Begin(ctx); err != nil {
			return err
		}
		b, err := newBtree(ctx, sp.Options(), tx)
		if err != nil {
			return err
		}
		for _, kv := range sp.Initial {
			if ok, err := b.Add(ctx, kv.K, kv.V); !ok || err != nil {
				return fmt.Errorf("build add %v: %v %v", kv, ok, err)
			}
		}
		if err := tx.Commit(ctx); err != nil {
			return err
		}
	}
	return nil
}

// ---------------- reference model ----------------

// Model is the sorted-multiset-per-store reference.
type Model map[string][]KV

func NewModel(specs []StoreSpec) Model {
	m := Model{}
	for _, s := range specs {
		m[s.Name] = append([]KV(nil), s.Initial...)
		sortKV(m[s.Name])
	}
	return m
}

func sortKV(a []KV) {
	sort.SliceStable(a, func(i, j int) bool { return a[i].K < a[j].K })
}

func (m Model) Clone() Model {
	c := Model{}
	for k, v := range m {
		c[k] = append([]KV(nil), v...)
	}
	return c
}

func (m Model) String(names []string) string {
	var sb strings.Builder
	for _, n := range names {
		fmt.Fprintf(&sb, "%s:%v#%d ", n, m[n], len(m[n]))
	}
	return sb.String()
}

func (m Model) find(store string, k int) int {
	for i, kv := range m[store] {
		if kv.K == k {
			return i
		}
	}
	return -1
}

// Apply runs op on the model; unique tells whether the store has unique keys. Returns the expected result.
// (Programs in scenarios only use unique stores or never create duplicates through the oracle path.)
func (m Model) Apply(o Op, unique bool) OpResult {
	r := OpResult{Op: o}
	i := m.find(o.Store, o.K)
	switch o.Kind {
	case "add":
		if unique && i >= 0 {
			return r
		}
		m[o.Store] = append(m[o.Store], KV{o.K, o.V})
		sortKV(m[o.Store])
		r.OK = true
	case "addif":
		if i >= 0 {
			return r
		}
		m[o.Store] = append(m[o.Store], KV{o.K, o.V})
		sortKV(m[o.Store])
		r.OK = true
	case "update":
		if i < 0 {
			return r
		}
		m[o.Store][i].V = o.V
		r.OK = true
	case "upsert":
		if i < 0 {
			m[o.Store] = append(m[o.Store], KV{o.K, o.V})
			sortKV(m[o.Store])
		} else {
			m[o.Store][i].V = o.V
		}
		r.OK = true
	case "remove":
		if i < 0 {
			return r
		}
		m[o.Store] = append(m[o.Store][:i:i], m[o.Store][i+1:]...)
		r.OK = true
	case "get", "getnolock":
		if i >= 0 {
			r.Found, r.OK, r.Val = true, true, m[o.Store][i].V
		}
	case "rmw":
		if i >= 0 {
			r.Found, r.OK, r.Val = true, true, m[o.Store][i].V
			m[o.Store][i].V += o.V
		}
	case "count":
		r.OK = true
		r.Count = int64(len(m[o.Store]))
	case "scan":
		r.OK = true
		r.Scan = append([]KV(nil), m[o.Store]...)
	}
	return r
}

// SameResult compares an observed op result with the model's. strictMiss=false leaves a not-found
// observation of get/rmw unconstrained (phantom reads are outside the stated property).
func SameResult(obs, exp OpResult) bool {
	switch obs.Op.Kind {
	case "get", "rmw", "getnolock":
		return obs.Found == exp.Found && obs.Val == exp.Val
	case "count":
		return obs.Count == exp.Count
	case "scan":
		return fmt.Sprint(obs.Scan) == fmt.Sprint(exp.Scan)
	}
	return obs.OK == exp.OK
}

// Serializable searches for a serial order of the committed records that reproduces every op result
// and the final dump. Returns the witness order or "" and an explanation.
func Serializable(initial Model, committed []*Record, unique map[string]bool, final Dump, names []string) (bool, string) {
	n := len(committed)
	idx := make([]int, n)
	for i := range idx {
		idx[i] = i
	}
	var why []string
	var try func(k int) bool
	try = func(k int) bool {
		if k == n {
			m := initial.Clone()
			for _, i := range idx {
				rec := committed[i]
				for _, r := range rec.Results {
					exp := m.Apply(r.Op, unique[r.Op.Store])
					if !SameResult(r, exp) {
						why = append(why, fmt.Sprintf("order %v: %s %s observed %+v, serial model gives %+v", order(idx, committed), rec.Prog.Name, r.Op, brief(r), brief(exp)))
						return false
					}
				}
			}
			for _, nm := range names {
				if fmt.Sprint(m[nm]) != fmt.Sprint(final.Stores[nm]) && !(len(m[nm]) == 0 && len(final.Stores[nm]) == 0) {
					why = append(why, fmt.Sprintf("order %v: final %s=%v, serial model gives %v", order(idx, committed), nm, final.Stores[nm], m[nm]))
					return false
				}
			}
			return true
		}
		for i := k; i < n; i++ {
			idx[k], idx[i] = idx[i], idx[k]
			if try(k + 1) {
				return true
			}
			idx[k], idx[i] = idx[i], idx[k]
		}
		return false
	}
	if try(0) {
		return true, fmt.Sprint(order(idx, committed))
	}
	return false, strings.Join(why, " | ")
}

func order(idx []int, recs []*Record) []string {
	var s []string
	for _, i := range idx {
		s = append(s, recs[i].Prog.Name)
	}
	return s
}

func brief(r OpResult) string {
	switch r.Op.Kind {
	case "get", "rmw", "getnolock":
		return fmt.Sprintf("found=%v val=%q", r.Found, r.Val)
	case "count":
		return fmt.Sprintf("count=%d", r.Count)
	case "scan":
		return fmt.Sprint(r.Scan)
	}
	return fmt.Sprintf("ok=%v", r.OK)
}

func newBtree(ctx context.Context, so sop.StoreOptions, tx sop.Transaction) (btree.BtreeInterface[int, string], error) {
	if sopenv.Replicated {
		return infs.NewBtreeWithReplication[int, string](ctx, so, tx, nil)
	}
	return infs.NewBtree[int, string](ctx, so, tx, nil)
}

func openBtree(ctx context.Context, name string, tx sop.Transaction) (btree.BtreeInterface[int, string], error) {
	if sopenv.Replicated {
		return infs.OpenBtreeWithReplication[int, string](ctx, name, tx, nil)
	}
	return infs.OpenBtree[int, string](ctx, name, tx, nil)
}
