#!/usr/bin/env python3
"""Generates /verif/MANIFEST.json from the table below and validates it against the schema."""
import json, os, sys
ROOT = os.path.dirname(os.path.dirname(os.path.abspath(__file__)))
props = [json.loads(l) for l in open(os.path.join(ROOT, 'properties.jsonl'))]
ids = [p['id'] for p in props]

# id -> (category, technique, text, note, design_ref, engine, has_thorough)
CR = 'Writer child process per plan over the real infs/fs backend on tmpfs (5 transaction shapes in quick, 12 in thorough: update in place, add to leaf, split, remove emptying a leaf, remove of inner-node items, mixed, two stores, first item of an empty store, new store inside the transaction, separate-segment / actively persisted / globally cached values); the reference run records every file operation of the commit twice (traces must match); '
CHECKS = {
 'C17': ('model_checking', 'explicit-state BFS over the real btree.Btree vs sorted-multiset model',
         'Every reachable tree state of the real B-tree (small key domain, slot lengths 2-8, unique/duplicate, load balancing on/off) is enumerated breadth-first with state de-duplication; each transition runs on the implementation and is compared with an ordered multiset/map model (result, contents, Count, forward/backward scans, structural invariants, rejected order-changing key updates). Several configurations are closed to a fixpoint (all reachable states within the key domain), the others to a stated depth.',
         'Map-backed NodeRepository written in the harness; keys 0..n-1 with a comparer on one field; bounded duplicates per key; depth bounds reported per configuration.', '6/C17', 'SEQX', True),
 'C18': ('model_checking', 'explicit-state BFS over tree shapes x exhaustive probe keys',
         'In every distinct tree reached by the C17 exploration, every probe key (present, absent between keys, below/above range, with duplicates) is searched with Find(first), Find(any), FindWithID for each duplicate and FindInDescendingOrder; cursor placement and the ascending/descending scan from the cursor are compared with the model slice; inmemory range iteration is checked for every (from,to) pair over all subsets of 6 keys.',
         'Same harness as C17; "next to where the key would be" is read as in-order index insertion-1..insertion.', '6/C18', 'SEQX', True),
 'C24': ('exploration', 'exhaustive enumeration of handle field edge products + every slot of real registry blocks',
         'The full product of per-field edge values of sop.Handle (130 UUID values per id field incl. every single bit, 5 edge values for version and timestamp, both flags; decode into fresh and into dirty targets) is round-tripped through the repository codec and an independent 62-byte codec; all 66 slots of real registry blocks (hash mods 250/251/750000; first/middle/last blocks; Add/Update/UpdateNoLocks/Remove) are written through fs.NewRegistry and after each single-slot write the raw 4096-byte block and its neighbours are diffed: only one 62-aligned slot range and the CRC bytes may change, ranges are pairwise disjoint and below the CRC.',
         'Layout functions are unexported and are observed through real block writes (fs.DirectIOSim recording wrapper); three hash mod values.', '6/C24', 'SEQX', True),
 'C29': ('exploration', 'exhaustive pairs and triples over per-type edge domains',
         'For 35 key type families (all integer widths incl. all 256 int8/uint8 values, floats with NaN payloads/signed zeros/subnormals, strings, UUIDs, times in several zones, slices incl. prefixes, []any with equal-typed positions) every ordered pair and ordered triple of the edge domain is evaluated with btree.Compare and with CoerceComparer(x) for the domain values: reflexive, antisymmetric, transitive, equal to an independently written natural order, and Compare == coerced comparer.',
         'Edge-value domains per type (not all 2^64 values); -0/+0 may be equal or ordered as long as the order is consistent.', '6/C29', 'SEQX', True),
 'C02': ('exploration', 'stateless model checking: controlled scheduler + deviation-bounded DFS over all interleavings; brute-force serial-order oracle',
         'Concurrent transaction programs (lost update, write skew in one node / sibling nodes / two stores, reader vs atomic pair, add/remove vs read-modify-write, separate-segment values, three writers, a stalled committer) run through the public infs API under a cooperative scheduler that owns every L2 cache call, registry block I/O, file operation and sleep; every schedule with at most 1 deviation (2 for marked scenarios; +1 in thorough) is executed, and for each one all serial orders of the committed transactions are tried against a map model (every read value, every call result, final contents read cold).',
         'Single OS process with the in-memory L2 cache; a thread runs atomically between scheduling points; intra-transaction goroutines inline; preemption bound as reported; known findings are matched by mechanism tag (trace pattern) so any other non-serializable outcome is reported.', '6/C02', 'SCHED', True),
 'C03': ('exploration', 'stateless model checking: controlled scheduler + deviation-bounded DFS; item-level visibility oracle with commit points',
         'A writer (update+add+remove; in-node, separate-segment and actively persisted values; ending in commit or rollback; also two conflicting writers) runs against ForReading and NoCheck readers (get, count, scan) under every schedule within the deviation bound; every value, item and count a reader returns must come from the initial state or from a writer whose commit point (last phase-2 registry block write, taken from the trace) had been reached when the call returned.',
         'Same engine assumptions as C02. Stale or mixed-snapshot reads are not judged here (C20/C02); a call that returned an error observed nothing.', '6/C03', 'SCHED', True),
 'C04': ('exploration', 'stateless model checking: controlled scheduler + deviation-bounded DFS; every writer must commit, final = union',
         'Two or three writers with disjoint key sets (adds in one leaf, adds splitting the same leaf, first root of an empty store, update vs remove, removes emptying sibling leaves, separate-segment values) under every schedule within the deviation bound with the default 15-minute commit budget on a virtual clock: every Commit must return nil and the cold final contents must equal the union.',
         'Same engine assumptions as C02; fairness by construction (a sleeping thread is always woken when nothing else can run).', '6/C04', 'SCHED', True),
 'C05': ('exploration', 'stateless model checking: controlled scheduler + deviation-bounded DFS; duplicate-key scan',
         'Two or three transactions add / upsert / add-if-absent the SAME key into a unique store (empty without root, with neighbours, forcing a split) under every schedule within the deviation bound; afterwards a cold ordered scan must not contain two equal keys and Count must equal the scan length.',
         'Same engine assumptions as C02.', '6/C05', 'SCHED', True),
 'C06': ('exploration', 'stateless model checking: controlled scheduler + deviation-bounded DFS; count == scan length',
         'Concurrent writers whose adds/removes collide or are rolled back (adds and removes, conflicting add of the same key, remove of the same key, rollback vs commit) under every schedule within the deviation bound; in a cold fresh transaction Count() must equal the number of scanned items for every store. (The fault and crash histories of C01/C07/C08 check the same equality in their own verifiers.)',
         'Same engine assumptions as C02.', '6/C06', 'SCHED', True),
 'C20': ('exploration', 'stateless model checking: controlled scheduler + deviation-bounded DFS with an environment thread (cache eviction / clear / TTL expiry events)',
         'A thread commits a write and then starts a new reading transaction while a concurrent reader (and, in some scenarios, an environment thread that evicts L1, clears L2 or advances the virtual clock past the cache TTLs) is scheduled at every position within the deviation bound; a read of a transaction that began after a Commit returned must return that commit (or a later one), and after quiescence the warm view of a new transaction must equal the cold view.',
         'Standalone (in-memory L2) caching only: the Redis adapter is not exercised (no Redis server or miniredis in this sandbox); one OS process.', '6/C20', 'SCHED', True),
 'C16': ('fault_enumeration', 'exhaustive enumeration of every combination of <=2 injected failures over participants x phases x every L2 call of Commit',
         'A real SOP transaction (filesystem backend, one pending write on a pre-committed store) with 0-3 scripted two-phase participants; every single fault and every pair of faults over {participant Begin/Phase1/Phase2/Rollback, SOP Begin/Phase1/Phase2/Rollback, every L2 cache call index made during Commit} is run; the call log must show no participant Phase2Commit unless every Phase1Commit and SOP\'s Phase2Commit returned nil, and whenever Commit (or Begin) fails the store reads as before (same process and fresh process) and every begun participant got Rollback.',
         'SOP-side failures are injected through a fault-injecting L2 cache decorator and a recorder around the SOP two-phase transaction; disk I/O faults and concurrency are not part of this check.', '6/C16', 'FAULTX', True),
 'C21': ('model_checking', 'explicit-state BFS over the real fs registry with colliding ids; independent raw .reg reader',
         'Breadth-first search with state de-duplication over the real fs.NewRegistry on tmpfs: ids constructed to share block and slot (slots 0, 3, 65), block-filling sets that overflow into segment files 2-4, hash mods 250/251/1000 (750000 in thorough); alphabet Add/Update/UpdateNoLocks/Remove/batched variants/Fill/Unfill to depth 6 (7-9 thorough). After every transition: call result, cold and warm Get of every id, and a raw scan by an independent reader (CRC per block, one slot per id, slot content = last written handle, nothing for absent ids) against a map model.',
         'Add of a present id and Update of an absent id are treated as illegal usage; versions and depth bounded; no configuration closes its whole space (depth-bounded).', '6/C21', 'SEQX', True),
 'C23': ('exploration', 'exhaustive single-bit flips and aligned bursts of a registry block x backup situations x 7 calls',
         'A block written through the real registry (5 handles incl. slot 65 next to the CRC) is corrupted with every one of the 32768 single-bit flips and zeroed/inverted runs of 2/62/512 bytes at every aligned offset, under 6 backup situations (no .cow, empty, bad CRC, wrong size, valid copy, valid older copy), and then read/updated with cold caches through Get, Update, UpdateNoLocks, Add, Remove: without a valid backup every call must fail, serve no handle from the block and leave its bytes unchanged; with a valid backup the block is restored and served.',
         'All-zero block = never written (out of scope); quick tier runs the full flip set against "no backup" and a subset against all situations (thorough: everything x everything).', '6/C23', 'SEQX', True),
 'C25': ('fault_enumeration', 'exhaustive assignment of 10 damage kinds to every shard file x configs x sizes; every subset of failing shard writes',
         'Real fs.NewBlobStoreWithEC on d+p tmpfs folders, (d,p) in {(1,1),(2,1),(2,2),(3,2),(4,2)}, blob sizes {0,1,2,3,d-1,d,d+1,17,31,4096}: every assignment of {intact, missing, truncated to 0/5/16/17/len-1, body byte flipped, pad-count byte flipped, checksum byte flipped} to the shard files (full product for d+p<=4, all patterns with <=p+1 damaged plus uniform patterns for the larger configs in quick; full in thorough) and every subset of failing shard writes. <=p damaged => exact bytes; >p => error, never wrong bytes; Add succeeds iff <=p writes fail; each case runs in a child process so a process-killing panic is attributed to its case.',
         'One fixed flip offset/bit per damage kind; only WriteFile failures on the write side.', '6/C25', 'FAULTX', True),
 'C26': ('fault_enumeration', 'exhaustive damage patterns with <=p damaged shards, then every pattern of p further failures',
         'With RepairCorruptedShards=true, for every damage pattern of C25 with at most p damaged shards: after one successful read every shard file must be byte-identical to a fresh encode, and the blob must then survive every pattern of p new failures (missing / body flip; more kinds in thorough).',
         'Repair-write failures are not injected.', '6/C26', 'FAULTX', True),
 'C34': ('exploration', 'complete product of callers x resources x visibilities x owners x grants x actions vs independent decision table',
         'The full product of 97 callers (role lists over Admin/User/Guest, user ids, IsSystem, no auth) x resource names (SOP, LongTermMemory, ordinary) x visibilities x owners x 64 role-grant maps x 16 user-grant maps x 5 actions (17.9M tuples; 1.09G in thorough) is evaluated on CheckPolicy, EnforcePolicy, CanPerformAction, Authorize and ResolveRBACMap against a decision table written from the statement; over- and under-permit and UI/enforcement disagreement are separate signatures.',
         'Unset visibility "" and grants under the empty user id are reported but not judged; blueprints with custom evaluators (tools/httpserver) are outside the anchors.', '6/C34', 'SEQX', True),
 'C12': ('fault_enumeration', 'exhaustive store-creation programs x every single L2 / file fault position; recreate matrix',
         'Programs NewBtree(options) + 0-2 adds (optionally with a second store) ended by Commit, Rollback or one injected transient failure at EVERY L2 cache call index and EVERY file operation index between Begin and the return of Commit; all 240 ordered pairs of different option sets for remove-then-recreate; 876 create/remove/rollback histories of 1-3 rounds. Observed cold through GetStores, IsStoreExists, OpenBtree, Count, scan, storelist.txt and a walk of the folder: an uncommitted store must be absent everywhere and creatable again; a recreated store is empty with the new options and no old file left.',
         'Concurrent creation of the same name is not part of this check (sequential + single-fault only); replicated layouts not covered.', '6/C12', 'FAULTX', True),
 'C14': ('exploration', 'exhaustive call sequences to length 5 (6) per transaction mode vs lifecycle model; byte-level disk comparison for read-only modes',
         'Every sequence up to length 5 (thorough 6) over {Begin, Commit, Rollback, Phase1Commit, Phase2Commit, Close, OpenBtree, Add, Update, Remove, Find+GetCurrentValue} in ForWriting, ForReading and NoCheck on stores with known content; a set-valued lifecycle model predicts which calls may succeed; persisted content is read cold (before, or the acknowledged writes applied exactly once with Count = items); for ForReading/NoCheck every file outside translogs/ is compared byte by byte with the template in flight and after the end.',
         'One key per operation, one transaction per case, fault-free.', '6/C14', 'SEQX', True),
 'C15': ('exploration', 'stateless model checking on a virtual clock: deviation-bounded DFS + every scheduling point of one thread as a permanent stall point',
         'Two writers contending on the same key / on two stores in opposite order / splitting the same leaf, with commit budgets of 5 s and 1 min on the virtual clock: every schedule with at most 1 deviation, and additionally for EVERY scheduling point k of thread 0 the execution where thread 0 stalls forever at k holding whatever it holds. No deadlock or livelock may occur, every live Commit must return within maxTime + 1 virtual second, and when all transactions ended by themselves a later transaction on the same keys must commit once maxTime has elapsed.',
         'Virtual time advances only through sop.Sleep / backoff; caller context deadlines are not varied; in-memory L2.', '6/C15', 'SCHED', True),
 'C28': ('exploration', 'stateless model checking at shardedMap-primitive granularity with a TTL clock thread and full shards; lock-table model at every call return',
         'Two or three owners running 1-3 of {Lock, DualLock, IsLocked, IsLockedTTL, Unlock, foreign Unlock} over keys a,b (same order, opposite order, an unrelated key in the same shard) plus a clock thread that lets the TTL elapse at any position, for shard capacities 1000, 2 and 1 with pre-filled shards, and the same programs through the Redis adapter against a fake RESP server on the virtual clock; every schedule with at most 2 deviations where each load/store/loadOrStore/compareAndSwap/compareAndDelete of the in-memory cache, respectively each Redis command or pipeline, is a scheduling point. At every call return: at most one owner holds a key unexpired (granted true, not released, TTL counted from the issue of the call), and a sole holder still owns its record in the service.',
         'The Redis adapter (adapters/redis/locker.go) runs against a minimal RESP2 server written for this purpose (mc/fakeredis; its command semantics are part of the trusted base; a pipeline executes as one step; no real Redis or miniredis is available offline).', '6/C28', 'SCHED', True),
 'C35': ('exploration', 'exhaustive session operation sequences to depth 4 (5) on the real SessionStore with a virtual clock + exhaustive token mutation classes',
         'In-package harness (overlay-injected test file in tools/httpserver, time.Now replaced by a virtual clock): every sequence of length <= 4 (5) over {CreateSession, CreateToken, Refresh(any issued refresh token), RevokeToken(any token), ValidateToken, clock += ttl-1s / ttl+1s / refreshTTL+1s, RotateSecret}; after each sequence every issued access token is validated against a session-table model. Forged tokens: every single-character change of every part, part swaps, re-signing with 7 other secrets, claim edits, alg none/HS384/HS512/RS256, every truncation, empty/extra parts.',
         'HTTP handlers and cookies not covered; the instant now == exp is undecided.', '6/C35', 'SEQX', True),
 'C13': ('exploration', 'exhaustive generated names/descriptions/custom data from a token set containing the metadata field names x option combinations x commit histories',
         'Every string of <= 2 tokens (3 in thorough) from {count, "count", timestamp, :, ,, }, \\, ", a, space, e-acute} placed as store name, Description, CustomData key/value, MapKeyIndexSpecification and CELexpression, x 27 three-commit histories (positive/zero/negative count deltas incl. the first-item path) x warm/cleared L2, plus 60 option combinations; after every commit storeinfo.txt is parsed as JSON directly, read through a brand-new StoreRepository over an empty cache and reopened: every field except Count (= model) and Timestamp must equal the created configuration.',
         'Schema/KeyFields/ValueFields inferred at first add are only required to stay stable; names with path separators not covered.', '6/C13', 'SEQX', True),
 'C19': ('exploration', 'exhaustive op sequences x transaction batchings x value placements x slot lengths vs in-memory model, cold and fresh-process read-back',
         'Sequences over {add, upsert, update, remove, get} x 3 keys x {small, 5 KB, empty} values (length 1-2 full alphabet, length 3-4 reduced alphabets; see evidence rule) applied to persisted stores in every split into 1-3 transactions incl. a rolled-back middle one, for {node, segment, active, global} value placement x slot length {2,4} (+ one duplicate-key configuration), from an empty-ish and a 5-key pre-state with inner nodes; every step result, the ordered dump and Count are compared warm, with cold caches and from a fresh process.',
         'Depth and alphabets bounded as stated in the evidence; orphan blobs are not visible to this oracle (C11).', '6/C19', 'SEQX', True),
 'C30': ('exploration', 'exhaustive warm-up pair x pair x triple enumeration over JSON field values; cross-instance store scans',
         'Field values {missing, null, false, true, 1, 2, 10, 1.5, "1", "10", "a"} for 1-2 fields under ascending, descending, 2-field index specifications and the default field-wise order: for EVERY ordered warm-up pair (the first comparison of a fresh comparer) every ordered pair and triple is compared: history independence, reflexive/antisymmetric/transitive, and real stores built by one instance are scanned and searched by a second fresh instance for every 3-subset x insertion order x lookup order.',
         'Fresh JsonDBMapKey instances stand in for OS processes; nested/array field values not covered.', '6/C30', 'SEQX', True),
 'C31': ('exploration', 'exhaustive streaming-store programs (factored product) vs model; full (key, chunk) scan after every program',
         'Every 0-3-value size sequence over {1,100,511,512,513,4096,70000} (+1 MB thorough) as one-step programs, every program structure of depth <= 3 (4) over {Add, Update, Upsert, Remove} x 2 keys on reduced size alphabets, and all two-step programs with the full alphabet at one step, on an in-memory backend and on real infs transactions (commit per step, re-read in a new transaction): decoding must yield exactly the last written sequence then EOF (loop bounded at 4x), and the complete set of (key, chunkIndex) items must equal the model.',
         'The full size x depth product is factored as stated in the evidence rule.', '6/C31', 'SEQX', True),
 'C32': ('exploration', 'exhaustive corpora x transaction splits x queries vs independent BM25',
         'Corpora of <= 3 distinct documents of <= 3 tokens over {ab, abc, Uni-with-diacritics, a stop word} (+ zed in thorough), every split of the indexing into 1-3 transactions, every query of <= 2 tokens (repeated term, stop word only, unknown term); results compared with an independent BM25 (k1=1.2, b=0.75, idf=ln((N-n+0.5)/(n+0.5)+1)) over the tokenizer output: exact result set, each document once, scores within 1e-9, non-increasing order; one-document-per-transaction cases are searched again from a fresh process.',
         'The index B-trees use the hard-coded slot length 5000 (single node); quick has an internal 12-minute budget and reports exhaustive:false if it is hit on a loaded machine.', '6/C32', 'SEQX', True),
 'C38': ('exploration', 'full matrix value type x placement x read path x ending x later reader',
         'Reference-typed values ([]byte, map, []int, *struct, struct with slice; string as control) and a struct key with slice/map, read through GetCurrentValue/GetCurrentItem/NoLock variants/scans/GetCurrentKey under 7 placements, modified in place, then Rollback / Commit without write-back / Commit with an unrelated write / ForReading / NoCheck; four later readers (same transaction, next transaction warm, after cache reset, fresh process) must all read the committed value (3500 cells, 14000 comparisons; 7000 cells thorough).',
         'Single-level trees, slot length <= 4.', '6/C38', 'SEQX', True),
 'C22': ('fault_enumeration', 'exhaustive crash points and torn prefixes of one registry block update x concurrent reader process at every writer position',
         'Four writers (UpdateNoLocks of slot 3, of slot 65 next to the CRC, Update with locks, Remove) on a block with three handles: the writer process is killed before every mutating file operation and after every torn prefix of the .cow write and of the 4096-byte block write (every 62-byte and 512-byte boundary, every byte inside the changed slot, around the CRC); for every crash plan a second OS process reads the block while the writer is paused before each earlier operation. The concurrent reader and a later cold reader must be served exactly the old or exactly the new handles, never an error or a record that was never written.',
         'A completed write is durable; one concurrent reader at one position per plan (torn plans: reader positions {none, just before the torn write} in quick, all in thorough).', '6/C22', 'FAULTX', True),
 'C37': ('exploration', 'stateless model checking of 2-3 committers with a monitor on every registry block write (install events per node version)',
         'All committer scenarios of C02 and C04 (same node, sibling nodes, two stores, splits, first root, three writers) under every schedule within the deviation bound, with a monitor that decodes every registry block image before it is written: per logical id and version the set of installed successors (active blob ids) must have one element, a version never regresses, and at the moment an existing node is re-pointed its new active blob must exist and parse. (Crash points: every crash plan of C08/C10 checks with fsck that each reachable node points at a blob that loads; recovery to pre-commit handles is C09, a known finding.)',
         'Layer (a) of the plan only: no separate TLA+ model was built; brand-new registry entries are judged when they become reachable.', '6/C37', 'SCHED', True),
 'C01': ('fault_enumeration', 'exhaustive single-fault positions (every file operation, every L2 call) of a commit; all-or-nothing oracle in the same process and in a fresh process',
         CR+'for EVERY file operation index an EIO (once) and, for mutating operations, a persistent ENOSPC on that path, and for EVERY L2 cache call index a failure, are injected during the transaction under test; then the same program is retried fault-free. If Commit returned nil every change must be visible (same process and fresh cold process); if it returned an error none may be; after a failed attempt plus successful retry the cold view must be exactly the model-after for ALL stores.',
         'Single faults only; standalone mode (in-memory L2); a completed write is durable.', '6/C01', 'FAULTX', True),
 'C07': ('fault_enumeration', 'exhaustive single-fault positions of a commit + fault-free retry in the same process',
         CR+'same fault plans as C01; after a failed Commit a fresh transaction in the SAME process (leftover locks would matter, no clock advance) must read the model-before, and the same program run again without faults must commit and yield the model-after.',
         'Single faults (one-shot EIO, sticky ENOSPC on one path, one L2 call); signatures carry the fault site (operation:file class or L2 method:key class).', '6/C07', 'FAULTX', True),
 'C08': ('fault_enumeration', 'exhaustive crash points and torn writes of a commit; fresh-process recovery with ages advanced',
         CR+'the writer is killed on entry to the k-th mutating file operation for EVERY k (and after the last), and after torn prefixes of every file write, registry block write and log append; a fresh verifier process with the clock advanced 130 minutes then reads every store, commits a writer on the same keys and reads again: each store must be readable, all stores must show the model-before or all the model-after, Count must equal the items, and the follow-up writer must commit.',
         'Crash = process death before a file operation of the instrumented backend call sites (FileIO, DirectIO, transaction log, segment truncate); tmpfs, no page-cache loss after a completed write.', '6/C08', 'FAULTX', True),
 'C09': ('fault_enumeration', 'exhaustive crash points of a commit; recovery by later ordinary transactions after the documented ages',
         CR+'same crash and torn plans as C08; the verifier process runs with the clock advanced 130 minutes (past the 5-minute and 1-hour ages) and performs six ordinary transactions through the public path; afterwards fsck (independent parser) must find no transaction/priority log of the dead transaction, no blob that nothing references beyond the fault-free baseline, no handle with a deleted mark or work-in-progress timestamp, and a writer on the same keys must commit.',
         'Standalone mode only (no Redis lock resurrection path).', '6/C09', 'FAULTX', True),
 'C10': ('fault_enumeration', 'exhaustive crash, torn-write and fault plans of a commit; independent reachability walk of the disk',
         CR+'every crash, torn and fault plan of C08/C07 (incl. the fault-free retry); afterwards fsck walks every store from its root through the registry: every reachable node blob and every out-of-node item value must exist and parse, and a cold reader must not fail on a missing node or value.',
         'A damaged or missing store record (storeinfo.txt) is judged by C08/C12, not here.', '6/C10', 'FAULTX', True),
 'C11': ('fault_enumeration', 'exhaustive fault positions of a commit + retry (crash-free histories); orphan scan by an independent parser',
         CR+'the fault plans of C07 (failed attempt, rollback, fault-free retry, later writer) and the fault-free run itself; afterwards fsck must find no blob file and no registry entry that is unreachable from every root and no transaction or priority log; orphans that the fault-free run of the same shape already leaves are reported once (mode none) and not attributed to each fault plan.',
         'Crash-free histories only (crashes are C09).', '6/C11', 'FAULTX', True),
}
NA_REASON = 'check not built yet in this session; no claim is made (see DESIGN.md section 6 for the plan)'

checks = []
for pid in ids:
    if pid not in CHECKS: continue
    cat, tech, text, note, ref, engine, thorough = CHECKS[pid]
    c = {
        'property_id': pid,
        'quick_cmd': f'./check {pid} quick',
        'evidence_file': f'/verif/evidence/{pid}.json',
        'replay_cmd_template': f'./check {pid} quick --replay {{path}}',
        'engine': engine,
        'level_claimed': {'category': cat, 'text': text, 'design_ref': ref},
        'level_note': note,
        'technique': tech,
    }
    if thorough: c['thorough_cmd'] = f'./check {pid} thorough'
    checks.append(c)

NA = {}
if os.path.exists(os.path.join(ROOT, 'tools', 'not_applicable.json')):
    NA = json.load(open(os.path.join(ROOT, 'tools', 'not_applicable.json')))
manifest = {
    'version': 1,
    'setup_cmd': './setup.sh',
    'hooks': {
        'guard': 'verif',
        'enable': 'checks build /repo through /verif/go.work with go1.26.8; instrumentation (where a check needs it) is generated at check time as a -overlay from the current /repo files, nothing guarded is committed to /repo',
        'baseline_off_cmd': '/verif/tools/baseline.sh',
        'source_commits': [],
        'add_only': True,
    },
    'engines': [
        {'name': 'FAULTX', 'path': 'mc/cmd', 'serves_properties': [p for p in ids if p in CHECKS and CHECKS[p][5] == 'FAULTX'], 'kind_free_text': 'exhaustive fault / damage / crash-point enumeration against the real code with reference-model and on-disk oracles, cases isolated in child processes'},
        {'name': 'SCHED', 'path': 'mc/sched', 'serves_properties': [p for p in ids if p in CHECKS and CHECKS[p][5] == 'SCHED'], 'kind_free_text': 'cooperative scheduler over hooked L2/registry/file/sleep operations of the real code + deviation-bounded DFS (stateless model checking), sharded over worker processes'},
        {'name': 'SEQX', 'path': 'mc/cmd', 'serves_properties': [p for p in ids if p in CHECKS and CHECKS[p][5] == 'SEQX'], 'kind_free_text': 'bounded exhaustive operation-sequence / explicit-state search driving the real code, reference-model oracle'},
    ],
    'checks': checks,
    'not_applicable': [{'property_id': p, 'reason': NA.get(p, NA_REASON)} for p in ids if p not in CHECKS],
    'notes': 'All checks rebuild from /repo working tree via the go.work workspace. Exit 0 = held on everything explored; exit 1 + VIOLATION line = violation; exit 2 = harness/build failure (no verdict).',
}
json.dump(manifest, open(os.path.join(ROOT, 'MANIFEST.json'), 'w'), indent=1)
try:
    import jsonschema
    jsonschema.validate(manifest, json.load(open('/root/.vp/MANIFEST.schema.json')))
    print('MANIFEST.json valid;', len(checks), 'checks,', len(manifest['not_applicable']), 'not_applicable')
except ImportError:
    print('jsonschema not importable here; run with python3-vt')
