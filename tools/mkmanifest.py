#!/usr/bin/env python3
"""Generates /verif/MANIFEST.json from the table below and validates it against the schema."""
import json, os, sys
ROOT = os.path.dirname(os.path.dirname(os.path.abspath(__file__)))
props = [json.loads(l) for l in open(os.path.join(ROOT, 'properties.jsonl'))]
ids = [p['id'] for p in props]

# id -> (category, technique, text, note, design_ref, engine, has_thorough)
CHECKS = {
 'C17': ('model_checking', 'explicit-state BFS over the real btree.Btree vs sorted-multiset model',
         'Every reachable tree state of the real B-tree (small key domain, slot lengths 2-8, unique/duplicate, load balancing on/off) is enumerated breadth-first with state de-duplication; each transition runs on the implementation and is compared with an ordered multiset/map model (result, contents, Count, forward/backward scans, structural invariants, rejected order-changing key updates). Several configurations are closed to a fixpoint (all reachable states within the key domain), the others to a stated depth.',
         'Map-backed NodeRepository written in the harness; keys 0..n-1 with a comparer on one field; bounded duplicates per key; depth bounds reported per configuration.', '6/C17', 'SEQX', True),
 'C18': ('model_checking', 'explicit-state BFS over tree shapes x exhaustive probe keys',
         'In every distinct tree reached by the C17 exploration, every probe key (present, absent between keys, below/above range, with duplicates) is searched with Find(first), Find(any), FindWithID for each duplicate and FindInDescendingOrder; cursor placement and the ascending/descending scan from the cursor are compared with the model slice; inmemory range iteration is checked for every (from,to) pair over all subsets of 6 keys.',
         'Same harness as C17; "next to where the key would be" is read as in-order index insertion-1..insertion.', '6/C18', 'SEQX', True),
 'C24': ('exploration', 'exhaustive enumeration of handle field edge products + every slot of real registry blocks',
         'The full product of per-field edge values of sop.Handle (130 UUID values per id field incl. every single bit, 5 edge values for version and timestamp, both flags; decode into fresh and into dirty targets) is round-tripped through the repository codec and an independent 62-byte codec; all 66 slots of real registry blocks (hash mods 250/251/750000; first/middle/last blocks; Add/Update/UpdateNoLocks/Remove) are written through fs.NewRegistry and after each single-slot write the raw 4096-byte block and its neighbours are diffed: only one 62-aligned slot range and the CRC bytes may change, ranges are pairwise disjoint and below the CRC.',
         'Layout functions are unexported and are observed through real block writes (fs.DirectIOSim recording wrapper); three hash mod values.', '6/C24', 'SEQX', True),
 'C29': ('exploration', 'exhaustive pairs and triples over per-type edge domains',
         'For 35 key type families (all integer widths incl. all 256 int8/uint8 values, floats with NaN payloads/signed zeros/subnormals, strings, UUIDs, times in several zones, slices incl. prefixes, []any with equal-typed positions) every ordered pair and ordered triple of the edge domain is evaluated with btree.Compare and with CoerceComparer(x) for the domain values: reflexive, antisymmetric, transitive, equal to an independently written natural order, and Compare == coerced comparer.',
         'Edge-value domains per type (not all 2^64 values); -0/+0 may be equal or ordered as long as the order is consistent.', '6/C29', 'SEQX', True),
}
NA_REASON = 'check not built yet in this session; no claim is made (see DESIGN.md section 6 for the plan)'

checks = []
for pid in ids:
    if pid not in CHECKS: continue
    cat, tech, text, note, ref, engine, thorough = CHECKS[pid]
    c = {
        'property_id': pid,
        'quick_cmd': f'./check {pid} quick',
        'evidence_file': f'/verif/evidence/{pid}.json',
        'replay_cmd_template': f'./check {pid} quick --replay {{path}}',
        'engine': engine,
        'level_claimed': {'category': cat, 'text': text, 'design_ref': ref},
        'level_note': note,
        'technique': tech,
    }
    if thorough: c['thorough_cmd'] = f'./check {pid} thorough'
    checks.append(c)

NA = {}
if os.path.exists(os.path.join(ROOT, 'tools', 'not_applicable.json')):
    NA = json.load(open(os.path.join(ROOT, 'tools', 'not_applicable.json')))
manifest = {
    'version': 1,
    'setup_cmd': './setup.sh',
    'hooks': {
        'guard': 'verif',
        'enable': 'checks build /repo through /verif/go.work with go1.26.8; instrumentation (where a check needs it) is generated at check time as a -overlay from the current /repo files, nothing guarded is committed to /repo',
        'baseline_off_cmd': '/verif/tools/baseline.sh',
        'source_commits': [],
        'add_only': True,
    },
    'engines': [
        {'name': 'SEQX', 'path': 'mc/cmd', 'serves_properties': [p for p in ids if p in CHECKS and CHECKS[p][5] == 'SEQX'], 'kind_free_text': 'bounded exhaustive operation-sequence / explicit-state search driving the real code, reference-model oracle'},
    ],
    'checks': checks,
    'not_applicable': [{'property_id': p, 'reason': NA.get(p, NA_REASON)} for p in ids if p not in CHECKS],
    'notes': 'All checks rebuild from /repo working tree via the go.work workspace. Exit 0 = held on everything explored; exit 1 + VIOLATION line = violation; exit 2 = harness/build failure (no verdict).',
}
json.dump(manifest, open(os.path.join(ROOT, 'MANIFEST.json'), 'w'), indent=1)
try:
    import jsonschema
    jsonschema.validate(manifest, json.load(open('/root/.vp/MANIFEST.schema.json')))
    print('MANIFEST.json valid;', len(checks), 'checks,', len(manifest['not_applicable']), 'not_applicable')
except ImportError:
    print('jsonschema not importable here; run with python3-vt')
