#!/bin/bash
# tools/seedverify.sh <seed-id> <go package of the demo, e.g. ./common/> <-run regex> [<extra packages to test with the change>]
# Confirms in the seed's scratch worktree: builds; demo FAILS with the change and PASSES without it;
# the listed existing packages' tests give the same failing set with and without the change.
id=$1; pkg=$2; re=$3; shift 3
cd /tmp/seed/$id || exit 2
export GOFLAGS= GOPROXY=off
git diff > /tmp/seed/$id.patch
go build ./... || { echo "BUILD FAILS"; exit 1; }
go test -vet=off -count=1 -run "$re" $pkg > /tmp/seed/$id.with.log 2>&1; w=$?
git apply -R /tmp/seed/$id.patch
go test -vet=off -count=1 -run "$re" $pkg > /tmp/seed/$id.without.log 2>&1; wo=$?
git apply /tmp/seed/$id.patch
echo "demo with change: exit $w ; without change: exit $wo"
for p in "$@"; do
  # existing tests only: exclude the demo
  go test -vet=off -count=1 -skip "$re" $p 2>&1 | grep -E "^(--- FAIL|FAIL|ok)" | grep -v -i "seed" | sort > /tmp/seed/$id.t.with
  git apply -R /tmp/seed/$id.patch
  go test -vet=off -count=1 -skip "$re" $p 2>&1 | grep -E "^(--- FAIL|FAIL|ok)" | grep -v -i "seed" | sort > /tmp/seed/$id.t.without
  git apply /tmp/seed/$id.patch
  if diff <(sed -E 's/[(]?[0-9.]+s[)]?$//' /tmp/seed/$id.t.with) <(sed -E 's/[(]?[0-9.]+s[)]?$//' /tmp/seed/$id.t.without) > /dev/null; then echo "existing tests $p: same result with and without"; else echo "existing tests $p: DIFFER"; diff /tmp/seed/$id.t.with /tmp/seed/$id.t.without | head; fi
done
