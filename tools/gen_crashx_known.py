#!/usr/bin/env python3
"""One-off helper: turns the violation signatures of crashx runs on the UNCHANGED tree (logs given on the
command line as PROP=logfile) into known_findings.json entries (status open), one per signature, with the
mechanism text of its kind. Reviewed by hand before committing; never run by a check."""
import json, re, sys
NOREC = "crash recovery never runs: Transaction.Begin calls onIdle before any store can be opened and onIdle returns at once when no store is open (common/twophasecommittransaction.go Begin, twophasecommittransaction2.go onIdle), so priority logs and transaction logs of a dead transaction are never processed"
KIND = {
 ('C08','count-mismatch-after-crash'): "the writer dies after phase 1 wrote the new Count into storeinfo.txt (commitStores) and before the registry flip; after restart the store reports the new Count with the old items; "+NOREC,
 ('C08','mixed-state-after-crash'): "a commit that changes several nodes/stores dies between its phase-2 registry block writes, or after phase 1 registered the first root of an empty/new store and before the other store's flip: one store shows the transaction's change, the other does not; "+NOREC,
 ('C08','unreadable-after-crash'): "storeinfo.txt is rewritten in place (truncate + write, fs/storerepository.go Update via fileIO.write): a torn write leaves an empty or partial JSON file and the store cannot be opened any more",
 ('C08','not-writable-after-crash'): "after the crash a writer on the same keys cannot commit (leftover reservation / deleted mark on the handles); "+NOREC,
 ('C09','logs-left-after-recovery'): "translogs/<tid>.log and/or .plg of the dead transaction are still there after the clock moved 130 minutes and six new transactions ran; "+NOREC,
 ('C09','staged-blobs-left-after-recovery'): "node/value blobs the dead transaction staged are still on disk and referenced by nothing; "+NOREC,
 ('C09','handles-left-dirty-after-recovery'): "handles of the dead transaction's nodes keep a deleted mark or a work-in-progress timestamp; "+NOREC,
 ('C09','writer-blocked-after-recovery'): "a writer on the same keys fails after the ages have passed (torn storeinfo.txt makes the store unopenable; nothing repairs it); "+NOREC,
 ('C07','failed-commit-left-trace'): "a persistent failure (ENOSPC on every later operation on the same file) hits the registry block write / backup removal: the rollback's own registry write fails as well ('unable to undo updated nodes registration') and the store is left in a state a fresh transaction cannot read",
 ('C07','retry-blocked'): "the first attempt fails cleanly, but the fault-free retry of the same changes fails too: when commitUpdatedNodes fails after registry.UpdateNoLocks reserved the inactive ids (blob write / directory creation / log append failing), rollback() does not undo the reservation because the commitUpdatedNodes step was not logged yet, and the retry finds the inactive id taken until it expires (phase 1 retry limit of 30); for L2 faults in itemActionTracker.lock the lock records written before the failing verify fetch stay in the cache and the retry conflicts with them",
 ('C07','retry-wrong-state'): "after a failed first attempt (leaving reserved inactive ids, see retry-blocked) the fault-free retry's Add calls return true and its Commit returns nil, but neither a warm nor a cold reader sees the changes: the successful commit is lost",
 ('C07','commit-ok-but-changes-missing'): "Commit returned nil although a cache or file operation failed, and a later transaction does not see the changes",
 ('C01','failed-commit-left-trace'): "see C07 failed-commit-left-trace (persistent failure on the registry file: rollback fails too)",
 ('C01','cold-view-differs-after-retry'): "see C07 retry-wrong-state: after a failed attempt the retry's Commit returns nil but a fresh process reads the old contents (all-or-nothing broken: success reported, nothing visible)",
 ('C01','commit-ok-but-changes-missing'): "Commit returned nil but the changes are not visible to a later transaction",
 ('C11','logs-left'): "a failure while appending to / removing the transaction log or removing the priority log leaves translogs/<tid>.log or .plg behind after the transaction ended (nothing removes them later, see C09)",
 ('C11','orphan-blobs'): "after a failed commit and its retry, node or value blobs that nothing references remain (rollback does not remove blobs of steps that were not logged yet; cleanup deletions that fail are not retried)",
 ('C11','orphan-registry-entries'): "after a failed commit and its retry, registry entries of nodes that are not reachable from any root remain",
 ('C10','dangling-reference'): "a persistent failure on the registry file makes commit and rollback both fail; a reachable handle then points at a node blob that was removed",
 ('C10','unreadable-node-or-value'): "after a failed commit whose rollback failed too, a node or value blob that a reachable item needs is missing",
}
SPECIAL = {
 ('C11','orphan-blobs|none|fault-free'): "fault-free, crash-free history: values of stores that keep values outside the node are ALSO stored inline in the node (node slots hold item copies, the tracker nils the value only on its own copy), so loaded items have ValueNeedsFetch=false and a later Remove/Update never queues the separate value blob for deletion: remove(2) on a segment/active/global store leaves the value blob of key 2 forever; on actively persisted stores phase1Commit also resets forDeletionItems via getForRollbackTrackedItemsValues so obsolete blobs of updates leak",
}
out=[]
for arg in sys.argv[1:]:
    prop, path = arg.split('=')
    sigs=sorted(set(re.findall(r'^\s+sig=(.*)$', open(path).read(), re.M)))
    for s in sigs:
        kind=s.split('|')[0]
        what=SPECIAL.get((prop,s)) or KIND.get((prop,kind))
        if not what:
            print('NO TEXT FOR',prop,s, file=sys.stderr); continue
        mode,site=(s.split('|')+['',''])[1:3]
        out.append({"property":prop,"status":"open","match":s,"what":f"[{mode} at {site}] "+what})
json.dump(out, sys.stdout, indent=1)
