#!/usr/bin/env python3
"""Generates the instrumentation overlay from the CURRENT /repo files (nothing in /repo is edited).

usage: instr.py <outdir>   -> writes <outdir>/overlay.json and instrumented copies.
Essential entries fail loudly (exit 2) if their anchor line is missing; optional ones are skipped and listed
in <outdir>/missing.txt.
"""
import json, os, re, sys
REPO = os.environ.get('VERIF_REPO', '/repo')
out = sys.argv[1]
os.makedirs(out, exist_ok=True)
IMPORT = '\tvhook "verif.local/mc/vhook"\n'
replace = {}
missing = []

def _put(dst, content):
    # atomic, write-if-changed: several ./check processes may regenerate the overlay concurrently
    try:
        if open(dst).read() == content:
            return
    except OSError:
        pass
    tmp = dst + '.%d.tmp' % os.getpid()
    open(tmp, 'w').write(content)
    os.replace(tmp, dst)

def load(rel):
    return open(os.path.join(REPO, rel)).read()

def add_import(src, rel):
    if 'verif.local/mc/vhook' in src:
        return src
    m = re.search(r'^import \(\n', src, re.M)
    if m:
        return src[:m.end()] + IMPORT + src[m.end():]
    m = re.search(r'^import "([^"]+)"\n', src, re.M)
    if m:
        return src[:m.start()] + 'import (\n' + IMPORT + '\t"' + m.group(1) + '"\n)\n' + src[m.end():]
    m = re.search(r'^package \w+\n', src, re.M)
    return src[:m.end()] + '\nimport (\n' + IMPORT + ')\n' + src[m.end():]

def insert_after(src, rel, sig, stmt, essential):
    """insert stmt as first statement of the function whose signature line starts with sig"""
    idx = src.find('\n' + sig)
    if idx < 0:
        if essential:
            print(f'instr: ESSENTIAL anchor missing in {rel}: {sig}', file=sys.stderr); sys.exit(2)
        missing.append(f'{rel}: {sig}')
        return src
    eol = src.index('{\n', idx) + 2
    return src[:eol] + '\t' + stmt + '\n' + src[eol:]

def emit(rel, src):
    dst = os.path.join(out, rel.replace('/', '__'))
    _put(dst, src)
    replace[os.path.join(REPO, rel)] = dst

def addfile(rel, src):
    dst = os.path.join(out, rel.replace('/', '__'))
    _put(dst, src)
    replace[os.path.join(REPO, rel)] = dst

# 1. sop.Sleep -> virtual sleep
s = load('sleep.go')
s = insert_after(s, 'sleep.go', 'func Sleep(ctx context.Context, sleepTime time.Duration) {', 'if sleepTime > 0 && vhook.Sleep(ctx, sleepTime) {\n\t\treturn\n\t}', True)
emit('sleep.go', add_import(s, 'sleep.go'))

# 2. TaskRunner.Go -> optionally inline
s = load('taskrunner.go')
s = insert_after(s, 'taskrunner.go', 'func (tr *TaskRunner) Go(task func() error) {', 'if vhook.InlineTasks() {\n\t\tverifErr := task()\n\t\ttask = func() error { return verifErr }\n\t} else if verifH := vhook.TaskSpawn(tr.verifLimit); verifH != nil {\n\t\tverifTask := task\n\t\ttask = func() error {\n\t\t\tverifH.Start()\n\t\t\tdefer verifH.End()\n\t\t\treturn verifTask()\n\t\t}\n\t}', True)
s = insert_after(s, 'taskrunner.go', 'func (tr *TaskRunner) Wait() error {', 'vhook.TaskJoin()', True)
if 'type TaskRunner struct {\n' not in s or '\treturn &TaskRunner{\n' not in s:
    print('instr: ESSENTIAL anchor missing in taskrunner.go: TaskRunner struct / constructor literal', file=sys.stderr); sys.exit(2)
s = s.replace('type TaskRunner struct {\n', 'type TaskRunner struct {\n\tverifLimit int\n', 1)
s = s.replace('\treturn &TaskRunner{\n', '\treturn &TaskRunner{\n\t\tverifLimit: maxThreadCount,\n', 1)
emit('taskrunner.go', add_import(s, 'taskrunner.go'))

# 2a. sop.Retry backs off in REAL time inside go-retry (1s,1s,2s,3s,5s): route the waits through sop.Sleep so that
# they are virtual sleeps (and scheduling points) under a scheduler, and unchanged real sleeps otherwise
s = load('retry.go')
anchor = '\tb := retry.NewFibonacci(RetryStartDuration)\n'
if anchor not in s:
    print('instr: ESSENTIAL anchor missing in retry.go: retry.NewFibonacci(RetryStartDuration)', file=sys.stderr); sys.exit(2)
s = s.replace(anchor, anchor + '\tverifInner := b\n\tb = retry.BackoffFunc(func() (time.Duration, bool) {\n\t\td, stop := verifInner.Next()\n\t\tif !stop {\n\t\t\tSleep(ctx, d)\n\t\t}\n\t\treturn 0, stop\n\t})\n', 1)
emit('retry.go', s)

# 2b. the replication tracker holds a real RWMutex across L2 cache calls: mark those regions so that a cooperative
# scheduler does not park a thread that holds it (any other thread needing the mutex would block for real)
for rel in ['fs/replicationtracker.go', 'fs/replicationtracker.reinstatefaileddrives.go']:
    s = load(rel)
    n0 = len(re.findall(r'globalReplicationDetailsLocker\.R?(?:Lock|Unlock)\(\)', s))
    s = re.sub(r'^(\t+)defer globalReplicationDetailsLocker\.(R?)Unlock\(\)\n', r'\1defer func() { vhook.Hold(-1); globalReplicationDetailsLocker.\2Unlock() }()\n', s, flags=re.M)
    s = re.sub(r'^(\t+)globalReplicationDetailsLocker\.(R?)Lock\(\)\n', r'\1globalReplicationDetailsLocker.\2Lock()\n\1vhook.Hold(1)\n', s, flags=re.M)
    s = re.sub(r'^(\t+)globalReplicationDetailsLocker\.(R?)Unlock\(\)\n', r'\1vhook.Hold(-1)\n\1globalReplicationDetailsLocker.\2Unlock()\n', s, flags=re.M)
    n1 = s.count('vhook.Hold(')
    if n0 != n1:
        print(f'instr: {rel}: {n0} lock operations but {n1} Hold marks', file=sys.stderr); sys.exit(2)
    if n0:
        emit(rel, add_import(s, rel))

# 2c. L1 cache: a scheduling point right after every (non-deferred) release of its mutexes, class "l1" (enabled by
# the race explorer only): lets another thread's critical section be placed between a release and whatever the
# releasing thread does next without holding the lock
for rel in ['cache/l1cache.go', 'cache/synchronizedcache.go']:
    s = load(rel)
    s, n = re.subn(r'^(\t+)((?:\w+\.)+[lL]ocker\.R?Unlock\(\))\n', r'\1\2\n\1vhook.Point("l1", "after-unlock")\n', s, flags=re.M)
    if n == 0:
        missing.append(f'{rel}: non-deferred locker.Unlock()')
        continue
    emit(rel, add_import(s, rel))

# 3. virtual clock in the in-memory L2 cache
for rel in ['cache/l2inmemorycache.go', 'cache/l2inmemorycache.sharded_map.go']:
    s = load(rel)
    if 'time.Now()' not in s:
        missing.append(f'{rel}: time.Now()')
        continue
    s = s.replace('time.Now()', 'vhook.Now()')
    # keep the time import used
    if not re.search(r'\btime\.', s.replace('vhook.Now()', '')):
        s = s.replace('\t"time"\n', '')
    emit(rel, add_import(s, rel))

# 4. scheduling points + fault/crash sites at file operations
def insert_before(src, rel, needle, stmt, essential, nth=1):
    idx = -1
    for _ in range(nth):
        idx = src.find(needle, idx + 1)
        if idx < 0:
            break
    if idx < 0:
        if essential:
            print(f'instr: ESSENTIAL anchor missing in {rel}: {needle}', file=sys.stderr); sys.exit(2)
        missing.append(f'{rel}: {needle}')
        return src
    bol = src.rfind('\n', 0, idx) + 1
    indent = re.match(r'\s*', src[bol:]).group(0)
    return src[:bol] + indent + stmt.replace('\n', '\n' + indent) + '\n' + src[bol:]

s = load('fs/fileio.go')
for name, arg, data, ret in [('WriteFile', 'name', 'data', 'return err'), ('ReadFile', 'name', 'nil', 'return nil, err'), ('Remove', 'name', 'nil', 'return err'),
                             ('Stat', 'path', 'nil', 'return nil, err'), ('MkdirAll', 'path', 'nil', 'return err'), ('RemoveAll', 'path', 'nil', 'return err'),
                             ('ReadDir', 'sourceDir', 'nil', 'return nil, err')]:
    sig = f'func (dio defaultFileIO) {name}(ctx context.Context, '
    s = insert_after(s, 'fs/fileio.go', sig, f'if err := vhook.IO("{name}", {arg}, {data}, 0); err != nil {{\n\t\t{ret}\n\t}}', True)
s = insert_after(s, 'fs/fileio.go', 'func (dio defaultFileIO) Exists(ctx context.Context, ', 'vhook.Point("file", "Exists "+path)', False)
emit('fs/fileio.go', add_import(s, 'fs/fileio.go'))

s = load('fs/hashmap.go')
s = insert_before(s, 'fs/hashmap.go', 'if err := dio.file.Truncate(hm.getSegmentFileSize()); err != nil {',
                  'if err := vhook.IO("truncate", filename, nil, hm.getSegmentFileSize()); err != nil {\n\thm.cache.Unlock(ctx, lk)\n\treturn result, err\n}', True)
emit('fs/hashmap.go', add_import(s, 'fs/hashmap.go'))

s = load('fs/transactionlog.go')
s = insert_before(s, 'fs/transactionlog.go', 'f, err := os.Create(filename)', 'if err := vhook.IO("create", filename, nil, 0); err != nil {\n\treturn err\n}', True)
s = insert_before(s, 'fs/transactionlog.go', 'if err := tl.encoder.Encode(sop.KeyValuePair[int, []byte]{', 'if err := vhook.IO("append", tl.format(tl.tid), payload, int64(commitFunction)); err != nil {\n\treturn err\n}', True)
s = insert_before(s, 'fs/transactionlog.go', 'return os.Remove(tl.format(tid))', 'if err := vhook.IO("remove", tl.format(tid), nil, 0); err != nil {\n\treturn err\n}', True)
emit('fs/transactionlog.go', add_import(s, 'fs/transactionlog.go'))

# 5. scheduling points at the sharded map primitives (class "map": only enabled by C28)
rel = 'cache/l2inmemorycache.sharded_map.go'
s = open(replace[os.path.join(REPO, rel)]).read() if os.path.join(REPO, rel) in replace else load(rel)
for m in re.finditer(r'^func \(sm \*shardedMap\) (\w+)\(', s, re.M):
    pass
names = re.findall(r'^func \(\w+ \*shardedMap\) (\w+)\(', s, re.M)
for n in names:
    if n == 'getShard':
        continue
    mm = re.search(r'^func \((\w+) \*shardedMap\) ' + n + r'\(', s, re.M)
    sig = s[mm.start():s.index('\n', mm.start())]
    sig = sig[:sig.index('(', sig.index(n))+1]
    s = insert_after(s, rel, sig, f'vhook.Point("map", "{n}")', False)
emit(rel, add_import(s, rel))

# 6. export shims
addfile('cache/zz_verif_export.go', '''package cache

import "github.com/sharedcode/sop"

// VerifResetGlobals drops the process-global L1 caches (harness use only; overlay-injected).
func VerifResetGlobals() {
	globalL1Locker.Lock()
	globalL1CacheRegistry = make(map[sop.L2CacheType]*L1Cache)
	globalL1Locker.Unlock()
}

// VerifEvictL1 empties every global L1 cache in place (what an eviction of all entries does).
func VerifEvictL1() {
	globalL1Locker.RLock()
	defer globalL1Locker.RUnlock()
	for _, c := range globalL1CacheRegistry {
		c.locker.Lock()
		c.lookup = make(map[sop.UUID]*l1CacheEntry, c.mru.maxCapacity)
		c.mru = newL1Mru(c, c.mru.minCapacity, c.mru.maxCapacity)
		c.locker.Unlock()
		c.Handles.Clear()
	}
}
''')
addfile('adapters/redis/zz_verif_export.go', '''package redis

import goredis "github.com/redis/go-redis/v9"

// VerifGoRedisClient exposes the go-redis client of a cache created by NewConnectionClient (harness use
// only; overlay-injected) so that a hook can turn every command into a scheduling point.
func VerifGoRedisClient(c any) *goredis.Client {
	if cl, ok := c.(*client); ok && cl.conn != nil {
		return cl.conn.Client
	}
	return nil
}
''')
addfile('common/zz_verif_export.go', '''package common

// VerifResetOnIdle resets the process-global maintenance timers (harness use only; overlay-injected).
func VerifResetOnIdle() {
	locker.Lock()
	lastOnIdleRunTime = 0
	locker.Unlock()
	priorityLocker.Lock()
	lastPriorityOnIdleTime = 0
	priorityLogFound = false
	priorityLocker.Unlock()
	onStartUpFlag = true
}
''')
# 7. deterministic Go map iteration / hashing (go1.26.8 runtime; only fixes iteration order)
GOROOT = '/opt/veriftools/go1.26.8'
r = open(GOROOT + '/src/runtime/rand.go').read()
a = 'func maps_rand() uint64 {\n\treturn rand()\n}'
if a not in r:
    print('instr: ESSENTIAL anchor missing in runtime/rand.go', file=sys.stderr); sys.exit(2)
dst = os.path.join(out, 'runtime__rand.go'); _put(dst, r.replace(a, 'func maps_rand() uint64 {\n\treturn 0\n}'))
replace[GOROOT + '/src/runtime/rand.go'] = dst
r = open(GOROOT + '/src/runtime/alg.go').read()
if r.count('bootstrapRand()') != 2:
    print('instr: ESSENTIAL anchor missing in runtime/alg.go', file=sys.stderr); sys.exit(2)
r = r.replace('hashkey[i] = uintptr(bootstrapRand())', 'hashkey[i] = uintptr(0x9E3779B97F4A7C15 * uint64(i+1))')
r = r.replace('key[i] = bootstrapRand()', 'key[i] = 0x9E3779B97F4A7C15 * uint64(i+1)')
dst = os.path.join(out, 'runtime__alg.go'); _put(dst, r)
replace[GOROOT + '/src/runtime/alg.go'] = dst

_put(os.path.join(out, 'overlay.json'), json.dumps({'Replace': replace}, indent=1))
_put(os.path.join(out, 'missing.txt'), '\n'.join(missing))
print(f'instr: {len(replace)} files in overlay, {len(missing)} optional anchors missing')
