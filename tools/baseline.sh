#!/bin/bash
# Runs the repository's baseline suite (BASELINE.json cmd, guard OFF) and compares against stable_pass.
# usage: tools/baseline.sh [repo_dir]   (default /repo)
REPO=${1:-/repo}
OUT=$(mktemp -d /tmp/baseline.XXXXXX)
export GOFLAGS= GOPROXY=off
for m in $(cat /w/out/gomods.txt); do
  MF=$(cd $REPO/$m && . /w/out/goenv.sh && gomodflag)
  (cd $REPO/$m && go test $MF -json -vet=off -count=1 -timeout 25m ./... ) >> $OUT/gotest.json 2>>$OUT/stderr.txt
done
python3 - "$OUT/gotest.json" <<'PY'
import json,sys
passed=set(); failed=set()
for l in open(sys.argv[1]):
    try: e=json.loads(l)
    except Exception: continue
    if e.get('Test') and e.get('Action') in('pass','fail'):
        k=e['Package']+'::'+e['Test']
        (passed if e['Action']=='pass' else failed).add(k)
base=set(json.load(open('/root/.vp/BASELINE.json'))['stable_pass'])
missing=sorted(base-passed)
print(f"baseline stable_pass={len(base)} passed_now={len(passed)} failed_now={len(failed)} baseline_tests_not_passing={len(missing)}")
for m in missing[:40]: print("  NOT PASSING:",m)
sys.exit(1 if missing else 0)
PY
rc=$?
rm -rf $OUT
exit $rc
