#!/bin/bash
# tools/seedtest.sh <seed-id> <Cxx> [<Cyy> ...]: applies /verif/seeded/<id>/patch.diff to /repo, runs the
# given checks (quick) with evidence/replays redirected to /tmp/seedrun/<id>, and always reverts /repo.
id=$1; shift
cd /verif
mkdir -p bin; exec 8>bin/.repo.lock; flock -x 8   # no other ./check may be in its build phase while /repo is patched
export VERIF_LOCK_HELD=1
if ! git -C /repo diff --quiet; then echo "/repo has uncommitted changes; refusing" >&2; exit 2; fi
git -C /repo apply /verif/seeded/$id/patch.diff || { echo "patch does not apply" >&2; exit 2; }
mkdir -p /tmp/seedrun/$id
cp known_findings.json /tmp/seedrun/$id/
for p in "$@"; do
  VERIF_ROOT=/tmp/seedrun/$id ./check $p ${TIER:-quick} > /tmp/seedrun/$id/$p.log 2>&1
  rc=$?
  echo "seed $id check $p: exit $rc; $(grep -c '^VIOLATION' /tmp/seedrun/$id/$p.log) new violation lines"
  grep -A1 '^VIOLATION' /tmp/seedrun/$id/$p.log | grep 'sig=' | head -8
done
git -C /repo checkout -- .
git -C /repo status --short | head -3
